(* Lemmas about the abstract association list keyed up to `eqb` (model/DecorSpec.v):
   behaviour on concatenations, invariance under permutation for lists with pairwise
   non-equal keys, sizes.  Generic in eqb (an equivalence): reused by the hash backing
   (C03) and available to the tree backing (C01). *)
From Ekit Require Import Common DecorSpec.

(* a step-wise simulation extends to every history *)
Lemma run_sim : forall {S1 S2 O R1 R2 : Type} (step1 : S1 -> O -> S1 * R1) (step2 : S2 -> O -> S2 * R2)
    (R : S1 -> S2 -> Prop) (Q : R1 -> R2 -> Prop),
  (forall s a o, R s a -> R (fst (step1 s o)) (fst (step2 a o)) /\ Q (snd (step1 s o)) (snd (step2 a o))) ->
  forall s a, R s a -> forall ops,
  R (fst (run step1 s ops)) (fst (run step2 a ops)) /\ Forall2 Q (snd (run step1 s ops)) (snd (run step2 a ops)).
Proof.
  intros S1 S2 O R1 R2 step1 step2 R Q Hstep s a H ops. revert s a H.
  induction ops as [|o t IH]; intros s a H.
  - cbn [run fst snd]. split; [exact H|constructor].
  - cbn [run]. destruct (Hstep s a o H) as [H1 H2].
    destruct (step1 s o) as [s1 r1]. destruct (step2 a o) as [a1 r2]. cbn [fst snd] in H1, H2.
    destruct (IH s1 a1 H1) as [H3 H4].
    destruct (run step1 s1 t) as [s2 rs1]. destruct (run step2 a1 t) as [a2 rs2]. cbn [fst snd] in *.
    split; [exact H3|constructor; assumption].
Qed.

Section AssocLemmas.
  Variable V : Type.
  Variable eqb : Z -> Z -> bool.
  Hypothesis eqb_laws : eqb_equivalence eqb.

  Lemma eqb_refl : forall a, eqb a a = true.
  Proof. destruct eqb_laws as [Hr [Hs Ht]]. exact Hr. Qed.
  Lemma eqb_sym : forall a b, eqb a b = true -> eqb b a = true.
  Proof. destruct eqb_laws as [Hr [Hs Ht]]. exact Hs. Qed.
  Lemma eqb_trans : forall a b c, eqb a b = true -> eqb b c = true -> eqb a c = true.
  Proof. destruct eqb_laws as [Hr [Hs Ht]]. exact Ht. Qed.
  Lemma eqb_sym_false : forall a b, eqb a b = false -> eqb b a = false.
  Proof.
    intros a b H. destruct (eqb b a) eqn:E; [|reflexivity].
    apply eqb_sym in E. congruence.
  Qed.
  Lemma eqb_common : forall a b k, eqb a k = true -> eqb b k = true -> eqb a b = true.
  Proof. intros a b k Ha Hb. eapply eqb_trans; [exact Ha|]. apply eqb_sym. exact Hb. Qed.
  (* equal keys are interchangeable as probes *)
  Lemma eqb_probe : forall a k k', eqb k k' = true -> eqb a k = eqb a k'.
  Proof.
    intros a k k' H. destruct (eqb a k) eqn:E1; destruct (eqb a k') eqn:E2; try reflexivity.
    - rewrite (eqb_trans _ _ _ E1 H) in E2. discriminate.
    - apply eqb_sym in H. rewrite (eqb_trans _ _ _ E2 H) in E1. discriminate.
  Qed.

  Notation amap := (list (Z * V)).
  Definition foreign (k : Z) (l : amap) : Prop := Forall (fun e => eqb (fst e) k = false) l.

  Lemma foreign_app : forall k l1 l2, foreign k (l1 ++ l2) <-> foreign k l1 /\ foreign k l2.
  Proof. intros. apply Forall_app. Qed.

  Lemma aget_foreign : forall k l, foreign k l -> aget eqb k l = None.
  Proof.
    intros k l H. induction H as [|[k' v'] t Hx Ht IH]; [reflexivity|].
    cbn [aget]. cbn [fst] in Hx. rewrite Hx. exact IH.
  Qed.
  Lemma aget_none_foreign : forall k l, aget eqb k l = None -> foreign k l.
  Proof.
    intros k l. induction l as [|[k' v'] t IH]; intro H; [constructor|].
    cbn [aget] in H. destruct (eqb k' k) eqn:E; [discriminate|].
    constructor; [exact E|exact (IH H)].
  Qed.
  Lemma aput_foreign : forall k (v : V) l, foreign k l -> aput eqb k v l = l ++ [(k, v)].
  Proof.
    intros k v l H. induction H as [|[k' v'] t Hx Ht IH]; [reflexivity|].
    cbn [aput]. cbn [fst] in Hx. rewrite Hx, IH. reflexivity.
  Qed.
  Lemma adel_foreign : forall k l, foreign k l -> adel eqb k l = l.
  Proof.
    intros k l H. induction H as [|[k' v'] t Hx Ht IH]; [reflexivity|].
    cbn [adel]. cbn [fst] in Hx. rewrite Hx, IH. reflexivity.
  Qed.

  Lemma aget_app : forall k (l1 l2 : amap),
    aget eqb k (l1 ++ l2) = match aget eqb k l1 with Some v => Some v | None => aget eqb k l2 end.
  Proof.
    intros k l1 l2. induction l1 as [|[k' v'] t IH]; [reflexivity|].
    cbn [app aget]. destruct (eqb k' k); [reflexivity|exact IH].
  Qed.
  Lemma aput_app_l : forall k (v x : V) (l1 l2 : amap),
    aget eqb k l1 = Some x -> aput eqb k v (l1 ++ l2) = aput eqb k v l1 ++ l2.
  Proof.
    intros k v x l1 l2. induction l1 as [|[k' v'] t IH]; intro H; [discriminate|].
    cbn [app aget aput] in *. destruct (eqb k' k); [reflexivity|].
    rewrite (IH H). reflexivity.
  Qed.
  Lemma aput_app_r : forall k (v : V) (l1 l2 : amap),
    foreign k l1 -> aput eqb k v (l1 ++ l2) = l1 ++ aput eqb k v l2.
  Proof.
    intros k v l1 l2 H. induction H as [|[k' v'] t Hx Ht IH]; [reflexivity|].
    cbn [app aput]. cbn [fst] in Hx. rewrite Hx, IH. reflexivity.
  Qed.
  Lemma adel_app_l : forall k (x : V) (l1 l2 : amap),
    aget eqb k l1 = Some x -> adel eqb k (l1 ++ l2) = adel eqb k l1 ++ l2.
  Proof.
    intros k x l1 l2. induction l1 as [|[k' v'] t IH]; intro H; [discriminate|].
    cbn [app aget adel] in *. destruct (eqb k' k); [reflexivity|].
    rewrite (IH H). reflexivity.
  Qed.
  Lemma adel_app_r : forall k (l1 l2 : amap),
    foreign k l1 -> adel eqb k (l1 ++ l2) = l1 ++ adel eqb k l2.
  Proof.
    intros k l1 l2 H. induction H as [|[k' v'] t Hx Ht IH]; [reflexivity|].
    cbn [app adel]. cbn [fst] in Hx. rewrite Hx, IH. reflexivity.
  Qed.

  (* ---- distinct ---- *)
  Lemma distinct_cons : forall (e : Z * V) (t : amap),
    distinct eqb (e :: t) <-> Forall (fun e' => eqb (fst e) (fst e') = false) t /\ distinct eqb t.
  Proof. intros [k v] t. cbn [distinct fst]. tauto. Qed.

  Lemma distinct_app : forall l1 l2 : amap,
    distinct eqb (l1 ++ l2) <->
    distinct eqb l1 /\ distinct eqb l2 /\
    Forall (fun e => Forall (fun e' => eqb (fst e) (fst e') = false) l2) l1.
  Proof.
    intros l1 l2. induction l1 as [|e t IH].
    - cbn [app]. split; [intro H; split; [exact I|split; [exact H|constructor]]|intros [_ [H _]]; exact H].
    - cbn [app]. rewrite !distinct_cons, IH, Forall_app. split.
      + intros [[Ha Hb] [Hc [Hd He]]]. repeat split; try assumption. constructor; assumption.
      + intros [[Ha Hc] [Hd He]]. inversion He as [|? ? Hb He']; subst. repeat split; assumption.
  Qed.

  Lemma distinct_perm : forall l1 l2 : amap, Permutation l1 l2 -> distinct eqb l1 -> distinct eqb l2.
  Proof.
    intros l1 l2 HP. induction HP as [|x l l' HP IH|x y l|l l' l'' HP1 IH1 HP2 IH2]; intro HD.
    - exact HD.
    - rewrite distinct_cons in *. destruct HD as [Hx Hl]. split; [|exact (IH Hl)].
      eapply Permutation_Forall; eassumption.
    - rewrite !distinct_cons in *. destruct HD as [Hy [Hx Hl]].
      inversion Hy as [|? ? Hyx Hyl]; subst. split; [|split; assumption].
      constructor; [apply eqb_sym_false; exact Hyx|exact Hx].
    - exact (IH2 (IH1 HD)).
  Qed.

  Lemma aget_perm : forall k (l1 l2 : amap),
    Permutation l1 l2 -> distinct eqb l1 -> aget eqb k l1 = aget eqb k l2.
  Proof.
    intros k l1 l2 HP. induction HP as [|[kx vx] l l' HP IH|[kx vx] [ky vy] l|l l' l'' HP1 IH1 HP2 IH2]; intro HD.
    - reflexivity.
    - cbn [aget]. rewrite distinct_cons in HD. destruct HD as [_ Hl]. rewrite (IH Hl). reflexivity.
    - cbn [aget]. rewrite !distinct_cons in HD. destruct HD as [Hy _].
      inversion Hy as [|? ? Hyx _]; subst. cbn [fst] in Hyx.
      destruct (eqb ky k) eqn:E1; destruct (eqb kx k) eqn:E2; try reflexivity.
      rewrite (eqb_common _ _ _ E1 E2) in Hyx. discriminate.
    - rewrite (IH1 HD). apply IH2. eapply distinct_perm; eassumption.
  Qed.

  Lemma aput_perm : forall k (v : V) (l1 l2 : amap),
    Permutation l1 l2 -> distinct eqb l1 -> Permutation (aput eqb k v l1) (aput eqb k v l2).
  Proof.
    intros k v l1 l2 HP. induction HP as [|[kx vx] l l' HP IH|[kx vx] [ky vy] l|l l' l'' HP1 IH1 HP2 IH2]; intro HD.
    - apply Permutation_refl.
    - cbn [aput]. rewrite distinct_cons in HD. destruct HD as [_ Hl].
      destruct (eqb kx k); [apply perm_skip; exact HP|apply perm_skip; exact (IH Hl)].
    - cbn [aput]. rewrite !distinct_cons in HD. destruct HD as [Hy _].
      inversion Hy as [|? ? Hyx _]; subst. cbn [fst] in Hyx.
      destruct (eqb ky k) eqn:E1; destruct (eqb kx k) eqn:E2.
      + rewrite (eqb_common _ _ _ E1 E2) in Hyx. discriminate.
      + apply perm_swap.
      + apply perm_swap.
      + apply perm_swap.
    - eapply Permutation_trans; [exact (IH1 HD)|]. apply IH2. eapply distinct_perm; eassumption.
  Qed.

  Lemma adel_perm : forall k (l1 l2 : amap),
    Permutation l1 l2 -> distinct eqb l1 -> Permutation (adel eqb k l1) (adel eqb k l2).
  Proof.
    intros k l1 l2 HP. induction HP as [|[kx vx] l l' HP IH|[kx vx] [ky vy] l|l l' l'' HP1 IH1 HP2 IH2]; intro HD.
    - apply Permutation_refl.
    - cbn [adel]. rewrite distinct_cons in HD. destruct HD as [_ Hl].
      destruct (eqb kx k); [exact HP|apply perm_skip; exact (IH Hl)].
    - cbn [adel]. rewrite !distinct_cons in HD. destruct HD as [Hy _].
      inversion Hy as [|? ? Hyx _]; subst. cbn [fst] in Hyx.
      destruct (eqb ky k) eqn:E1; destruct (eqb kx k) eqn:E2.
      + rewrite (eqb_common _ _ _ E1 E2) in Hyx. discriminate.
      + apply Permutation_refl.
      + apply Permutation_refl.
      + apply perm_swap.
    - eapply Permutation_trans; [exact (IH1 HD)|]. apply IH2. eapply distinct_perm; eassumption.
  Qed.

  (* keys of aput / adel *)
  Lemma aput_keys_in : forall k (v : V) (l : amap) e, In e (aput eqb k v l) ->
    (exists e', In e' l /\ fst e' = fst e) \/ (e = (k, v) /\ foreign k l).
  Proof.
    intros k v l. induction l as [|[k' v'] t IH]; intros e H.
    - cbn [aput] in H. destruct H as [H|[]]. right. split; [symmetry; exact H|constructor].
    - cbn [aput] in H. destruct (eqb k' k) eqn:E.
      + destruct H as [H|H].
        * left. exists (k', v'). split; [left; reflexivity|subst e; reflexivity].
        * left. exists e. split; [right; exact H|reflexivity].
      + destruct H as [H|H].
        * left. exists (k', v'). split; [left; reflexivity|subst e; reflexivity].
        * destruct (IH e H) as [[e' [Hin Hf]]|[He Hfo]].
          -- left. exists e'. split; [right; exact Hin|exact Hf].
          -- right. split; [exact He|]. constructor; [exact E|exact Hfo].
  Qed.

  Lemma distinct_aput : forall k (v : V) (l : amap), distinct eqb l -> distinct eqb (aput eqb k v l).
  Proof.
    intros k v l. induction l as [|[k' v'] t IH]; intro HD.
    - cbn [aput distinct]. split; [constructor|exact I].
    - cbn [aput]. destruct (eqb k' k) eqn:E.
      + exact HD.
      + rewrite distinct_cons in *. destruct HD as [Hx Ht]. split; [|exact (IH Ht)].
        apply Forall_forall. intros e He. cbn [fst].
        destruct (aput_keys_in _ _ _ _ He) as [[e' [Hin Hf]]|[Heq _]].
        * rewrite <- Hf. rewrite Forall_forall in Hx. exact (Hx e' Hin).
        * subst e. cbn [fst]. exact E.
  Qed.

  Lemma adel_incl : forall k (l : amap) e, In e (adel eqb k l) -> In e l.
  Proof.
    intros k l. induction l as [|[k' v'] t IH]; intros e H; [exact H|].
    cbn [adel] in H. destruct (eqb k' k).
    - right. exact H.
    - destruct H as [H|H]; [left; exact H|right; exact (IH e H)].
  Qed.

  Lemma distinct_adel : forall k (l : amap), distinct eqb l -> distinct eqb (adel eqb k l).
  Proof.
    intros k l. induction l as [|[k' v'] t IH]; intro HD; [exact HD|].
    cbn [adel]. rewrite distinct_cons in HD. destruct HD as [Hx Ht].
    destruct (eqb k' k); [exact Ht|].
    rewrite distinct_cons. split; [|exact (IH Ht)].
    apply Forall_forall. intros e He. rewrite Forall_forall in Hx. apply Hx. eapply adel_incl; exact He.
  Qed.

  (* after a delete the class is gone (needs distinct) *)
  Lemma adel_foreign_after : forall k (l : amap), distinct eqb l -> foreign k (adel eqb k l).
  Proof.
    intros k l. induction l as [|[k' v'] t IH]; intro HD; [constructor|].
    cbn [adel]. rewrite distinct_cons in HD. destruct HD as [Hx Ht].
    destruct (eqb k' k) eqn:E.
    - apply Forall_forall. intros e He. rewrite Forall_forall in Hx. specialize (Hx e He). cbn [fst] in Hx.
      destruct (eqb (fst e) k) eqn:E2; [|reflexivity].
      rewrite (eqb_common _ _ _ E E2) in Hx. discriminate.
    - constructor; [exact E|exact (IH Ht)].
  Qed.

  (* ---- sizes ---- *)
  Lemma length_aput : forall k (v : V) (l : amap),
    length (aput eqb k v l) = match aget eqb k l with Some _ => length l | None => S (length l) end.
  Proof.
    intros k v l. induction l as [|[k' v'] t IH]; [reflexivity|].
    cbn [aput aget]. destruct (eqb k' k); [reflexivity|].
    cbn [length]. rewrite IH. destruct (aget eqb k t); reflexivity.
  Qed.
  Lemma length_adel : forall k (l : amap),
    length (adel eqb k l) = match aget eqb k l with Some _ => pred (length l) | None => length l end.
  Proof.
    intros k l. induction l as [|[k' v'] t IH]; [reflexivity|].
    cbn [adel aget]. destruct (eqb k' k); [reflexivity|].
    cbn [length]. rewrite IH. destruct (aget eqb k t) eqn:E; [|reflexivity].
    destruct t; [discriminate|reflexivity].
  Qed.

  (* ---- the other keys are not disturbed ---- *)
  Lemma aget_aput_other : forall k (v : V) k' (l : amap), eqb k k' = false -> aget eqb k' (aput eqb k v l) = aget eqb k' l.
  Proof.
    intros k v k' l Hne. induction l as [|[k0 v0] t IH].
    - cbn [aput aget]. rewrite Hne. reflexivity.
    - cbn [aput aget]. destruct (eqb k0 k) eqn:E.
      + cbn [aget]. destruct (eqb k0 k') eqn:E2; [|reflexivity].
        apply eqb_sym in E. rewrite (eqb_trans _ _ _ E E2) in Hne. discriminate.
      + cbn [aget]. rewrite IH. reflexivity.
  Qed.
  Lemma aget_aput_same : forall k (v : V) (l : amap), aget eqb k (aput eqb k v l) = Some v.
  Proof.
    intros k v l. induction l as [|[k0 v0] t IH].
    - cbn [aput aget]. rewrite eqb_refl. reflexivity.
    - cbn [aput]. destruct (eqb k0 k) eqn:E; cbn [aget]; rewrite E; [reflexivity|exact IH].
  Qed.
  Lemma aget_adel_other : forall k k' (l : amap), eqb k k' = false -> aget eqb k' (adel eqb k l) = aget eqb k' l.
  Proof.
    intros k k' l Hne. induction l as [|[k0 v0] t IH]; [reflexivity|].
    cbn [adel aget]. destruct (eqb k0 k) eqn:E.
    - destruct (eqb k0 k') eqn:E2; [|reflexivity].
      apply eqb_sym in E. rewrite (eqb_trans _ _ _ E E2) in Hne. discriminate.
    - cbn [aget]. rewrite IH. reflexivity.
  Qed.
  Lemma aget_adel_same : forall k (l : amap), distinct eqb l -> aget eqb k (adel eqb k l) = None.
  Proof. intros k l HD. apply aget_foreign. apply adel_foreign_after. exact HD. Qed.

  (* the abstract map is a backing that refines itself *)
  Lemma abs_backing_refines : forall (vzero : V),
    backing_refines vzero eqb (abs_backing vzero eqb) (fun m a => m = a /\ distinct eqb a).
  Proof.
    intro vzero. constructor; cbn [abs_backing mput mget mdel mkeys mvals mlen fst snd].
    - intros m a k u ch [-> HD]. split; [reflexivity|apply distinct_aput; exact HD].
    - intros m a k [-> HD]. reflexivity.
    - intros m a k [-> HD]. split; [split; [reflexivity|apply distinct_adel; exact HD]|reflexivity].
    - intros m a [-> HD]. apply Permutation_refl.
    - intros m a [-> HD]. apply Permutation_refl.
    - intros m a [-> HD]. reflexivity.
    - intros m a [-> HD]. exact HD.
  Qed.
End AssocLemmas.

(* the concrete families satisfy the laws (non-vacuity of every theorem that assumes them) *)
Lemma eqb_exact_equivalence : eqb_equivalence eqb_exact.
Proof.
  unfold eqb_equivalence, eqb_exact. repeat split; intros.
  - apply Z.eqb_refl.
  - rewrite Z.eqb_eq in *. congruence.
  - rewrite Z.eqb_eq in *. congruence.
Qed.
Lemma eqb_half_equivalence : eqb_equivalence eqb_half.
Proof.
  unfold eqb_equivalence, eqb_half. repeat split; intros.
  - apply Z.eqb_refl.
  - rewrite Z.eqb_eq in *. congruence.
  - rewrite Z.eqb_eq in *. congruence.
Qed.
Lemma code_mod_consistent : forall m, hash_consistent (code_mod m) eqb_exact.
Proof. intros m a b H. unfold eqb_exact in H. rewrite Z.eqb_eq in H. subst. reflexivity. Qed.
Lemma code_half_consistent : forall m, hash_consistent (code_half m) eqb_half.
Proof. intros m a b H. unfold eqb_half in H. rewrite Z.eqb_eq in H. unfold code_half. rewrite H. reflexivity. Qed.
