(* Concrete schedules for PoolModel, used by the non-vacuity Examples of props/C1x_pool.v (and handy for
   refutation witnesses): a tiny scripting layer that turns "call op on tid t", "let goroutine t run n
   statements", "fire t's timer" ... into the event list the model accepts.  Everything is computed
   by vm_compute; nothing here is trusted. *)
From Ekit Require Import Common Conc PoolModel.

Inductive directive :=
| DCall (t : tid) (op : pop)
| DRun (t : tid) (n : nat)          (* up to n statements of goroutine t; at a select the first enabled of
                                       queue, timer, interrupt / send, default, ctx; finishes the user function *)
| DRunTo (t : tid) (p : ppc)        (* run goroutine t until it is at program counter p (at most 400 statements) *)
| DPick (t : tid) (ch : choice)     (* one statement with an explicit choice *)
| DFire (t : tid)
| DCancel (t : tid)
| DFinish (t : tid).

Definition try_ev (c : pcfg) (e : pev) : option (pcfg * pev) :=
  match pstep_cfg c e with Some c' => Some (c', e) | None => None end.

Fixpoint first_ev (c : pcfg) (l : list pev) : option (pcfg * pev) :=
  match l with
  | [] => None
  | e :: r => match try_ev c e with Some x => Some x | None => first_ev c r end
  end.

Definition one_step (t : tid) (c : pcfg) : option (pcfg * pev) :=
  first_ev c ([PStep t C0; PStep t CQueue; PStep t CTimer; PStep t CInt; PStep t (CSend None)]
              ++ map (fun r => PStep t (CSend (Some r))) (parked_of (c_thr c))
              ++ [PStep t CDefault; PStep t CCtx; PFinish t]).

Fixpoint run_n (n : nat) (t : tid) (c : pcfg) : pcfg * list pev :=
  match n with
  | O => (c, [])
  | S k => match one_step t c with
           | Some (c', e) => let (c2, l) := run_n k t c' in (c2, e :: l)
           | None => (c, [])
           end
  end.

Scheme Boolean Equality for ppc.

Definition at_pc (t : tid) (p : ppc) (c : pcfg) : bool :=
  match lookup t (c_thr c) with
  | Some th => ppc_beq (pc th) p
  | None => false
  end.

Fixpoint run_to (fuel : nat) (t : tid) (p : ppc) (c : pcfg) : pcfg * list pev :=
  match fuel with
  | O => (c, [])
  | S k => if at_pc t p c then (c, [])
           else match one_step t c with
                | Some (c', e) => let (c2, l) := run_to k t p c' in (c2, e :: l)
                | None => (c, [])
                end
  end.

Definition do_dir (d : directive) (c : pcfg) : pcfg * list pev :=
  match d with
  | DCall t op => match try_ev c (PCall t op) with Some (c', e) => (c', [e]) | None => (c, []) end
  | DRun t n => run_n n t c
  | DRunTo t p => run_to 400 t p c
  | DPick t ch => match try_ev c (PStep t ch) with Some (c', e) => (c', [e]) | None => (c, []) end
  | DFire t => match try_ev c (PFire t) with Some (c', e) => (c', [e]) | None => (c, []) end
  | DCancel t => match try_ev c (PCancel t) with Some (c', e) => (c', [e]) | None => (c, []) end
  | DFinish t => match try_ev c (PFinish t) with Some (c', e) => (c', [e]) | None => (c, []) end
  end.

Fixpoint play (ds : list directive) (c : pcfg) : pcfg * list pev :=
  match ds with
  | [] => (c, [])
  | d :: r => let (c1, l1) := do_dir d c in let (c2, l2) := play r c1 in (c2, l1 ++ l2)
  end.

Definition schedule (P : params) (ds : list directive) : list pev := snd (play ds (pinit P)).
Definition final (P : params) (ds : list directive) : pcfg := fst (play ds (pinit P)).

(* what a script did, for inspection while writing Examples *)
Definition pcs_of (c : pcfg) : list (tid * ppc) := map (fun x => (fst x, pc (snd x))) (c_thr c).

Definition par (init core mx cap rn rd : Z) : params := mkPar init core mx cap rn rd true true 100%nat true.
Definition par_pinned (init core mx cap rn rd : Z) (fa fb : bool) : params := mkPar init core mx cap rn rd fa fb 100%nat true.
Definition par_pinned3 (init core mx cap rn rd : Z) (fa fb fc : bool) : params := mkPar init core mx cap rn rd fa fb 100%nat fc.

(* ---------------------------------------------------------------- the schedules of the two repaired defects *)
Local Open Scope nat_scope.

(* (a) C10: initGo 1, coreGo 2, maxGo 3, queue 3.  Three tasks queued before Start (three workers), three
   more submitted while they run.  W1 (tid 100) and W2 (101) finish while len(queue) = 3 >= totalGo and are
   given idle timers; they are descheduled before their select.  W3 (102) finishes, takes task 3, finishes
   again with len(queue) = 2 < totalGo = 3 and reaches the above-core test. *)
Definition wit_vanish_P := par 1 2 3 3 0 1.
Definition wit_vanish_P_pinned := par_pinned 1 2 3 3 0 1 false true.
Definition wit_vanish_prefix :=
  [DCall 1 (OpSubmit 0 false); DRun 1 100; DCall 1 (OpSubmit 1 false); DRun 1 100; DCall 1 (OpSubmit 2 false); DRun 1 100;
   DCall 2 OpStart; DRun 2 300;
   DRunTo 100 WUser; DRunTo 101 WUser; DRunTo 102 WUser;
   DCall 1 (OpSubmit 3 false); DRun 1 100; DCall 1 (OpSubmit 4 false); DRun 1 100; DCall 1 (OpSubmit 5 false); DRun 1 100;
   DFinish 100; DRunTo 100 WSelect;
   DFinish 101; DRunTo 101 WSelect;
   DFinish 102; DRunTo 102 WSelect; DRunTo 102 WUser;
   DFinish 102; DRunTo 102 WBkIf1].
(* before the fix: W3 leaves by the above-core rule, the two timers fire, both selects take the timer case:
   totalGo = 0 in state running with tasks 4 and 5 queued *)
Definition wit_vanish_pinned_tail :=
  [DRun 102 10; DFire 100; DFire 101; DPick 100 CTimer; DRun 100 40; DPick 101 CTimer; DRun 101 40].
(* now: W3 stays (initGo < totalGo - |timeoutGroup| fails), drains the queue; W1 and W2 park, time out and
   leave; a graceful Shutdown then completes through W3 *)
Definition wit_vanish_fixed_tail :=
  [DRunTo 102 WSelect; DRunTo 102 WUser; DFinish 102; DRunTo 102 WSelect; DRunTo 102 WUser; DFinish 102; DRunTo 102 WSelect;
   DRun 100 1; DRun 101 1; DFire 100; DRun 100 40; DFire 101; DRun 101 40;
   DRun 102 1;
   DCall 3 OpShutdown; DRun 3 40; DRun 102 60].

(* (b) C12: initGo 1, coreGo = maxGo 2, queue 2.  Two workers; W1 (100) gets an idle timer, both park on the
   empty queue; W1's timer fires (it is committed to the idle-timer exit); Shutdown closes the queue; W2 sees
   it (totalGo 2 -> 1, not the last); W1 brings totalGo to 0.  Before the fix it returned without the
   closing->stopped transition (state closing for ever, done never closed); now it performs it. *)
Definition wit_hang_P := par 1 2 2 2 0 1.
Definition wit_hang_P_pinned := par_pinned 1 2 2 2 0 1 true false.
Definition wit_hang :=
  [DCall 1 (OpSubmit 0 false); DRun 1 100; DCall 1 (OpSubmit 1 false); DRun 1 100;
   DCall 2 OpStart; DRun 2 300;
   DRunTo 100 WUser; DRunTo 101 WUser;
   DFinish 100; DRunTo 100 WParked;
   DFinish 101; DRunTo 101 WParked;
   DFire 100;
   DCall 3 OpShutdown; DRun 3 40;
   DRun 101 60;
   DRun 100 60].

(* (c) C10: initGo = coreGo = maxGo 1, queue 1.  The worker (100) is inside task 0, task 1 fills the queue, a third
   Submit (tid 3, task 2) goes three times round its spin loop before the worker makes room.  Before commit
   4ac6152 task 2 then carried 4 taskWrapper layers (one per round; unboundedly many after a long wait - stack
   overflow when it ran); now it carries one. *)
Definition wit_spin_P := par 1 1 1 1 0 1.
Definition wit_spin_P_pinned := par_pinned3 1 1 1 1 0 1 true true false.
Definition wit_spin :=
  [DCall 2 OpStart; DRun 2 200; DRunTo 100 WParked;
   DCall 1 (OpSubmit 0 false); DRun 1 100; DRunTo 100 WUser;
   DCall 1 (OpSubmit 1 false); DRun 1 100;
   DCall 3 (OpSubmit 2 false); DRun 3 2; DRunTo 3 SbIf2; DRun 3 1; DRunTo 3 SbIf2; DRun 3 1; DRunTo 3 SbIf2; DRun 3 1;
   DFinish 100; DRunTo 100 WSelect; DRunTo 100 WUser;
   DRun 3 100;
   DFinish 100; DRunTo 100 WSelect; DRunTo 100 WUser;
   DFinish 100; DRunTo 100 WParked].
