(* Concrete schedules for PoolModel, used by the non-vacuity Examples of props/C1x_pool.v (and handy for
   refutation witnesses): a tiny scripting layer that turns "call op on tid t", "let goroutine t run n
   statements", "fire t's timer" ... into the event list the model accepts.  Everything is computed
   by vm_compute; nothing here is trusted. *)
From Ekit Require Import Common Conc PoolModel.

Inductive directive :=
| DCall (t : tid) (op : pop)
| DRun (t : tid) (n : nat)          (* up to n statements of goroutine t; at a select the first enabled of
                                       queue, timer, interrupt / send, default, ctx; finishes the user function *)
| DRunTo (t : tid) (p : ppc)        (* run goroutine t until it is at program counter p (at most 400 statements) *)
| DPick (t : tid) (ch : choice)     (* one statement with an explicit choice *)
| DFire (t : tid)
| DCancel (t : tid)
| DFinish (t : tid).

Definition try_ev (c : pcfg) (e : pev) : option (pcfg * pev) :=
  match pstep_cfg c e with Some c' => Some (c', e) | None => None end.

Fixpoint first_ev (c : pcfg) (l : list pev) : option (pcfg * pev) :=
  match l with
  | [] => None
  | e :: r => match try_ev c e with Some x => Some x | None => first_ev c r end
  end.

Definition one_step (t : tid) (c : pcfg) : option (pcfg * pev) :=
  first_ev c ([PStep t C0; PStep t CQueue; PStep t CTimer; PStep t CInt; PStep t (CSend None)]
              ++ map (fun r => PStep t (CSend (Some r))) (parked_of (c_thr c))
              ++ [PStep t CDefault; PStep t CCtx; PFinish t]).

Fixpoint run_n (n : nat) (t : tid) (c : pcfg) : pcfg * list pev :=
  match n with
  | O => (c, [])
  | S k => match one_step t c with
           | Some (c', e) => let (c2, l) := run_n k t c' in (c2, e :: l)
           | None => (c, [])
           end
  end.

Scheme Boolean Equality for ppc.

Definition at_pc (t : tid) (p : ppc) (c : pcfg) : bool :=
  match lookup t (c_thr c) with
  | Some th => ppc_beq (pc th) p
  | None => false
  end.

Fixpoint run_to (fuel : nat) (t : tid) (p : ppc) (c : pcfg) : pcfg * list pev :=
  match fuel with
  | O => (c, [])
  | S k => if at_pc t p c then (c, [])
           else match one_step t c with
                | Some (c', e) => let (c2, l) := run_to k t p c' in (c2, e :: l)
                | None => (c, [])
                end
  end.

Definition do_dir (d : directive) (c : pcfg) : pcfg * list pev :=
  match d with
  | DCall t op => match try_ev c (PCall t op) with Some (c', e) => (c', [e]) | None => (c, []) end
  | DRun t n => run_n n t c
  | DRunTo t p => run_to 400 t p c
  | DPick t ch => match try_ev c (PStep t ch) with Some (c', e) => (c', [e]) | None => (c, []) end
  | DFire t => match try_ev c (PFire t) with Some (c', e) => (c', [e]) | None => (c, []) end
  | DCancel t => match try_ev c (PCancel t) with Some (c', e) => (c', [e]) | None => (c, []) end
  | DFinish t => match try_ev c (PFinish t) with Some (c', e) => (c', [e]) | None => (c, []) end
  end.

Fixpoint play (ds : list directive) (c : pcfg) : pcfg * list pev :=
  match ds with
  | [] => (c, [])
  | d :: r => let (c1, l1) := do_dir d c in let (c2, l2) := play r c1 in (c2, l1 ++ l2)
  end.

Definition schedule (P : params) (ds : list directive) : list pev := snd (play ds (pinit P)).
Definition final (P : params) (ds : list directive) : pcfg := fst (play ds (pinit P)).

(* what a script did, for inspection while writing Examples *)
Definition pcs_of (c : pcfg) : list (tid * ppc) := map (fun x => (fst x, pc (snd x))) (c_thr c).

Definition par (init core mx cap rn rd : Z) : params := mkPar init core mx cap rn rd true true 100%nat.
Definition par_pinned (init core mx cap rn rd : Z) (fa fb : bool) : params := mkPar init core mx cap rn rd fa fb 100%nat.
