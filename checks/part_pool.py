"""pool.OnDemandBlockTaskPool part of C10 / C11 / C12 (see CONC_TASK.md): synchronisation skeleton,
replays of the two repaired defects, lock-step correspondence against coq/theories/model/PoolModel.v,
chaos-mode stress/monitor search, sequential constructor differential.

    run(c, binary, labels, tier, focus)     c: common.Check of the calling property, binary: instrumented
                                            harness built with pkgs incl. "pool" and "lockstep"
"""
import glob
import os
import random
import re
import subprocess

from common import GOENV, VERIF, diff_lines

THEOREMS = {
    "c10": "never_twice, never_both, rejected_never_runs, task_ledger, accepted_in_exactly_one_place, panic_is_contained "
           "(props/C10_pool.v) and the liveness theorems of props/C10_poolb.v",
    "c11": "totalgo_le_maxgo, running_tasks_le_totalgo, no_task_before_start, lifecycle_monotone, start_once, "
           "shutdown_once_between_them, calls_fail_after_shutdown (props/C11_pool.v)",
    "c12": "done_not_early, shutdown_completes (props/C12_pool.v)",
}


def _stress(c, binary, seed, rounds, focus, timeout=900, directed_ms=None):
    if directed_ms is None:
        directed_ms = 2500 if c.tier == "quick" else 15000      # directed scale-down scenario (done-early), focus c10 / c12
    try:
        p = subprocess.run([binary, "c10-pool-stress", str(seed), str(rounds), focus, str(directed_ms)], stdout=subprocess.PIPE,
                           stderr=subprocess.PIPE, text=True, timeout=timeout, env=GOENV)
        out = p.stdout.strip() or ("crash: " + p.stderr[-800:])
        err = p.stderr
    except subprocess.TimeoutExpired:
        out, err = "VIOLATION harness-timeout: c10-pool-stress did not finish within %ds" % timeout, ""
    return out, err


def _kind(out):
    m = re.match(r"VIOLATION ([a-z-]+)", out)
    if m:
        return m.group(1)
    if "send on closed channel" in out:
        return "send-on-closed-channel"
    if "close of closed channel" in out:
        return "double-close"
    if out.startswith("crash"):
        return "crash"
    return "other"


# which property a monitor kind belongs to (a hit is reported under the calling property anyway; the kind
# is part of the signature)
def _replay_file(c, binary, path, tries=1):
    """strict replay of an event file; returns (ok, stats, mism)"""
    last = None
    for _ in range(tries):
        rc, txt, merr, gerr = c.lockstep(binary, "pool-lockstep", ["replay", path], timeout=300)
        stats, tags, samples, mism = c.parse_lockstep_report(txt)
        ok = bool(stats) and stats.get("mismatches", 1) == 0 and "REPLAY-INCOMPLETE" not in txt
        last = (ok, stats, mism, merr, gerr)
        if ok:
            break
    return last


def ctor_cases(seed, tier):
    """constructor: exhaustive over small argument tuples and option subsets (in both orders), plus random ones"""
    lines = []
    vals = [-1, 0, 1, 2, 3]
    rates = ["0/1", "1/2", "1/1", "3/2", "-1/2"]
    for ig in vals:
        for qs in [-1, 0, 2]:
            lines.append("%d %d" % (ig, qs))
            for co in vals:
                lines.append("%d %d core:%d" % (ig, qs, co))
                for mx in vals:
                    lines.append("%d %d core:%d max:%d" % (ig, qs, co, mx))
                    lines.append("%d %d max:%d core:%d" % (ig, qs, mx, co))
            for mx in vals:
                lines.append("%d %d max:%d" % (ig, qs, mx))
            for rt in rates:
                lines.append("%d %d rate:%s" % (ig, qs, rt))
                lines.append("%d %d core:2 rate:%s max:3" % (ig, qs, rt))
    # the int -> int32 boundary of initGo (the constructor stores int32(initGo)); queueSize small; constructor ONLY -
    # such a pool is never started (2^31-1 workers)
    big = [2**31 - 2, 2**31 - 1, 2**31, 2**31 + 1, 2**32 - 1, 2**32, 2**32 + 1, 2**32 + 5, 2**33, 3 * 2**32 + 2, 2**62,
           2**63 - 1, -2**31, -2**31 - 1, -2**32, -2**32 + 1, -2**63]
    for ig in big:
        for qs in [0, 1, 2]:
            lines.append("%d %d" % (ig, qs))
        lines.append("%d 1 rate:1/2" % ig)
        lines.append("%d 1 core:3" % ig)
        lines.append("%d 1 max:4" % ig)
        lines.append("%d 1 core:2 max:5" % ig)
        lines.append("%d 1 core:%d" % (ig, 2**31 - 1))
        lines.append("%d 1 max:%d" % (ig, 2**31 - 1))
    r = random.Random(seed * 31 + 7)
    for _ in range(300 if tier == "quick" else 5000):
        opts = []
        for _ in range(r.randint(0, 4)):
            k = r.choice(["core", "max", "rate"])
            opts.append("%s:%s" % (k, r.choice(rates) if k == "rate" else r.randint(-2, 6)))
        lines.append("%d %d %s" % (r.randint(-1, 5), r.randint(-1, 4), " ".join(opts)))
    return [l.strip() for l in lines]


def _norm_ctor(line):
    """'ok init=1 core=2 max=2 cap=3 rate=<a/b | float>' -> tuple with the rate as a float"""
    if not line.startswith("ok"):
        return line
    m = re.match(r"ok init=(-?\d+) core=(-?\d+) max=(-?\d+) cap=(-?\d+) rate=(\S+)", line)
    if not m:
        return line
    rt = m.group(5)
    if "/" in rt:
        a, b = rt.split("/")
        rt = float(a) / float(b)
    else:
        rt = float(rt)
    return ("ok", int(m.group(1)), int(m.group(2)), int(m.group(3)), int(m.group(4)), round(rt, 9))


def run(c, binary, labels, tier, focus):
    focus = (focus or c.pid).lower()
    cov = c.cov.setdefault("pool", {})
    broken = []            # reasons why the correspondence does not hold
    problems = c.check_labels("pool-lockstep", labels)
    if problems:
        broken.append("skeleton")

    # ---- 1. the schedules of the two repaired defects, replayed first (must agree with the model of the code as it is)
    corpus = sorted(glob.glob(os.path.join(VERIF, "corpus", "pool_*.txt")))
    rep = {}
    for path in corpus:
        ok, stats, mism, merr, gerr = _replay_file(c, binary, path)
        rep[os.path.basename(path)] = dict(ok=ok, events=stats.get("events") if stats else None)
        c.cov["evaluations"] += 1
        if ok:
            c.cov["traces_validated_against_impl"] += 1
            c._distinct.add("poolreplay:" + os.path.basename(path))
        else:
            broken.append("replay:" + os.path.basename(path))
            rep[os.path.basename(path)]["mismatch"] = (mism[:1] or [merr[-300:] + gerr[-300:]])[0][-1500:]
    cov["corpus_replays"] = rep

    # ---- 2. lock-step: model-chosen interleavings executed on the real goroutines
    if tier == "quick":
        batches, nsched, maxev = 1, 160, 450
    else:
        batches, nsched, maxev = 10, 500, 900      # separate processes: blocked goroutines of finished schedules are not reclaimed
    tot = dict(schedules=0, events=0, mismatches=0, distinct=0, nontrivial=0)
    alltags, mism_all, errs = {}, [], ""
    for b in range(batches):
        rc, txt, merr, gerr = c.lockstep(binary, "pool-lockstep", ["run", c.seed * 1000 + b, nsched, maxev, focus], timeout=1500)
        stats, tags, samples, mism = c.parse_lockstep_report(txt)
        if not stats:
            broken.append("lockstep-crash")
            errs = (merr + gerr)[-1200:]
            break
        for k in tot:
            tot[k] += stats.get(k, 0)
        for t, n in tags.items():
            alltags[t] = alltags.get(t, 0) + n
        mism_all += mism
        if b == 0:
            for s in samples[:1]:
                c.sample("pool lock-step schedule: " + s[:500])
    cov["lockstep"] = dict(tot, coverage_tags=alltags, focus=focus)
    c.cov["evaluations"] += tot["schedules"]
    c.cov["traces_validated_against_impl"] += tot["schedules"] - tot["mismatches"]
    for i in range(tot["nontrivial"]):
        c._distinct.add("pool:%s:%d" % (focus, i))
    if tot["mismatches"] or mism_all:
        broken.append("lockstep")
    # a mismatch on the timer-duration observation is a concrete failing input by itself: the schedule arms a worker's idle
    # timer and time.NewTimer is given another duration than the configured one (WithMaxIdleTime(d), or 10 s by default)
    idle_hit = False
    for mm in mism_all:
        g = re.search(r"params: (.*)\n(?:.|\n)*CALL 92 timerdur (\d+)\n\s*expected: 92 ret (\S+)\s*\n\s*observed: 92 ret (\S+)", mm)
        if g and g.group(3) != g.group(4):
            idle_hit = True
            pr = g.group(1).split()
            conf = "WithMaxIdleTime(%s ns)" % pr[12] if len(pr) > 12 and pr[12] != "0" else "no WithMaxIdleTime option (defaultMaxIdleTime = 10 s)"
            c.report("%s:pool:idle-time" % c.pid,
                     "OnDemandBlockTaskPool: pool built with %s; worker %s's idle timer is armed with time.NewTimer(%s ns) instead of %s ns "
                     "(the configured idle time is not what the workers wait)" % (conf, g.group(2), g.group(4), g.group(3)),
                     {"kind": "lockstep-schedule", "schedule": mm[-4000:],
                      "how": "modelrun pool-lockstep replay <file with PARAMS + the events> <report> | h lockstep; observation `CALL 92 timerdur <tid>` "
                             "returns the duration the worker's latest time.NewTimer was given"})
            break
    required = ["worker-exits-by-idle-timer", "above-core-exit", "submit-creates-worker", "two-submitters-race-for-locked",
                "shutdownnow-drains", "task-panics", "last-worker-transition-via-closed-queue"]
    cov["tags_missing"] = [t for t in required if not alltags.get(t)]

    # ---- 3. constructor (sequential differential)
    lines = ctor_cases(c.seed, tier)
    text = "\n".join(lines) + "\n"
    rc, impl, err = c.run_impl(binary, ["c11-pool-ctor"], text)
    model = c.run_model("pool-ctor", text)
    impl_n, model_n = [_norm_ctor(l) for l in impl], [_norm_ctor(l) for l in model]
    bad = diff_lines(lines, impl_n, model_n)
    cov["constructor"] = {"cases": len(lines), "agree": len(lines) - len(bad),
                          "rejected": sum(1 for l in model if l == "err"),
                          "note": "NaN rate is outside the model (the real constructor accepts NaN: both comparisons are false)"}
    for l, m in zip(lines, model):
        c.note_case("poolctor:" + l, len(l.split()) >= 3 and m != "err")
    c.cov["traces_validated_against_impl"] += len(lines) - len(bad)
    # a constructed pool must have at least one worker and exactly the initGo that was asked for
    rng_bad = []
    for i, l in enumerate(lines):
        n = impl_n[i] if i < len(impl_n) else None
        if isinstance(n, tuple) and (n[1] < 1 or n[1] != int(l.split()[0])):
            rng_bad.append(i)
    cov["constructor"]["initgo_boundary_cases"] = sum(1 for l in lines if abs(int(l.split()[0])) >= 2**31 - 2)
    rng_bad.sort(key=lambda i: (impl_n[i][1] != 0, i))      # the zero-worker pool first
    for i in rng_bad[:1]:
        c.report("%s:ctor:initgo-range" % c.pid,
                 "NewOnDemandBlockTaskPool(%s) is accepted and yields a pool with initGo=%d (the int argument is truncated to int32): "
                 "invalid constructor arguments are not rejected; with 0 workers Start spawns nobody, Submit returns nil and the task "
                 "never runs (model pool_new_now: %s; theorems pool_new_now_rejects_out_of_range / pool_new_now_valid do not transfer)" % (
                     lines[i], impl_n[i][1], model[i] if i < len(model) else None),
                 {"kind": "constructor-case", "case": lines[i], "implementation": impl[i], "model": model[i] if i < len(model) else None,
                  "how": "echo '<case>' | h c11-pool-ctor   (format: <initGo> <queueSize> [core:n] [max:n] [rate:a/b])"})
    bad = [i for i in bad if i not in set(rng_bad)]
    for i in bad[:2]:
        c.report("%s:pool:ctor" % c.pid,
                 "NewOnDemandBlockTaskPool(%s): implementation %r, model pool_new %r (theorem constructor_rejects does not transfer)" % (
                     lines[i], impl[i] if i < len(impl) else None, model[i] if i < len(model) else None),
                 {"kind": "constructor-case", "case": lines[i], "how": "echo '<case>' | h c11-pool-ctor"})

    # ---- 4. stress / monitor (dynamic complement; the search layer when the correspondence is broken)
    rounds = 300 if tier == "quick" else 6000
    hits = []
    out, err = _stress(c, binary, c.seed, rounds, focus)
    cov["stress"] = {"rounds": rounds, "result": out[:300]}
    m = re.search(r"states_consumers=(\d+) states_samples=(\d+) states_poolstate_locked=(\d+)", out)
    if m:
        n, k = int(m.group(2)), int(m.group(3))
        cov["states"] = {"consumers": int(m.group(1)), "samples": n, "samples_reporting_transient_locked_state_5": k,
                         "ratio": round(k / n, 3) if n else None,
                         "observation": "States reports the raw state word, so the transient spin-lock value 5 (stateLocked) is visible "
                                        "to consumers under Submit load (getState does not use internalState); recorded, not a violation"}
    if not out.startswith("ok"):
        hits.append((c.seed, rounds, out, err))
    for (s, n, out, err) in hits[:2]:
        c.report("%s:pool:stress:%s" % (c.pid, _kind(out)), "OnDemandBlockTaskPool: " + out[:600],
                 {"kind": "stress-run", "how": "h c10-pool-stress %d %d %s %d   (instrumented build, chaos mode)" % (s, n, focus, 2500 if c.tier == "quick" else 15000),
                  "result": out[:1500], "goroutine_dump_tail": err[-3000:]})

    # ---- 5. the correspondence is broken and the monitors found nothing: try the concrete schedules of the known
    #         defects against the PINNED models (a full agreement = the old behaviour is back, with its replay)
    found = False
    if broken and not hits and not idle_hit:
        for path, what in [(os.path.join(VERIF, "corpus", "pinned_pool_c10_workers_vanish.txt"),
                            "all workers leave a RUNNING pool (above-core exit + idle-timer exits) while accepted tasks are queued: "
                            "totalGo=0, state running, tasks never executed"),
                           (os.path.join(VERIF, "corpus", "pinned_pool_c10_submit_wrap_depth.txt"),
                            "Submit wraps the task once per round of its spin loop: after three rounds the task runs through four nested "
                            "taskWrapper.Run activations (unbounded; a long wait overflows the stack when the task runs)"),
                           (os.path.join(VERIF, "corpus", "pinned_pool_c12_shutdown_hang.txt"),
                            "the worker that brings totalGo to 0 by its idle timer does not perform closing->stopped: "
                            "Shutdown's channel never closes")]:
            if not os.path.exists(path):
                continue
            ok, stats, mism, merr, gerr = _replay_file(c, binary, path, tries=16 if "vanish" in path else 2)
            if ok:
                found = True
                c.report("%s:pool:pinned-replay:%s" % (c.pid, "vanish" if "vanish" in path else "wrap-depth" if "wrap" in path else "hang"),
                         "OnDemandBlockTaskPool: " + what,
                         {"kind": "lockstep-replay", "file": os.path.relpath(path, VERIF), "events": open(path).read().splitlines(),
                          "how": "modelrun pool-lockstep replay <file> <report> | h lockstep   (see checks/common.py Check.lockstep)"})
    if idle_hit and set(broken) <= {"lockstep", "skeleton"}:
        found = True        # the duration mismatch is the concrete input; no further search
    if broken and not hits and not found:
        # long search before giving up
        for s in range(1, 7):
            out, err = _stress(c, binary, c.seed * 100 + s, 4000, focus)
            if not out.startswith("ok"):
                hits.append((c.seed * 100 + s, 4000, out, err))
                c.report("%s:pool:stress:%s" % (c.pid, _kind(out)), "OnDemandBlockTaskPool: " + out[:600],
                         {"kind": "stress-run", "how": "h c10-pool-stress %d %d %s   (instrumented build, chaos mode)" % (c.seed * 100 + s, 4000, focus),
                          "result": out[:1500], "goroutine_dump_tail": err[-3000:]})
                break
        cov["stress"]["search_rounds"] = 24000
        if not hits:
            c.report("%s:pool:lockstep" % c.pid,
                     "OnDemandBlockTaskPool no longer corresponds to its interleaving model PoolModel.v (%s; theorems %s do not transfer)" % (
                         ", ".join(sorted(set(broken))), THEOREMS.get(focus, THEOREMS["c10"])),
                     {"kind": "lockstep-correspondence", "skeleton_problems": problems[:10], "mismatches": [m[-2500:] for m in mism_all[:2]],
                      "replays": {k: v for k, v in rep.items() if not v["ok"]}, "stderr": errs}, found_input=False)
    return {"broken": broken, "stress_hits": len(hits)}
