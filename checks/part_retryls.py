"""C19, part `retryls`: the retry strategies used CONCURRENTLY, in lock-step against a statement-granular model
(complements the sequential / three-step slice of checks/c19.py, whose concurrent semantics is tied to the code by
white-box probes and goroutine hammering only).  Interleaving model coq/theories/model/RetryLSModel.v, theorems
coq/theories/props/C19_ls.v (refinement of RetryModel's three-step semantics; budget and bounds carried over).

run(c, binary, labels, tier, focus):
  1. statement skeleton: every statement of ExponentialBackoffRetryStrategy.Next, FixedIntervalRetryStrategy.Next and
     (pinned, not stepped) the two constructors against the model's program counters;
  2. lock-step session (`retryls-lockstep`, ocaml/drv_retryls.ml): the extracted Coq transition function picks
     interleavings of 2-5 goroutines calling Next on ONE strategy (exp | fixed; small budgets 1-3, unlimited, negative;
     overflow triples such as initial = 2^40+1 ns / max = 2^62 ns and initial = 2^61+1 ns / max = MaxInt64); the real
     goroutines execute them statement by statement; arrivals and the answers "<interval ns> <ok>" are compared; the
     model-side test re-evaluates budget and bounds on every final configuration;
  2a. the interleaving of theorem ls_interval_wrap_refuted (25 callers pass the flag load before anyone stores; caller
     25 computes (2^40+1) * 2^24) replayed in lock-step on the current code: caller 25 must get the cap;
  2b. only when the source has the statement skeleton of the code BEFORE commit 672671a: the witness interleaving of
     theorem ls_interval_wrap_refuted is replayed in lock-step with the pinned model (`retryls-pinned-lockstep`): if the
     real goroutines return what the pinned model predicts, the wrapped interval is a confirmed, concrete violation;
  3. search oracle `c19-retryls-stress` (harness/retryls/stress.go): label-independent controlled schedules (strict
     round-robin / random, incl. directed rounds: two callers racing for the only retry; 27 callers on 2^40+1 / 2^62)
     + chaos-mode hammering, with monitors for the total number of grants and the bounds; briefly on every run,
     longer when 1/2 found a problem;
  4. report."""
import os
import subprocess

from common import GOENV

THEOREMS = ("ls_refines_three_step, ls_same_returned_values, ls_budget_exact, ls_budget_exact_at_quiescence, "
            "ls_interval_in_bounds, ls_observed_return_in_bounds")
WINDOWS = ["two-callers-race-for-last-retry", "late-caller-computes-before-flag-store", "overflow-path"]

WRAP_PARAMS = ["exp", str(2 ** 40 + 1), str(2 ** 62), "0", "5", "1", "27"]


def wrap_witness_events(tail):
    """the event list of RetryLSModel.ls_wrap_witness: callers 1..25 add, test the budget and load the flag;
    caller 25 then executes its remaining `tail` statements"""
    ev = []
    for t in range(1, 26):
        ev += ["CALL %d next" % t, "STEP %d" % t, "STEP %d" % t, "STEP %d" % t]
    return ev + ["STEP 25"] * tail


def stress(c, binary, rounds, goroutines, seed_off=0):
    """one run of the search oracle; None when nothing was found, else a dict describing the hit"""
    cmd = [binary, "c19-retryls-stress", str(c.seed + seed_off), str(rounds), str(goroutines)]
    try:
        p = subprocess.run(cmd, stdout=subprocess.PIPE, stderr=subprocess.PIPE, text=True, timeout=900, env=GOENV)
        out = p.stdout.strip()
        if not out.startswith(("ok ", "violation ")):
            first = next((l for l in p.stderr.splitlines() if l.strip()), "no output")
            out = "violation panic: the stress command aborted (%s)\n%s" % (first[:200], out[-300:])
    except subprocess.TimeoutExpired:
        out = "violation hang: the stress command did not finish in 900 s"
    lines = out.splitlines()
    first = lines[0] if lines else "violation panic: no output"
    if first.startswith("ok "):
        return None
    kind = first.split()[1].rstrip(":") if len(first.split()) > 1 else "panic"
    if kind not in ("budget", "bounds", "panic", "hang"):
        kind = "panic"
    return {"kind": kind, "result": first[len("violation "):][:500], "detail": [l[:1500] for l in lines[1:4]],
            "how": "h c19-retryls-stress %d %d %d   (instrumented harness; the directed and controlled schedules are "
                   "deterministic in the seed)" % (c.seed + seed_off, rounds, goroutines)}


def replay_current_witness(c, binary):
    """2a: the interleaving of ls_interval_wrap_refuted on the CURRENT skeleton (non-vacuity Example c19_ls_nonvacuous:
    caller 25 stores the flag and returns the cap), replayed in lock-step on every run.  Returns (ok, text)."""
    path = os.path.join(c.tmp, "retryls_wrap_witness_now.txt")
    with open(path, "w") as f:
        f.write("PARAMS " + " ".join(WRAP_PARAMS) + "\n" + "\n".join(wrap_witness_events(5)) + "\n")
    rc, txt, merr, gerr = c.lockstep(binary, "retryls-lockstep", ["replay", path])
    stats, _, _, mism = c.parse_lockstep_report(txt)
    return bool(stats) and not mism and stats.get("events") == 105, (mism or [txt[-400:]])[0]


def replay_pinned_witness(c, binary):
    """2b: lock-step replay of ls_wrap_witness with the pinned model.  Returns (confirmed, text)."""
    path = os.path.join(c.tmp, "retryls_wrap_witness.txt")
    with open(path, "w") as f:
        f.write("PARAMS " + " ".join(WRAP_PARAMS) + "\n" + "\n".join(wrap_witness_events(3)) + "\n")
    rc, txt, merr, gerr = c.lockstep(binary, "retryls-pinned-lockstep", ["replay", path])
    stats, _, _, mism = c.parse_lockstep_report(txt)
    failed = [m for m in mism if m.startswith("MODEL-CHECK-FAILED")]
    diverged = [m for m in mism if not m.startswith("MODEL-CHECK-FAILED")]
    return bool(failed) and not diverged and bool(stats), (failed or diverged or [txt[-400:]])[0]


def run(c, binary, labels, tier, focus="c19"):
    name = "retryls-lockstep"
    # 1. skeleton
    problems = c.check_labels(name, labels)
    # 2. lock-step (a schedule ends by itself when its quota of calls is used up; 320 only caps the 27-call schedules)
    nsched, maxev = (300, 320) if tier == "quick" else (5000, 320)
    rc, txt, merr, gerr = c.lockstep(binary, name, ["run", c.seed, nsched, maxev])
    stats, tags, samples, mism = c.parse_lockstep_report(txt)
    c.cov["retryls_lockstep"] = dict(stats, coverage_tags=tags, skeleton_problems=len(problems), goroutines="2-5",
                                     strategies="exp | fixed; maxRetries 1-3, 4-7, 0, -1; overflow triples "
                                                "(2^40+1, 2^62), (2^61+1, MaxInt64), (2^62+1, MaxInt64), (2^61+1, 2^62), "
                                                "(2^62, 2^62), (MaxInt64, MaxInt64), (3, 2^62)")
    c.cov["evaluations"] += stats.get("schedules", 0)
    c.cov["traces_validated_against_impl"] += stats.get("schedules", 0) - stats.get("mismatches", 0)
    for i in range(stats.get("nontrivial", 0)):
        c._distinct.add("retryls%d" % i)
    if samples:
        c.sample("retryls lock-step schedule: " + samples[0][:600])
    missing = [w for w in WINDOWS if stats and not mism and tags.get(w, 0) == 0]
    if missing:
        c.cov["retryls_lockstep"]["windows_not_reached"] = missing
    broken = bool(problems or mism or not stats)
    # 2a. directed: 25 callers pass the flag load before anyone stores, caller 25 computes (2^40+1) * 2^24
    wit_ok, wit_text = replay_current_witness(c, binary)
    c.cov["retryls_lockstep"]["wrap_witness_on_current_code"] = "agrees: caller 25 gets the cap" if wit_ok else "DISAGREES"
    c.cov["evaluations"] += 1
    if wit_ok:
        c.cov["traces_validated_against_impl"] += 1
    else:
        broken = True
        mism = mism + [wit_text]

    hits = []
    # 2b. the pinned skeleton (before 672671a): replay the witness of ls_interval_wrap_refuted on the real goroutines
    if problems:
        pinned_problems = c.check_labels("retryls-pinned-lockstep", labels)
        c.cov["retryls_lockstep"]["pinned_skeleton_problems"] = len(pinned_problems)
        if not pinned_problems:
            confirmed, text = replay_pinned_witness(c, binary)
            c.cov["retryls_lockstep"]["pinned_witness_replayed"] = confirmed
            if confirmed:
                hits.append({"kind": "bounds",
                             "result": "the source is the exponential strategy before commit 672671a; the interleaving of theorem "
                                       "ls_interval_wrap_refuted, executed statement by statement on the real goroutines, returns "
                                       "what the pinned model predicts: " + text.splitlines()[0][:300],
                             "detail": text.splitlines()[1:3],
                             "params": "NEW retryls " + " ".join(WRAP_PARAMS),
                             "events": wrap_witness_events(3),
                             "how": "modelrun retryls-pinned-lockstep replay <file: 'PARAMS <params>' + events> <report>  "
                                    "against  h lockstep"})

    # 3. search oracle: always briefly; harder when the correspondence is broken
    rounds, gor = (150, 4) if tier == "quick" else (3000, 6)
    h = stress(c, binary, rounds, gor)
    if h:
        hits.append(h)
    searched = rounds
    if broken and not hits:
        harder = [(1500, 2), (1500, 3), (2000, 5)] if tier == "quick" else [(10000, 2), (10000, 3), (15000, 5), (20000, 8)]
        for k, (r, g) in enumerate(harder):
            h = stress(c, binary, r, g, seed_off=1 + k)
            searched += r
            if h:
                hits.append(h)
                break
    c.cov["retryls_stress"] = {"directed_rounds": 8, "controlled_rounds": searched, "chaos_rounds": searched // 2,
                               "goroutines_max": gor, "hits": len(hits), "searched_harder": bool(broken)}
    c.cov["evaluations"] += 8 + searched + searched // 2

    # 4. report
    for h in hits[:2]:
        c.report("%s:retryls:%s" % (c.pid, h["kind"]), "retry strategy under concurrent callers: " + h["result"],
                 dict(h, kind="stress-history" if "events" not in h else "lockstep-replay", violation=h["kind"]))
    if broken and not hits:
        c.report("%s:retryls:lockstep" % c.pid,
                 "ExponentialBackoffRetryStrategy.Next / FixedIntervalRetryStrategy.Next no longer correspond to their "
                 "statement-level interleaving model (theorems %s do not transfer)" % THEOREMS,
                 {"kind": "lockstep-correspondence", "object": "retryls", "skeleton_problems": problems[:12],
                  "mismatches": mism[:3], "model_stderr": merr[-500:], "go_stderr": gerr[-500:],
                  "how": "modelrun %s run %d %d %d <report>  against  h lockstep" % (name, c.seed, nsched, maxev)},
                 found_input=False)
    c.cov["retryls_rule"] = RULE
    for a in ASSUMPTIONS:
        if a not in c.assumptions:
            c.assumptions.append(a)
    c.cov.setdefault("trusted_base_parts", []).extend(t for t in TRUSTED if t not in c.cov.get("trusted_base_parts", []))
    return {"broken": broken, "hits": len(hits), "mismatches": len(mism), "skeleton_problems": len(problems)}


RULE = ("retry strategies under concurrency: lock-step schedules chosen by the extracted statement-level model (2-5 goroutines "
        "calling Next on one ExponentialBackoffRetryStrategy or FixedIntervalRetryStrategy; budgets 1-3 and larger, unlimited, "
        "negative; overflow triples), executed statement by statement on the real goroutines; non-trivial = two callers held "
        "the last granted and the first refused ticket before either tested the budget, a caller passed the flag load while an "
        "earlier-ticket caller had not yet stored the flag, or the overflow branch of the interval test was taken; plus "
        "label-independent controlled schedules and chaos-mode hammering with budget / bounds monitors")
ASSUMPTIONS = [
    "atomic.AddInt32 and atomic.Value Load/Store are atomic and sequentially consistent; interleavings inside one Go statement are not modelled (every statement of the two Next functions contains at most one shared access)",
    "the constructors run before the strategy is shared (their text is pinned by the skeleton check; the sequential differential of checks/c19.py covers their rejections); fewer than 2^31 calls of Next per strategy for the budget theorems (int32 counter, known finding)",
    "math.Pow(2, n) is exact for 0 <= n <= 62 and the float64 -> int64 conversion of 2^n, n >= 63, yields -2^63 (amd64), as written into RetryModel.pow2_i64",
]
TRUSTED = ["ocaml/drv_retryls.ml (label table, schedule generator)", "harness/retryls (instance, stress monitors)"]
