"""Shared correspondence / search logic for the map containers of mapx (C03, and the
decorator part of C01): history generation, canonicalisation, diff, minimisation.

Public entry for other checks:   run_decor(c, binary, backing)   backing in {"hash", "tree"}
runs LinkedMap and MultiMap over that backing on the implementation (harness `c03`) and on
the extracted Coq model (modelrun `hash`: the decorator functors over the hash model, resp.
over the abstract map for the tree backing), reports disagreements through c.report and
updates c.cov.  Returns the number of histories that agreed."""
import random
import subprocess

IMPL_TIMEOUT = 300

CODES = ["m1", "m2", "m3", "m7", "m64"]
# containers whose Keys()/Values() order is unspecified (Go map iteration): compared as sorted multisets.
# Tree-backed containers are compared IN ORDER: ltm = insertion order (order list), mtm = ascending by the
# comparator with Values aligned to Keys (theorems multi_treemap_keys_ascending / _keys_values_aligned).
UNORDERED = {"hash", "mhm", "builtin", "set"}
BIG = [(1 << 63) - 1, -(1 << 63), (1 << 62), -(1 << 62) + 1, (1 << 32), -(1 << 32) - 1]


# ---------------------------------------------------------------- families (generator side only)
def py_code(code, eq, k):
    lawless = code.startswith("L")
    code = code.lstrip("L")
    if eq == "h" and not lawless:
        k = k >> 1
    m = (1 << 64) if code in ("m64", "-") else int(code[1:])
    return k % m


def py_cls(eq, k):
    return (k >> 1) if eq == "h" else k


# ---------------------------------------------------------------- history generation
class Gen:
    """Generates one history and tracks (for biasing and coverage only, never as an oracle)
    the chain each live key class sits in and the number of pooled nodes."""

    def __init__(self, r, container, code, eq, nops, stats, sparse=False):
        self.r, self.container, self.code, self.eq, self.nops, self.stats = r, container, code, eq, nops, stats
        self.sparse = sparse
        self.chains = {}        # code -> list of key classes in chain order
        self.rep = {}           # class -> stored representative key
        self.where = {}         # class -> code of the chain it was inserted in
        self.pool = 0
        self.recent_deleted = []
        span = r.choice([4, 6, 10, 16, 30])
        base = r.choice([0, 0, 0, -3, -span // 2, 1000])
        self.universe = [base + i for i in range(span)]
        if r.random() < 0.25:
            self.universe += r.sample(BIG, 2)
        self.nontrivial = False
        self.maxchain = 0

    def multi(self):
        return self.container in ("mhm", "mtm")

    def key(self):
        return self.r.choice(self.universe)

    def live_key(self):
        if not self.rep:
            return self.key()
        c = self.r.choice(list(self.rep))
        k = self.rep[c]
        if self.eq == "h" and self.r.random() < 0.5:
            k = k ^ 1           # another member of the same class
        return k

    def positional_key(self):
        """a key at head / middle / tail of a chain of length >= 3 (if there is one)"""
        long = [c for c in self.chains.values() if len(c) >= 3]
        if not long:
            long = [c for c in self.chains.values() if len(c) >= 2]
        if not long:
            return self.live_key()
        ch = self.r.choice(long)
        pos = self.r.choice(["head", "mid", "tail"])
        cls = ch[0] if pos == "head" else ch[-1] if pos == "tail" else ch[self.r.randrange(1, max(2, len(ch) - 1))]
        return self.rep[cls]

    def colliding_key(self):
        """a key whose code equals that of a live chain but whose class is new"""
        if not self.chains:
            return self.key()
        h = self.r.choice(list(self.chains))
        cand = [k for k in self.universe if py_code(self.code, self.eq, k) == h and py_cls(self.eq, k) not in self.rep]
        return self.r.choice(cand) if cand else self.key()

    def note_put(self, k, ch):
        cls, h = py_cls(self.eq, k), py_code(self.code, self.eq, k)
        if cls in self.rep:
            return
        self.rep[cls] = k
        self.where[cls] = h
        self.chains.setdefault(h, []).append(cls)
        self.maxchain = max(self.maxchain, len(self.chains[h]))
        if ch >= 0 and ch < self.pool:
            self.pool -= 1
            self.stats["recycled_puts"] += 1
            self.nontrivial = True

    def note_del(self, k):
        cls, h = py_cls(self.eq, k), py_code(self.code, self.eq, k)
        if cls not in self.rep:
            self.stats["del_absent"] += 1
            return
        h = self.where.pop(cls)
        ch = self.chains[h]
        i = ch.index(cls)
        if len(ch) == 1:
            self.stats["del_only"] += 1
        else:
            self.nontrivial = True
            self.stats["del_head" if i == 0 else "del_tail" if i == len(ch) - 1 else "del_mid"] += 1
            if len(ch) >= 3:
                self.stats["del_in_chain_ge3"] += 1
        ch.pop(i)
        if not ch:
            del self.chains[h]
        del self.rep[cls]
        self.pool += 1
        self.recent_deleted.append(k)

    def choice(self):
        r = self.r
        if self.pool and r.random() < 0.75:
            return r.randrange(0, self.pool + 1)      # pool + 1: "nothing pooled for this P"
        return r.choice([-1, -1, 0, 3])

    def put_op(self, k):
        ch = self.choice()
        self.note_put(k, ch)
        if self.multi():
            n = self.r.choice([0, 1, 1, 1, 2, 3])
            vs = ".".join(str(self.r.randrange(0, 100)) for _ in range(n))
            return "P:%d:%s:%d" % (k, vs, ch)
        v = self.r.choice([0, 0, self.r.randrange(-5, 100), self.r.randrange(-5, 100)])
        return "p:%d:%d:%d" % (k, v, ch)

    def absent_key(self):
        cand = [k for k in self.universe if py_cls(self.eq, k) not in self.rep]
        return self.r.choice(cand) if cand else None

    def constant_size_run(self):
        """2-5 UNOBSERVED mutations that keep the number of entries constant (delete a live key, add an
        absent one, ...): a cache keyed on the size would not notice them"""
        ops = []
        n = self.r.randrange(2, 6)
        want_del = bool(self.rep) and self.r.random() < 0.7
        for _ in range(n):
            if want_del and self.rep:
                k = self.live_key()
                self.note_del(k)
                self.recent_deleted.clear()
                ops.append("!d:%d" % k)
            else:
                k = self.absent_key()
                if k is None:
                    break
                ops.append("!" + self.put_op(k))
            want_del = not want_del
        if len(ops) >= 2:
            self.stats["constant_size_runs"] += 1
            self.nontrivial = True
        return ops

    def history(self):
        ops = self.history_ops()
        if self.sparse:
            self.stats["sparse_histories"] += 1
            # full-state observers only at randomly chosen steps (p = 1/3); the last op is always observed
            ops = [o if (o.startswith("!") or self.r.random() < 1 / 3) else "!" + o for o in ops]
            if ops and ops[-1].startswith("!"):
                ops[-1] = ops[-1][1:]
            self.stats["unobserved_ops"] += sum(1 for o in ops if o.startswith("!"))
        return ops

    def history_ops(self):
        r = self.r
        ops = []
        mode = r.choice(["mixed", "mixed", "chains", "churn"])
        while len(ops) < self.nops:
            if self.sparse and r.random() < 0.12:
                ops += self.constant_size_run()
                # and an observed read right after the run
                ops.append("g:%d" % (self.live_key() if r.random() < 0.6 else self.key()))
                continue
            x = r.random()
            if self.recent_deleted and x < 0.5:
                # delete-then-reinsert: same key, a colliding one, or an unrelated one
                y = r.random()
                k = self.recent_deleted[-1] if y < 0.5 else self.colliding_key() if y < 0.8 else self.key()
                self.recent_deleted.clear()
                ops.append(self.put_op(k))
                continue
            x = r.random()
            p_put = {"mixed": 0.45, "chains": 0.55, "churn": 0.38}[mode]
            if x < p_put:
                y = r.random()
                if mode == "chains" and y < 0.7:
                    k = self.colliding_key()
                else:
                    k = self.live_key() if y < 0.35 else self.key()
                ops.append(self.put_op(k))
            elif x < p_put + 0.30:
                y = r.random()
                k = self.positional_key() if y < 0.65 else self.live_key() if y < 0.92 else self.key()
                self.note_del(k)
                ops.append("d:%d" % k)
            else:
                k = self.live_key() if r.random() < 0.6 else self.key()
                ops.append("g:%d" % k)
        return ops


def gen_set_history(r, nops, sparse=False, stats=None):
    span = r.choice([3, 6, 12])
    universe = list(range(-2, span)) + r.sample(BIG, 2)
    live = set()
    ops = []
    while len(ops) < nops:
        if sparse and r.random() < 0.15 and live and len(live) < len(universe):
            # unobserved run keeping the size constant: delete a present element, add an absent one, ...
            n = r.randrange(2, 6)
            want_del = r.random() < 0.7
            run = []
            for _ in range(n):
                if want_del and live:
                    k = r.choice(sorted(live))
                    live.discard(k)
                    run.append("!d:%d" % k)
                else:
                    cand = [k for k in universe if k not in live]
                    if not cand:
                        break
                    k = r.choice(cand)
                    live.add(k)
                    run.append("!a:%d" % k)
                want_del = not want_del
            ops += run
            ops.append("e:%d" % r.choice(universe))
            if stats is not None and len(run) >= 2:
                stats["constant_size_runs"] += 1
            continue
        k = r.randrange(-2, span) if r.random() < 0.9 else r.choice(universe)
        o = r.choice(["a", "a", "d", "e"])
        if o == "a":
            live.add(k)
        elif o == "d":
            live.discard(k)
        ops.append(o + ":%d" % k)
    if sparse:
        ops = [o if (o.startswith("!") or r.random() < 1 / 3) else "!" + o for o in ops]
        if ops[-1].startswith("!"):
            ops[-1] = ops[-1][1:]
        if stats is not None:
            stats["sparse_histories"] += 1
            stats["unobserved_ops"] += sum(1 for o in ops if o.startswith("!"))
    return ops


def new_stats():
    return {k: 0 for k in ["recycled_puts", "del_only", "del_head", "del_mid", "del_tail", "del_absent",
                           "del_in_chain_ge3", "histories_with_chain_ge3", "lawless_histories",
                           "sparse_histories", "unobserved_ops", "constant_size_runs"]}


def gen_histories(r, containers, n, nops, stats, lawless_frac=0.0, sparse_frac=0.5):
    """-> list of (container, code, eq, ops, nontrivial).  A fraction sparse_frac of the histories is
    "sparsely observed": Len/Keys/Values/dump/order list are called only after randomly chosen ops
    (a leading '!' marks an op after which they are NOT called), incl. runs of 2-5 unobserved mutations
    that keep the size constant; the return value of every op is still compared."""
    out = []
    for i in range(n):
        container = containers[i % len(containers)]
        sparse = r.random() < sparse_frac
        if container == "set":
            out.append((container, "-", "x", gen_set_history(r, nops, sparse, stats), True))
            continue
        if container in ("builtin",):
            code, eq = "-", "x"
        elif container in ("ltm", "mtm"):
            code, eq = "-", r.choice(["x", "h"])
        else:
            code, eq = r.choice(CODES + ["m1", "m2", "m3"]), r.choice(["x", "x", "h"])
            if lawless_frac and r.random() < lawless_frac:
                code, eq = "L" + r.choice(["m2", "m3", "m7"]), "h"
                stats["lawless_histories"] += 1
        g = Gen(r, container, code, eq, r.choice([nops, nops, nops // 2, nops // 4 + 1]), stats, sparse)
        ops = g.history()
        if g.maxchain >= 3:
            stats["histories_with_chain_ge3"] += 1
        out.append((container, code, eq, ops, g.nontrivial))
    return out


def case_line(h):
    return "%s %s %s %s" % (h[0], h[1], h[2], ",".join(h[3]))


# ---------------------------------------------------------------- canonicalisation
def canon_dump(d):
    if "#" not in d:
        return d
    bs, sz = d.rsplit("#", 1)
    buckets = sorted(bs.split("&"), key=lambda b: int(b.split("=")[0])) if bs else []
    return "&".join(buckets) + "#" + sz


def canon_op(container, s, eq="x", model=False):
    f = s.split("/")
    if len(f) < 2:
        return f
    if container == "set":
        f[1] = ";".join(sorted(f[1].split(";")))
        return f
    if container in UNORDERED:
        f[2] = ";".join(sorted(f[2].split(";")))
        f[3] = ";".join(sorted(f[3].split(";")))
    elif container == "mtm" and model and f[2] != "":
        # the decorator model runs over the ABSTRACT map (insertion order); the tree-backed multi map must
        # list keys ascending by the comparator, values aligned with them: sort the model's (key, values)
        # PAIRS by the comparator class and compare with the implementation's sequences as they are
        ks, vs = f[2].split(";"), f[3].split(";")
        if len(ks) == len(vs):
            pairs = sorted(zip(ks, vs), key=lambda kv: py_cls(eq, int(kv[0])))
            f[2] = ";".join(k for k, _ in pairs)
            f[3] = ";".join(v for _, v in pairs)
    if len(f) > 4:
        f[4] = canon_dump(f[4])
    return f


FIELDS = ["ret", "len", "keys", "vals", "dump", "nil", "align", "backward"]
SET_FIELDS = ["ret", "keys", "nil"]
API_FIELDS = 4      # ret, len, keys, vals are what the refinement theorem speaks about


def canon_line(container, line, eq="x", model=False):
    return [canon_op(container, s, eq, model) for s in line.split("|")]


def first_diff(container, impl_line, other_line, api_only=False, eq="x", a_model=False, b_model=True):
    """-> None or (op index, field name, first value, second value)"""
    a, b = canon_line(container, impl_line, eq, a_model), canon_line(container, other_line, eq, b_model)
    names = SET_FIELDS if container == "set" else FIELDS
    n = 2 if container == "set" else API_FIELDS
    for i in range(max(len(a), len(b))):
        x = a[i] if i < len(a) else ["<missing>"]
        y = b[i] if i < len(b) else ["<missing>"]
        if api_only:
            x, y = x[:n], y[:n]
        if x != y:
            for j in range(max(len(x), len(y))):
                xv = x[j] if j < len(x) else "<missing>"
                yv = y[j] if j < len(y) else "<missing>"
                if xv != yv:
                    return (i, names[min(j, len(names) - 1)], xv, yv)
    return None


# ---------------------------------------------------------------- search layer
def minimise(c, binary, h):
    """delta-minimise a history on which implementation and abstract specification differ on an
    API observable (drop ops while they still differ).  -> (ops, diff)"""
    container, code, eq, ops = h[0], h[1], h[2], list(h[3])

    def failing(cands):
        text = "\n".join(case_line((container, code, eq, o)) for o in cands) + "\n"
        try:
            _, impl, _ = c.run_impl(binary, ["c03"], text, timeout=IMPL_TIMEOUT)
        except subprocess.TimeoutExpired:
            impl = []
        spec = c.run_model("hash-spec", text)
        res = []
        for i in range(len(cands)):
            d = first_diff(container, impl[i] if i < len(impl) else "<missing>", spec[i], api_only=True, eq=eq)
            res.append(d)
        return res

    d0 = failing([ops])[0]
    if d0 is None:
        return ops, None
    ops = ops[:d0[0] + 1]
    changed = True
    rounds = 0
    while changed and len(ops) > 1 and rounds < 200:
        changed = False
        rounds += 1
        cands = [ops[:i] + ops[i + 1:] for i in range(len(ops))]
        res = failing(cands)
        for cand, d in zip(cands, res):
            if d is not None:
                ops = cand[:d[0] + 1]
                d0 = d
                changed = True
                break
    return ops, d0


def examine(c, binary, h, impl_line, model_line, pid_tag):
    """Layer 3 for one history whose canonical observables differ between implementation and model."""
    container, code, eq, ops = h[0], h[1], h[2], h[3]
    lawless = code.startswith("L")
    d = first_diff(container, impl_line, model_line, eq=eq)
    if d is None:
        return
    case = case_line(h)
    api = first_diff(container, impl_line, model_line, api_only=True, eq=eq)
    if api is not None and not lawless:
        # refinement property: the model's API observables ARE the abstract map's (theorem), so this is
        # a concrete history on which the implementation differs from the specification
        mops, md = minimise(c, binary, h)
        if md is not None:
            last = mops[-1].lstrip("!").split(":")[0]
            c.report("%s:%s:%s:%s" % (pid_tag, container, md[1], last),
                     "%s differs from the abstract map on %s after %s: implementation %r, specification %r"
                     % (container, md[1], ",".join(mops), md[2], md[3]),
                     {"kind": "history", "container": container, "code": code, "equals": eq, "ops": mops,
                      "field": md[1], "implementation": md[2], "specification": md[3], "original_case": case,
                      "how": "echo '%s' | harness/bin/h c03" % case_line((container, code, eq, mops))})
            return
        # the specification agrees with the implementation but the model does not: model/spec mismatch
        c.report("%s:%s:model-vs-spec" % (pid_tag, container),
                 "model and implementation differ on %s but the abstract specification agrees with the implementation" % api[1],
                 {"kind": "correspondence", "case": case, "op_index": api[0], "field": api[1],
                  "implementation": api[2], "model": api[3]}, found_input=False)
        return
    if api is not None and lawless:
        c.report("%s:lawless" % pid_tag,
                 "model and implementation differ on a history whose Code/Equals violate the hash law (no theorem applies; the model is not faithful there)",
                 {"kind": "correspondence", "case": case, "op_index": api[0], "field": api[1],
                  "implementation": api[2], "model": api[3]}, found_input=False)
        return
    # only a non-API observable differs
    i, field, iv, mv = d
    if field == "align" and not lawless:
        # the implementation's own Keys()/Values()/Get disagree with each other: Values()[i] is not the value
        # stored under Keys()[i], although this container lists both in the same order (theorems
        # linkedmap_keys_values_aligned / multi_treemap_keys_values_aligned) - a concrete failing history
        c.report("%s:%s:align" % (pid_tag, container),
                 "%s: Values()[i] is not the value of Keys()[i] (%s) after %s" % (container, iv, ",".join(ops[:i + 1])),
                 {"kind": "history", "container": container, "code": code, "equals": eq, "ops": ops[:i + 1],
                  "alignment": iv, "how": "echo '%s' | harness/bin/h c03" % case_line((container, code, eq, ops[:i + 1]))})
        return
    if field == "nil":
        # nil vs empty-non-nil result of Keys()/Values(): not promised by the property text (C03 speaks about the
        # listed entries only), but the model encodes what the code returns (make(..., 0, n), never nil)
        c.report("%s:%s:nil" % (pid_tag, container),
                 "%s: nil-ness of the Keys()/Values() result changed (implementation nil flags %r, the code modelled returns "
                 "%r; K = Keys() nil, V = Values() nil) after %s: correspondence broken, no property clause violated"
                 % (container, iv, mv, ",".join(ops[:i + 1])),
                 {"kind": "correspondence", "case": case, "op_index": i, "field": field, "implementation": iv, "model": mv},
                 found_input=False)
        return
    if field == "dump" and "#" in iv:
        wf = c.run_model("hash-wf", "%s %s %s\n" % (code, eq, iv))
        if wf and wf[0] == "false" and not lawless:
            c.report("%s:%s:wf-dump" % (pid_tag, container),
                     "the bucket table of %s violates the invariant WF (DESIGN 12.2) after %s" % (container, ",".join(ops[:i + 1])),
                     {"kind": "state", "container": container, "code": code, "equals": eq, "ops": ops[:i + 1],
                      "dump": iv, "model_dump": mv,
                      "how": "echo '%s' | harness/bin/h c03" % case_line((container, code, eq, ops[:i + 1]))})
            return
    c.report("%s:%s:whitebox:%s" % (pid_tag, container, field),
             "implementation and model differ only on the white-box observable %s (API observables agree, the invariant holds on the dump): "
             "the correspondence is broken, hashmap_refines_map / WF no longer transfer to this code" % field,
             {"kind": "correspondence", "case": case, "op_index": i, "field": field, "implementation": iv, "model": mv},
             found_input=False)


def run_batch(c, binary, hs, pid_tag, check_spec=True):
    """run both sides on the histories, compare, search on disagreement. -> (#agreeing, model lines)"""
    text = "\n".join(case_line(h) for h in hs) + "\n"
    try:
        _, impl, err = c.run_impl(binary, ["c03"], text, timeout=IMPL_TIMEOUT)
    except subprocess.TimeoutExpired as e:
        # the implementation does not terminate on one of these histories (e.g. a cyclic chain)
        done = (e.stdout or b"")
        done = done.decode() if isinstance(done, bytes) else done
        k = len(done.splitlines())
        c.report("%s:hang" % pid_tag, "the implementation did not terminate within %ds on history #%d of the batch" % (IMPL_TIMEOUT, k),
                 {"kind": "history", "case": case_line(hs[k]) if k < len(hs) else None,
                  "how": "echo '<case>' | harness/bin/h c03"})
        return 0, []
    model = c.run_model("hash", text)
    spec = c.run_model("hash-spec", text) if check_spec else None
    good = 0
    nops = 0
    for i, h in enumerate(hs):
        il = impl[i] if i < len(impl) else "<missing>"
        ml = model[i] if i < len(model) else "<missing>"
        nops += len(h[3])
        if first_diff(h[0], il, ml, eq=h[2]) is None:
            good += 1
        else:
            examine(c, binary, h, il, ml, pid_tag)
        if spec is not None and not h[1].startswith("L"):
            # the theorem, observed: the extracted model and the extracted specification agree
            ds = first_diff(h[0], ml, spec[i], api_only=True, eq=h[2], a_model=True)
            if ds is not None:
                c.report("%s:%s:extracted-model-vs-spec" % (pid_tag, h[0]),
                         "extracted model and extracted specification differ on %s (contradicts the refinement theorem: extraction or driver defect)" % ds[1],
                         {"kind": "extraction", "case": case_line(h), "op_index": ds[0], "model": ds[2], "spec": ds[3]},
                         found_input=False)
        c.note_case(case_line(h), h[4])
    c.cov["ops_compared"] = c.cov.get("ops_compared", 0) + nops
    c.cov["traces_validated_against_impl"] += good
    return good, model


def run_decor(c, binary, backing, n=None, nops=60, pid_tag=None):
    """LinkedMap + MultiMap over the given backing ("hash" | "tree"): implementation vs model."""
    assert backing in ("hash", "tree")
    pid_tag = pid_tag or c.pid
    containers = ["lhm", "mhm"] if backing == "hash" else ["ltm", "mtm"]
    if n is None:
        n = 160 if c.tier == "quick" else 8000
    r = random.Random(c.seed * 7919 + (1 if backing == "hash" else 2))
    stats = new_stats()
    good = 0
    left = n
    while left > 0:
        m = min(left, 2000)
        hs = gen_histories(r, containers, m, nops, stats)
        g, _ = run_batch(c, binary, hs, pid_tag)
        good += g
        left -= m
    c.cov["decor_" + backing] = {"histories": n, "agree": good, "containers": containers, "generator": stats}
    for h in hs[:1]:
        c.sample(case_line(h)[:300])
    return good
