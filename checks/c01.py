"""C01 — tree-backed containers refine an abstract sorted map: proof layer + correspondence of the API
observables (return value, Size()/Len(), KeyValues()/Keys()/Values() after every op) between the real
containers and the extracted model; on a disagreement the abstract map of AbsMapModel.v (the specification
the theorem rb_refines_map mentions) decides, and the failing history is delta-minimised."""
import sys

import decor
import rbcommon as rb


def on_disagreement(c, binary, ln, il, ml, d):
    cont, cmpn, items = rb.case_items(ln)     # (op, observed?) pairs: re-runs keep the observation pattern
    ops = [o for o, _ in items]
    i, fld, ri, rm = d
    opn = rb.OPNAME.get((cont, ops[i].split(",")[0]), "?") if i < len(ops) else "?"
    sig = "C01:%s:%s" % (cont, opn if not rb.is_abort(ri[0]) else "panic-or-hang")   # coarse: container + operation
    if any(len(v) > 2 and v[2] == sig for v in c.violations) or len(c.violations) >= 6:
        c.cov["disagreeing_histories"] = c.cov.get("disagreeing_histories", 0) + 1
        return
    c.cov["disagreeing_histories"] = c.cov.get("disagreeing_histories", 0) + 1

    def both(cand):
        line = rb.line_of(cont, cmpn, cand)
        impl = rb.run_impl(c, binary, [line], timeout=60)
        spec = rb.run_spec(c, [line])
        a = impl[0]
        return line, a, spec[0], rb.first_diff(cont, a, spec[0], rb.API)

    line, a, sp, ds = both(items)
    if ds is None:
        # the implementation agrees with the abstract map but not with the concrete model: the refinement
        # theorem's model no longer describes this code
        c.report(sig + ":model", "%s: implementation and model disagree on %s after %s, but the abstract map agrees "
                 "with the implementation" % (rb.CONT_NAME[cont], rb.FIELD[fld], opn),
                 {"kind": "correspondence", "case": ln[:4000], "op_index": i, "implementation": ";".join(ri)[:2000],
                  "model": ";".join(rm)[:2000]}, found_input=False)
        return
    trunc = items if a.startswith("<") else items[:ds[0] + 1]     # a hang / crash loses the whole line
    mini = rb.minimise(trunc, lambda cand: both(cand)[3] is not None)
    comp = rb.compact_items(mini, cmpn)
    if both(comp)[3] is not None:
        mini = comp
    line, a, sp, ds = both(mini)
    j, fl, ra, rs = ds
    bits = "".join(b for _, b in mini)
    mini = [o for o, _ in mini]
    opn2 = rb.OPNAME.get((cont, mini[j].split(",")[0]), "?") if j < len(mini) else "?"
    c.report(sig,
             "%s (comparator %s): after %s the %s is %r, an abstract sorted map gives %r" % (
                 rb.CONT_NAME[cont], cmpn, opn2, rb.FIELD[fl], ra[fl] if fl < len(ra) else ra, rs[fl] if fl < len(rs) else rs),
             {"kind": "history", "container": rb.CONT_NAME[cont], "comparator": cmpn, "ops": mini,
              "state_observed_after_op": bits, "first_diverging_op": j, "implementation_record": ";".join(ra)[:2000], "abstract_map_record": ";".join(rs)[:2000],
              "record_format": "ret;len;keys;vals;shape;sizefield;parentflag;calls",
              "original_history_ops": len(ops),
              "how": "echo '%s' | <harness> c01      (expected: echo ... | ocaml/modelrun rb spec)" % line[:3000]})


def main(tier):
    c = rb.run("C01", tier, on_disagreement, rb.API)
    # the tree-backed LINKED and MULTI maps (props/C01_decor.v): the decorator correspondence run of
    # checks/decor.py over the tree backing (harness package c03: containers ltm / mtm)
    binary, log = c.build_harness(pkgs=["c01", "c03"])
    if binary is None:
        c.report("build", "harness (c01 + c03) does not build against the repository",
                 {"kind": "build", "log": log[-3000:]}, found_input=False)
    else:
        decor.run_decor(c, binary, "tree")
    c.finish(
        level="proof",
        rule="case = one history (container in {tree.RBTree, mapx.TreeMap, set.TreeSet} x comparator in {asc, desc, by-half, "
             "strings} x insertion order x deletion order), generated from VERIF_SEED: ~60% valid ops, ~20% duplicates, ~20% absent keys, "
             "grow/churn/drain phases; after every op (every stride-th op for sizes > 64) return value, Size()/Len(), keys and values are "
             "compared with the extracted model; plus the bounded-exhaustive histories (every reachable shape up to the bound x every Add "
             "into every gap x every Delete) and the sparse-observation histories (the full-state observers and Size()/Len() run only after ~1/3 of the ops and never inside runs of 2-5 size-neutral mutations such as Delete-then-Add; return values still compared at every op). non-trivial = at least 3 successful insertions/deletions; distinct by md5 of the case text",
        assumptions=["the user's comparator is a strict weak order (Section hypotheses of the theorems: antisymmetry, transitivity of <, "
                     "compatibility of = with <); discharged for asc/desc/by-half in props/C01.v",
                     "the hand-written model RBModel.v/TreeMapModel.v describes internal/tree, tree, mapx.TreeMap, set.TreeSet "
                     "(checked by this differential run on API observables and by C02's run on exact shapes)",
                     "LinkedMap / MultiMap over the tree: theorems in props/C01_decor.v, correspondence by checks/decor.py (called from this check)"],
        trusted_base=rb.TRUSTED + ["no axioms (Print Assumptions: closed under the global context)"])


if __name__ == "__main__":
    main(sys.argv[1] if len(sys.argv) > 1 else "quick")
