"""C02 — the red-black tree stays balanced: proof layer (props/C02.v) + correspondence of the WHITE-BOX
observables after every op: exact shape and colours (hook dump) = the model's tree, parent-pointer flag clear,
size field, and comparator invocations per call = the model's cmp_calls.  On a disagreement the invariant
walker of rbcommon.py decides the property itself on the implementation's dump (black root, no red-red,
equal black height, BST order, size = node count, parent links, calls <= 2*log2(n+1))."""
import sys

import rbcommon as rb


def on_disagreement(c, binary, ln, il, ml, d):
    cont, cmpn, items = rb.case_items(ln)     # (op, observed?) pairs: re-runs keep the observation pattern
    ops = [o for o, _ in items]
    i, fld, ri, rm = d
    c.cov["disagreeing_histories"] = c.cov.get("disagreeing_histories", 0) + 1
    opn = rb.OPNAME.get((cont, ops[i].split(",")[0]), "?") if i < len(ops) else "?"

    def impl_of(cand):
        line = rb.line_of(cont, cmpn, cand)
        impl = rb.run_impl(c, binary, [line], timeout=60)
        return line, impl[0]

    walk_of = lambda cand: rb.walk_history(cont, cmpn, [o for o, _ in cand], impl_of(cand)[1])
    line, a = impl_of(items)                    # the original observation pattern ...
    w = rb.walk_history(cont, cmpn, ops, a)
    if w is None:                               # ... and, for the walker only, every state observed
        full = [(o, "1") for o in ops]
        if walk_of(full) is not None:
            items = full
            line, a = impl_of(items)
            w = rb.walk_history(cont, cmpn, ops, a)
    if w is not None:
        sig = "C02:%s:invalid-tree" % cont                   # coarse: container + verdict
        if any(len(v) > 2 and v[2] == sig for v in c.violations) or len(c.violations) >= 6:
            return
        trunc = items[:w[0] + 1]
        bad = lambda cand: walk_of(cand) is not None
        mini = rb.minimise(trunc, bad)
        comp = rb.compact_items(mini, cmpn)
        if bad(comp):
            mini = comp
        line, a = impl_of(mini)
        mini = [o for o, _ in mini]
        j, reasons = rb.walk_history(cont, cmpn, mini, a)
        rec = rb.records(a)[j]
        opn2 = rb.OPNAME.get((cont, mini[j].split(",")[0]), "?")
        c.report(sig, "%s (comparator %s): after %s the tree is not a valid red-black tree / exceeds the bound: %s" % (
            rb.CONT_NAME[cont], cmpn, opn2, "; ".join(reasons)),
                 {"kind": "history", "container": rb.CONT_NAME[cont], "comparator": cmpn, "ops": mini, "bad_after_op": j,
                  "violated": reasons, "implementation_shape": rec[4][:3000], "size_field": rec[5], "parent_flag": rec[6],
                  "comparator_calls": rec[7], "original_history_ops": len(ops),
                  "how": "echo '%s' | <harness> c01   (record: ret;len;keys;vals;shape;sizefield;parentflag;calls)" % line[:3000]})
        return
    recs = rb.records(a)
    panicked = any(rb.is_abort(r[0]) for r in recs)
    sig = "C02:%s:%s:%s" % (cont, "panic" if panicked else "differs", rb.FIELD[fld] if not panicked else opn)
    if any(len(v) > 2 and v[2] == sig for v in c.violations) or len(c.violations) >= 6:
        return

    def differs(cand):
        l2, a2 = impl_of(cand)
        m2 = c.run_model("rb", l2 + "\n")[0]
        return rb.first_diff(cont, a2, m2, rb.WHITE) is not None and \
            rb.walk_history(cont, cmpn, [o for o, _ in cand], a2) is None

    mini = items
    if differs(items):
        d1 = rb.first_diff(cont, a, c.run_model("rb", line + "\n")[0], rb.WHITE)
        # a hang / crash loses the whole line: the culprit may be any op, keep them all
        mini = rb.minimise(items if a.startswith("<") else items[:d1[0] + 1], differs, budget=160)
    l2, a2 = impl_of(mini)
    m2 = c.run_model("rb", l2 + "\n")[0]
    d2 = rb.first_diff(cont, a2, m2, rb.WHITE)
    mini = [o for o, _ in mini]
    if d2 is None:                       # not reproducible in a fresh run: report the original observation
        mini, l2, d2 = ops, ln, (i, fld, ri, rm)
    j, fl, ra, rm2 = d2
    c.report(sig,
             "%s (comparator %s): %s — every state the walker could see is a valid red-black tree within the bound, but the %s "
             "differs from the model's after %s; the balance theorems are about the model and no longer transfer" % (
                 rb.CONT_NAME[cont], cmpn, "the implementation panicked" if panicked else "shape correspondence lost",
                 rb.FIELD[fl], opn),
             {"kind": "correspondence", "container": rb.CONT_NAME[cont], "comparator": cmpn, "ops": mini, "first_diverging_op": j,
              "field": rb.FIELD[fl], "implementation_record": ";".join(ra)[:3000], "model_record": ";".join(rm2)[:3000],
              "theorems_not_transferring": c.cov.get("theorems", []),
              "how": "echo '%s' | <harness> c01   vs   | ocaml/modelrun rb" % l2[:3000]}, found_input=False)


def main(tier):
    c = rb.run("C02", tier, on_disagreement, rb.WHITE, walk_all=True)
    # pointer-level model (literal transcription of the Go code incl. parent pointers; props/C02_ptr.v proves it
    # equal to the recursive model and proves parent-link consistency): compared with the implementation as well
    try:
        import part_rbptr
        binary, log = c.build_harness(pkgs=["c01"])
        if binary is not None:
            part_rbptr.run(c, binary, tier)
    except Exception:
        import traceback
        c.report("C02:rbptr:crash", "check part rbptr crashed", {"kind": "internal", "trace": traceback.format_exc()[-3000:]}, found_input=False)
    c.finish(
        level="proof",
        rule="same histories as C01 (container x comparator x insertion order x deletion order from VERIF_SEED, ~60% valid ops + duplicates + "
             "absent keys, plus the bounded-exhaustive shape x op histories); compared after every op (every stride-th op for sizes > 64): "
             "exact shape+colours from the white-box dump = model's tree, size field, parent-pointer flag = 0, comparator invocations = "
             "cmp_calls (TreeMap.Put that updates = two look-ups). The invariant walker additionally decides the property on the "
             "implementation's own dumps (all histories in quick, a 1/25 sample + all bounded-exhaustive ones in thorough). "
             "Plus the sparse-observation histories of rbcommon.gen_sparse (state dumped only after ~1/3 of the ops, never inside size-neutral "
             "Delete-then-Add runs; comparator-call counts still compared at every op). "
             "non-trivial = at least 3 successful insertions/deletions; distinct by md5 of the case text",
        assumptions=["the user's comparator is a strict weak order (Section hypotheses of the theorems)",
                     "parent-link consistency is a theorem about the pointer-level model RBPtrModel.v (props/C02_ptr.v: parent_links_consistent; "
                     "ptr_refines_rec proves that model equal to the recursive one for every history); on the implementation it is "
                     "additionally checked after every observed op by the hook's flag",
                     "the hand-written model RBModel.v is the object of the balance theorems; it is tied to internal/tree by the exact "
                     "shape comparison of this check"],
        trusted_base=rb.TRUSTED)


if __name__ == "__main__":
    main(sys.argv[1] if len(sys.argv) > 1 else "quick")
