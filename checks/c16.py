"""C16 — slice / mapx / pair helpers: proof layer + differential correspondence against
/repo/slice, /repo/internal/slice, /repo/mapx/map.go, /repo/tuple/pair/pair.go."""
import itertools
import os
import random
import re

from common import Check, coq_z

SET2 = ["UnionSet", "IntersectSet", "DiffSet", "SymmetricDiffSet", "ContainsAny", "ContainsAll"]
FUNC2 = [f + "Func" for f in SET2]
EQS = ["eq", "mod3", "le", "lt"]
AGG = ["Max", "Min", "Sum"]
MAPFS_SMALL = ["add:1", "add:-2", "mul:2", "mul:-1", "const:7", "idx", "idxadd", "rem3"]


def sl(xs):
    return "nil" if xs is None else "[" + ",".join(str(x) for x in xs) + "]"


def pl(ps):
    return "nil" if ps is None else "[" + ",".join("%d:%d" % p for p in ps) + "]"


def fl(xs):
    return "nil" if xs is None else "[" + ",".join(str(x) for x in xs) + "]"


class Gen:
    def __init__(self, r):
        self.r = r

    def alphabet(self):
        r = self.r
        k = r.choice([2, 3, 3, 4, 6, 10])
        base = r.choice([0, 0, 1, -2, -5, 100, -1000])
        return list(range(base, base + k))

    def slice(self, alpha=None, maxlen=8):
        r = self.r
        x = r.random()
        if x < 0.08:
            return None
        if x < 0.16:
            return []
        alpha = alpha or self.alphabet()
        return [r.choice(alpha) for _ in range(r.randint(1, maxlen))]

    def pair_of_slices(self):
        """overlapping / disjoint / equal-as-sets / subset pairs"""
        r = self.r
        alpha = self.alphabet()
        a = self.slice(alpha)
        mode = r.random()
        if mode < 0.45:
            b = self.slice(alpha)
        elif mode < 0.6:
            b = self.slice([x + len(alpha) + 3 for x in alpha])          # disjoint
        elif mode < 0.75 and a:
            b = list(a)
            r.shuffle(b)
            b = b[: r.randint(0, len(b))]                                   # sub-multiset
        elif mode < 0.85 and a:
            b = [r.choice(a) for _ in range(r.randint(1, 8))]              # same support
        else:
            b = self.slice(alpha + [x + len(alpha) for x in alpha])       # partial overlap
        return a, b

    def elem_for(self, a):
        r = self.r
        if a and r.random() < 0.75:
            return r.choice(a)
        return r.choice([0, 1, -1, 2, 5, 99])

    def pred(self, a, idx_ok=False):
        r = self.r
        c = self.elem_for(a)
        opts = ["eq:%d" % c, "lt:%d" % c, "lt:%d" % (c + 1), "even", "odd", "true", "false"]
        if idx_ok:
            opts += ["idxlt:%d" % r.randint(-1, (len(a) if a else 0) + 1), "idxeven"]
        return r.choice(opts)

    def mapf(self):
        r = self.r
        return r.choice(MAPFS_SMALL + ["add:%d" % r.randint(-9, 9), "mul:%d" % r.randint(-3, 3), "const:%d" % r.randint(-5, 5)])

    def index(self, a):
        r = self.r
        n = len(a) if a else 0
        if r.random() < 0.9:
            return r.randint(-1, n + 1)
        return r.choice([-2, -100, n + 2, n + 100, 1 << 40, -(1 << 40)])

    def pairs(self):
        r = self.r
        x = r.random()
        if x < 0.1:
            return None
        if x < 0.2:
            return []
        alpha = self.alphabet()
        return [(r.choice(alpha), r.randint(-9, 9)) for _ in range(r.randint(1, 7))]

    def ty(self):
        """element type + memory layout of the slice arguments: @offset,spare (sub-slice of a larger
        array with spare capacity behind it); no suffix = the slice is its whole backing array"""
        t = "s" if self.r.random() < 0.3 else "i"
        if self.r.random() < 0.55:
            t += "@%d,%d" % (self.r.choice([0, 0, 1, 2, 3]), self.r.choice([0, 1, 2, 4]))
        return t


def random_cases(c, per):
    """`per` random calls of every function"""
    r = random.Random(c.seed)
    g = Gen(r)
    out = []
    for _ in range(per):
        a, b = g.pair_of_slices()
        for f in SET2:
            out.append("%s %s %s %s" % (g.ty(), f, sl(a), sl(b)))
        a, b = g.pair_of_slices()
        for f in FUNC2:
            out.append("%s %s %s %s %s" % (g.ty(), f, r.choice(EQS), sl(a), sl(b)))
        a = g.slice()
        x = g.elem_for(a)
        for f in ["Contains", "Index", "LastIndex", "IndexAll"]:
            out.append("%s %s %s %d" % (g.ty(), f, sl(a), x))
        a = g.slice()
        p = g.pred(a)
        for f in ["ContainsFunc", "IndexFunc", "LastIndexFunc", "IndexAllFunc", "Find", "FindAll"]:
            out.append("%s %s %s %s" % (g.ty(), f, sl(a), p))
        a = g.slice()
        out.append("%s FilterMap %s %s %s" % (g.ty(), sl(a), g.mapf(), g.pred(a, True)))
        out.append("%s Map %s %s" % (g.ty(), sl(a), g.mapf()))
        out.append("%s ToMap %s %s" % (g.ty(), sl(a), g.mapf()))
        out.append("%s ToMapV %s %s %s" % (g.ty(), sl(a), g.mapf(), g.mapf()))
        out.append("%s FilterDelete %s %s" % (g.ty(), sl(a), g.pred(a, True)))
        a = g.slice()
        out.append("%s Reverse %s" % (g.ty(), sl(a)))
        out.append("%s ReverseSelf %s" % (g.ty(), sl(a)))
        out.append("%s Delete %s %d" % (g.ty(), sl(a), g.index(a)))
        out.append("%s Add %d %s %d %d" % (g.ty(), r.randint(0, 1), sl(a), r.randint(-9, 99), g.index(a)))
        # aggregates: small values, and values near the 64-bit boundary (Sum wraps)
        if r.random() < 0.7:
            a = g.slice()
        else:
            big = [(1 << 62), (1 << 63) - 1, -(1 << 63), -(1 << 62), 1, -1, 12345]
            a = [r.choice(big) for _ in range(r.randint(1, 6))]
        for f in AGG:
            out.append("i%s %s %s" % (r.choice(LAYOUTS), f, sl(a)))
        m = g.pairs()
        for f in ["Keys", "Values", "KeysValues", "SplitPairs", "FlattenPairs"]:
            out.append("%s %s %s" % (g.ty(), f, pl(m)))
        ks, vs = g.slice(), g.slice()
        if ks is not None and vs is not None and r.random() < 0.7:
            vs = [r.randint(-9, 9) for _ in ks]
        out.append("%s MapxToMap %s %s" % (g.ty(), sl(ks), sl(vs)))
        out.append("%s NewPairs %s %s" % (g.ty(), sl(ks), sl(vs)))
        x = r.random()
        flat = None if x < 0.1 else [r.randint(-5, 5) for _ in range(r.randint(0, 9))]
        if flat and r.random() < 0.25:
            flat[r.randrange(len(flat))] = "x"
        out.append("%s PackPairs %s" % (g.ty(), fl(flat)))
    return out


LONG_LENGTHS = list(range(9, 41)) + [63, 64, 65, 66, 127, 128, 129, 130]
AGG2 = ["MaxI8", "MinI8", "SumI8", "MaxU8", "MinU8", "SumU8", "MaxF64", "MinF64", "NewPair", "PairSplit", "PairString"]


def long_cases(c):
    """LONG inputs (lengths 9..40, 63..66, 127..130, and 1000 for a few functions) with many duplicates, so that result
    sizes cross 16 / 32 / 64: every function whose Go code pre-allocates or appends in a loop"""
    r = random.Random(c.seed + 7)
    g = Gen(r)
    out = []
    for L in LONG_LENGTHS:
        k = r.choice([2, 3, 5, L, 2 * L])                # few distinct values (duplicates) or mostly distinct
        alpha = list(range(1, k + 1))
        a = [r.choice(alpha) for _ in range(L)]
        b = [r.choice(alpha + [x + k // 2 for x in alpha]) for _ in range(r.choice([L, L // 2, L + 3]))]
        x = r.choice(a)
        ty = g.ty
        for f in SET2:
            out.append("%s %s %s %s" % (ty(), f, sl(a), sl(b)))
        for f in FUNC2:
            out.append("%s %s %s %s %s" % (ty(), f, r.choice(["eq", "mod3"]), sl(a), sl(b)))
        out.append("%s IndexAll %s %d" % (ty(), sl(a), x))
        out.append("%s Index %s %d" % (ty(), sl(a), x))
        out.append("%s LastIndex %s %d" % (ty(), sl(a), x))
        for p in ("true", r.choice(["even", "odd", "lt:%d" % (k // 2 + 1), "eq:%d" % x])):
            out.append("%s IndexAllFunc %s %s" % (ty(), sl(a), p))
            out.append("%s FindAll %s %s" % (ty(), sl(a), p))
            out.append("%s Find %s %s" % (ty(), sl(a), p))
            out.append("%s FilterMap %s idxadd %s" % (ty(), sl(a), p))
            out.append("%s FilterDelete %s %s" % (ty(), sl(a), r.choice([p, "idxeven", "false"])))
        out.append("%s Map %s %s" % (ty(), sl(a), g.mapf()))
        out.append("%s ToMap %s %s" % (ty(), sl(a), r.choice(["add:1", "rem3", "mul:2"])))
        out.append("%s ToMapV %s %s idxadd" % (ty(), sl(a), r.choice(["add:1", "rem3"])))
        out.append("%s Reverse %s" % (ty(), sl(a)))
        out.append("%s ReverseSelf %s" % (ty(), sl(a)))
        for i in (0, L // 2, L - 1, L):
            out.append("%s Delete %s %d" % (ty(), sl(a), i))
            out.append("%s Add %d %s 9 %d" % (ty(), r.randint(0, 1), sl(a), i))
        for f in AGG:
            out.append("i%s %s %s" % (r.choice(LAYOUTS), f, sl(a)))
        ps = [(r.choice(alpha + list(range(100, 100 + L))), r.randint(-9, 9)) for _ in range(L)]
        for f in ["Keys", "Values", "KeysValues", "SplitPairs", "FlattenPairs"]:
            out.append("%s %s %s" % (ty(), f, pl(ps)))
        ks, vs = [p[0] for p in ps], [p[1] for p in ps]
        out.append("%s MapxToMap %s %s" % (ty(), sl(ks), sl(vs)))
        out.append("%s NewPairs %s %s" % (ty(), sl(ks), sl(vs)))
        out.append("%s NewPairs %s %s" % (ty(), sl(ks), sl(vs[:-1])))
        out.append("%s PackPairs %s" % (ty(), fl([x for p in ps for x in p])))
    a = [r.randint(0, 1999) for _ in range(1000)]
    b = [r.randint(1000, 2999) for _ in range(1000)]
    for line in ["IndexAllFunc %s even", "IndexAllFunc %s true", "FindAll %s even", "FilterMap %s idxadd odd", "Map %s add:1",
                 "Reverse %s", "ReverseSelf %s", "FilterDelete %s even", "Sum %s", "Max %s", "Min %s", "Delete %s 500", "Add 0 %s 9 500"]:
        out.append("i " + line % sl(a))
    for f in ("UnionSet", "IntersectSet", "DiffSet", "SymmetricDiffSet"):
        out.append("s %s %s %s" % (f, sl(a), sl(b)))
    return out


def f64_item(x):
    import struct
    bits = struct.unpack("<Q", struct.pack("<d", x))[0]
    mag = bits & ((1 << 63) - 1)
    key = -mag if bits >> 63 else mag                     # IEEE order of non-NaN values; -0.0 and +0.0 share key 0
    return (key, bits - (1 << 64) if bits >> 63 else bits)


def agg2_cases(c):
    """Max / Min / Sum at int8 and uint8 (extremes; Sum wraps as the Go code does), Max / Min at float64 without NaN
    (as (order key, bit pattern), incl. -0.0 and +-Inf), and NewPair / Split / String of tuple/pair"""
    r = random.Random(c.seed + 11)
    out = []
    inf = float("inf")
    fvals = [0.0, -0.0, 1.5, -1.5, inf, -inf, 1e308, -1e308, 5e-324, -5e-324, 2.0, 3.25, 1.0, -1.0]
    for _ in range(60):
        for lo, hi, sfx in ((-128, 127, "I8"), (0, 255, "U8")):
            n = r.choice([0, 1, 2, 3, 5, 9])
            a = None if r.random() < 0.1 else [r.choice([lo, hi, lo + 1, hi - 1, 0, 1, r.randint(lo, hi)]) for _ in range(n)]
            for f in ("Max", "Min", "Sum"):
                out.append("i %s%s %s" % (f, sfx, sl(a)))
        fs = None if r.random() < 0.1 else [r.choice(fvals) for _ in range(r.choice([0, 1, 2, 3, 6]))]
        item = pl(None if fs is None else [f64_item(x) for x in fs])
        out.append("i MaxF64 %s" % item)
        out.append("i MinF64 %s" % item)
        k, v = r.choice([0, 1, -1, 7, -12, 1 << 62, -(1 << 63), r.randint(-999, 999)]), r.randint(-50, 50)
        for f in ("NewPair", "PairSplit", "PairString"):
            out.append("i %s %d %d" % (f, k, v))
    return out


def all_slices(alpha, maxlen):
    res = [None]
    for n in range(maxlen + 1):
        res += [list(t) for t in itertools.product(alpha, repeat=n)]
    return res


LAYOUTS = ["", "@1,0", "@0,2", "@2,3"]


def tyn(n):
    """deterministic element type / layout for the exhaustive part"""
    return "is"[n % 2] + LAYOUTS[(n // 2) % 4]


ALPHA = [1, 2, 4]      # 3 letters; 1 and 4 are congruent mod 3, so `mod3` is a non-trivial equivalence


def exhaustive_cases(maxpair, maxunary):
    """all pairs of slices over a 3-letter alphabet up to length maxpair for the binary set
    functions; all slices up to length maxunary for the unary ones (all parameters)."""
    out = []
    sls = all_slices(ALPHA, maxpair)
    n = 0
    for a in sls:
        for b in sls:
            sa, sb = sl(a), sl(b)
            for f in SET2:
                n += 1
                out.append("%s %s %s %s" % (tyn(n), f, sa, sb))
            for f in FUNC2:
                for e in ("eq", "mod3", "le"):
                    n += 1
                    out.append("%s %s %s %s %s" % (tyn(n), f, e, sa, sb))
    preds = ["eq:1", "eq:4", "lt:2", "lt:4", "even", "odd", "true", "false"]
    ipreds = preds + ["idxlt:2", "idxeven"]
    for a in all_slices(ALPHA, maxunary):
        sa = sl(a)
        ln = len(a) if a else 0
        for x in ALPHA + [3]:
            for f in ["Contains", "Index", "LastIndex", "IndexAll"]:
                n += 1
                out.append("%s %s %s %d" % (tyn(n), f, sa, x))
        for p in preds:
            for f in ["ContainsFunc", "IndexFunc", "LastIndexFunc", "IndexAllFunc", "Find", "FindAll"]:
                n += 1
                out.append("%s %s %s %s" % (tyn(n), f, sa, p))
        for p in ipreds:
            n += 1
            out.append("%s FilterDelete %s %s" % (tyn(n), sa, p))
            out.append("%s FilterMap %s idxadd %s" % (tyn(n), sa, p))
        for f in MAPFS_SMALL:
            n += 1
            out.append("%s Map %s %s" % (tyn(n), sa, f))
            out.append("%s ToMap %s %s" % (tyn(n), sa, f))
            out.append("%s ToMapV %s %s idxadd" % (tyn(n), sa, f))
        out.append("%s Reverse %s" % (tyn(n), sa))
        out.append("%s ReverseSelf %s" % (tyn(n), sa))
        for i in range(-1, ln + 2):
            out.append("%s Delete %s %d" % (tyn(n), sa, i))
            out.append("%s Add 0 %s 9 %d" % (tyn(n), sa, i))
            out.append("%s Add 1 %s 9 %d" % (tyn(n), sa, i))
        for f in AGG:
            out.append("i%s %s %s" % (LAYOUTS[n % 4], f, sa))
    # maps / pairs: all key sequences up to length 4 with values = position
    for ks in all_slices(ALPHA, min(4, maxunary)):
        vs = None if ks is None else list(range(10, 10 + len(ks)))
        ps = None if ks is None else list(zip(ks, vs))
        for f in ["Keys", "Values", "KeysValues", "SplitPairs", "FlattenPairs"]:
            out.append("i %s %s" % (f, pl(ps)))
        for v2 in (vs, None, [], (vs or [])[:-1], (vs or []) + [0]):
            out.append("s MapxToMap %s %s" % (sl(ks), sl(v2)))
            out.append("i NewPairs %s %s" % (sl(ks), sl(v2)))
        flat = None if ps is None else [x for p in ps for x in p]
        out.append("i PackPairs %s" % fl(flat))
        if flat:
            out.append("i PackPairs %s" % fl(flat[:-1]))
            for i in range(len(flat)):
                out.append("s PackPairs %s" % fl(flat[:i] + ["x"] + flat[i + 1:]))
    return out


MALFORMED = ["i Bogus [1]", "i UnionSet [1]", "i UnionSet [1] [2] [3]", "i Find [1] gt:3", "i Map [1] sq", "s IndexFunc [1] eq",
             "i UnionSetFunc ne [1] [2]", "i Index [a] 1", "i", "", "i Add 1 [1] 2", "i Keys [1:2:3]", "i Reverse 1,2",
             "i@1 Reverse [1]", "i@x,1 Reverse [1]"]


def gen_cases(c):
    full = c.tier == "thorough"
    cases = random_cases(c, 4000 if full else 330)
    cases += exhaustive_cases(4, 5) if full else exhaustive_cases(2, 3)
    cases += long_cases(c)
    cases += agg2_cases(c)
    cases += MALFORMED
    return cases


# ---------------- canonicalisation: results of map iteration are compared as sorted collections ----------------
SETRE = re.compile(r"(m?)\{([^}]*)\}")


def _key(item):
    return tuple(int(x) for x in item.split(":")) if item != "nil" else ()


def canon(line):
    def fix(m):
        body = m.group(2)
        if body in ("", "nil"):
            return m.group(0)
        return m.group(1) + "{" + ",".join(sorted(body.split(","), key=_key)) + "}"
    return SETRE.sub(fix, line)


def n_args(fn):
    """how many trailing fields of the observable line are `argument afterwards` fields"""
    if fn in SET2 or fn in FUNC2 or fn in ("MapxToMap", "NewPairs"):
        return 2
    if fn in ("Keys", "Values", "KeysValues", "MaxF64", "MinF64", "NewPair", "PairSplit", "PairString"):
        return 0
    return 1


def kind_of(fn, impl, model):
    """coarse class of a disagreement, for the signature"""
    fi, fm = impl.split(), model.split()
    if fi and fi[0] == "panic":
        return "panic"
    if fi == ["<missing>"] or impl == "badcase":
        return "harness"
    if len(fi) != len(fm):
        return "error" if any(x.startswith("err") for x in fi + fm) else "shape"
    k = n_args(fn)
    res_i, res_m = (fi[:-k], fm[:-k]) if k else (fi, fm)
    if res_i == res_m:
        return "argument-modified" if fn not in ("ReverseSelf", "FilterDelete", "Add", "Delete") else "argument"
    nilm = {"nil", "{nil}", "<nil>", "mnil", "fnil"}
    if any((a in nilm) != (b in nilm) for a, b in zip(res_i, res_m)):
        return "nil"
    if any(a.startswith("err") != b.startswith("err") for a, b in zip(res_i, res_m)):
        return "error"
    return "result"


# ---------------- Coq terms for the vm_compute cross-check ----------------
def cz(s):
    return coq_z(int(s))


def items(s):
    s = s[1:-1]
    return s.split(",") if s else []


def c_sl(s):
    return "None" if s == "nil" else "(Some [%s])" % "; ".join(cz(x) for x in items(s))


def c_pairs(s, nil="nil"):
    if s == nil:
        return "None"
    return "(Some [%s])" % "; ".join("(%s, %s)" % tuple(cz(y) for y in x.split(":")) for x in items(s))


def c_flat(s):
    if s == "nil":
        return "None"
    return "(Some [%s])" % "; ".join("FBad" if x == "x" else "FInt %s" % cz(x) for x in items(s))


def c_pred(p):
    k = p.split(":")
    return {"eq": lambda: "(PEq %s)" % cz(k[1]), "lt": lambda: "(PLt %s)" % cz(k[1]), "even": lambda: "PEven",
            "odd": lambda: "POdd", "true": lambda: "(PConst true)", "false": lambda: "(PConst false)",
            "idxlt": lambda: "(PIdxLt %s)" % cz(k[1]), "idxeven": lambda: "PIdxEven"}[k[0]]()


def c_mapf(f):
    k = f.split(":")
    return {"add": lambda: "(MAdd %s)" % cz(k[1]), "mul": lambda: "(MMul %s)" % cz(k[1]), "const": lambda: "(MConst %s)" % cz(k[1]),
            "idx": lambda: "MIdx", "idxadd": lambda: "MIdxAdd", "rem3": lambda: "MRem3"}[k[0]]()


def c_eq(e):
    return {"eq": "EEq", "mod3": "EMod3", "le": "ELe", "lt": "ELt"}[e]


def call_to_coq(case):
    w = case.split()[1:]
    f, a = w[0], w[1:]
    if f in SET2:
        return "(C%s %s %s)" % (f.replace("Symmetric", "Sym"), c_sl(a[0]), c_sl(a[1]))
    if f in FUNC2:
        return "(C%s %s %s %s)" % (f.replace("Symmetric", "Sym"), c_eq(a[0]), c_sl(a[1]), c_sl(a[2]))
    if f in ("Contains", "Index", "LastIndex", "IndexAll", "Delete"):
        return "(C%s %s %s)" % (f, c_sl(a[0]), cz(a[1]))
    if f in ("ContainsFunc", "IndexFunc", "LastIndexFunc", "IndexAllFunc", "Find", "FindAll", "FilterDelete"):
        return "(C%s %s %s)" % (f, c_sl(a[0]), c_pred(a[1]))
    if f == "FilterMap":
        return "(CFilterMap %s %s %s)" % (c_sl(a[0]), c_mapf(a[1]), c_pred(a[2]))
    if f in ("Map", "ToMap"):
        return "(C%s %s %s)" % (f, c_sl(a[0]), c_mapf(a[1]))
    if f == "ToMapV":
        return "(CToMapV %s %s %s)" % (c_sl(a[0]), c_mapf(a[1]), c_mapf(a[2]))
    if f in ("Reverse", "ReverseSelf", "Max", "Min", "Sum"):
        return "(C%s %s)" % (f, c_sl(a[0]))
    if f == "Add":
        return "(CAdd %s %s %s %s)" % ("true" if a[0] == "1" else "false", c_sl(a[1]), cz(a[2]), cz(a[3]))
    if f in ("Keys", "Values", "KeysValues", "SplitPairs", "FlattenPairs"):
        return "(C%s %s)" % (f, c_pairs(a[0]))
    if f in ("MapxToMap", "NewPairs"):
        return "(C%s %s %s)" % (f, c_sl(a[0]), c_sl(a[1]))
    if f == "PackPairs":
        return "(CPackPairs %s)" % c_flat(a[0])
    raise ValueError(case)


def ov_to_coq(tok):
    if tok.startswith("i:"):
        return "VInt %s" % cz(tok[2:])
    if tok.startswith("b:"):
        return "VBool %s" % ("true" if tok[2:] == "1" else "false")
    if tok == "panic":
        return "VPanic"
    if tok.startswith("err:"):
        return "VErr %s" % ("EIndex" if tok == "err:index" else "EOther")
    if tok == "nil" or tok.startswith("["):
        return "VSlice %s" % c_sl(tok)
    if tok == "{nil}":
        return "VSet None"
    if tok.startswith("{"):
        return "VSet %s" % c_sl("[" + tok[1:-1] + "]")
    if tok == "<nil>":
        return "VPairs None"
    if tok.startswith("<"):
        return "VPairs %s" % c_pairs("[" + tok[1:-1] + "]")
    if tok == "mnil":
        return "VMap None"
    if tok.startswith("m{"):
        return "VMap %s" % c_pairs("[" + tok[2:-1] + "]")
    if tok == "fnil":
        return "VFlat None"
    if tok.startswith("f["):
        return "VFlat %s" % c_flat(tok[1:])
    raise ValueError(tok)


CROSS_PRELUDE = """From Ekit Require Import Common SliceModel.
Definition zl_eqb (a b : list Z) : bool :=
  Nat.eqb (length a) (length b) && forallb (fun p => Z.eqb (fst p) (snd p)) (combine a b).
Definition opt_eqb {A} (f : A -> A -> bool) (a b : option A) : bool :=
  match a, b with None, None => true | Some x, Some y => f x y | _, _ => false end.
Definition pl_eqb (a b : list (Z * Z)) : bool := zl_eqb (map fst a) (map fst b) && zl_eqb (map snd a) (map snd b).
Definition fcode (f : fany) : list Z := match f with FInt z => [1; z] | FBad => [0; 0] end.
Definition fl_eqb (a b : list fany) : bool := zl_eqb (flat_map fcode a) (flat_map fcode b).
Definition ov_eqb (a b : ov) : bool :=
  match a, b with
  | VInt x, VInt y => Z.eqb x y
  | VBool x, VBool y => Bool.eqb x y
  | VSlice x, VSlice y | VSet x, VSet y => opt_eqb zl_eqb x y
  | VPairs x, VPairs y | VMap x, VMap y => opt_eqb pl_eqb x y
  | VFlat x, VFlat y => opt_eqb fl_eqb x y
  | VErr EIndex, VErr EIndex => true
  | VErr EIndex, VErr _ | VErr _, VErr EIndex => false
  | VErr _, VErr _ => true
  | VPanic, VPanic => true
  | _, _ => false
  end.
Fixpoint ovl_eqb (a b : list ov) : bool :=
  match a, b with
  | [], [] => true
  | x :: a', y :: b' => ov_eqb x y && ovl_eqb a' b'
  | _, _ => false
  end.
Definition check (c : call * list ov) : bool := ovl_eqb (run (fst c)) (snd c).
Definition cases : list (call * list ov) :=
"""


def main(tier):
    c = Check("C16", tier)
    c.proof_layer()
    c.ensure_modelrun()
    binary, log = (os.environ["C16_HARNESS"], "") if "C16_HARNESS" in os.environ else c.build_harness()   # env: development aid only
    if binary is None:
        c.report("C16:build", "harness does not build against /repo", {"kind": "build", "log": log[-3000:]}, found_input=False)
        finish(c)
    cases = gen_cases(c)
    text = "\n".join(cases) + "\n"
    rc, impl, err = c.run_impl(binary, ["c16"], text)
    model = c.run_model("slice", text)
    dist = {}
    for cs in cases:
        w = cs.split()
        fn = w[1] if len(w) > 1 else "<malformed>"
        if cs in MALFORMED:
            fn = "<malformed>"
        dist[fn] = dist.get(fn, 0) + 1
        c.note_case(cs, re.search(r"\[-?\d", cs) is not None)
    c.cov["case_distribution"] = dist
    c.cov["string_element_cases"] = sum(1 for cs in cases if cs.startswith("s"))
    c.cov["cases_with_offset_or_spare_capacity"] = sum(1 for cs in cases if "@" in cs.split(" ")[0])
    for cs in [x for x in cases if " SymmetricDiffSet " in x][:1] + [x for x in cases if " Add " in x][:1] + \
            [x for x in cases if " DiffSetFunc " in x][:1] + [x for x in cases if " FilterDelete " in x][:1] + \
            [x for x in cases if " MapxToMap " in x][:1]:
        c.sample(cs)
    if rc != 0 or len(impl) != len(cases):
        c.report("C16:harness:crash", "the harness stopped after %d of %d cases (uncaught panic?)" % (len(impl), len(cases)),
                 {"kind": "input", "case": cases[len(impl)] if len(impl) < len(cases) else None, "stderr": err[-2000:]})
    agree = 0
    mem_compared = {}
    for i, cs in enumerate(cases):
        o_full = impl[i] if i < len(impl) else "<missing>"
        m_full = model[i] if i < len(model) else "<missing>"
        o, _, o_mem = o_full.partition(" | ")
        m, _, m_mem = m_full.partition(" | ")
        w = cs.split()
        fn = w[1] if len(w) > 1 else "?"
        if m_mem:
            mem_compared[fn] = mem_compared.get(fn, 0) + 1
        if canon(o) == canon(m) and (not m_mem or o_mem == m_mem):
            agree += 1
            continue
        if canon(o) == canon(m):
            # memory level (SliceMemModel): which array the result lives in, nil-ness, len / cap of shared results,
            # and every cell of every argument's backing array (also outside [offset, offset+len))
            ri = [t for t in o_mem.split() if t.startswith("r@")]
            rm = [t for t in m_mem.split() if t.startswith("r@")]
            kind = "aliasing" if ri != rm else "argument-cells"
            c.report("C16:%s:memory-%s" % (fn, kind),
                     "%s: memory observables differ: the implementation gives %r, the header-level specification gives %r"
                     % (fn, o_mem, m_mem),
                     {"kind": "input", "case": cs, "implementation": o_full, "model": m_full,
                      "format": "<elem type i|s>[@offset,spare] <Func> <args>; after ' | ': r@nil | r@empty | r@<arg>+<cell>,<len>,<cap> "
                                "| r@new,<len> for each result slice, then every argument's whole backing array",
                      "how": "echo '<case>' | <harness> c16"})
            continue
        kind = kind_of(fn, canon(o), canon(m))
        # refinement property: the model's output is the specification, so this is a failing input
        c.report("C16:%s:%s" % (fn, kind),
                 "%s: the implementation gives %r, the specification gives %r" % (fn, canon(o), canon(m)),
                 {"kind": "input", "case": cs, "implementation": o, "model": m,
                  "format": "<elem type i|s> <Func> <args>; output = results, then each slice argument after the call",
                  "how": "echo '<case>' | <harness> c16"})
    c.cov["traces_validated_against_impl"] = agree
    c.cov["memory_observables_compared"] = mem_compared
    # cross-check the OCaml extraction against vm_compute inside Coq on a sample
    r = random.Random(c.seed + 1)
    good = [i for i, cs in enumerate(cases) if i < len(model) and model[i] != "badcase"
            and (cs.split() + ["", ""])[1] not in AGG2 and len(cs) < 600]
    idx = sorted(r.sample(good, min(300, len(good))))
    its = []
    for i in idx:
        its.append("(%s, [%s])" % (call_to_coq(cases[i]), "; ".join(ov_to_coq(t) for t in model[i].partition(" | ")[0].split())))
    v = CROSS_PRELUDE + "  [" + ";\n   ".join(its) + "].\n" + \
        "Definition bad := Eval vm_compute in length (filter (fun c => negb (check c)) cases).\nPrint bad.\n"
    rc, out = c.coq_crosscheck(v)
    okx = rc == 0 and re.search(r"bad\s*=\s*0(%nat)?\s", out.replace("\n", " ") + " ") is not None
    c.cov["coq_vm_compute_crosscheck"] = {"cases": len(idx), "agree": bool(okx)}
    if not okx:
        c.report("C16:extraction", "OCaml extraction and vm_compute disagree on the model's output",
                 {"kind": "extraction-crosscheck", "coq_output": out[-1500:]}, found_input=False)
    finish(c)


def finish(c):
    c.finish(
        level="proof",
        rule="one case = one call (function + arguments) of slice / mapx / pair, element type int or string (strings are the image of "
             "the ints under a bijection, predicates are evaluated on the decoded int); generated from VERIF_SEED: random slices with "
             "duplicates, nil vs empty, overlapping / disjoint / sub-multiset / same-support pairs, indices in [-1, len+1] plus far ones, "
             "predicate family (= c, < c, parity, const, index-based), equal family (==, mod 3, <=, <); plus exhaustively all pairs of "
             "slices over the alphabet {1,2,4} (and nil) up to length 2 (quick) / 4 (thorough) for the 12 binary set functions and all "
             "slices up to length 3 (quick) / 5 (thorough) for the unary ones with every parameter; every argument slice is printed "
             "again after the call (pure functions must leave it unchanged, in-place ones must show the modelled contents); results "
             "of Go map iteration are compared as sorted collections; a stream of LONG inputs (lengths 9..40, 63..66, 127..130 for every "
             "function that pre-allocates or appends in a loop, 1000 for a few; many duplicates, result sizes cross 16/32/64); Max/Min/Sum "
             "also at int8 / uint8 extremes (Sum wraps as the code does) and Max/Min at float64 without NaN (order key + bit pattern, -0.0, +-Inf); "
             "NewPair / Pair.Split / Pair.String; about half of the calls place every slice argument at an offset of a "
             "larger backing array with spare capacity (sentinel cells) and compare the memory observables predicted by the extracted "
             "header-level model SliceMemModel2.mem_run: result nil / empty / inside which argument array at which cell with which len and cap / "
             "in a new array, and every cell of every argument array after the call; non-trivial = some argument is non-empty; distinct by md5 of the case text",
        assumptions=["Go's append writes into the argument's backing array iff cap > len (Add's effect on the argument is modelled for both cases)",
                     "Go map iteration visits every key exactly once in an unspecified order (model: insertion order; compared as sets)",
                     "capacities of results in NEW arrays are not compared (growth policy of append is the runtime's); result identity is by address range of the argument arrays",
                     "float64 Sum is not modelled (needs IEEE rounding); NaN is excluded (Max/Min are order-dependent garbage on NaN by design of `>`)",
                     "errors are compared by class (index-out-of-range vs other), never by message"],
        trusted_base=["Coq 8.16.1 kernel + vm_compute (no native_compute)", "no axioms (Print Assumptions: closed under the global context)",
                      "extraction: ExtrOcamlBasic only, no Extract Constant; cross-checked against vm_compute on 300 cases per run",
                      "OCaml driver ocaml/drv_slice.ml, Go harness harness/c16, checks/c16.py (case generator, set canonicalisation)"])


if __name__ == "__main__":
    import sys
    main(sys.argv[1] if len(sys.argv) > 1 else "quick")
