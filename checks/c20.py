"""C20 — struct copiers (bean/copier): proof layer + differential correspondence.

The cases are PROGRAMS: a pair of Go struct types, constructor options and a sequence of calls.
The model side reads them as S-expressions (ocaml/drv_copier.ml); for the implementation side this
script GENERATES a Go source file (type declarations, value literals, converter closures, calls)
that is overlaid over harness/c20/cases_gen.go and compiled into the harness.

  (case (src TY) (dst TY) (opts OPT*) (calls CALL*))
  TY  ::= (b KIND) | (n ID KIND) | (s NAME (ID EXP TY)*) | (p TY) | (sl TY) | (m TY TY) | (t) | (o OKIND ID)
  VAL ::= (i Z) | (x HEX) | (st VAL*) | (nil) | (ptr VAL) | (sln) | (sl VAL*) | (mn) | (mp (VAL VAL)*) | (op Z)
  OPT ::= (ig ID*) | (cv ID nil) | (cv ID (conv TY TY FN));  FN ::= (const VAL) | (fail) | (add Z) | (id) | (len)
  CALL::= (copy SRC OPT*) | (copyto SRC DST OPT*) | (pure VAL VAL)         SRC, DST ::= nil | VAL
"""
import os
import random
import re
import struct
import subprocess
import sys

from common import Check, HARNESS, GOENV, coq_list

# ------------------------------------------------------------------ the universe
INT_RANGE = {"int": (-(1 << 63), (1 << 63) - 1), "int8": (-128, 127), "int16": (-(1 << 15), (1 << 15) - 1),
             "int32": (-(1 << 31), (1 << 31) - 1), "int64": (-(1 << 63), (1 << 63) - 1),
             "uint": (0, (1 << 64) - 1), "uint8": (0, 255), "uint16": (0, (1 << 16) - 1), "uint32": (0, (1 << 32) - 1),
             "uint64": (0, (1 << 64) - 1), "uintptr": (0, (1 << 64) - 1)}
INT_KINDS = list(INT_RANGE)
KINDS = ["bool"] + INT_KINDS + ["float32", "float64", "complex64", "complex128", "string"]
COQ_KIND = {k: "K" + k[0].upper() + k[1:] for k in KINDS}
COQ_OKIND = {"chan": "OChan", "array": "OArray", "func": "OFunc", "iface": "OIface", "foreign": "OUnsafe"}
# ("o", "foreign", 77): the dynamic type of harness value ErrUser (*errors.errorString) - a type outside the
# generated universe (model: Other OUnsafe 77), only ever the dynamic type of a converter result
ZONE_UNIT = 10 ** 12     # time.Time leaves: see harness/c20 showTime
FOREIGN = ("o", "foreign", 77)
ANY_ = ("o", "iface", 1)
ERROR_ = ("o", "iface", 2)
GO_OTHER = {("chan", 1): "chan int", ("chan", 2): "chan string", ("array", 1): "[2]int", ("array", 2): "[3]int",
            ("func", 1): "func()", ("iface", 1): "any", ("iface", 2): "error"}
FLOATS = [1.5, -2.25, 3.0, 1e10, 0.1, -7.0]


def f32bits(x):
    return struct.unpack(">I", struct.pack(">f", x))[0]


def f64bits(x):
    return struct.unpack(">Q", struct.pack(">d", x))[0]


# types:  ("b",k) ("n",id,k) ("s",name|None,((fid,exp,ty),...)) ("p",t) ("sl",t) ("m",k,v) ("t",) ("o",okind,id)
# values: ("i",z) ("x",bytes) ("st",(v,...)) ("nil",) ("ptr",v) ("sln",) ("sl",(v,...)) ("mn",) ("mp",((k,v),...)) ("op",z)
# opts:   ("ig",(ids)) ("cv",id,None|(sty,dty,fn))   fn: ("const",v) ("fail",) ("add",k) ("id",) ("len",)
# calls:  ("copy",src|None,(opts)) ("copyto",src|None,dst|None,(opts)) ("pure",a,b)

def is_struct(t):
    return t[0] in ("s", "t")


def unptr(t):
    return t[1] if t[0] == "p" else t


def base_kind(t):
    return t[1] if t[0] == "b" else t[2] if t[0] == "n" else None


def is_shadow(t):
    return t[0] in ("b", "n", "sl", "m") or (t[0] == "o" and t[1] in ("chan", "array"))


def zero_val(t):
    k = t[0]
    if k in ("b", "n"):
        return ("x", b"") if base_kind(t) == "string" else ("i", 0)
    if k == "s":
        return ("st", tuple(zero_val(f[2]) for f in t[2]))
    if k == "p":
        return ("nil",)
    if k == "sl":
        return ("sln",)
    if k == "m":
        return ("mn",)
    return ("op", 0)


def is_zero(v):
    k = v[0]
    if k in ("i", "op"):
        return v[1] == 0
    if k == "x":
        return len(v[1]) == 0
    if k == "st":
        return all(is_zero(x) for x in v[1])
    return k in ("nil", "sln", "mn")


# ------------------------------------------------------------------ S-expressions
def sx_ty(t):
    k = t[0]
    if k == "b":
        return "(b %s)" % t[1]
    if k == "n":
        return "(n %d %s)" % (t[1], t[2])
    if k == "s":
        return "(s %s%s)" % ("-" if t[1] is None else t[1],
                             "".join(" (%d %d %s)" % (f, 1 if e else 0, sx_ty(ft)) for f, e, ft in t[2]))
    if k == "p":
        return "(p %s)" % sx_ty(t[1])
    if k == "sl":
        return "(sl %s)" % sx_ty(t[1])
    if k == "m":
        return "(m %s %s)" % (sx_ty(t[1]), sx_ty(t[2]))
    if k == "t":
        return "(t)"
    return "(o %s %d)" % (t[1], t[2])


def sx_val(v):
    k = v[0]
    if k == "i":
        return "(i %d)" % v[1]
    if k == "x":
        return "(x %s)" % v[1].hex() if v[1] else "(x)"
    if k == "st":
        return "(st%s)" % "".join(" " + sx_val(x) for x in v[1])
    if k == "ptr":
        return "(ptr %s)" % sx_val(v[1])
    if k == "sl":
        return "(sl%s)" % "".join(" " + sx_val(x) for x in v[1])
    if k == "mp":
        return "(mp%s)" % "".join(" (%s %s)" % (sx_val(a), sx_val(b)) for a, b in v[1])
    if k == "op":
        return "(op %d)" % v[1]
    return "(%s)" % k      # nil sln mn


def sx_fn(fn):
    if fn[0] == "const":
        return "(const %s)" % sx_val(fn[1])
    if fn[0] == "add":
        return "(add %d)" % fn[1]
    if fn[0] == "dyn":
        return "(dyn %s %s)" % (sx_ty(fn[1]), sx_val(fn[2]))
    if fn[0] == "nilif":
        return "(nilif %s %s %s)" % (sx_val(fn[1]), sx_ty(fn[2]), sx_val(fn[3]))
    return "(%s)" % fn[0]


def sx_opt(o):
    if o[0] == "ig":
        return "(ig%s)" % "".join(" %d" % i for i in o[1])
    if o[2] is None:
        return "(cv %d nil)" % o[1]
    s, d, fn = o[2]
    return "(cv %d (conv %s %s %s))" % (o[1], sx_ty(s), sx_ty(d), sx_fn(fn))


def sx_ptr(p):
    return "nil" if p is None else sx_val(p)


def sx_call(k):
    if k[0] == "copy":
        return "(copy %s%s)" % (sx_ptr(k[1]), "".join(" " + sx_opt(o) for o in k[2]))
    if k[0] == "copyto":
        return "(copyto %s %s%s)" % (sx_ptr(k[1]), sx_ptr(k[2]), "".join(" " + sx_opt(o) for o in k[3]))
    if k[0] == "pureg":
        return "(pureg %s %s)" % (sx_anyarg(k[1]), sx_anyarg(k[2]))
    return "(pure %s %s)" % (sx_val(k[1]), sx_val(k[2]))


PURE = ("pure", "pureg")


def has_nil_arg(k):
    """the call passes a nil pointer / nil interface as src or dst"""
    if k[0] == "copy":
        return k[1] is None
    if k[0] == "copyto":
        return k[1] is None or k[2] is None
    if k[0] == "pureg":
        return any(a is None or (a[0][0] == "p" and a[1][0] == "nil") for a in (k[1], k[2]))
    return False


def sx_anyarg(a):
    """an argument of the package-level CopyTo: None = the nil interface, (TY, VAL) = VAL of dynamic type TY"""
    return "nil" if a is None else "(a %s %s)" % (sx_ty(a[0]), sx_val(a[1]))


def sx_case(cs):
    return "(case (src %s) (dst %s) (opts%s) (calls%s))" % (
        sx_ty(cs["src"]), sx_ty(cs["dst"]), "".join(" " + sx_opt(o) for o in cs["opts"]),
        "".join(" " + sx_call(k) for k in cs["calls"]))


def parse_sx(s):
    """text -> nested lists / atoms"""
    toks = re.findall(r"\(|\)|[^\s()]+", s)
    pos = [0]

    def item():
        t = toks[pos[0]]
        pos[0] += 1
        if t == "(":
            out = []
            while toks[pos[0]] != ")":
                out.append(item())
            pos[0] += 1
            return out
        return t
    return item()


def val_of_sx(x):
    h = x[0]
    if h == "i":
        return ("i", int(x[1]))
    if h == "x":
        return ("x", bytes.fromhex(x[1]) if len(x) > 1 else b"")
    if h == "st":
        return ("st", tuple(val_of_sx(y) for y in x[1:]))
    if h == "ptr":
        return ("ptr", val_of_sx(x[1]))
    if h == "sl":
        return ("sl", tuple(val_of_sx(y) for y in x[1:]))
    if h == "mp":
        return ("mp", tuple((val_of_sx(a), val_of_sx(b)) for a, b in x[1:]))
    if h == "op":
        return ("op", int(x[1]))
    return (h,)


# ------------------------------------------------------------------ Go source generation
def go_ty(c, t):
    k = t[0]
    if k == "b":
        return t[1]
    if k == "n":
        return "T%d_%d" % (c, t[1])
    if k == "s":
        if t[1] is not None:
            return "T%d_%d" % (c, t[1])
        return go_struct_lit(c, t)
    if k == "p":
        return "*" + go_ty(c, t[1])
    if k == "sl":
        return "[]" + go_ty(c, t[1])
    if k == "m":
        return "map[%s]%s" % (go_ty(c, t[1]), go_ty(c, t[2]))
    if k == "t":
        return "time.Time"
    return GO_OTHER[(t[1], t[2])]


def go_fname(fid, exp):
    return ("F%d" if exp else "f%d") % fid


def go_struct_lit(c, t):
    if not t[2]:
        return "struct{}"
    return "struct{ " + "; ".join("%s %s" % (go_fname(f, e), go_ty(c, ft)) for f, e, ft in t[2]) + " }"


def collect_defined(t, acc):
    k = t[0]
    if k == "n":
        prev = acc.setdefault(t[1], t)
        assert prev == t, "type id %d has two definitions" % t[1]
    elif k == "s":
        if t[1] is not None:
            prev = acc.setdefault(t[1], t)
            assert prev == t, "type id %d has two definitions" % t[1]
        for f in t[2]:
            collect_defined(f[2], acc)
    elif k in ("p", "sl"):
        collect_defined(t[1], acc)
    elif k == "m":
        collect_defined(t[1], acc)
        collect_defined(t[2], acc)


def case_types(cs):
    ts = [cs["src"], cs["dst"]]
    for o in list(cs["opts"]) + [o for k in cs["calls"] if k[0] not in PURE for o in k[-1]]:
        if o[0] == "cv" and o[2] is not None:
            ts += [o[2][0], o[2][1]]
    return ts


def go_str(b):
    return '"' + "".join("\\x%02x" % x for x in b) + '"'


def go_val(c, t, v):
    k = t[0]
    gt = go_ty(c, t)
    if k in ("b", "n"):
        bk = base_kind(t)
        if bk == "string":
            return "%s(%s)" % (gt, go_str(v[1]))
        z = v[1]
        if bk == "bool":
            return "%s(%s)" % (gt, "true" if z else "false")
        if bk in INT_RANGE:
            return "%s(%d)" % (gt, z)
        if bk == "float32":
            return "%s(math.Float32frombits(0x%x))" % (gt, z)
        if bk == "float64":
            return "%s(math.Float64frombits(0x%x))" % (gt, z)
        if bk == "complex64":
            return "%s(complex(math.Float32frombits(0x%x), math.Float32frombits(0x%x)))" % (gt, z >> 32, z & 0xFFFFFFFF)
        return "%s(complex(math.Float64frombits(0x%x), math.Float64frombits(0x%x)))" % (gt, z >> 64, z & ((1 << 64) - 1))
    if k == "s":
        return "%s{%s}" % (gt, ", ".join("%s: %s" % (go_fname(f, e), go_val(c, ft, x)) for (f, e, ft), x in zip(t[2], v[1])))
    if k == "p":
        return "(%s)(nil)" % gt if v[0] == "nil" else "P(%s)" % go_val(c, t[1], v[1])
    if k == "sl":
        return "%s(nil)" % gt if v[0] == "sln" else "%s{%s}" % (gt, ", ".join(go_val(c, t[1], x) for x in v[1]))
    if k == "m":
        if v[0] == "mn":
            return "%s(nil)" % gt
        return "%s{%s}" % (gt, ", ".join("%s: %s" % (go_val(c, t[1], a), go_val(c, t[2], b)) for a, b in v[1]))
    z = v[1]
    if k == "t":
        if z == 0:
            return "time.Time{}"
        if z >= 7 * ZONE_UNIT:
            return "MonoBase" if z == 7 * ZONE_UNIT else "MonoStripped"
        if z >= ZONE_UNIT:
            return "time.Unix(%d, 0).In(Zone%d)" % (z % ZONE_UNIT, z // ZONE_UNIT)
        return "time.Unix(%d, 0).UTC()" % z
    ok, oid = t[1], t[2]
    if ok == "chan":
        return "(%s)(nil)" % gt if z == 0 else "Chans%d[%d]" % (oid, z)
    if ok == "array":
        n = 2 if oid == 1 else 3
        return "%s{%s}" % (gt, ", ".join(str((z // 1000 ** i) % 1000) for i in range(n)))
    if ok == "func":
        return "(func())(nil)" if z == 0 else "Fn1"
    if oid == 2:
        return ["error(nil)", "ErrUser"][z]
    return ["any(nil)", "any(int(7))", 'any("x")'][z]


def go_dyn(c, t, v):
    """Go expression of the dynamic value v : t a converter to an interface type returns"""
    return "ErrUser" if t == FOREIGN else go_val(c, t, v)


def go_optname(i):
    return '""' if i == 0 else '"F%d"' % i


def go_opt(c, o):
    if o[0] == "ig":
        return "copier.IgnoreFields(%s)" % ", ".join(go_optname(i) for i in o[1])
    if o[2] is None:
        return "copier.ConvertField[int, int](%s, nil)" % go_optname(o[1])
    s, d, fn = o[2]
    gs, gd = go_ty(c, s), go_ty(c, d)
    if fn[0] == "const":
        body = "return %s, nil" % go_val(c, d, fn[1])
    elif fn[0] == "fail":
        body = "var z %s; return z, ErrUser" % gd
    elif fn[0] == "add":
        body = "return (%s)(x) + (%d), nil" % (gd, fn[1])
    elif fn[0] == "cnil":
        body = "return nil, nil"
    elif fn[0] == "dyn":
        body = "return %s, nil" % go_dyn(c, fn[1], fn[2])
    elif fn[0] == "nilif":
        body = "if x == %s { return nil, nil }; return %s, nil" % (go_val(c, s, fn[1]), go_dyn(c, fn[2], fn[3]))
    elif fn[0] == "id":
        body = "return (%s)(x), nil" % gd
    else:
        body = "return (%s)(len(x)), nil" % gd
    return "copier.ConvertField[%s, %s](%s, converter.ConverterFunc[%s, %s](func(x %s) (%s, error) { %s }))" % (
        gs, gd, go_optname(o[1]), gs, gd, gs, gd, body)


def go_optargs(c, opts):
    return "".join(", " + go_opt(c, o) for o in opts)


def go_case(c, cs):
    """Go source of case number c: its type declarations and its registered function."""
    defs = {}
    for t in case_types(cs):
        collect_defined(t, defs)
    out = []
    for i in sorted(defs):
        t = defs[i]
        out.append("type T%d_%d %s" % (c, i, t[2] if t[0] == "n" else go_struct_lit(c, t)))
    out.append("func init() { Register(%d, case%d) }" % (c, c))
    out.append("// %s" % sx_case(cs))
    out.append("func case%d(o *Out) {" % c)
    out.append("\ttype S = %s" % go_ty(c, cs["src"]))
    out.append("\ttype D = %s" % go_ty(c, cs["dst"]))
    out.append("\tvar c *copier.ReflectCopier[S, D]")
    out.append("\t_ = c")
    dopts = ", ".join(go_opt(c, o) for o in cs["opts"])
    out.append("\to.Ctor(func() (err error) { c, err = copier.NewReflectCopier[S, D](%s); return })" % dopts)
    st, dt = cs["src"], cs["dst"]
    for k in cs["calls"]:
        if k[0] == "pureg":
            ga = ["nil" if a is None else go_val(c, a[0], a[1]) for a in (k[1], k[2])]
            out.append("\to.PureG(func() error { return copier.CopyTo(%s, %s) })" % (ga[0], ga[1]))
            continue
        if k[0] == "pure":
            out.append("\to.Pure(func() (any, func() (any, error)) {")
            out.append("\t\ta := %s" % go_val(c, st, k[1]))
            out.append("\t\tb := %s" % go_val(c, dt, k[2]))
            out.append("\t\treturn &a, func() (any, error) { return &b, copier.CopyTo(&a, &b) }")
            out.append("\t})")
            continue
        out.append("\to.Call(func() (any, func() (any, error)) {")
        out.append("\t\ts := %s" % ("(*S)(nil)" if k[1] is None else "P(%s)" % go_val(c, st, k[1])))
        if k[0] == "copy":
            out.append("\t\treturn s, func() (any, error) { return c.Copy(s%s) }" % go_optargs(c, k[2]))
        else:
            out.append("\t\td := %s" % ("(*D)(nil)" if k[2] is None else "P(%s)" % go_val(c, dt, k[2])))
            out.append("\t\treturn s, func() (any, error) { return d, c.CopyTo(s, d%s) }" % go_optargs(c, k[3]))
        out.append("\t})")
    out.append("}")
    return "\n".join(out)


GO_HEADER = """// Code generated by checks/c20.py; DO NOT EDIT.
package c20

import (
	"math"
	"time"

	"github.com/ecodeclub/ekit/bean/copier"
	"github.com/ecodeclub/ekit/bean/copier/converter"
)

var (
	_ = math.Float64frombits
	_ = time.Unix
	_ converter.ConverterFunc[int, int]
	_ = copier.CopyTo
)

"""


def go_file(cases):
    return GO_HEADER + "\n\n".join(go_case(i, cs) for i, cs in enumerate(cases)) + "\n"


# ------------------------------------------------------------------ Coq terms (vm_compute cross-check)
def cz(z):
    return "(%d)" % z if z < 0 else "%d" % z


def coq_ty(t):
    k = t[0]
    if k == "b":
        return "(Basic %s)" % COQ_KIND[t[1]]
    if k == "n":
        return "(Named %d %s)" % (t[1], COQ_KIND[t[2]])
    if k == "s":
        return "(Struct %s %s)" % ("None" if t[1] is None else "(Some %d)" % t[1],
                                  coq_list(["(%d, %s, %s)" % (f, "true" if e else "false", coq_ty(ft)) for f, e, ft in t[2]]))
    if k == "p":
        return "(Ptr %s)" % coq_ty(t[1])
    if k == "sl":
        return "(Slice %s)" % coq_ty(t[1])
    if k == "m":
        return "(Map %s %s)" % (coq_ty(t[1]), coq_ty(t[2]))
    if k == "t":
        return "Atomic"
    return "(Other %s %d)" % (COQ_OKIND[t[1]], t[2])


def coq_val(v):
    k = v[0]
    if k == "i":
        return "(VNum %s)" % cz(v[1])
    if k == "x":
        return "(VStr %s)" % coq_list([str(b) for b in v[1]])
    if k == "st":
        return "(VStruct %s)" % coq_list([coq_val(x) for x in v[1]])
    if k == "nil":
        return "(VPtr None)"
    if k == "ptr":
        return "(VPtr (Some %s))" % coq_val(v[1])
    if k == "sln":
        return "(VSlice None)"
    if k == "sl":
        return "(VSlice (Some %s))" % coq_list([coq_val(x) for x in v[1]])
    if k == "mn":
        return "(VMap None)"
    if k == "mp":
        return "(VMap (Some %s))" % coq_list(["(%s, %s)" % (coq_val(a), coq_val(b)) for a, b in v[1]])
    return "(VOpaque %s)" % cz(v[1])


def coq_opt(o):
    if o[0] == "ig":
        return "(OIgnore %s)" % coq_list([str(i) for i in o[1]])
    if o[2] is None:
        return "(OConvert %d None)" % o[1]
    s, d, fn = o[2]
    f = {"const": lambda: "(FConst %s)" % coq_val(fn[1]), "fail": lambda: "FFail", "add": lambda: "(FAdd %s)" % cz(fn[1]),
         "id": lambda: "FId", "len": lambda: "FLen", "cnil": lambda: "FNil",
         "dyn": lambda: "(FDyn %s %s)" % (coq_ty(fn[1]), coq_val(fn[2])),
         "nilif": lambda: "(FNilIf %s %s %s)" % (coq_val(fn[1]), coq_ty(fn[2]), coq_val(fn[3]))}[fn[0]]()
    return "(OConvert %d (Some (mk_conv %s %s %s)))" % (o[1], coq_ty(s), coq_ty(d), f)


def coq_optptr(p):
    return "None" if p is None else "(Some %s)" % coq_val(p)


def coq_call(k):
    if k[0] == "copy":
        return "(CallCopy %s %s)" % (coq_optptr(k[1]), coq_list([coq_opt(o) for o in k[2]]))
    if k[0] == "copyto":
        return "(CallCopyTo %s %s %s)" % (coq_optptr(k[1]), coq_optptr(k[2]), coq_list([coq_opt(o) for o in k[3]]))
    if k[0] == "pureg":
        return "(NPure %s %s)" % tuple("None" if a is None else "(Some (%s, %s))" % (coq_ty(a[0]), coq_val(a[1])) for a in (k[1], k[2]))
    return "(CallPure %s %s)" % (coq_val(k[1]), coq_val(k[2]))


CERR_CODE = {"entry": 1, "kind": 2, "type": 3, "multiptr": 4, "convtype": 5, "user": 6}
COQ_CERR = {"entry": "CEntry", "kind": "CKind", "type": "CType", "multiptr": "CMultiPtr", "convtype": "CConvType", "user": "CUser"}

CROSS_PRELUDE = """From Ekit Require Import Common CopierModel CopierNilModel.
Definition dummy : copier := {| c_root := Node 0 0%nat 0%nat false []; c_defaults := new_options |}.
Inductive exp := EStat (s : nstatus) (v : option (option value)) | ESkip.
Definition chk_call (oc : option copier) (st dt : ty) (k : ncall) (e : exp) : bool :=
  let cop := match oc, k with
             | Some c, _ => Some c
             | None, NCall (CallPure _ _) => Some dummy
             | None, NPure _ _ => Some dummy
             | None, _ => None end in
  match cop, e with
  | None, ESkip => true
  | Some c, EStat s v =>
      let '(p, stt) := run_call_now c st dt k in
      nstatus_eqb stt s && match v with None => true | Some w => optvalue_eqb p w end
  | _, _ => false
  end.
Definition ctor_code {A} (r : cres A) : Z :=
  match r with COk _ => 0 | CErr e => cerr_code e | CPanic => 99 end.
Definition chk_case (st dt : ty) (ps : list opt) (ctor : Z) (cs : list (ncall * exp)) : bool :=
  let r := new_reflect_copier st dt ps in
  Z.eqb (ctor_code r) ctor &&
  forallb (fun ke => chk_call (match r with COk c => Some c | _ => None end) st dt (fst ke) (snd ke)) cs.
"""


def split_line(line):
    """observable line -> (ctor, [(status, dsttext)])"""
    parts = line.split(" | ")
    ctor = parts[0][5:] if parts[0].startswith("ctor=") else parts[0]
    calls = []
    for p in parts[1:]:
        st, _, d = p.partition(" ")
        calls.append((st, d))
    return ctor, calls


def coq_case(cs, mline):
    ctor, res = split_line(mline)
    code = 0 if ctor == "ok" else 99 if ctor == "panic" else CERR_CODE[ctor[4:]]
    items = []
    for k, (st, d) in zip(cs["calls"], res):
        if st == "skip":
            e = "ESkip"
        elif st == "panic":
            e = "(EStat (NStat SPanic) None)"
        else:
            s = "(NStat SOk)" if st == "ok" else "NNil" if st == "err:nil" else "(NStat (SErr %s))" % COQ_CERR[st[4:]]
            w = "None" if d == "nil" else "(Some %s)" % coq_val(val_of_sx(parse_sx(d))) if d != "-" else None
            e = "(EStat %s %s)" % (s, "None" if w is None else "(Some %s)" % w)
        ck = coq_call(k)
        items.append("(%s, %s)" % (ck if k[0] == "pureg" else "(NCall %s)" % ck, e))
    return "chk_case %s %s %s %d %s" % (coq_ty(cs["src"]), coq_ty(cs["dst"]), coq_list([coq_opt(o) for o in cs["opts"]]),
                                       code, coq_list(items))


# ------------------------------------------------------------------ case generator
I_ = ("b", "int")
S_ = ("b", "string")


def mkstruct(name, *fields):
    return ("s", name, tuple(fields))


def kind_class(k):
    return "int" if k in INT_RANGE else "float" if k.startswith("float") else "complex" if k.startswith("complex") else k


class Gen:
    """Random types / values / options / calls for ONE case (type ids are per case)."""

    def __init__(self, r):
        self.r = r
        self.tid = 0

    def fresh(self):
        self.tid += 1
        return self.tid

    # ---- types
    def kind(self):
        r = self.r
        x = r.random()
        if x < 0.34:
            return "int"
        if x < 0.56:
            return "string"
        if x < 0.64:
            return "bool"
        if x < 0.86:
            return r.choice(INT_KINDS)
        if x < 0.95:
            return r.choice(["float32", "float64"])
        return r.choice(["complex64", "complex128"])

    def named(self, k=None):
        return ("n", self.fresh(), k or self.r.choice(["int", "string", "int64", "uint8", "bool", "float64"]))

    def key_ty(self):
        return ("b", self.r.choice(["int", "string", "int8", "uint16", "string"]))

    def elem_ty(self):
        r = self.r
        x = r.random()
        if x < 0.6:
            return ("b", self.kind())
        if x < 0.7:
            return self.named()
        if x < 0.85:
            return self.struct_ty(0, nf=r.randint(1, 2))
        if x < 0.93:
            return ("p", ("b", r.choice(["int", "string"])))
        return ("t",)

    def other_ty(self):
        return ("o",) + self.r.choice(list(GO_OTHER))

    def leaf_ty(self):
        r = self.r
        x = r.random()
        if x < 0.60:
            return ("b", self.kind())
        if x < 0.70:
            return self.named()
        if x < 0.78:
            return ("t",)
        if x < 0.89:
            return ("sl", self.elem_ty())
        if x < 0.95:
            return ("m", self.key_ty(), self.elem_ty())
        return self.other_ty()

    def field_ty(self, depth):
        r = self.r
        x = r.random()
        if depth > 0 and x < 0.2:
            return self.struct_ty(depth - 1)
        if x < 0.34:
            return ("p", self.struct_ty(depth - 1) if depth > 0 and r.random() < 0.5 else self.leaf_ty())
        return self.leaf_ty()

    def fids(self, n, pool=9):
        return self.r.sample(range(1, pool + 1), n)

    def struct_ty(self, depth, nf=None, named=None, pexp=0.88, pool=9):
        r = self.r
        nf = r.randint(1, 4) if nf is None else nf
        fs = tuple((f, r.random() < pexp, self.field_ty(depth)) for f in self.fids(nf, pool))
        nm = (r.random() < 0.5) if named is None else named
        return ("s", self.fresh() if nm else None, fs)

    def rename(self, t):
        """the same struct under another defined name"""
        return ("s", self.fresh(), t[2])

    def mismatch(self, t):
        """a type that differs from t (other kind, or same kind and other type)"""
        r = self.r
        k = t[0]
        if k in ("b", "n"):
            bk = base_kind(t)
            opts = [("b", "string") if bk != "string" else ("b", "int"), ("n", self.fresh(), bk),
                    mkstruct(None, (1, True, I_)), ("sl", ("b", bk)), ("p", ("b", "string" if bk != "string" else "int")), ("t",)]
            if bk in INT_RANGE:
                opts.append(("b", r.choice([x for x in INT_KINDS if x != bk])))
            if k == "n":
                opts.append(("b", bk))
            return r.choice(opts)
        if k == "s":
            return r.choice([I_, S_, ("p", I_), ("sl", I_), ("t",), ("m", S_, I_), ("o", "iface", 1), self.rename(t)])
        if k == "p":
            return ("p", self.mismatch(t[1])) if r.random() < 0.6 else self.mismatch(t[1])
        if k == "sl":
            return r.choice([("m", I_, t[1]), ("sl", self.mismatch(t[1])), I_, ("o", "array", 1)])
        if k == "m":
            return r.choice([("sl", t[2]), ("m", t[1], self.mismatch(t[2])), mkstruct(None, (1, True, I_))])
        if k == "t":
            return r.choice([mkstruct(None, (1, True, I_)), I_, ("p", mkstruct(self.fresh(), (2, True, S_))), ("b", "int64")])
        cands = [x for x in GO_OTHER if x != (t[1], t[2])]
        return r.choice([("o",) + r.choice(cands), I_])

    def derive(self, t, w, extra=0, shuffle=False, depth=2):
        """a destination struct type derived field by field from the source struct type t.
        w: weights of the per-field operators same/drop/mismatch/ptrflip/rec/unexport."""
        r = self.r
        ops = list(w)
        out = []
        for (f, e, ft) in t[2]:
            op = r.choices(ops, [w[o] for o in ops])[0]
            if op == "drop":
                continue
            if op == "mismatch":
                out.append((f, e, self.mismatch(ft)))
            elif op == "ptrflip":
                out.append((f, e, ft[1] if ft[0] == "p" else ("p", ft)))
            elif op == "unexport":
                out.append((f, not e, ft))
            elif op == "rec" and unptr(ft)[0] == "s" and depth > 0:
                inner = self.derive(unptr(ft), w, extra=r.randint(0, 1), shuffle=shuffle, depth=depth - 1)
                out.append((f, e, ("p", inner) if (ft[0] == "p") != (r.random() < 0.2) else inner))
            else:
                out.append((f, e, ft))
        used = {f for f, _, _ in t[2]} | {f for f, _, _ in out}
        for _ in range(extra):
            free = [x for x in range(1, 13) if x not in used]
            f = r.choice(free)
            used.add(f)
            out.append((f, r.random() < 0.85, self.field_ty(0)))
        if shuffle:
            r.shuffle(out)
        fs = tuple(out)
        if fs == t[2]:
            return t if r.random() < 0.7 else self.rename(t)
        return ("s", self.fresh() if (t[1] is not None and r.random() < 0.8) else None, fs)

    # ---- values
    def num(self, k, pz):
        r = self.r
        if r.random() < pz:
            return 0
        c = kind_class(k)
        if c == "bool":
            return 1
        if c == "int":
            lo, hi = INT_RANGE[k]
            z = r.choice([1, 2, 7, 42, 100, r.randint(1, 100), hi - 16, min(hi - 16, 1 << 20)] +
                         ([-1, -3, -100, lo] if lo < 0 else []))
            return z
        if c == "float":
            x = r.choice(FLOATS)
            return f32bits(x) if k == "float32" else f64bits(x)
        a, b = r.choice(FLOATS + [0.0]), r.choice(FLOATS)
        return (f32bits(a) << 32) + f32bits(b) if k == "complex64" else (f64bits(a) << 64) + f64bits(b)

    def val(self, t, pz=0.3):
        r = self.r
        k = t[0]
        if k in ("b", "n"):
            bk = base_kind(t)
            if bk == "string":
                return ("x", b"" if r.random() < pz else r.choice([b"a", b"hello", b"\xe4\xb8\xad", b"x y", b"\x00\xff", b"zz"]))
            return ("i", self.num(bk, pz))
        if k == "s":
            return ("st", tuple(self.val(ft, pz) for _, _, ft in t[2]))
        if k == "p":
            return ("nil",) if r.random() < max(pz, 0.2) * 0.8 else ("ptr", self.val(t[1], pz))
        if k == "sl":
            x = r.random()
            if x < pz * 0.7:
                return ("sln",)
            if x < pz * 0.7 + 0.15:
                return ("sl", ())
            return ("sl", tuple(self.val(t[1], 0.3) for _ in range(r.randint(1, 3))))
        if k == "m":
            x = r.random()
            if x < pz * 0.7:
                return ("mn",)
            if x < pz * 0.7 + 0.15:
                return ("mp", ())
            es = {}
            for _ in range(r.randint(1, 3)):
                kv = self.val(t[1], 0.2)
                es[sx_val(kv)] = (kv, self.val(t[2], 0.3))
            return ("mp", tuple(es[s] for s in sorted(es)))
        if k == "t":      # zero / UTC / a fixed non-UTC zone / a reading with and without the monotonic part
            if r.random() < pz:
                return ("op", 0)
            x = r.random()
            if x < 0.5:
                return ("op", r.randint(1, 2000000000))
            if x < 0.8:
                return ("op", r.choice([1, 2]) * ZONE_UNIT + r.randint(1, 2000000000))
            return ("op", 7 * ZONE_UNIT + r.choice([0, 1]))
        ok, oid = t[1], t[2]
        if r.random() < pz:
            return ("op", 0)
        if ok == "chan":
            return ("op", r.randint(1, 5))
        if ok == "array":
            n = 2 if oid == 1 else 3
            return ("op", sum(r.choice([0, 1, 7, 999, r.randint(0, 999)]) * 1000 ** i for i in range(n)))
        if ok == "func":
            return ("op", 1)
        return ("op", 1 if oid == 2 else r.randint(1, 2))

    def nonzero(self, t):
        for _ in range(20):
            v = self.val(t, 0.0)
            if not is_zero(v):
                return v
        return self.val(t, 0.0)

    # ---- converters / options
    def conv_for(self, sft, dft, mode=None):
        """a converter (S, D, fn) for a leaf whose source / destination FIELD types are sft / dft"""
        r = self.r
        mode = mode or r.choices(["match", "badsrc", "baddst", "fail"], [0.62, 0.13, 0.13, 0.12])[0]
        S, D = sft, dft
        # converter Src / Dst are never interface types (restriction of the modelled universe)
        if mode == "badsrc":
            S = self.mismatch(sft)
            if S == sft or S[0] == "o" and S[1] == "iface":
                S = ("p", sft)
        if mode == "baddst":
            D = self.mismatch(dft)
            if D == dft or D[0] == "o" and D[1] == "iface":
                D = ("sl", dft)
        if S[0] == "o" and S[1] == "iface":
            S = ("p", S)
        if D[0] == "o" and D[1] == "iface":
            D = ("p", D)
        if mode == "fail":
            return (S, D, ("fail",))
        return (S, D, self.fn_for(S, D))

    def fn_for(self, S, D):
        r = self.r
        ks, kd = base_kind(S), base_kind(D)
        fns = [("const", self.val(D, 0.15))] * 2
        if S == D:
            fns += [("id",)] * 2
        if ks in INT_RANGE and kd == ks:
            fns += [("add", r.randint(1, 9))] * 3
        if ks == "string" and kd in INT_RANGE:
            fns += [("len",)] * 3
        return r.choice(fns)

    def gen_opts(self, leaves, names, n, pconv=0.5):
        """n random options over the matched leaves [(fid, sft, dft)] and the field-name pool"""
        r = self.r
        out = []
        for _ in range(n):
            x = r.random()
            if x < 0.04:
                out.append(("ig", ()))
            elif x < 0.08:
                out.append(("cv", r.choice(names) if names else 1, None))
            elif x < 0.12 and leaves:
                f, s, d = r.choice(leaves)
                out.append(("cv", 0, self.conv_for(s, d, "match")))
            elif x < 0.12 + pconv * 0.88 and leaves:
                f, s, d = r.choice(leaves)
                out.append(("cv", f, self.conv_for(s, d)))
            elif names:
                out.append(("ig", tuple(r.sample(names, min(len(names), r.choice([1, 1, 2]))))))
        return tuple(out)


def all_names(t, acc=None):
    acc = set() if acc is None else acc
    if t[0] == "s":
        for f, e, ft in t[2]:
            acc.add(f)
            all_names(ft, acc)
    elif t[0] in ("p", "sl"):
        all_names(t[1], acc)
    return acc


def matched_leaves(st, dt, top_only=False):
    """[(fid, src field type, dst field type)] of the leaves of the field tree (approximation of
    createFieldNodes used only to aim options at fields that exist)"""
    out = []
    if st[0] != "s" or dt[0] != "s":
        return out
    sf = {f: ft for f, e, ft in st[2] if e}
    for f, e, dft in dt[2]:
        if not e or f not in sf:
            continue
        sft = sf[f]
        fs, fd = unptr(sft), unptr(dft)
        if is_shadow(fs) or fs[0] == "t":
            out.append((f, sft, dft))
        elif fs[0] == "s" and fd[0] == "s" and not top_only:
            out += matched_leaves(fs, fd)
    return out


def add_calls(g, cs, n=None, popt=0.35):
    """2-5 calls mixing copy / copyto (fresh and used destinations, a few nil pointers) / pure"""
    r = g.r
    st, dt = cs["src"], cs["dst"]
    leaves = matched_leaves(st, dt)
    names = sorted(all_names(st) | all_names(dt))
    calls = list(cs.get("calls", ()))
    for _ in range(n or r.randint(2, 5)):
        pz = r.choice([0.1, 0.35, 0.7])
        kind = r.choices(["copy", "copyto", "pure"], [0.33, 0.42, 0.25])[0]
        opts = g.gen_opts(leaves, names, r.randint(1, 2)) if r.random() < popt else ()
        src = None if r.random() < 0.04 else g.val(st, pz)
        if kind == "copy":
            calls.append(("copy", src, opts))
        elif kind == "copyto":
            x = r.random()
            dst = None if x < 0.025 else zero_val(dt) if x < 0.4 else g.val(dt, 0.1)
            calls.append(("copyto", src, dst, opts))
        else:
            calls.append(("pure", g.val(st, pz), zero_val(dt) if r.random() < 0.45 else g.val(dt, 0.1)))
    cs["calls"] = tuple(calls)
    return cs


def finish_case(g, cs, popts=0.45):
    r = g.r
    if "opts" not in cs:
        leaves = matched_leaves(cs["src"], cs["dst"])
        names = sorted(all_names(cs["src"]) | all_names(cs["dst"]))
        cs["opts"] = g.gen_opts(leaves, names, r.randint(1, 3)) if r.random() < popts else ()
    if "calls" not in cs or cs.get("more_calls"):
        add_calls(g, cs, n=cs.pop("more_calls", None))
    return cs


W_SAME = {"same": 1.0}
W_OVERLAP = {"same": 0.6, "drop": 0.3, "rec": 0.1}
W_MISMATCH = {"same": 0.5, "mismatch": 0.4, "rec": 0.1}
W_PTR = {"same": 0.35, "ptrflip": 0.55, "rec": 0.1}
W_RANDOM = {"same": 0.45, "drop": 0.1, "mismatch": 0.12, "ptrflip": 0.13, "rec": 0.12, "unexport": 0.08}
W_NESTED = {"same": 0.55, "rec": 0.3, "ptrflip": 0.1, "drop": 0.05}

MINIMAL_PANIC = dict(src=mkstruct(None, (1, True, mkstruct(None, (1, True, I_)))), dst=mkstruct(None, (1, True, I_)), opts=(),
                     calls=(("copy", ("st", (("st", (("i", 5),)),)), ()),
                            ("pure", ("st", (("st", (("i", 5),)),)), ("st", (("i", 0),)))))


def fam_identical(g):
    t = g.struct_ty(g.r.choice([0, 1, 1, 2]), nf=g.r.randint(1, 5))
    return dict(src=t, dst=t)


def fam_renamed(g):
    t = g.struct_ty(1, named=True, nf=g.r.randint(1, 4))
    return dict(src=t, dst=g.rename(t))


def fam_overlap(g):
    s = g.struct_ty(1, nf=g.r.randint(2, 5))
    return dict(src=s, dst=g.derive(s, W_OVERLAP, extra=g.r.randint(0, 2), shuffle=True))


def fam_kind_mismatch(g):
    r = g.r
    v = r.randint(0, 5)
    if v == 0:       # the fixed constructor bug, minimal and embedded
        inner = mkstruct(None if r.random() < 0.5 else g.fresh(), (1, True, I_))
        sfs = [(1, True, inner if r.random() < 0.7 else ("p", inner))]
        dfs = [(1, True, r.choice([I_, S_, ("p", I_), ("sl", I_), ("m", S_, I_), ("o", "func", 1), ("o", "iface", 1), ("b", "bool")]))]
        if r.random() < 0.5:
            sfs.append((2, True, S_))
            dfs.append((2, True, S_))
            if r.random() < 0.5:
                sfs.reverse()
        return dict(src=mkstruct(None, *sfs), dst=mkstruct(None, *dfs))
    if v == 1:       # scalar vs struct
        inner = g.struct_ty(0, nf=r.randint(1, 2))
        return dict(src=mkstruct(None, (1, True, ("b", g.kind())), (2, True, I_)),
                    dst=mkstruct(None, (1, True, inner if r.random() < 0.6 else ("p", inner)), (2, True, I_)))
    if v == 2:       # int vs string, slice vs map
        return dict(src=mkstruct(None, (1, True, I_), (2, True, ("sl", I_)), (3, True, S_)),
                    dst=mkstruct(None, (1, True, r.choice([S_, I_])), (2, True, r.choice([("m", I_, I_), ("sl", I_)])), (3, True, S_)))
    if v == 3:       # nested: the mismatch one level down
        inner_s = mkstruct(None, (1, True, g.struct_ty(0, nf=1)), (2, True, I_))
        inner_d = mkstruct(None, (1, True, r.choice([I_, S_, ("sl", S_)])), (2, True, I_))
        return dict(src=mkstruct(None, (3, True, inner_s), (4, True, S_)), dst=mkstruct(None, (3, True, r.choice([inner_d, ("p", inner_d)])), (4, True, S_)))
    s = g.struct_ty(1, nf=r.randint(2, 4), pexp=1.0)
    return dict(src=s, dst=g.derive(s, W_MISMATCH, extra=r.randint(0, 1)))


def fam_ptr_value(g):
    r = g.r
    if r.random() < 0.5:
        T = r.choice([I_, S_, ("t",), ("sl", I_), ("m", S_, I_), ("o", "chan", 1), g.struct_ty(0, nf=2, pexp=1.0), g.named()])
        combos = [(("p", T), T), (T, ("p", T)), (("p", T), ("p", T)), (T, T)]
        r.shuffle(combos)
        fs = [(i + 1, a, b) for i, (a, b) in enumerate(combos[:r.randint(2, 4)])]
        return dict(src=mkstruct(None, *[(f, True, a) for f, a, _ in fs]), dst=mkstruct(None, *[(f, True, b) for f, _, b in fs]))
    s = g.struct_ty(1, nf=r.randint(2, 4), pexp=1.0)
    return dict(src=s, dst=g.derive(s, W_PTR))


def fam_nested(g):
    r = g.r
    depth = r.randint(1, 3)
    s = g.struct_ty(depth, nf=r.randint(2, 3), pexp=0.95, pool=5)
    if not any(unptr(ft)[0] == "s" for _, _, ft in s[2]):
        inner = g.struct_ty(depth - 1, nf=r.randint(1, 3), pool=5)
        s = ("s", s[1], s[2][:-1] + ((s[2][-1][0], True, inner if r.random() < 0.5 else ("p", inner)),))
        if s[1] is not None:
            s = g.rename(s)
    return dict(src=s, dst=g.derive(s, W_NESTED, extra=r.randint(0, 1), depth=3))


def fam_multiptr(g):
    r = g.r
    pp = ("p", ("p", r.choice([I_, S_, mkstruct(None, (1, True, I_))])))
    other = r.choice([pp, pp[1], pp[1][1], I_])
    a, b = (pp, other) if r.random() < 0.5 else (other, pp)
    sfs, dfs = [(1, True, a), (2, True, I_)], [(1, True, b), (2, True, I_)]
    v = r.randint(0, 3)
    if v == 0:       # the names do not meet / one side unexported: no error
        dfs[0] = (3, True, b) if r.random() < 0.5 else (1, False, b)
    if v == 1:       # under a (possibly nil) struct pointer
        return dict(src=mkstruct(None, (4, True, ("p", mkstruct(None, *sfs))), (5, True, S_)),
                    dst=mkstruct(None, (4, True, r.choice([("p", mkstruct(None, *dfs)), mkstruct(None, *dfs)])), (5, True, S_)))
    return dict(src=mkstruct(None, *sfs), dst=mkstruct(None, *dfs))


def fam_unexported(g):
    r = g.r
    v = r.randint(0, 2)
    if v == 0:
        t = mkstruct(None if r.random() < 0.5 else g.fresh(), (1, True, I_), (2, False, S_), (3, False, g.struct_ty(0, nf=2)), (4, True, S_))
        return dict(src=t, dst=t if r.random() < 0.5 else mkstruct(None, (2, False, S_), (1, True, I_), (3, False, I_), (4, True, S_)))
    if v == 1:
        inner = mkstruct(None, (1, True, I_), (2, False, I_), (3, False, ("t",)), (4, True, ("p", S_)))
        return dict(src=mkstruct(None, (5, True, inner), (6, False, inner)), dst=mkstruct(None, (5, True, r.choice([inner, ("p", inner)])), (6, False, inner)))
    s = g.struct_ty(1, nf=r.randint(2, 5), pexp=0.5)
    return dict(src=s, dst=g.derive(s, {"same": 0.6, "unexport": 0.3, "rec": 0.1}))


def fam_named_basic(g):
    r = g.r
    n1, n2 = g.named(), g.named("int")
    n3 = ("n", g.fresh(), n1[2])
    return dict(src=mkstruct(None, (1, True, n1), (2, True, n2), (3, True, n1), (4, True, ("b", n1[2])), (5, True, ("p", n2))),
                dst=mkstruct(None, (1, True, n1), (2, True, r.choice([I_, n2])), (3, True, r.choice([n3, n1])), (4, True, n1),
                             (5, True, r.choice([("p", n2), n2, ("p", I_)]))))


def fam_slices_maps(g):
    r = g.r
    T = g.struct_ty(0, nf=2, named=True, pexp=1.0)
    U = g.rename(T)
    fs = [(1, ("sl", I_), ("sl", I_)), (2, ("sl", T), r.choice([("sl", T), ("sl", U)])), (3, ("m", S_, I_), r.choice([("m", S_, I_), ("m", S_, S_), ("sl", I_)])),
          (4, ("sl", ("p", I_)), ("sl", ("p", I_))), (5, ("p", ("sl", S_)), r.choice([("p", ("sl", S_)), ("sl", S_)])), (6, ("m", I_, T), ("m", I_, T)),
          (7, ("sl", ("sl", I_)), ("sl", ("sl", I_)))]
    fs = r.sample(fs, r.randint(2, 5))
    return dict(src=mkstruct(None, *[(f, True, a) for f, a, _ in fs]), dst=mkstruct(None, *[(f, True, b) for f, _, b in fs]))


def fam_time(g):
    r = g.r
    v = r.randint(0, 4)
    tt = ("t",)
    if v == 0:
        return dict(src=mkstruct(None, (1, True, tt), (2, True, ("p", tt)), (3, True, I_)), dst=mkstruct(None, (1, True, tt), (2, True, r.choice([("p", tt), tt])), (3, True, I_)))
    if v == 1:       # time vs struct, struct vs time
        st_ = mkstruct(None, (1, True, I_))
        return dict(src=mkstruct(None, (1, True, r.choice([tt, ("p", tt)])), (2, True, st_), (3, True, S_)),
                    dst=mkstruct(None, (1, True, r.choice([st_, ("p", st_), tt])), (2, True, r.choice([tt, ("p", tt), st_])), (3, True, S_)))
    if v == 2:
        return dict(src=mkstruct(None, (1, True, tt), (2, False, tt)), dst=mkstruct(None, (1, True, r.choice([I_, ("b", "int64"), ("sl", tt)])), (2, False, tt)))
    if v == 3:
        return dict(src=mkstruct(None, (1, True, ("sl", tt)), (2, True, ("m", S_, tt)), (3, True, tt)), dst=mkstruct(None, (1, True, ("sl", tt)), (2, True, ("m", S_, tt)), (3, True, tt)))
    inner = mkstruct(None, (1, True, tt), (2, True, I_))
    return dict(src=mkstruct(None, (4, True, inner), (5, True, ("p", inner))), dst=mkstruct(None, (4, True, ("p", inner)), (5, True, inner)))


def fam_other(g):
    r = g.r
    fs = []
    for i in range(r.randint(2, 5)):
        a = g.other_ty()
        x = r.random()
        b = a if x < 0.6 else g.mismatch(a) if x < 0.85 else ("p", a)
        if r.random() < 0.15:
            a = ("p", a)
        fs.append((i + 1, a, b))
    fs.append((7, I_, I_))
    return dict(src=mkstruct(None, *[(f, True, a) for f, a, _ in fs]), dst=mkstruct(None, *[(f, True, b) for f, _, b in fs]))


def fam_entry(g):
    r = g.r
    T = g.struct_ty(0, nf=2, pexp=1.0)
    bad = r.choice([I_, S_, ("p", T), ("sl", T), ("m", S_, I_), ("p", ("p", T)), ("o", "iface", 1), ("o", "array", 1), g.named(), ("o", "func", 1)])
    x = r.random()
    return dict(src=bad, dst=T) if x < 0.4 else dict(src=T, dst=bad) if x < 0.8 else dict(src=bad, dst=r.choice([bad, I_]))


def fam_random(g):
    r = g.r
    s = g.struct_ty(r.randint(0, 2), nf=r.randint(1, 5))
    return dict(src=s, dst=g.derive(s, W_RANDOM, extra=r.randint(0, 2), shuffle=r.random() < 0.5))


def fam_options(g):
    """default ignore set + default converter; a call with EXTRA per-call options is followed by a call
    without per-call options whose result depends on the extra options not having leaked into the defaults"""
    r = g.r
    n = r.randint(4, 6)
    fids = g.fids(n, 8)
    tys = [r.choice([I_, S_, I_, ("b", "int64"), S_, ("b", "uint8")]) for _ in fids]
    fs = [(f, True, t) for f, t in zip(fids, tys)]
    nested = r.random() < 0.5
    if nested:       # the same names one level down (ignore / convert are by name at every level)
        inner = mkstruct(None, *[(f, True, t) for f, t in zip(fids[:3], tys[:3])])
        fs.append((9, True, inner if r.random() < 0.5 else ("p", inner)))
    T = mkstruct(g.fresh() if r.random() < 0.5 else None, *fs)
    D = T if r.random() < 0.5 else ("s", g.fresh(), tuple(r.sample(fs, len(fs))))
    A, B, X, Y = fids[0], fids[1], fids[2], fids[3]
    ty = dict(zip(fids, tys))
    dflt = [("ig", (A,)), ("cv", B, g.conv_for(ty[B], ty[B], "match"))]
    if r.random() < 0.3:
        dflt.append(("ig", (12,)))
    r.shuffle(dflt)
    calls = []

    def full():
        return ("st", tuple(g.nonzero(t) for _, _, t in T[2]))

    def plain():
        if r.random() < 0.5:
            return ("copy", full(), ())
        return ("copyto", full(), zero_val(D) if r.random() < 0.6 else g.val(D, 0.0), ())
    extra = [("ig", (X,)), ("cv", Y, g.conv_for(ty[Y], ty[Y], r.choice(["match", "match", "fail", "baddst"])))]
    r.shuffle(extra)
    if r.random() < 0.3:
        calls.append(plain())
    if r.random() < 0.5:
        calls.append(("copy", full(), tuple(extra)))
    else:
        calls.append(("copyto", full(), zero_val(D), tuple(extra)))
    calls.append(plain())
    if r.random() < 0.5:     # per-call override of the default converter's key, un-ignore is impossible; then plain again
        calls.append(("copy", full(), (("cv", B, g.conv_for(ty[B], ty[B], "match")), ("ig", (Y,)))))
        calls.append(plain())
    cs = dict(src=T, dst=D, opts=tuple(dflt), calls=tuple(calls))
    if r.random() < 0.4:
        cs["more_calls"] = 1
    return cs


def fam_iface_conv(g):
    """converters whose Dst type parameter is an INTERFACE type (ConvertField[string, any], ConvertField[int, error]):
    the result is the nil interface for some arguments (reflect.TypeOf(nil) is the nil Type) or a dynamic value;
    destination fields of interface type, of the dynamic type, or of another type"""
    r = g.r
    nf = r.randint(1, 3)
    fids = g.fids(nf, 6)
    sfs, dfs, opts, trig, other = [], [], [], {}, {}
    for f in fids:
        S = r.choice([I_, S_])
        z = g.nonzero(S) if r.random() < 0.5 else zero_val(S)      # the argument mapped to the nil interface
        o = g.nonzero(S)
        while o == z:
            o = g.nonzero(S)
        D = r.choice([ANY_, ANY_, ERROR_])
        if D == ERROR_:
            dynt, dynv = FOREIGN, ("op", 1)
            dft = r.choice([ERROR_, ERROR_, ANY_, S])
        else:
            dynt = r.choice([S, I_, S_, FOREIGN])
            dynv = ("op", 1) if dynt == FOREIGN else g.nonzero(dynt)
            dft = r.choice([ANY_, ANY_, S, dynt if dynt != FOREIGN else I_, I_ if S == S_ else S_])
        fns = [("cnil",), ("dyn", dynt, dynv), ("nilif", z, dynt, dynv), ("nilif", z, dynt, dynv), ("fail",)]
        if D == ANY_:
            fns.append(("id",))
        sfs.append((f, True, S))
        dfs.append((f, True, dft))
        opts.append(("cv", f, (S, D, r.choice(fns))))
        trig[f], other[f] = z, o
    T = mkstruct(g.fresh() if r.random() < 0.4 else None, *sfs)
    D_ = mkstruct(g.fresh() if r.random() < 0.4 else None, *dfs)
    as_default = r.random() < 0.5
    popts = () if as_default else tuple(opts)

    def src(p_trig):
        return ("st", tuple(trig[f] if r.random() < p_trig else other[f] for f in fids))
    calls = [("copy", src(1.0), popts), ("copy", src(0.0), popts), ("copyto", src(0.5), g.val(D_, 0.3), popts)]
    if r.random() < 0.5:
        calls.append(("copy", src(0.5), ()))
    r.shuffle(calls)
    return dict(src=T, dst=D_, opts=tuple(opts) if as_default else (), calls=tuple(calls))


FAMILIES = [("identical", fam_identical, 8), ("renamed", fam_renamed, 5), ("overlap", fam_overlap, 8),
            ("kind_mismatch", fam_kind_mismatch, 10), ("ptr_value", fam_ptr_value, 9), ("nested", fam_nested, 10),
            ("multiptr", fam_multiptr, 6), ("unexported", fam_unexported, 6), ("named_basic", fam_named_basic, 5),
            ("slices_maps", fam_slices_maps, 7), ("time", fam_time, 6), ("other", fam_other, 5), ("entry", fam_entry, 4),
            ("options", fam_options, 14), ("random", fam_random, 12), ("iface_conv", fam_iface_conv, 8)]


def edge_cases(g):
    """the malformed / edge stream"""
    r = g.r
    E = mkstruct(None)
    tt = ("t",)
    onlyun = mkstruct(None, (1, False, I_), (2, False, S_))
    deep = mkstruct(None, (1, True, I_))
    for lvl in range(2, 7):
        deep = mkstruct(None if lvl % 2 else g.fresh(), (1, True, I_), (lvl, True, deep if lvl % 3 else ("p", deep)))
    wide = mkstruct(None, *[(i, True, r.choice([I_, S_, ("b", "bool"), ("b", "float64")])) for i in range(1, 13)])
    NE = mkstruct(g.fresh())
    pairs = [(E, E), (E, mkstruct(None, (1, True, I_))), (mkstruct(None, (1, True, I_)), E), (onlyun, onlyun), (onlyun, mkstruct(None, (1, True, I_), (2, True, S_))),
             (tt, tt), (mkstruct(None, (1, True, I_)), tt), (tt, mkstruct(None, (1, True, I_))), (deep, deep), (wide, wide),
             (mkstruct(None, (1, True, NE), (2, True, ("p", NE))), mkstruct(None, (1, True, ("p", NE)), (2, True, NE))),
             (mkstruct(None, (1, True, ("p", E))), mkstruct(None, (1, True, ("p", E)))), (NE, E),
             (mkstruct(None, (1, True, ("o", "iface", 1)), (2, True, ("o", "func", 1))), mkstruct(None, (1, True, I_), (2, True, S_)))]
    out = []
    for s, d in pairs:
        cs = finish_case(g, dict(src=s, dst=d))
        cs["fam"] = "edge"
        out.append(cs)
    return out


# ------------------------------------------------------------------ reused nested struct types, deep and wide declarations
def dval(t, ctr, nilp=False):
    """a value of type t whose leaves are pairwise DISTINCT (ctr = [n] counter), so that a swapped field shows"""
    k = t[0]
    if k in ("b", "n"):
        ctr[0] += 1
        bk = base_kind(t)
        if bk == "string":
            return ("x", b"v%d" % ctr[0])
        if bk == "bool":
            return ("i", 1)
        if bk in ("float32", "float64", "complex64", "complex128"):
            return ("i", f64bits(float(ctr[0])) if bk == "float64" else f32bits(float(ctr[0])) if bk == "float32" else 0)
        lo, hi = INT_RANGE[bk]
        return ("i", min(hi, 10 + ctr[0]))
    if k == "s":
        return ("st", tuple(dval(ft, ctr, nilp) for _, _, ft in t[2]))
    if k == "p":
        return ("nil",) if nilp else ("ptr", dval(t[1], ctr, nilp))
    if k == "sl":
        return ("sl", (dval(t[1], ctr, nilp), dval(t[1], ctr, nilp)))
    if k == "m":
        return ("mn",)
    if k == "t":
        ctr[0] += 1
        return ("op", 1000 + ctr[0])
    return zero_val(t)


def std_calls(st, dt):
    """Copy of distinct values; CopyTo into a used destination (other distinct values); pure CopyTo"""
    c = [0]
    v1, old, v2 = dval(st, c), dval(dt, c), dval(st, c)
    return (("copy", v1, ()), ("copyto", v2, old, ()), ("pure", v1, zero_val(dt)), ("copyto", v1, dval(dt, c, nilp=True), ()))


def reuse_cases():
    """fixed stream: one NAMED nested struct type used in several fields of the source (same level, different levels,
    behind single pointers, recursively) against destination fields whose struct types differ from each other in field
    order, count (fewer / more), names and types; and the mirror image"""
    A = mkstruct(101, (1, True, S_), (2, True, I_), (3, True, S_))
    B1 = mkstruct(102, (1, True, S_), (2, True, I_), (3, True, S_))
    B2 = mkstruct(103, (3, True, S_), (1, True, S_))                                            # reordered, fewer
    B3 = mkstruct(104, (4, True, I_), (2, True, I_), (1, True, S_), (3, True, S_), (5, True, S_))   # more, other order, unmatched
    B4 = mkstruct(105, (2, True, I_), (6, True, S_))                                            # other names
    B5 = mkstruct(106, (1, True, I_), (2, True, I_))                                            # F1 of another type
    W = mkstruct(107, (1, True, A), (2, True, I_))
    WD = mkstruct(108, (2, True, I_), (1, True, B3))
    L = mkstruct(109, (1, True, A), (2, True, A))
    M1 = mkstruct(110, (1, True, B1), (2, True, B2))
    M2 = mkstruct(111, (2, True, B1), (1, True, B3))
    A1 = mkstruct(112, (1, True, S_), (2, True, I_))
    A2 = mkstruct(113, (2, True, I_), (1, True, S_), (3, True, S_))
    BB = mkstruct(114, (1, True, S_), (2, True, I_))
    pairs = [
        (mkstruct(120, (1, True, A), (2, True, A)), mkstruct(121, (1, True, B1), (2, True, B2))),
        (mkstruct(120, (1, True, A), (2, True, A)), mkstruct(121, (1, True, B2), (2, True, B3))),
        (mkstruct(120, (1, True, A), (2, True, A), (3, True, A)), mkstruct(121, (1, True, B3), (2, True, B4), (3, True, B1))),
        (mkstruct(120, (1, True, ("p", A)), (2, True, A)), mkstruct(121, (1, True, ("p", B3)), (2, True, ("p", B2)))),
        (mkstruct(120, (1, True, A), (2, True, ("p", A))), mkstruct(121, (1, True, ("p", B2)), (2, True, B1))),
        (mkstruct(120, (1, True, A), (2, True, W)), mkstruct(121, (1, True, B2), (2, True, WD))),          # different levels
        (mkstruct(120, (1, True, W), (2, True, A), (3, True, W)), mkstruct(121, (1, True, WD), (2, True, B4), (3, True, W))),
        (mkstruct(120, (1, True, L), (2, True, L)), mkstruct(121, (1, True, M1), (2, True, M2))),          # recursive reuse, depth 3
        (mkstruct(120, (1, True, L), (2, True, ("p", L)), (3, True, A)), mkstruct(121, (1, True, M2), (2, True, ("p", M1)), (3, True, B2))),
        (mkstruct(120, (1, True, A), (2, True, A)), mkstruct(121, (1, True, B1), (2, True, B5))),           # second one: type mismatch
        (mkstruct(120, (1, True, A1), (2, True, A2)), mkstruct(121, (1, True, BB), (2, True, BB))),         # mirror image
        (mkstruct(120, (1, True, A2), (2, True, ("p", A1)), (3, True, A2)), mkstruct(121, (1, True, ("p", BB)), (2, True, BB), (3, True, B3))),
    ]
    return [dict(src=a, dst=b, opts=(), calls=std_calls(a, b)) for a, b in pairs]


def deep_wide_cases():
    """fixed stream: declarations nested 9-11 levels deep and 20-30 fields wide"""
    out = []
    for depth, base in ((9, 200), (10, 230), (11, 260)):
        s = mkstruct(base, (1, True, I_), (2, True, S_))
        d = mkstruct(base + 1, (2, True, S_), (1, True, I_))
        for lvl in range(1, depth + 1):
            named = lvl % 2 == 0
            ws = ("p", s) if lvl % 3 == 0 else s
            wd = ("p", d) if lvl % 3 != 1 else d
            s = mkstruct(base + 2 * lvl if named else None, (1, True, ws), (2, True, I_))
            d = mkstruct(base + 2 * lvl + 1 if named else None, (2, True, I_), (1, True, wd), (3, True, S_))
        out.append(dict(src=s, dst=d, opts=(), calls=std_calls(s, d)[:3]))
    leafs = [I_, S_, ("b", "int64"), ("b", "bool"), ("b", "uint8"), ("p", I_), ("sl", I_), ("t",), ("b", "float64"), ("m", S_, I_)]
    for width, base in ((20, 300), (30, 320)):
        inner = mkstruct(base, *[(f, True, leafs[f % len(leafs)]) for f in range(1, 13)])
        fs = [(f, f % 7 != 0, leafs[(3 * f) % len(leafs)]) for f in range(1, width + 1)]
        fs[4] = (5, True, inner)
        fs[width // 2] = (width // 2 + 1, True, ("p", inner))
        dfs = list(reversed(fs))
        dfs[2] = (dfs[2][0], dfs[2][1], S_ if dfs[2][2] != S_ else I_)          # one mismatching type
        del dfs[7]                                                                    # one field missing
        dfs.append((width + 1, True, I_))                                           # one unmatched
        s, d = mkstruct(base + 1, *fs), mkstruct(base + 2, *dfs)
        out.append(dict(src=s, dst=d, opts=(("ig", (dfs[2][0],)),), calls=std_calls(s, d)[:3]))
    return out


def fam_reuse(g):
    """seeded: a named struct type reused k times in the source (direct, behind a pointer, inside another reused named struct)
    against destination struct types derived independently (shuffled, fields dropped / added / retyped); or the mirror image"""
    r = g.r
    leafs = [I_, S_, ("b", "int64"), ("b", "bool"), ("p", I_), ("sl", S_), ("t",), ("n", g.fresh(), "int")]
    A = ("s", g.fresh(), tuple((f, True, r.choice(leafs)) for f in g.fids(r.randint(2, 4), 6)))
    W = ("s", g.fresh(), ((1, True, A), (2, True, r.choice(leafs)), (3, True, ("p", A) if r.random() < 0.5 else A)))
    w = {"same": 0.5, "drop": 0.25, "mismatch": 0.1, "ptrflip": 0.05, "rec": 0.1}

    def variant(t):
        d = g.derive(t, w, extra=r.randint(0, 2), shuffle=True, depth=2)
        return d if d[1] is not None and d != t else ("s", g.fresh(), d[2])
    k = r.randint(2, 4)
    sfs, dfs = [], []
    for f in g.fids(k, 8):
        base = W if r.random() < 0.3 else A
        sp, dp = r.random() < 0.3, r.random() < 0.3
        sfs.append((f, True, ("p", base) if sp else base))
        dv = variant(base)
        dfs.append((f, True, ("p", dv) if dp else dv))
    if r.random() < 0.5:
        r.shuffle(dfs)
    S, D = ("s", g.fresh(), tuple(sfs)), ("s", g.fresh(), tuple(dfs))
    if r.random() < 0.25:      # mirror image: one destination type reused against different source types
        S, D = D, S
    c = [r.randint(0, 50)]
    calls = [("copy", dval(S, c), ()), ("copyto", dval(S, c), dval(D, c), ()), ("pure", dval(S, c), zero_val(D))]
    if r.random() < 0.5:
        calls.append(("copyto", g.val(S, 0.3), g.val(D, 0.2), ()))
    return dict(src=S, dst=D, opts=(), calls=tuple(calls))


FAMILIES.append(("reuse", fam_reuse, 12))


def nil_cases():
    T = mkstruct(None, (1, True, I_), (2, True, S_))
    U = mkstruct(None, (1, True, S_), (3, True, I_))             # F1 of another type: a copy would fail with a Kind error
    N = mkstruct(7, (1, True, I_), (2, True, ("p", I_)))         # a defined struct type with a pointer field
    out = []
    for A, B in ((T, T), (T, U), (N, N), (N, T)):
        va, vb = (lambda t: ("st", tuple(zero_val(ft) if ft[0] == "p" else (("i", 4) if ft == I_ else ("x", b"q")) for _, _, ft in t[2])))(A), None
        vb = ("st", tuple(zero_val(ft) if ft[0] == "p" else (("i", 9) if ft == I_ else ("x", b"z")) for _, _, ft in B[2]))
        pa, pb = (("p", A), ("ptr", va)), (("p", B), ("ptr", vb))
        na, nb = (("p", A), ("nil",)), (("p", B), ("nil",))
        calls = [("copyto", va, None, ()), ("copyto", None, vb, ()), ("copyto", None, None, ()), ("copy", None, ()),
                 ("pureg", None, pb), ("pureg", pa, None), ("pureg", None, None),
                 ("pureg", na, pb), ("pureg", pa, nb), ("pureg", na, nb), ("pureg", pa, pb),
                 # kinds are checked before typed nil pointers, the nil interface before kinds
                 ("pureg", na, (I_, ("i", 5))), ("pureg", (I_, ("i", 5)), nb), ("pureg", (I_, ("i", 5)), None), ("pureg", None, (I_, ("i", 5))),
                 ("pureg", (("p", I_), ("nil",)), pb), ("pureg", pa, (("p", S_), ("nil",))), ("pureg", (A, va), nb), ("pureg", na, (B, vb)),
                 ("pureg", (("p", ("p", A)), ("nil",)), pb)]
        out.append(dict(src=A, dst=B, opts=(), calls=tuple(calls)))
    return out


def corpus():
    """tiny fixed corpus, always first: the former constructor panic, a plain copy, the option-leak sequence, the zero skip"""
    T = mkstruct(None, (1, True, I_), (2, True, S_), (3, True, I_), (4, True, S_))
    v = ("st", (("i", 1), ("x", b"a"), ("i", 3), ("x", b"d")))
    old = ("st", (("i", 9), ("x", b"o"), ("i", 8), ("x", b"p")))
    cv = (I_, I_, ("add", 1))
    cs = [dict(MINIMAL_PANIC),
          dict(src=T, dst=T, opts=(), calls=(("copy", v, ()), ("copyto", v, old, ()), ("pure", v, old))),
          dict(src=T, dst=T, opts=(("ig", (2,)), ("cv", 1, cv)),
               calls=(("copy", v, (("ig", (4,)), ("cv", 3, cv))), ("copy", v, ()), ("copyto", v, old, ()))),
          dict(src=T, dst=T, opts=(), calls=(("copyto", ("st", (("i", 0), ("x", b""), ("i", 3), ("x", b"d"))), old, ()),
                                             ("pure", ("st", (("i", 0), ("x", b""), ("i", 3), ("x", b"d"))), old)))]
    # a converter to an interface type that returns the nil interface for "" (reflect.TypeOf(nil) == nil -> type-mismatch error)
    cs.append(dict(src=mkstruct(None, (1, True, S_)), dst=mkstruct(None, (1, True, ANY_)),
                   opts=(("cv", 1, (S_, ANY_, ("nilif", ("x", b""), I_, ("i", 2)))),),
                   calls=(("copy", ("st", (("x", b""),)), ()), ("copy", ("st", (("x", b"ab"),)), ()))))
    cs.append(dict(src=mkstruct(None, (1, True, I_)), dst=mkstruct(None, (1, True, ERROR_)), opts=(),
                   calls=(("copyto", ("st", (("i", 0),)), ("st", (("op", 1),)), (("cv", 1, (I_, ERROR_, ("cnil",))),)),
                          ("copy", ("st", (("i", 3),)), (("cv", 1, (I_, ERROR_, ("dyn", FOREIGN, ("op", 1)))),)))))
    # nil arguments (the nil-argument fix): every shape, on matching and mismatching pairs, so that the ORDER of the checks
    # shows (nil interface first; then the four entry kind checks; then typed nil pointers)
    cs += nil_cases()
    cs += reuse_cases()
    cs += deep_wide_cases()
    # the replay of the known finding C20:copy:zero-skip (known_findings.json), verbatim
    Z1 = mkstruct(None, (1, True, I_))
    cs.append(dict(src=Z1, dst=Z1, opts=(), calls=(("copyto", ("st", (("i", 0),)), ("st", (("i", 9),)), ()),)))
    for x in cs:
        x["fam"] = "corpus"
    return cs


def gen_cases(seed, n):
    r = random.Random(seed)
    out = corpus()
    for cs in edge_cases(Gen(r)):
        out.append(cs)
    names = [f[0] for f in FAMILIES]
    weights = [f[2] for f in FAMILIES]
    fn = {f[0]: f[1] for f in FAMILIES}
    # every family at least twice, the rest by weight
    plan = names * 2
    while len(out) + len(plan) < n:
        plan.append(r.choices(names, weights)[0])
    for fam in plan:
        g = Gen(r)
        cs = finish_case(g, fn[fam](g))
        cs["fam"] = fam
        out.append(cs)
    return out


# ------------------------------------------------------------------ running a batch of cases on both sides
GEN_PATH = os.path.join(HARNESS, "c20", "cases_gen.go")


class BuildFailed(Exception):
    pass


def run_indices(binary, args, n, timeout=600):
    """run `h c20 <args>`; a fatal run-time error (e.g. concurrent map writes) kills the process:
    the case at which it died is marked CRASH and the run is resumed after it (separate processes)."""
    lines = [None] * n
    todo = list(range(n))
    restarts = 0
    crashes = {}
    first = True
    while todo:
        cmd = [binary, "c20"] + args + ([] if first else [str(i) for i in todo])
        first = False
        try:
            p = subprocess.run(cmd, stdin=subprocess.DEVNULL, stdout=subprocess.PIPE, stderr=subprocess.PIPE, text=True,
                               timeout=timeout, env=GOENV)
            out, err, rc = p.stdout.splitlines(), p.stderr, p.returncode
        except subprocess.TimeoutExpired as e:
            out = (e.stdout or b"").decode(errors="replace").splitlines() if isinstance(e.stdout, bytes) else (e.stdout or "").splitlines()
            err, rc = "timeout", -9
        for i, l in zip(todo, out):
            lines[i] = l
        if len(out) >= len(todo):
            break
        dead = todo[len(out)]
        lines[dead] = "CRASH"
        crashes[dead] = "rc=%s %s" % (rc, err[:600])
        todo = todo[len(out) + 1:]
        restarts += 1
        if restarts > 40:
            for i in todo:
                lines[i] = "NOTRUN"
            break
    return lines, crashes


def run_batch(c, cases, tag="b", conc=True, alias=False):
    text = "".join(sx_case(cs) + "\n" for cs in cases)
    model = c.run_model("copier", text)
    model_nz = c.run_model("copier-nozs", text)      # repaired variant: no zero-skip (known finding C20:copy:zero-skip)
    path = os.path.join(c.tmp, "cases_gen_%s.go" % tag)
    open(path, "w").write(go_file(cases))
    binary, log = c.build_harness(pkgs=["c20"], extra_overlay={GEN_PATH: path})
    if binary is None:
        raise BuildFailed(log)
    impl, crashes_s = run_indices(binary, [], len(cases))
    if conc:
        cl, crashes_c = run_indices(binary, ["conc"], len(cases))
    else:
        cl, crashes_c = [None] * len(cases), {}
    mem = al = None
    if alias:
        mem = c.run_model("copier-mem", text)          # memory-level model: share / fresh per reference, erased destination
        al, _ = run_indices(binary, ["alias"], len(cases))
    return dict(model=model, model_nz=model_nz, impl=impl, conc=cl, crashes=crashes_c, crashes_seq=crashes_s, binary=binary,
                mem=mem, alias=al)


# ------------------------------------------------------------------ classification of a disagreement
def zero_skip_calls_model(mline, zline):
    """indices of the calls whose result depends on the zero-skip (model as-is != repaired model variant)"""
    if not mline or not zline or mline == "badcase" or zline == "badcase":
        return []
    a, b = mline.split(" | "), zline.split(" | ")
    if len(a) != len(b) or a[0] != b[0]:
        return []
    return [j - 1 for j in range(1, len(a)) if a[j] != b[j]]


def merge_model(mline, zline, iline):
    """known finding C20:copy:zero-skip: for a call whose result depends on the zero-skip accept EITHER the
    model of the code as it is (old value kept) OR the repaired variant (the source's zero value copied):
    the expected line takes, call by call, the variant the implementation shows; everything else is the model."""
    if not iline or not mline or not zline:
        return mline
    a, b, x = mline.split(" | "), zline.split(" | "), iline.split(" | ")
    if not (len(a) == len(b) == len(x)) or a[0] != b[0]:
        return mline
    return " | ".join([a[0]] + [b[j] if (a[j] != b[j] and x[j] == b[j]) else a[j] for j in range(1, len(a))])


def classify(cs, mline, iline, shared=False, zline=None):
    """coarse signature of the first difference between the model's and the implementation's line
    (None when they agree).  shared: iline comes from the concurrent pass.  zline: the repaired
    (no zero-skip) model variant, accepted call by call as an alternative (see merge_model)."""
    if zline is not None:
        mline = merge_model(mline, zline, iline)
    if iline == mline:
        return None
    if iline in ("NOTRUN", "nocase"):
        return "C20:harness:notrun"
    if iline is None or iline == "CRASH":
        return "C20:shared:crash" if shared else "C20:seq:crash"
    if mline is None or mline == "badcase":
        return "C20:driver:badcase"
    mc, mr = split_line(mline)
    ic, ir = split_line(iline)
    if mc != ic:
        return "C20:ctor:panic" if ic == "panic" else "C20:ctor:%s/%s" % (mc.replace("err:", ""), ic.replace("err:", ""))
    if len(mr) != len(ir):
        return "C20:harness:short"
    for k, (ms, md), (is_, id_) in zip(cs["calls"], mr, ir):
        op = "pure" if k[0] in PURE else "copy"
        pre = "C20:shared:" if shared and op == "copy" else "C20:%s:" % op
        if is_.startswith("panic") and not ms.startswith("panic") and has_nil_arg(k):
            return "C20:copy:nil-arg"       # a nil argument must give an error (or a no-op), never a panic
        if is_ == "diverge":
            return "C20:shared:diverge"
        if "!srcmod" in is_:
            return pre + "srcmod"
        if ms != is_:
            return pre + ("panic" if is_ == "panic" else "status")
        if md != id_:
            return pre + "field"
    return "C20:harness:format"


# ------------------------------------------------------------------ minimisation: deletion keys relative to the original case
def case_keys(cs):
    keys = [("call", i) for i in range(len(cs["calls"]))]
    keys += [("dopt", j) for j in range(len(cs["opts"]))]
    for i, k in enumerate(cs["calls"]):
        if k[0] not in PURE:
            keys += [("copt", i, j) for j in range(len(k[-1]))]
    names = set()
    for t in case_types(cs):
        all_names(t, names)
    keys += [("field", f) for f in sorted(names)]
    if cs["src"][0] == "s":
        keys += [("sfield", f) for f, _, _ in cs["src"][2]]
    if cs["dst"][0] == "s":
        keys += [("dfield", f) for f, _, _ in cs["dst"][2]]
    return keys


def drop_ty(t, F):
    k = t[0]
    if k == "s":
        return ("s", t[1], tuple((f, e, drop_ty(ft, F)) for f, e, ft in t[2] if f not in F))
    if k in ("p", "sl"):
        return (k, drop_ty(t[1], F))
    if k == "m":
        return ("m", t[1], drop_ty(t[2], F))
    return t


def drop_val(t, v, F):
    k = t[0]
    if k == "s":
        return ("st", tuple(drop_val(ft, x, F) for (f, e, ft), x in zip(t[2], v[1]) if f not in F))
    if k == "p":
        return v if v[0] == "nil" else ("ptr", drop_val(t[1], v[1], F))
    if k == "sl":
        return v if v[0] == "sln" else ("sl", tuple(drop_val(t[1], x, F) for x in v[1]))
    if k == "m":
        return v if v[0] == "mn" else ("mp", tuple((a, drop_val(t[2], b, F)) for a, b in v[1]))
    return v


def drop_opt(o, F):
    if o[0] == "cv" and o[2] is not None:
        s, d, fn = o[2]
        if fn[0] == "const":
            fn = ("const", drop_val(d, fn[1], F))
        return ("cv", o[1], (drop_ty(s, F), drop_ty(d, F), fn))
    return o


def drop_top(t, v_list, F, off):
    """remove the top-level fields F of root struct t only; a defined root gets a fresh name"""
    if t[0] != "s" or not F:
        return t, v_list
    keep = [i for i, (f, _, _) in enumerate(t[2]) if f not in F]
    nt = ("s", None if t[1] is None else off + t[1], tuple(t[2][i] for i in keep))
    return nt, [None if v is None else ("st", tuple(v[1][i] for i in keep)) for v in v_list]


def apply_keys(cs, keys):
    F = {k[1] for k in keys if k[0] == "field"}
    sF = {k[1] for k in keys if k[0] == "sfield"} - F
    dF = {k[1] for k in keys if k[0] == "dfield"} - F
    st0, dt0 = cs["src"], cs["dst"]
    st, dt = drop_ty(st0, F), drop_ty(dt0, F)
    opts = tuple(drop_opt(o, F) for j, o in enumerate(cs["opts"]) if ("dopt", j) not in keys)
    calls = []
    for i, k in enumerate(cs["calls"]):
        if ("call", i) in keys:
            continue
        if k[0] == "pureg":
            calls.append(list(k))
            continue
        if k[0] == "pure":
            calls.append(["pure", drop_val(st0, k[1], F), drop_val(dt0, k[2], F)])
            continue
        os_ = tuple(drop_opt(o, F) for j, o in enumerate(k[-1]) if ("copt", i, j) not in keys)
        s = None if k[1] is None else drop_val(st0, k[1], F)
        if k[0] == "copy":
            calls.append(["copy", s, os_])
        else:
            calls.append(["copyto", s, None if k[2] is None else drop_val(dt0, k[2], F), os_])
    # top-level only deletions
    st, svals = drop_top(st, [k[1] if k[0] != "pureg" else None for k in calls], sF, 1000)
    dt, dvals = drop_top(dt, [k[2] if k[0] not in ("copy", "pureg") else None for k in calls], dF, 2000)
    for k, sv, dv in zip(calls, svals, dvals):
        if k[0] == "pureg":         # its arguments carry their own types
            continue
        k[1] = sv
        if k[0] != "copy":
            k[2] = dv
    out = dict(src=st, dst=dt, opts=opts, calls=tuple(tuple(k) for k in calls), fam=cs.get("fam", "?"))
    defs = {}
    for t in case_types(out):       # consistency of the defined types (raises AssertionError otherwise)
        collect_defined(t, defs)
    return out


def case_size(cs):
    return len(sx_case(cs))


def minimise(c, cs, sig, shared, stats):
    """delta-debugging over deletion keys; every round builds ALL candidates into one generated file"""
    allkeys = case_keys(cs)
    K, bad, G = frozenset(), set(), []
    best = cs
    for rnd in range(5):
        remaining = [k for k in (G if G else allkeys) if k not in K and k not in bad]
        sets = [K | {k} for k in remaining]
        if len(G) >= 2:
            g = [k for k in G if k not in K]
            sets = [K | set(g), K | set(g[:len(g) // 2]), K | set(g[len(g) // 2:])] + sets
        cands = []
        for s in sets:
            try:
                cands.append((frozenset(s), apply_keys(cs, s)))
            except AssertionError:
                pass
        if not cands:
            break
        try:
            res = run_batch(c, [x[1] for x in cands], tag="min%d" % rnd, conc=shared)
        except BuildFailed:
            stats["minimise_build_failures"] = stats.get("minimise_build_failures", 0) + 1
            break
        stats["minimise_rounds"] = stats.get("minimise_rounds", 0) + 1
        lines = res["conc"] if shared else res["impl"]
        good = []
        for (s, cand), m, z, a in zip(cands, res["model"], res["model_nz"], lines):
            if classify(cand, m, a, shared, z) == sig:
                good.append((s, cand))
            elif len(s - K) == 1:
                bad.update(s - K)
        if not good:
            if G:
                G = []
                continue
            break
        s, cand = min(good, key=lambda x: (case_size(x[1]), sorted(map(str, x[0]))))
        G = sorted({k for s2, _ in good if len(s2 - K) == 1 for k in s2 - K}, key=str)
        K, best = s, cand
        G = [k for k in G if k not in K]
    return best


# ------------------------------------------------------------------ evidence helpers
def top_matched(cs):
    st, dt = cs["src"], cs["dst"]
    if st[0] != "s" or dt[0] != "s":
        return []
    sf = {f: (i, ft) for i, (f, e, ft) in enumerate(st[2]) if e}
    return [(f, sf[f][0], j, sf[f][1], dft) for j, (f, e, dft) in enumerate(dt[2]) if e and f in sf]


def opt_names(opts):
    ig, cv = set(), set()
    for o in opts:
        if o[0] == "ig":
            ig.update(o[1])
        elif o[2] is not None and o[1] != 0:
            cv.add(o[1])
    return ig, cv


def zero_skip_calls(cs):
    """copyto calls into a used destination where a top-level matched, same-typed, non-ignored, non-converted
    leaf has a zero source value and a non-zero old destination value"""
    n = 0
    ig0, cv0 = opt_names(cs["opts"])
    for k in cs["calls"]:
        if k[0] != "copyto" or k[1] is None or k[2] is None:
            continue
        ig, cv = opt_names(k[3])
        for f, si, di, sft, dft in top_matched(cs):
            if sft != dft or not (is_shadow(sft) or sft[0] == "t") or f in ig | ig0 or f in cv | cv0:
                continue
            if is_zero(k[1][1][si]) and not is_zero(k[2][1][di]):
                n += 1
                break
    return n


def go_snippet(cs):
    return go_case(0, cs)


HOW = ("save the Go snippet as harness/c20/cases_gen.go (after the header of a generated file: package c20 + imports math, time, "
       "bean/copier, bean/copier/converter), build the harness (tools/genimports.sh; go build -tags verif) and run `h c20` / `h c20 conc`; "
       "model: echo '<case>' | ocaml/modelrun copier")


def process_batch(c, cases, res, stats, budget):
    """compare the three streams case by case; report (minimised) disagreements"""
    model, model_nz, impl, conc = res["model"], res["model_nz"], res["impl"], res["conc"]
    agree = 0
    for i, cs in enumerate(cases):
        m = model[i] if i < len(model) else None
        z = model_nz[i] if i < len(model_nz) else None
        a = impl[i] if i < len(impl) else None
        b = conc[i] if i < len(conc) else None
        # the known finding: a call whose result depends on the zero-skip, and the implementation keeps the old value
        zs = zero_skip_calls_model(m, z)
        if zs and a and len(a.split(" | ")) == len(m.split(" | ")):
            ap, mp, zp = a.split(" | "), m.split(" | "), z.split(" | ")
            kept = [j for j in zs if ap[j + 1] == mp[j + 1] and mp[j + 1].startswith("ok ")]
            rep = [j for j in zs if ap[j + 1] == zp[j + 1]]
            stats["zero_skip_calls_old_value_kept"] = stats.get("zero_skip_calls_old_value_kept", 0) + len(kept)
            stats["zero_skip_calls_repaired_behaviour"] = stats.get("zero_skip_calls_repaired_behaviour", 0) + len(rep)
            if kept and not budget.get("zero_skip_reported"):
                budget["zero_skip_reported"] = True
                one = dict(cs, calls=(cs["calls"][kept[0]],))
                c.report("C20:copy:zero-skip",
                         "CopyTo into a used destination keeps the old value of a matched field whose source value is the zero value "
                         "(e.g. src {A:0} into dst {A:9} leaves 9)",
                         {"kind": "program", "case": sx_case(one), "go": go_snippet(one), "implementation": " | ".join([ap[0], ap[kept[0] + 1]]),
                          "model": " | ".join([mp[0], mp[kept[0] + 1]]), "repaired_model": " | ".join([zp[0], zp[kept[0] + 1]]),
                          "from_case": sx_case(cs), "how": HOW})
        m = merge_model(m, z, a)
        sig, shared, line = classify(cs, m, a), False, a
        if sig is None:
            mb = merge_model(model[i] if i < len(model) else None, z, b)
            sig, shared, line = classify(cs, mb, b, True), True, b
            if sig is not None:
                m = mb
        if sig is None:
            agree += 1
            continue
        stats["disagreements"] = stats.get("disagreements", 0) + 1
        if sig in budget["seen"] or len(budget["seen"]) >= 6:
            continue
        budget["seen"].add(sig)
        small = cs
        if sig.split(":")[1] not in ("driver", "harness", "seq"):
            small = minimise(c, cs, sig, shared, stats)
        if small is not cs:
            try:
                for attempt in range(4 if sig.endswith(":crash") or sig.endswith(":diverge") else 1):
                    r2 = run_batch(c, [small], tag="rep", conc=shared)
                    l2 = (r2["conc"] if shared else r2["impl"])[0]
                    m2 = merge_model(r2["model"][0], r2["model_nz"][0], l2)
                    if classify(small, m2, l2, shared) == sig:
                        m, line = m2, l2
                        if shared and 0 in r2["crashes"]:
                            res["crashes"][i] = r2["crashes"][0]
                        break
                else:
                    small = cs
            except BuildFailed:
                small = cs
        what = {"C20:ctor:panic": "NewReflectCopier panics on a pair of struct types (the model reports %s)" % split_line(m or "ctor=?")[0],
                "C20:copy:nil-arg": "a nil src / dst argument makes CopyTo panic instead of returning an error: implementation `%s`, model `%s`" % (line, m)}.get(
            sig, "bean/copier disagrees with the verified model (%s): implementation `%s`, model `%s`" % (sig, line, m))
        extra = {}
        if shared and i in res["crashes"]:
            extra["crash"] = res["crashes"][i]
        c.report(sig, what, dict({"kind": "program", "case": sx_case(small), "go": go_snippet(small), "implementation": line, "model": m,
                                  "original_case": sx_case(cs) if small is not cs else None, "family": cs.get("fam"),
                                  "pass": "concurrent (8 goroutines x 3 rounds on the shared copier)" if shared else "sequential",
                                  "how": HOW}, **extra))
    return agree



# ------------------------------------------------------------------ aliasing observables (memory-level model, C20_mem)
def ty_has_ref(t):
    k = t[0]
    if k in ("p", "sl", "m"):
        return True
    if k == "s":
        return any(ty_has_ref(ft) for _, _, ft in t[2])
    return False


def elem_has_ptr(t, inside=False):
    k = t[0]
    if k == "p":
        return inside or elem_has_ptr(t[1], inside)
    if k == "sl":
        return elem_has_ptr(t[1], True)
    if k == "m":
        return elem_has_ptr(t[1], True) or elem_has_ptr(t[2], True)
    if k == "s":
        return any(elem_has_ptr(ft, inside) for _, _, ft in t[2])
    return False


def conv_has_ref(opts):
    for o in opts:
        if o[0] == "cv" and o[2] is not None:
            S, D, fn = o[2]
            ts = [S, D] + ([fn[1]] if fn[0] == "dyn" else [fn[2]] if fn[0] == "nilif" else [])
            if any(t != FOREIGN and ty_has_ref(t) for t in ts):
                return True
    return False


def alias_pass(c, cases, res, stats, budget):
    """compare, call by call, the harness' aliasing observables (status, source unchanged cell by cell incl. the cells
    between len and cap, which references of the destination are the source's) with the extracted memory-level model
    (CopierMemModel: mem_copy_to / mem_copy on a store built from the case), and the erased destination of the
    memory-level model with the tree-level model.  Out of the memory model's domain (skipped, counted): calls with a
    converter over reference types; zero-skip calls (either behaviour is accepted there); pure calls."""
    for i, cs in enumerate(cases):
        m, z, mm, al = res["model"][i], res["model_nz"][i], res["mem"][i], res["alias"][i]
        if not m or m == "badcase" or not mm or mm == "badcase" or not al or al in ("CRASH", "NOTRUN", "nocase"):
            if al in ("CRASH", "NOTRUN", "nocase") or mm == "badcase":
                stats["alias_not_run"] = stats.get("alias_not_run", 0) + 1
            continue
        mp, zp, mmp, ap = m.split(" | "), z.split(" | "), mm.split(" | "), al.split(" | ")
        if not (len(mp) == len(zp) == len(mmp) == len(ap)) or mp[0] != "ctor=ok":
            continue
        elems = elem_has_ptr(cs["src"]) or elem_has_ptr(cs["dst"])
        for j, k in enumerate(cs["calls"]):
            if k[0] in PURE or (k[0] == "copyto" and k[2] is None):     # pure calls / nil dst: not in the memory model
                continue
            a, x, t = ap[j + 1], mmp[j + 1], mp[j + 1]
            sig = what = None
            if "!srcmod" in a:
                sig, what = "C20:copy:srcmod", "the source is modified by the call (deep snapshot incl. the cells between len and cap): `%s`" % a
            elif conv_has_ref(cs["opts"]) or conv_has_ref(k[-1]):
                stats["alias_skipped_ref_converter"] = stats.get("alias_skipped_ref_converter", 0) + 1
                continue
            elif mp[j + 1] != zp[j + 1]:
                stats["alias_skipped_zero_skip"] = stats.get("alias_skipped_zero_skip", 0) + 1
                continue
            else:
                stats["alias_calls_compared"] = stats.get("alias_calls_compared", 0) + 1
                if a.startswith("panic") or x.startswith("panic"):
                    if a.split()[0] != x.split()[0]:
                        sig, what = "C20:copy:alias", "memory-level model `%s`, implementation `%s`" % (x, a)
                else:
                    xs = x.split(" ", 2)
                    if a != xs[0] + " " + xs[1]:
                        sig, what = "C20:copy:alias", ("which references of the destination are shared with the source: implementation `%s`, "
                                                        "memory-level model `%s` (N nil, E no cells, S the source's, F not the source's)" % (a, xs[0] + " " + xs[1]))
                    elif not elems and xs[0] + " " + xs[2] != t:
                        sig, what = "C20:model:erase", "memory-level model erased `%s`, tree-level model `%s`" % (xs[0] + " " + xs[2], t)
                    if "S" in xs[1]:
                        stats["alias_calls_with_sharing"] = stats.get("alias_calls_with_sharing", 0) + 1
            if sig and sig not in budget["seen"] and len(budget["seen"]) < 6:
                budget["seen"].add(sig)
                one = dict(cs, calls=(k,))
                c.report(sig, what, {"kind": "program", "case": sx_case(one), "go": go_snippet(one), "implementation": a,
                                     "memory_model": x, "tree_model": t, "from_case": sx_case(cs),
                                     "how": HOW + "; aliasing: `h c20 alias`, model: ocaml/modelrun copier-mem"},
                         found_input=(sig != "C20:model:erase"))


def crosscheck(c, cases, model, r):
    idx = [i for i in range(len(cases)) if model[i] != "badcase" and len(sx_case(cases[i])) < 2500]
    idx = sorted(r.sample(idx, min(60, len(idx))))
    items = [coq_case(cases[i], model[i]) for i in idx]
    v = CROSS_PRELUDE + "Definition cases : list bool :=\n  [" + ";\n   ".join(items) + "].\n" + \
        "Definition bad := Eval vm_compute in length (filter negb cases).\nPrint bad.\n"
    rc, out = c.coq_crosscheck(v)
    okx = rc == 0 and re.search(r"bad\s*=\s*0(%nat)?\s", out.replace("\n", " ") + " ") is not None
    c.cov["coq_vm_compute_crosscheck"] = {"cases": len(idx), "agree": bool(okx)}
    if not okx:
        c.report("C20:extraction", "OCaml extraction and vm_compute disagree on the model's output",
                 {"kind": "extraction-crosscheck", "coq_output": out[-1500:]}, found_input=False)


def main(tier):
    c = Check("C20", tier)
    c.proof_layer()
    c.ensure_modelrun()
    total = 150 if tier == "quick" else 2000
    per = 150 if tier == "quick" else 250
    stats, budget = {}, {"seen": set()}
    fams, call_kinds = {}, {"copy": 0, "copyto": 0, "pure": 0, "pureg": 0}
    c.cov.update({"nil_dst_cases": 0, "nil_src_cases": 0, "zero_skip_cases": 0, "ctor_outcomes": {}, "call_statuses": {},
                  "cases_with_default_options": 0, "calls_with_per_call_options": 0, "conc_calls": 0})
    agree = 0
    nb = (total + per - 1) // per
    for b in range(nb):
        cases = gen_cases(c.seed * 1000 + b, per)
        if b > 0:
            cases = cases[len(corpus()):]
        try:
            res = run_batch(c, cases, tag="b%d" % b, alias=True)
        except BuildFailed as e:
            c.report("C20:build", "the generated case file / harness does not build against the repository",
                     {"kind": "build", "log": str(e)[-3000:]}, found_input=False)
            break
        agree += process_batch(c, cases, res, stats, budget)
        alias_pass(c, cases, res, stats, budget)
        for i, cs in enumerate(cases):
            m = res["model"][i]
            ctor, calls = split_line(m)
            text = sx_case(cs)
            c.note_case(text, ctor == "ok" and bool(top_matched(cs)))
            fams[cs["fam"]] = fams.get(cs["fam"], 0) + 1
            c.cov["ctor_outcomes"][ctor] = c.cov["ctor_outcomes"].get(ctor, 0) + 1
            c.cov["cases_with_default_options"] += 1 if cs["opts"] else 0
            for k, (s, _) in zip(cs["calls"], calls):
                call_kinds[k[0]] += 1
                c.cov["call_statuses"][s] = c.cov["call_statuses"].get(s, 0) + 1
                c.cov["nil_arg_calls"] = c.cov.get("nil_arg_calls", 0) + (1 if has_nil_arg(k) else 0)
                if k[0] not in PURE:
                    c.cov["calls_with_per_call_options"] += 1 if k[-1] else 0
                    c.cov["nil_src_cases"] += 1 if k[1] is None else 0
                    c.cov["conc_calls"] += 1 if ctor == "ok" else 0
                if k[0] == "copyto" and k[2] is None:
                    c.cov["nil_dst_cases"] += 1
            c.cov["zero_skip_cases"] += zero_skip_calls(cs)
        if b == 0:
            for cs in [cases[0], cases[2]] + [x for x in cases if x["fam"] == "nested"][:1] + [x for x in cases if x["fam"] == "options"][:1]:
                c.sample(sx_case(cs))
            crosscheck(c, cases, res["model"], random.Random(c.seed + 7))
    c.cov["case_distribution"] = fams
    c.cov["call_kinds"] = call_kinds
    c.cov["traces_validated_against_impl"] = agree
    c.cov["search"] = stats
    c.finish(
        level="proof",
        rule="cases = programs (Src type, Dst type, constructor options, 2-5 calls Copy / CopyTo / package-level CopyTo) generated from VERIF_SEED "
             "by type-pair families (see case_distribution) plus a fixed corpus and an edge stream; each case is compiled into the harness and run "
             "sequentially and from 8 goroutines x 3 rounds on the shared copier; non-trivial = the constructor returns ok and at least one exported "
             "top-level field name is matched; distinct by md5 of the case text",
        assumptions=["the reflected universe of CopierModel.v: no embedded fields, no struct tags, one package, defined types are named basic kinds and structs; "
                     "chan/array/func/interface values are opaque; converters are pure functions of a five-function language",
                     "package reflect (TypeOf, Kind, Field, Set, CanSet, IsZero, Interface, type identity) behaves as modelled (cross-checked by the differential run)",
                     "the concurrent pass is a stress test (8 goroutines x 3 rounds per call), not an exhaustive interleaving search",
                     "memory level (props/C20_mem.v): every Copy / CopyTo call is also run in `h c20 alias` (status, source unchanged cell by cell incl. "
                     "the cells between len and cap, which pointer / slice / map references of the destination are the source's) and compared with "
                     "the extracted CopierMemModel on a store built from the case (modelrun copier-mem); its erased destination is compared with the "
                     "tree-level model; skipped and counted in coverage.search: calls with a converter over reference types, zero-skip calls, pure calls",
                     "known finding C20:copy:zero-skip: for calls whose result depends on the zero-skip (model as-is != model variant "
                     "`copier-nozs`, at any nesting depth) either answer is accepted call by call; while the implementation keeps the old "
                     "value the finding is reported once (KNOWN-FINDING); every other difference is a violation"],
        trusted_base=["Coq 8.16.1 kernel + vm_compute (no native_compute)", "no axioms (Print Assumptions: closed under the global context)",
                      "extraction: ExtrOcamlBasic only, no Extract Constant; cross-checked against vm_compute on <= 60 cases per run",
                      "OCaml driver ocaml/drv_copier.ml, Go harness harness/c20 (runner + canonical printer), checks/c20.py (case and Go source generator)"])


if __name__ == "__main__":
    main(sys.argv[1] if len(sys.argv) > 1 else "quick")
