"""C05 — priority queue and skip list behave as sorted multisets.

Proof layer (props/C05.v + props/C05_skip.v), then the correspondence of the priority-queue half
(this file, `run_pq`) and of the skip-list half (`checks/c05_skip.py`, entry point `run(c, binary)`,
when present).

Priority-queue correspondence: histories of Enqueue/Dequeue/Peek/Len are run on the real code
(harness/c05pq: internal/queue.PriorityQueue and the public wrapper queue.PriorityQueue) and on the
extracted Coq model (HeapModel, ocaml/drv_heap.ml); after EVERY operation the answer (value / error
class), Len() and the white-box dump of the heap array data[1:] must be identical (both sift loops are
deterministic).  On a disagreement the search layer decides the property itself on the implementation:
the implementation's own answers are fed to the abstract sorted-multiset specification extracted from
the same Coq file (abs_first_reject, proved sound and complete), the history is extended by a full
drain, and heap_invb (proved equivalent to heap_inv) is evaluated on every dumped array."""
import os
import random
import re
import subprocess
import sys

from common import Check, coq_z, coq_list, VERIF

CMPS = ["asc", "desc", "mod3"]
OPNAME = {"e": "Enqueue", "d": "Dequeue", "p": "Peek", "l": "Len"}
I64MAX = (1 << 63) - 1
I64MIN = -(1 << 63)


# --------------------------------------------------------------------------- generation

def value_source(r):
    """A per-history value distribution: tiny ranges give many duplicates / ties."""
    kind = r.choice(["tiny", "tiny", "small", "small", "mid", "wide", "runs"])
    if kind == "tiny":
        hi = r.randint(1, 4)
        return kind, (lambda: r.randint(0, hi))
    if kind == "small":
        return kind, (lambda: r.randint(-9, 9))
    if kind == "mid":
        return kind, (lambda: r.randint(-1000, 1000))
    if kind == "wide":
        ext = [I64MAX, I64MIN, I64MAX - 1, I64MIN + 1, 0, -1, 1, 1 << 62, -(1 << 62)]
        return kind, (lambda: r.choice(ext) if r.random() < 0.4 else r.randint(I64MIN, I64MAX))
    state = {"v": r.randint(-50, 50), "d": r.choice([-1, 1])}

    def runs():
        if r.random() < 0.1:
            state["d"] = -state["d"]
        state["v"] += state["d"] * r.randint(0, 2)
        return state["v"]
    return kind, runs


def mixed_ops(r, n, val, bias=None):
    """n operations in segments with different enqueue pressure (fill / hold / drain)."""
    ops = []
    while len(ops) < n:
        pe = r.choice(bias or [0.9, 0.7, 0.5, 0.3, 0.1])
        for _ in range(r.randint(2, 25)):
            x = r.random()
            if x < 0.10:
                ops.append("p")
            elif x < 0.16:
                ops.append("l")
            elif r.random() < pe:
                ops.append("e%d" % val())
            else:
                ops.append("d")
    return ops[:n]


def grow_drain_refill(r, val, up, keep, refill, tail):
    """Grow past `up` elements (past the 64-slot initial capacity of the unbounded queue, so that
    append re-allocates), drain to `keep` (Shrink re-allocates downwards), refill, then mixed."""
    ops = []
    for _ in range(up):
        ops.append("e%d" % val())
        if r.random() < 0.04:
            ops.append(r.choice(["p", "l"]))
    for _ in range(up - keep):
        ops.append("d")
        if r.random() < 0.04:
            ops.append(r.choice(["p", "l"]))
    for _ in range(refill):
        ops.append("e%d" % val())
    ops += mixed_ops(r, tail, val)
    return ops


def mark(o):
    """the same operation, not observed afterwards (no Len(), no array dump)"""
    return o if o.endswith("~") else o + "~"


def sparsify(r, ops):
    """Sparse observation: every operation's own answer is still compared, but Len() and the array dump are
    taken only after about a third of the operations, with unobserved runs of 2..5 operations in between
    (so that a state that is only wrong between two observations, or a cache refreshed by the observation
    itself, cannot hide).  Len operations inside unobserved stretches become Peeks."""
    out, i = [], 0
    while i < len(ops):
        if r.random() < 0.3:
            n = r.randint(2, 5)
            out += [mark("p" if o == "l" else o) for o in ops[i:i + n]]
            i += n
            if i < len(ops) and r.random() < 0.6:
                out.append(ops[i])
                i += 1
        else:
            o = ops[i]
            out.append(o if r.random() < 1 / 3 else mark("p" if o == "l" else o))
            i += 1
    return out


def constant_length_ops(r, n, val, prefill):
    """Unobserved runs that keep the length constant (Dequeue-then-Enqueue, Enqueue-then-Dequeue, Peek
    bursts between mutations), separated by single observed operations."""
    ops = ["e%d" % val() for _ in range(prefill)]
    ops = [o if r.random() < 0.3 else mark(o) for o in ops]
    while len(ops) < n:
        pat = r.choice(["de", "de", "ed", "peeks", "mut-peeks", "mixed"])
        k = r.randint(1, 3)
        if pat == "de":
            for _ in range(k):
                ops += ["d~", "e%d~" % val()]
        elif pat == "ed":
            for _ in range(k):
                ops += ["e%d~" % val(), "d~"]
        elif pat == "peeks":
            ops += ["p~"] * r.randint(2, 5)
        elif pat == "mut-peeks":
            ops += [r.choice(["d~", "e%d~" % val()])] + ["p~"] * r.randint(1, 3) + [r.choice(["d~", "e%d~" % val()])]
        else:
            ops += [mark(o) for o in mixed_ops(r, r.randint(2, 5), val) if o != "l"]
        if r.random() < 0.7:                      # one observed operation
            ops.append(r.choice(["p", "l", "d", "e%d" % val()]))
    return ops[:n]


def edge_histories():
    """The malformed / boundary stream: calls on empty queues, capacity 1, extremes, all-equal."""
    hs = []
    for cap in (-7, -1, 0, 1, 2, 3, 8):
        for cm in CMPS:
            hs.append((cm, cap, ["d", "p", "l", "d"]))
            hs.append((cm, cap, ["e1", "e1", "e1", "l", "d", "d", "d", "d", "p", "l", "e2", "p", "d", "d"]))
            hs.append((cm, cap, ["e%d" % v for v in (I64MAX, I64MIN, 0, -1, I64MAX, I64MIN + 1, 3, 4, 5)] + ["l"] + ["p", "d"] * 10))
    for cm in CMPS:
        hs.append((cm, 0, ["e%d" % v for v in range(20)] + ["d"] * 21))
        hs.append((cm, 0, ["e%d" % v for v in range(20, 0, -1)] + ["d"] * 21))
        hs.append((cm, -3, ["e7"] * 30 + ["p", "l"] + ["d"] * 31))
        hs.append((cm, 5, ["e%d" % v for v in (3, 1, 2, 3, 1, 2, 3)] + ["d", "e0", "e9", "e9"] + ["d"] * 7))
        hs.append((cm, 8, ["e%d" % (v * 3) for v in range(10)] + ["d"] * 9))
    return hs


def gen_histories(c):
    r = random.Random(c.seed * 7919 + 5)
    full = c.tier == "thorough"
    out = []           # (profile, variant, cmp, cap, ops)
    k = 0

    def add(profile, cm, cap, ops, variant=None):
        nonlocal k
        out.append((profile, variant or ("pub" if k % 3 == 2 else "int"), cm, cap, ops))
        k += 1

    for cm, cap, ops in edge_histories():
        add("edge", cm, cap, ops, "int")
        add("edge", cm, cap, ops, "pub")
    n_b, n_u, n_g = (150, 80, 60) if not full else (9000, 5000, 5500)
    for i in range(n_b):
        cap = 1 + i % 8
        kind, val = value_source(r)
        n = r.randint(5, 120 if not full else 260)
        add("bounded", CMPS[(i // 8) % 3], cap, mixed_ops(r, n, val, bias=[0.95, 0.8, 0.6, 0.4, 0.15]))
    for i in range(n_u):
        cap = r.choice([0, 0, -1, -5, -(1 << 40)])
        kind, val = value_source(r)
        n = r.randint(5, 120 if not full else 300)
        add("unbounded", CMPS[i % 3], cap, mixed_ops(r, n, val, bias=[0.95, 0.8, 0.6, 0.45, 0.2]))
    for i in range(n_g):
        cap = r.choice([0, 0, -1, -9])
        kind, val = value_source(r)
        if not full or i % 16:
            up = r.randint(64, 82)
            keep = r.randint(0, 31)
            ops = grow_drain_refill(r, val, up, keep, r.randint(3, 40), r.randint(0, 12))
        else:
            up = r.randint(130, 600)                  # several re-allocations up, several Shrinks down
            keep = r.randint(0, 40)
            ops = grow_drain_refill(r, val, up, keep, r.randint(3, 200), r.randint(0, 60))
        add("grow-drain-refill", CMPS[i % 3], cap, ops)
    # bounded queues are never shrunk: a bounded one larger than 64 slots checks that branch too
    for i in range(6 if not full else 60):
        cap = r.randint(65, 100)
        kind, val = value_source(r)
        add("bounded-large", CMPS[i % 3], cap, grow_drain_refill(r, val, cap + 3, r.randint(0, 10), 20, 10))
    # sparse observation: the same profiles, observed after about a third of the operations only
    n_s = 160 if not full else 6000
    for i in range(n_s):
        kind, val = value_source(r)
        cm = CMPS[i % 3]
        sel = i % 8
        if sel < 2:
            cap = 1 + (i // 8) % 8
            add("sparse-bounded", cm, cap, sparsify(r, mixed_ops(r, r.randint(10, 100), val, bias=[0.95, 0.8, 0.6, 0.4, 0.15])))
        elif sel < 4:
            cap = r.choice([0, -1, 1 + (i // 8) % 8, 3, 8])
            add("sparse-constant-length", cm, cap, constant_length_ops(r, r.randint(15, 90), val, r.randint(0, 9)))
        elif sel < 5:
            add("sparse-unbounded", cm, r.choice([0, -1, -5]), sparsify(r, mixed_ops(r, r.randint(10, 120), val)))
        elif sel < 7:
            ops = grow_drain_refill(r, val, r.randint(64, 82), r.randint(0, 31), r.randint(3, 40), r.randint(0, 12))
            add("sparse-grow-drain-refill", cm, r.choice([0, -1, -9]), sparsify(r, ops))
        else:
            # around the Shrink threshold without looking: grow, drain unobserved to ~32, oscillate, then look
            up = r.randint(64, 80)
            ops = [mark("e%d" % val()) for _ in range(up)] + ["d~"] * (up - r.randint(29, 34))
            ops += constant_length_ops(r, r.randint(10, 40), val, 0) + ["p", "d", "l"]
            add("sparse-shrink-threshold", cm, r.choice([0, -1]), ops)
    if full:
        for i in range(3):                            # capacity > 2048: the 0.625 branch of calCapacity
            kind, val = value_source(r)
            add("grow-drain-refill-2048", CMPS[i % 3], 0,
                grow_drain_refill(r, val, r.randint(2100, 2600), r.randint(0, 20), 100, 50))
    return out


def case_text(h):
    return "%s %s %d %s" % (h[1], h[2], h[3], " ".join(h[4]))


# --------------------------------------------------------------------------- running

def run_impl_chunked(c, binary, lines, per_chunk=400, timeout=300, max_hangs=4, hang_ms=3000):
    """Run the harness.  A history on which the implementation does not return is answered 'hang' by the
    harness' watchdog, which then exits; the run resumes after it.  After `max_hangs` hangs the remaining
    histories are not run ('notrun')."""
    out, hangs = [], 0
    i = 0
    while i < len(lines):
        if hangs >= max_hangs:
            out += ["notrun|notrun|notrun"] * (len(lines) - i)
            break
        chunk = lines[i:i + per_chunk]
        try:
            rc, got, err = c.run_impl(binary, ["c05pq"], "\n".join(chunk) + "\n", timeout=timeout,
                                       env={"C05_HANG_MS": str(hang_ms)})
        except subprocess.TimeoutExpired:
            rc, got = -1, []
        if len(got) >= len(chunk):
            out += got[:len(chunk)]
            i += len(chunk)
            continue
        # the process stopped early: its last line is the hanging (or crashing) history
        if not (got and got[-1].startswith("hang")):
            got = got + ["crash|crash|crash"]
        out += got
        i += len(got)
        hangs += 1
    return out[:len(lines)]


def parse_line(line):
    """'<ans>|<len>|<arr>;...' -> list of (ans, len, arr) strings"""
    res = []
    for e in line.split(";"):
        p = e.split("|")
        while len(p) < 3:
            p.append("?")
        res.append((p[0], p[1], p[2]))
    return res


INT_RE = re.compile(r"-?[0-9]+\Z")


def spec_items(ops, entries):
    """Feed the implementation's own answers to the abstract specification; after every call the
    observed Len() (when it was observed) is added as a Len answer."""
    items, where = [], []          # where[j] = (operation index, is the synthetic Len() observation)
    for oi, (op, (ans, ln, _arr)) in enumerate(zip(ops, entries)):
        a = ans if re.match(r"(ok(:-?[0-9]+)?|len:-?[0-9]+|err:(full|empty|other))\Z", ans) else "panic"
        items.append("%s=%s" % (op.rstrip("~"), a))
        where.append((oi, False))
        if ln != "-":              # "-": not observed after this operation
            items.append("l=len:%s" % ln if INT_RE.match(ln) else "l=panic")
            where.append((oi, True))
    return items, where


def decide(c, binary, hists, variant="int"):
    """The property decided on the implementation for each history (cmp, cap, ops):
    returns a list of None | (kind, op_index, detail) with kind in
    'answer' | 'len' | 'hang' | 'crash' | 'heap-order'."""
    if not hists:
        return []
    lines = ["%s %s %d %s" % (variant, cm, cap, " ".join(ops)) for cm, cap, ops in hists]
    impl = run_impl_chunked(c, binary, lines, per_chunk=200, timeout=120, hang_ms=800)
    verdicts = [None] * len(hists)
    spec_in, spec_idx, inv_in, inv_idx, wheres = [], [], [], [], {}
    for hi, ((cm, cap, ops), line) in enumerate(zip(hists, impl)):
        if line.startswith("notrun"):
            continue
        if line.startswith(("hang", "crash")):
            verdicts[hi] = (line[:line.index("|")], len(ops) - 1,
                            "the implementation does not return from this history (watchdog: no answer in time)"
                            if line.startswith("hang") else "the harness process died on this history")
            continue
        entries = parse_line(line)
        items, where = spec_items(ops, entries)
        wheres[hi] = where
        spec_in.append("%s %d %s" % (cm, cap, " ".join(items)))
        spec_idx.append(hi)
        for oi, (ans, ln, arr) in enumerate(entries):
            if arr in ("panic", "?", "noslot0", "-"):
                continue
            inv_in.append("%s %s" % (cm, arr if arr else "-"))
            inv_idx.append((hi, oi))
    spec_out = c.run_model("heap-spec", "\n".join(spec_in) + "\n") if spec_in else []
    inv_out = c.run_model("heap-inv", "\n".join(inv_in) + "\n") if inv_in else []
    for hi, so in zip(spec_idx, spec_out):
        cm, cap, ops = hists[hi]
        entries = parse_line(impl[hi])
        if so.startswith("reject"):
            j = int(so.split()[1])
            oi, is_len = wheres[hi][j] if j < len(wheres[hi]) else (len(ops) - 1, False)
            ans = entries[oi][0] if oi < len(entries) else "?"
            verdicts[hi] = ("len" if is_len else "answer", oi,
                            "after %s the implementation answers %r, Len()=%s; the sorted multiset does not allow it"
                            % (ops[oi], ans, entries[oi][1] if oi < len(entries) else "?"))
        elif len(entries) < len(ops):
            verdicts[hi] = ("answer", len(entries), "history stopped early: %r" % impl[hi][-80:])
    for (hi, oi), res in zip(inv_idx, inv_out):
        if res != "true" and verdicts[hi] is None:
            arr = parse_line(impl[hi])[oi][2]
            verdicts[hi] = ("heap-order", oi, "after %s the heap array is [%s]: a child is smaller than its parent"
                            % (hists[hi][2][oi], arr))
    return verdicts


def decide_with_drain(c, binary, hist, upto, variant="int"):
    """Neighbour of a diverging history: its prefix followed by a full drain, so that a corrupted
    array must show in the answers."""
    cm, cap, ops = hist
    pre = ops[:upto + 1]
    n = sum(1 for o in pre if o[0] == "e") + 2
    ext = (cm, cap, pre + ["l"] + ["p", "d"] * n)
    v = decide(c, binary, [ext], variant)[0]
    return ext, v


def minimise(c, binary, hist, kind, variant="int"):
    """Delta-minimise a failing history (drop operations; then shrink values) keeping the same kind
    of failure.  Candidates of one round are run in one batch."""
    cm, cap, ops = hist
    v = decide(c, binary, [hist], variant)[0]
    if v is None:
        return hist, None
    ops = ops[:v[1] + 1]
    rounds = 0
    chunk = max(1, len(ops) // 2)
    while chunk >= 1 and rounds < 30:
        cands = []
        for s in range(0, len(ops), chunk):
            cand = ops[:s] + ops[s + chunk:]
            if cand:
                cands.append(cand)
        vs = decide(c, binary, [(cm, cap, o) for o in cands], variant)
        rounds += 1
        hit = next((i for i, x in enumerate(vs) if x is not None and x[0] == v[0]), None)
        if hit is not None:
            ops = cands[hit][:vs[hit][1] + 1]      # (for hang/crash the index is the last operation)
            v = vs[hit]
            chunk = min(chunk, max(1, len(ops) // 2))
        elif chunk == 1:
            break
        else:
            chunk //= 2
    # rename values to small ranks (keeps the order and, for mod3, the residues when possible)
    vals = sorted({int(o[1:].rstrip("~")) for o in ops if o[0] == "e"})
    if vals and cm != "mod3":
        ren = {x: i for i, x in enumerate(vals)}
        cand = [("e%d%s" % (ren[int(o[1:].rstrip("~"))], "~" if o.endswith("~") else "")) if o[0] == "e" else o for o in ops]
        vv = decide(c, binary, [(cm, cap, cand)], variant)[0]
        if vv is not None and vv[0] == v[0]:
            ops, v = cand, vv
    # a failure that survives full observation is replayed fully observed; otherwise the markers stay
    if any(o.endswith("~") for o in ops):
        cand = [o.rstrip("~") for o in ops]
        vv = decide(c, binary, [(cm, cap, cand)], variant)[0]
        if vv is not None and vv[0] == v[0]:
            ops, v = cand, vv
    return (cm, cap, ops), v


# --------------------------------------------------------------------------- cross-check in Coq

CROSS_PRELUDE = """From Ekit Require Import Common HeapModel.
Definition cmp_of (k : Z) : Z -> Z -> Z :=
  if k =? 0 then hcmp_asc else if k =? 1 then hcmp_desc else hcmp_mod3.
Definition code (r : hres ret) : Z * Z :=
  match r with
  | HOk RUnit => (0, 0) | HOk (RVal v) => (1, v) | HOk (RLen n) => (2, n)
  | HErr EFull => (3, 0) | HErr EEmpty => (4, 0) | HErr _ => (5, 0)
  | HPanic => (6, 0) | HOutOfFuel => (7, 0) end.
Fixpoint zlist_eqb (a b : list Z) : bool :=
  match a, b with
  | [], [] => true
  | x :: s, y :: t => (x =? y) && zlist_eqb s t
  | _, _ => false end.
Fixpoint agree (tr : list (hres ret * list Z)) (ex : list (Z * Z * list Z)) : bool :=
  match tr, ex with
  | [], [] => true
  | (r, d) :: s, (t, v, a) :: e =>
      (fst (code r) =? t) && (snd (code r) =? v) && zlist_eqb (tl d) a && agree s e
  | _, _ => false end.
Definition check (c : Z * Z * list op * list (Z * Z * list Z)) : bool :=
  let '(k, cap, ops, ex) := c in agree (run_trace (cmp_of k) (new_pq cap) ops) ex.
Definition cases : list (Z * Z * list op * list (Z * Z * list Z)) :=
"""


def op_to_coq(o):
    return {"d": "Dequeue", "p": "Peek", "l": "Len"}.get(o[0]) or "Enqueue %s" % coq_z(o[1:])


def ans_to_coq(a):
    p = a.split(":")
    if p[0] == "ok":
        return ("0", "0") if len(p) == 1 else ("1", coq_z(p[1]))
    if p[0] == "len":
        return "2", coq_z(p[1])
    if p[0] == "err":
        return {"full": "3", "empty": "4"}.get(p[1], "5"), "0"
    return ("6", "0") if p[0] == "panic" else ("7", "0")


def crosscheck(c, hists, model, idx):
    items = []
    for i in idx:
        _, _, cm, cap, ops = hists[i]
        entries = parse_line(model[i])[:40]
        ops = ops[:len(entries)]
        ex = []
        for ans, ln, arr in entries:
            t, v = ans_to_coq(ans)
            ex.append("(%s, %s, %s)" % (t, v, coq_list([coq_z(x) for x in arr.split(",")] if arr else [])))
        items.append("(%d, %s, %s, %s)" % (CMPS.index(cm), coq_z(cap), coq_list([op_to_coq(o) for o in ops]), coq_list(ex)))
    v = CROSS_PRELUDE + "  [" + ";\n   ".join(items) + "].\n" + \
        "Definition bad := Eval vm_compute in length (filter (fun c => negb (check c)) cases).\nPrint bad.\n"
    rc, out = c.coq_crosscheck(v, name="cases_c05pq")
    okx = rc == 0 and re.search(r"bad\s*=\s*0(%nat)?\s", out.replace("\n", " ") + " ") is not None
    c.cov["pq_coq_vm_compute_crosscheck"] = {"histories": len(idx), "ops_per_history_max": 40, "agree": bool(okx)}
    if not okx:
        c.report("C05:pq:extraction", "OCaml extraction of HeapModel and vm_compute disagree",
                 {"kind": "extraction-crosscheck", "coq_output": out[-1500:]}, found_input=False)


# --------------------------------------------------------------------------- the PQ part

def run_pq(c, binary):
    hists = gen_histories(c)
    r = random.Random(c.seed + 11)
    observed = [i for i, h in enumerate(hists) if not h[0].startswith("sparse")]
    cross_idx = set(r.sample(observed, min(150, len(observed))))
    # ---- evidence: what the histories exercised (measured on the model's run)
    dist, stats = {}, {"ops": 0, "err_full": 0, "err_empty": 0, "dequeues_ok": 0, "max_len": 0,
                       "histories_past_64_then_below_32": 0, "public_wrapper_histories": 0, "tie_histories": 0,
                       "sparse_histories": 0, "unobserved_ops": 0}
    impl, model = {}, {}           # only the lines needed later (diverging histories, cross-check sample)
    bad, n_notrun, stop = [], 0, False
    BATCH = 1000                   # bounds the memory held for the array dumps
    for start in range(0, len(hists), BATCH):
        hs = hists[start:start + BATCH]
        lines = [case_text(h) for h in hs]
        if stop:
            n_notrun += len(hs)
            continue
        impl_b = run_impl_chunked(c, binary, lines)
        model_b = c.run_model("heap", "\n".join(lines) + "\n")
        for off, (h, ml) in enumerate(zip(hs, model_b)):
            i = start + off
            il = impl_b[off] if off < len(impl_b) else "crash|crash|crash"
            dist[h[0]] = dist.get(h[0], 0) + 1
            entries = parse_line(ml)
            stats["ops"] += len(entries)
            lens = [int(e[1]) for e in entries if INT_RE.match(e[1])]
            stats["max_len"] = max([stats["max_len"]] + lens)
            stats["err_full"] += sum(1 for e in entries if e[0] == "err:full")
            stats["err_empty"] += sum(1 for e in entries if e[0] == "err:empty")
            stats["dequeues_ok"] += sum(1 for o, e in zip(h[4], entries) if o == "d" and e[0].startswith("ok"))
            stats["unobserved_ops"] += sum(1 for e in entries if e[1] == "-")
            if h[0].startswith("sparse"):
                stats["sparse_histories"] += 1
            if h[1] == "pub":
                stats["public_wrapper_histories"] += 1
            if h[2] == "mod3":
                stats["tie_histories"] += 1
            if h[3] <= 0 and lens and max(lens) >= 64 and min(lens[lens.index(max(lens)):]) < 32:
                stats["histories_past_64_then_below_32"] += 1
            c.note_case(lines[off], len(h[4]) >= 3 and any(e[0].startswith("ok:") for e in entries))
            if i in cross_idx:
                model[i] = ml
            if il.startswith("notrun"):
                n_notrun += 1
                stop = True
            elif il != ml:
                bad.append(i)
                if len(bad) <= 40:
                    impl[i], model[i] = il, ml
    c.cov["pq_histories"] = len(hists)
    c.cov["pq_profile_distribution"] = dist
    c.cov["pq_stats"] = stats
    for h in (hists[0], hists[len(hists) // 2]):
        c.sample(case_text(h)[:300])
    c.cov["traces_validated_against_impl"] += len(hists) - len(bad) - n_notrun
    c.cov["pq_histories_not_run_after_hangs"] = n_notrun
    c.cov["pq_diverging_histories"] = len(bad)
    # ---- search layer (one full search + minimisation per kind of failure; the rest is only counted)
    seen = set()
    for i in bad[:40]:
        prof, variant, cm, cap, ops = hists[i]
        ie = parse_line(impl[i]) if i in impl else []
        me = parse_line(model[i]) if i in model else []
        k = next((j for j in range(max(len(ie), len(me))) if j >= len(ie) or j >= len(me) or ie[j] != me[j]), 0)
        opn = OPNAME.get(ops[k][0], "?") if k < len(ops) else "?"
        first = {"op_index": k, "op": ops[k] if k < len(ops) else None,
                 "implementation": "|".join(ie[k]) if k < len(ie) else None,
                 "model": "|".join(me[k]) if k < len(me) else None}
        hist = (cm, cap, ops)
        v = decide(c, binary, [hist], variant)[0]
        kind = v[0] if v else None
        failing = hist
        if v is None:
            ext, v2 = decide_with_drain(c, binary, hist, k, variant)
            if v2 is not None:
                failing, v, kind = ext, v2, v2[0]
        if v is not None:
            pre = (variant, OPNAME.get(failing[2][v[1]][0], "?") if v[1] < len(failing[2]) else "?", v[0])
            if pre in seen or len(seen) >= 8:
                continue
            seen.add(pre)
            small, vs = minimise(c, binary, failing, kind, variant)
            if vs is None:
                small, vs = failing, v
            opn2 = OPNAME.get(small[2][vs[1]][0], opn) if vs[1] < len(small[2]) else opn
            c.report("C05:pq:%s:%s" % (opn2, vs[0]),
                     "PriorityQueue (%s comparator, capacity %d): %s" % (small[0], small[1], vs[2]),
                     {"kind": "input", "container": "PriorityQueue", "variant": variant, "comparator": small[0],
                      "capacity": small[1], "history": small[2], "failing_op_index": vs[1], "verdict": vs[2],
                      "decided_by": "abstract sorted multiset (HeapModel.abs_first_reject) / heap_invb on the implementation's own answers and array dumps",
                      "original_history_length": len(ops), "first_divergence_from_model": first,
                      "how": "echo '%s %s %d %s' | harness/bin/h c05pq" % (variant, small[0], small[1], " ".join(small[2]))})
        else:
            what = "array" if (k < len(ie) and k < len(me) and ie[k][:2] == me[k][:2]) else "answer"
            if (variant, opn, what) in seen:
                continue
            seen.add((variant, opn, what))
            c.report("C05:pq:%s:%s-differs-from-model" % (opn, what),
                     "PriorityQueue: the implementation no longer corresponds to HeapModel (%s after %s differs) but its answers are "
                     "accepted by the sorted-multiset specification, also after a full drain, and every dumped array is heap-ordered"
                     % (what, opn),
                     {"kind": "correspondence", "model": "coq/theories/model/HeapModel.v", "case": case_text(hists[i])[:4000],
                      "first_divergence": first,
                      "theorems_not_transferring": ["heap_inv_preserved", "heap_inv_reachable", "pq_refines_sorted_multiset",
                                                    "pq_never_panics_never_out_of_fuel", "pq_len_le_capacity"]},
                     found_input=False)
    crosscheck(c, hists, model, sorted(i for i in cross_idx if i in model))
    run_pq_large(c, binary)
    run_pq_cap(c, binary, hists)


# --------------------------------------------------------------------------- large bounded capacities

class BagOracle:
    """Python transcription of HeapModel.abs_stepb (the executable acceptance test of the abstract sorted
    multiset, proved sound and complete for abs_run, which pq_refines_sorted_multiset makes the
    specification) with O(log n) steps, for histories too long for the list-based extracted version.
    It is validated on every run against the extracted abs_first_reject (see validate_bag_oracle)."""

    def __init__(self, cm, cap):
        import collections
        self.key = {"asc": lambda v: v, "desc": lambda v: -v, "mod3": lambda v: v % 3}[cm]
        self.cap = cap
        self.values = collections.Counter()
        self.keys = collections.Counter()
        self.heap = []
        self.n = 0

    def _minkey(self):
        import heapq
        while self.keys[self.heap[0]] == 0:
            heapq.heappop(self.heap)
        return self.heap[0]

    def step(self, op, ans):
        """True when the specification allows `ans` for `op` in the current bag (and moves on)."""
        import heapq
        k = op[0]
        if k == "e":
            full = self.cap > 0 and self.n == self.cap
            if full:
                return ans == "err:full"
            if ans != "ok":
                return False
            v = int(op[1:].rstrip("~"))
            self.values[v] += 1
            self.keys[self.key(v)] += 1
            heapq.heappush(self.heap, self.key(v))
            self.n += 1
            return True
        if k in "dp":
            if self.n == 0:
                return ans == "err:empty"
            m = re.match(r"ok:(-?[0-9]+)\Z", ans)
            if not m:
                return False
            x = int(m.group(1))
            if self.values[x] <= 0 or self.key(x) != self._minkey():
                return False
            if k == "d":
                self.values[x] -= 1
                self.keys[self.key(x)] -= 1
                self.n -= 1
            return True
        if k == "l":
            return ans == "len:%d" % self.n
        return False


def first_reject_py(cm, cap, ops, answers):
    o = BagOracle(cm, cap)
    for i, (op, a) in enumerate(zip(ops, answers)):
        if not o.step(op, a):
            return i
    return None


def validate_bag_oracle(c):
    """The Python oracle and the extracted abs_first_reject must give the same verdict (accept / index of the
    first rejected answer) on the model's own answers for small histories and on perturbations of them."""
    r = random.Random(c.seed + 23)
    hs = []
    for i in range(90):
        kind, val = value_source(r)
        cap = r.choice([0, -1, 1, 2, 3, 5, 8])
        ops = [o for o in mixed_ops(r, r.randint(4, 60), val, bias=[0.9, 0.6, 0.4, 0.2])]
        hs.append((CMPS[i % 3], cap, ops))
    out = c.run_model("heap", "\n".join("int %s %d %s" % (cm, cap, " ".join(mark(o) for o in ops)) for cm, cap, ops in hs) + "\n")
    traces = []
    for (cm, cap, ops), line in zip(hs, out):
        ans = [e[0] for e in parse_line(line)]
        traces.append((cm, cap, ops, ans))
        for _ in range(3):                                # perturb one answer
            j = r.randrange(len(ans))
            a = ans[j]
            alt = r.choice(["ok", "err:full", "err:empty", "ok:%d" % r.randint(-3, 9), "len:%d" % r.randint(0, 9),
                            re.sub(r"-?[0-9]+", lambda m: str(int(m.group(0)) + r.choice([-1, 1, 3])), a)])
            traces.append((cm, cap, ops, ans[:j] + [alt] + ans[j + 1:]))
    spec = c.run_model("heap-spec", "\n".join(
        "%s %d %s" % (cm, cap, " ".join("%s=%s" % (o, a) for o, a in zip(ops, ans))) for cm, cap, ops, ans in traces) + "\n")
    agree = rejects = 0
    for (cm, cap, ops, ans), so in zip(traces, spec):
        k = first_reject_py(cm, cap, ops, ans)
        mine = "accept" if k is None else "reject %d" % k
        agree += mine == so
        rejects += so.startswith("reject")
    c.cov["pq_large_oracle_validation"] = {"traces": len(traces), "rejected_by_extracted_spec": rejects, "agree": agree}
    if agree != len(traces):
        c.report("C05:pq:large-oracle", "the Python transcription of abs_stepb disagrees with the extracted abs_first_reject",
                 {"kind": "oracle-validation", "agree": agree, "traces": len(traces)}, found_input=False)
    return agree == len(traces)


def expand_large(recipe):
    """recipe: list of (kind, count); values are ascending distinct unless stated.
    kinds: enq (next fresh values), enq-dup (repeat an already used value), deq, peek, len"""
    ops, nxt = [], 0
    for kind, n in recipe:
        if kind == "enq":
            ops += ["e%d~" % (nxt + i) for i in range(n)]
            nxt += n
        elif kind == "enq-dup":
            ops += ["e%d~" % max(0, nxt - 1 - i) for i in range(n)]
        elif kind == "deq":
            ops += ["d~"] * n
        elif kind == "peek":
            ops += ["p~"] * n
        elif kind == "len":
            ops += ["l~"] * n
    return ops


def large_recipe(cap, r):
    """fill to full, a few over-capacity Enqueues, partial drain, refill to full (+ over), full drain (+ over)"""
    part = r.randint(1, 3000)
    return [("len", 1), ("enq", cap - 2), ("len", 1), ("enq", 2), ("len", 1), ("peek", 1), ("enq", 3), ("enq-dup", 2), ("len", 1),
            ("deq", part), ("len", 1), ("enq", part), ("enq", 2), ("len", 1), ("peek", 1),
            ("deq", cap), ("len", 1), ("deq", 2), ("peek", 1), ("enq", 1), ("deq", 1), ("len", 1)]


def run_pq_large(c, binary):
    """Large bounded capacities (around and above 65536).  The list-based model and the list-based extracted
    specification are quadratic at this size, so these histories are not replayed on HeapModel: the
    implementation's answers (nothing else is observed: every operation carries '~') are checked by
    BagOracle, the O(log n) transcription of abs_stepb."""
    if not validate_bag_oracle(c):
        return
    r = random.Random(c.seed * 31 + 7)
    caps = [65535, 65536, 65537, 70000, 131072, 200000]      # both tiers (cheap); thorough: x 3 comparators
    fam = []
    for i, cap in enumerate(caps):
        cms = ["asc"] if c.tier != "thorough" else CMPS
        for j, cm in enumerate(cms):
            fam.append(("pub" if (i + j) % 2 else "int", cm, cap, large_recipe(cap, r)))
    total_ops = 0
    for variant, cm, cap, recipe in fam:
        ops = expand_large(recipe)
        total_ops += len(ops)
        line = "%s %s %d %s" % (variant, cm, cap, " ".join(ops))
        out = run_impl_chunked(c, binary, [line], timeout=600, hang_ms=120000)
        entries = parse_line(out[0]) if out else []
        answers = [e[0] for e in entries]
        k = first_reject_py(cm, cap, ops, answers)
        if k is None and len(answers) < len(ops):
            k = len(answers)
        c.note_case("large %s %s %d %r" % (variant, cm, cap, recipe), True)
        if k is None:
            c.cov["traces_validated_against_impl"] += 1
            continue
        got = answers[k] if k < len(answers) else "<no answer>"
        o = BagOracle(cm, cap)
        for op, a in zip(ops[:k], answers[:k]):
            o.step(op, a)
        opn = OPNAME.get(ops[k][0], "?")
        c.report("C05:pq:%s:%s" % (opn, "hang" if got.startswith("hang") else "answer"),
                 "PriorityQueue (%s comparator, capacity %d): operation #%d %s answers %r while the queue holds %d elements; "
                 "the sorted multiset does not allow it" % (cm, cap, k, ops[k].rstrip("~"), got, o.n),
                 {"kind": "input", "container": "PriorityQueue", "variant": variant, "comparator": cm, "capacity": cap,
                  "history_recipe": recipe, "history_length": len(ops), "failing_op_index": k, "failing_op": ops[k],
                  "implementation_answer": got, "elements_held": o.n,
                  "decided_by": "BagOracle = Python transcription of HeapModel.abs_stepb (validated against the extracted abs_first_reject on this run)",
                  "how": "python3 -c \"import sys;sys.path.insert(0,'/verif/checks');import c05;print('%s %s %d',' '.join(c05.expand_large(%r)[:%d]))\" | harness/bin/h c05pq | tr ';' '\\n' | tail -1"
                         % (variant, cm, cap, recipe, k + 1)})
    c.cov["pq_large_capacity"] = {"capacities": caps, "histories": len(fam), "ops": total_ops,
                                  "oracle": "BagOracle (Python transcription of abs_stepb, validated against extracted abs_first_reject)",
                                  "observed": "every operation's answer incl. Len at the phase boundaries; no array dump"}


# --------------------------------------------------------------------------- capacity of p.data (HeapCapModel)

def run_pq_cap(c, binary, hists):
    """The memory-level model (HeapCapModel: p.data as a slice header over backing arrays, append with a
    capacity oracle, slice.Shrink by calCapacity) against cap(p.data) of the implementation after EVERY
    operation.  Two passes: the implementation first; its capacity after each successful Enqueue is the
    oracle the model uses IF that append has to grow (otherwise the model ignores it), so what is really
    compared is: no growth while len < cap, and the Shrink rule (thresholds 64 / 2048, c/2, 5c/8, never for
    bounded queues) after every Dequeue."""
    lines = ["%s %s %d %s" % (h[1], h[2], h[3], " ".join(o.rstrip("~") for o in h[4])) for h in hists]
    impl = []
    for i in range(0, len(lines), 400):
        chunk = lines[i:i + 400]
        try:
            rc, got, err = c.run_impl(binary, ["c05pq", "cap"], "\n".join(chunk) + "\n", timeout=300)
        except subprocess.TimeoutExpired:
            got = []
        if len(got) < len(chunk):          # a hang / crash is the business of the main pass
            c.cov["pq_cap"] = {"skipped": "the implementation did not answer every history (see the main pass)"}
            return
        impl += got
    mlines, shrinks, grows = [], 0, 0
    for h, il in zip(hists, impl):
        toks = []
        prev = None
        for o, e in zip(h[4], parse_line(il)):
            o = o.rstrip("~")
            if o[0] == "e" and e[0] == "ok" and INT_RE.match(e[2]):
                toks.append("%s^%s" % (o, e[2]))
            else:
                toks.append(o)
            if INT_RE.match(e[2]):
                cur = int(e[2])
                if prev is not None and cur < prev:
                    shrinks += 1
                if prev is not None and cur > prev:
                    grows += 1
                prev = cur
        mlines.append("%s %s %d %s" % (h[1], h[2], h[3], " ".join(toks)))
    model = c.run_model("heapcap", "\n".join(mlines) + "\n")
    bad = [i for i in range(len(hists)) if i >= len(model) or impl[i] != model[i]]
    c.cov["pq_cap"] = {"histories": len(hists), "agree": len(hists) - len(bad), "shrink_reallocations_seen": shrinks,
                       "append_reallocations_seen": grows, "model": "HeapCapModel (extracted), oracle = implementation's cap only for growing appends"}
    c.cov["traces_validated_against_impl"] += len(hists) - len(bad)
    for i in bad[:3]:
        h = hists[i]
        ie, me = parse_line(impl[i]), parse_line(model[i]) if i < len(model) else []
        k = next((j for j in range(max(len(ie), len(me))) if j >= len(ie) or j >= len(me) or ie[j] != me[j]), 0)
        opn = OPNAME.get(h[4][k][0], "?") if k < len(h[4]) else "?"
        only_cap = k < len(ie) and k < len(me) and ie[k][:2] == me[k][:2]
        c.report("C05:pq:%s:%s" % (opn, "cap-differs-from-model" if only_cap else "answer-differs-from-cap-model"),
                 "PriorityQueue: after %s cap(p.data) is %s, the memory-level model (append / slice.Shrink rule) gives %s"
                 % (opn, ie[k][2] if k < len(ie) else "?", me[k][2] if k < len(me) else "?") if only_cap else
                 "PriorityQueue: the implementation and HeapCapModel disagree on the answer / Len after %s" % opn,
                 {"kind": "correspondence", "model": "coq/theories/model/HeapCapModel.v", "case": mlines[i][:4000],
                  "first_divergence": {"op_index": k, "implementation": "|".join(ie[k]) if k < len(ie) else None,
                                       "model": "|".join(me[k]) if k < len(me) else None},
                  "theorems_not_transferring": ["cap_capacity_follows_shrink_rule", "cap_dequeue_thresholds",
                                                "cap_writes_go_to_live_array", "cap_history_refines_heap_model"],
                  "note": "capacities are not observable through the PriorityQueue API: answers and contents are decided by the main pass"},
                 found_input=False)


# --------------------------------------------------------------------------- main

def main(tier):
    c = Check("C05", tier)
    c.proof_layer()
    c.ensure_modelrun()
    sys.path.insert(0, os.path.dirname(os.path.abspath(__file__)))
    try:
        import c05_skip
    except ImportError:
        c05_skip = None
    if os.environ.get("C05_PART") == "pq":      # development switch: priority-queue half only
        c05_skip = None
    binary, log = None, ""
    if c05_skip is not None and os.path.isdir(os.path.join(VERIF, "harness", "c05skip")):
        binary, log = c.build_harness(pkgs=["c05pq", "c05skip"])
    skip_built = binary is not None
    if binary is None:
        binary, log2 = c.build_harness(pkgs=["c05pq"])
        log = (log + "\n" + log2).strip()
    if binary is None:
        c.report("C05:build", "harness does not build against the repository", {"kind": "build", "log": log[-3000:]},
                 found_input=False)
        finish(c, False)
    run_pq(c, binary)
    if c05_skip is not None:
        if skip_built:
            c05_skip.run(c, binary)
        else:
            c.report("C05:skip:build", "skip-list harness does not build against the repository",
                     {"kind": "build", "log": log[-3000:]}, found_input=False)
    finish(c, c05_skip is not None and skip_built)


def finish(c, with_skip):
    c.cov["skip_list_half_run"] = bool(with_skip)
    c.finish(
        level="proof",
        rule="priority queue: a case is one history (variant internal/public, comparator asc/desc/mod3, capacity, ops) generated from "
             "VERIF_SEED in profiles edge (calls on empty, capacity 1, int64 extremes, all-equal), bounded (capacities 1..8, fill/hold/drain "
             "segments), unbounded (capacity 0 / negative), grow-drain-refill (past 64 elements, below 32, refill: append re-allocation and "
             "slice.Shrink), bounded-large; after every operation answer class/value, Len() and the heap array are compared with the model; "
             "sparse-* profiles: the same, but Len() and the array dump are taken only after about a third of the operations, with unobserved "
             "runs of 2..5 operations (Dequeue-then-Enqueue at constant length, Peek bursts between mutations, drains across the Shrink "
             "threshold) while every operation's own answer is still compared and the model skips the same observations; "
             "large bounded capacities (65535, 65536, 65537, 70000, 131072, 200000; thorough: x 3 comparators): fill to full, "
             "over-capacity Enqueues, partial drain, refill, full drain, on ascending distinct values (+ duplicates); only the answers are observed and "
             "the oracle is NOT the extracted model (quadratic at that size) but BagOracle, an O(log n) Python transcription of HeapModel.abs_stepb, "
             "validated on every run against the extracted abs_first_reject on ~360 small traces incl. perturbed answers; "
             "capacity pass: all histories again in the harness' cap mode, cap(p.data) after every operation compared with the extracted HeapCapModel "
             "(memory-level model; the implementation's capacity is fed back only as the oracle of a growing append, so the Shrink thresholds and "
             "'no re-allocation while len < cap' are really compared); "
             "non-trivial = at least 3 operations and at least one Dequeue/Peek that returned a value; distinct by md5 of the history text. "
             "Skip list: see checks/c05_skip.py",
        assumptions=["slice.Shrink and append preserve the contents of the slice (capacity is not observable through PriorityQueue; modelled as identity, "
                     "exercised by the grow-drain-refill histories)",
                     "the user's comparator is a consistent three-way comparison inducing a total preorder (premise total_preorder of every theorem; "
                     "discharged for asc, desc, mod3 by Examples)",
                     "elements are integers in the model (the code is generic and only ever passes elements to the comparator)"],
        trusted_base=["Coq 8.16.1 kernel + vm_compute (no native_compute)", "no axioms (Print Assumptions: closed under the global context)",
                      "extraction: ExtrOcamlBasic only, no Extract Constant; cross-checked against vm_compute on a sample of histories per run",
                      "OCaml drivers ocaml/drv_heap.ml (+ skip-list driver), Go harness harness/c05pq (+ c05skip), add-only accessors hooks/internal/queue, "
                      "hooks/queue (heap array dump, constructor pass-through), checks/c05.py, checks/c05_skip.py"])


if __name__ == "__main__":
    main(sys.argv[1] if len(sys.argv) > 1 else "quick")
