"""C06, part `locked`: the lock-based thread-safe containers — queue.ConcurrentPriorityQueue,
list.ConcurrentList (RWMutex-bracketed delegation), list.CopyOnWriteArrayList (mutex + snapshot),
syncx.Map (wrapper of sync.Map, LoadOrStoreFunc = Load; fn; LoadOrStore).

run(c, binary, labels, tier, focus):
  1. statement skeleton of each object against its interleaving model (labels);
  2. lock-step sessions: the extracted Coq transition functions choose interleavings of 2-4 goroutines
     x <= 6 calls, biased to the windows C06 names (between a reader's snapshot and its use, between
     the Load and LoadOrStore halves of LoadOrStoreFunc, readers and writers at the RWMutex), the real
     goroutines execute them statement by statement, arrivals and return values are compared;
  3. chaos-mode stress with porcupine (linearizability of recorded invocation/response histories
     against the same sequential specifications) + panic capture — the search oracle, run briefly on
     every run and longer when 1/2 found a problem;
  4. report."""
import os
import re
import subprocess

from common import GOENV, MODELRUN, REPO

OBJECTS = [
    # lock-step model, Go files, stress objects, theorems that transfer through the correspondence
    ("cpq", "queue.ConcurrentPriorityQueue", ["cpq"],
     "locked_object_linearizable/cpq_linearizable, cpq_readonly_no_change"),
    ("clist", "list.ConcurrentList", ["clist-array", "clist-linked"],
     "locked_object_linearizable/clist_linearizable, clist_readonly_no_change"),
    ("cow", "list.CopyOnWriteArrayList", ["cow"],
     "cow_linearizable, cow_no_panic"),
    ("syncmap", "syncx.Map", ["syncmap", "syncmap-any", "syncmap-error"],
     "syncmap_linearizable, syncmap_no_panic"),
]


def stress(c, binary, obj, goroutines, ops, rounds, seed_off=0):
    """one chaos run; returns None when nothing was found, else a dict describing the hit"""
    cmd = [binary, "c06-locked-stress", str(c.seed + seed_off), obj, str(goroutines), str(ops), str(rounds)]
    try:
        p = subprocess.run(cmd, stdout=subprocess.PIPE, stderr=subprocess.PIPE, text=True, timeout=900, env=GOENV)
        out = p.stdout.strip() or ("crash: " + p.stderr[-800:])
    except subprocess.TimeoutExpired:
        out = "hang: the stress command did not finish in 900 s"
    first = out.splitlines()[0] if out else "no output"
    if first.startswith("ok "):
        return None
    kind = first.split()[0].rstrip(":")
    if kind not in ("panic", "not-linearizable", "hang"):
        kind = "crash"
    return {"object": obj, "kind": kind, "result": first[:400], "history": out.splitlines()[1:80],
            "how": "h c06-locked-stress %d %s %d %d %d   (instrumented harness, chaos mode; prints the first failing round and its history)"
                   % (c.seed + seed_off, obj, goroutines, ops, rounds)}


def biglist(c, binary, kind, readers, ms):
    """directed real-time scenario "big-list snapshot" (harness/locked/biglist.go): a 1000-element ConcurrentList rotated by one
    writer while readers call Range / AsSlice; every result must be a state the list had during the call"""
    cmd = [binary, "c06-locked-biglist", str(c.seed), kind, str(readers), str(ms)]
    try:
        p = subprocess.run(cmd, stdout=subprocess.PIPE, stderr=subprocess.PIPE, text=True, timeout=300 + ms // 1000, env=GOENV)
        out = p.stdout.strip() or ("crash: " + p.stderr[-800:])
    except subprocess.TimeoutExpired:
        out = "hang: the big-list scenario did not finish"
    first = out.splitlines()[0] if out else "no output"
    if first.startswith("ok "):
        return None, first
    kind_ = first.split()[0].rstrip(":")
    if kind_ not in ("torn-read", "hang"):
        kind_ = "crash"
    return {"object": "clist-" + kind, "kind": kind_, "result": first[:500],
            "how": "h c06-locked-biglist %d %s %d %d   (instrumented harness, chaos mode; prints the first torn Range/AsSlice result and the position of the tear)"
                   % (c.seed, kind, readers, ms)}, first


# ---- declarations are not statements: pin the fields of the four types (name + type text) ----
STRUCTS = {
    "cpq": ("queue/concurrent_priority_queue.go", "ConcurrentPriorityQueue", ["pq queue.PriorityQueue[T]", "m sync.RWMutex"]),
    "clist": ("list/concurrent_list.go", "ConcurrentList", ["List[T]", "lock sync.RWMutex"]),
    "cow": ("list/copy_on_write_array_list.go", "CopyOnWriteArrayList", ["vals []T", "mutex *sync.Mutex"]),
    "syncmap": ("syncx/map.go", "Map", ["m sync.Map"]),
}


def struct_pin(model):
    """the field list of the type as the CURRENT source declares it must be the one the model's lock protocol was
    written for (a lock type with no-op RLock, a missing mutex, ... carry no statement label); also the file must
    import the standard "sync" package under its own name.  Returns a list of problems."""
    rel, name, want = STRUCTS[model]
    try:
        src = open(os.path.join(REPO, rel), encoding="utf-8").read()
    except OSError as e:
        return ["cannot read %s: %s" % (rel, e)]
    code = re.sub(r"/\*.*?\*/", "", src, flags=re.S)
    code = re.sub(r"//[^\n]*", "", code)
    m = re.search(r"\btype\s+%s\s*(?:\[[^\]]*\])?\s+struct\s*\{([^}]*)\}" % re.escape(name), code)
    if not m:
        return ["%s: no `type %s struct` declaration found" % (rel, name)]
    got = [" ".join(l.split()) for l in m.group(1).splitlines() if l.strip()]
    problems = []
    if got != want:
        problems.append("declaration of %s changed: fields %r, the model was written for %r" % (name, got, want))
    imp = re.search(r"\bimport\s*\(([^)]*)\)|\bimport\s+(\S*\s*\"[^\"]+\")", code)
    imports = [" ".join(l.split()) for l in (imp.group(1) or imp.group(2) or "").splitlines() if l.strip()] if imp else []
    if '"sync"' not in imports:
        problems.append("%s does not import the standard \"sync\" package under its own name (imports: %r)" % (rel, imports))
    return problems


def race_stress(c, race_binary, obj, rounds):
    """the same chaos stress on the -race build: an ineffective lock (no-op RLock, missing bracket) makes a reader race
    with a writer on the inner container; the detector's report is the concrete run"""
    cmd = [race_binary, "c06-locked-stress", str(c.seed), obj, "4", "10", str(rounds)]
    env = dict(GOENV, GORACE="halt_on_error=1 exitcode=66")
    try:
        p = subprocess.run(cmd, stdout=subprocess.PIPE, stderr=subprocess.PIPE, text=True, timeout=600, env=env)
        err = p.stderr
    except subprocess.TimeoutExpired:
        return None
    if "WARNING: DATA RACE" not in err:
        return None
    lines = err.splitlines()
    frames = [l.strip() for l in lines if "ekit" in l and "(" in l and not l.strip().startswith("/")][:4]
    return {"object": obj, "kind": "data-race",
            "result": "data race reported by the Go race detector between concurrent calls: " + " | ".join(frames)[:330],
            "history": lines[:60],
            "how": "h(-race build) c06-locked-stress %d %s 4 10 %d   (GORACE=halt_on_error=1)" % (c.seed, obj, rounds)}


def maprange(c, binary, cases, ms):
    """syncx.Map.Range: sequential contract against a mirror map + the weak concurrent contract (harness/locked/maprange.go)"""
    cmd = [binary, "c06-locked-maprange", str(c.seed), str(cases), str(ms)]
    try:
        p = subprocess.run(cmd, stdout=subprocess.PIPE, stderr=subprocess.PIPE, text=True, timeout=300 + ms // 1000, env=GOENV)
        out = p.stdout.strip() or ("crash: " + p.stderr[-800:])
    except subprocess.TimeoutExpired:
        out = "hang: the Map.Range scenario did not finish"
    first = out.splitlines()[0] if out else "no output"
    if first.startswith("ok "):
        return None, first
    kind = first.split()[0].rstrip(":")
    if kind not in ("range-contract", "map-contract", "hang"):
        kind = "crash"
    return {"object": "syncmap", "kind": kind, "result": first[:500],
            "how": "h c06-locked-maprange %d %d %d   (sequential differential against a mirror map, then the concurrent weak contract)"
                   % (c.seed, cases, ms)}, first


def run(c, binary, labels, tier, focus="c06"):
    nsched, maxev = (250, 90) if tier == "quick" else (5000, 140)
    rounds = 150 if tier == "quick" else 4000
    summary = {}
    # -race build of the same instrumented harness (search oracle for ineffective locks)
    race_binary, race_note = None, ""
    try:
        ov, _ = c.instrument()
        if ov is not None:
            race_binary, log = c.build_harness(race=True, extra_overlay=ov, pkgs=["locked", "lockstep"])
            if race_binary is None:
                race_note = "race build failed: " + str(log)[-300:]
    except Exception as e:                                      # the race oracle is a complement, never a violation by itself
        race_note = "race build not available: %s" % e
    race_objs = {"cpq": ["cpq"], "clist": ["clist-array", "clist-linked"]} if tier == "quick" else \
        {"cpq": ["cpq"], "clist": ["clist-array", "clist-linked"], "cow": ["cow"], "syncmap": ["syncmap"]}
    race_rounds = 40 if tier == "quick" else 1500
    c.cov["locked_race"] = {"available": race_binary is not None, "note": race_note, "rounds": race_rounds, "objects": race_objs, "reports": 0}
    for model, what, sobjs, theorems in OBJECTS:
        name = model + "-lockstep"
        problems = c.check_labels(name, labels)
        decl = struct_pin(model)
        c.cov.setdefault("locked_declarations", {})[model] = decl or "as expected"
        problems = problems + decl
        rc, txt, merr, gerr = c.lockstep(binary, name, ["run", c.seed, nsched, maxev])
        stats, tags, samples, mism = c.parse_lockstep_report(txt)
        c.cov[model + "_lockstep"] = dict(stats, coverage_tags=tags, skeleton_problems=len(problems))
        c.cov["evaluations"] += stats.get("schedules", 0)
        c.cov["traces_validated_against_impl"] += stats.get("schedules", 0) - stats.get("mismatches", 0)
        for i in range(stats.get("nontrivial", 0)):
            c._distinct.add("%s%d" % (model, i))
        if samples:
            c.sample("%s lock-step schedule: %s" % (model, samples[0][:500]))
        broken = bool(problems or mism or not stats)

        # search oracle: always briefly; harder when the correspondence is broken
        hits = []
        for so in sobjs:
            h = stress(c, binary, so, 4, 10, rounds)
            if h:
                hits.append(h)
        if broken and not hits:
            for so in sobjs:
                for k, (g, n, r) in enumerate([(4, 10, 6000), (3, 8, 6000), (8, 6, 4000), (2, 14, 6000)]):
                    h = stress(c, binary, so, g, n, r, seed_off=1 + k)
                    if h:
                        hits.append(h)
                        break
                if hits:
                    break
        if race_binary is not None:
            for so in race_objs.get(model, []):
                h = race_stress(c, race_binary, so, race_rounds if not broken else max(race_rounds, 400))
                c.cov["evaluations"] += 1
                if h:
                    c.cov["locked_race"]["reports"] += 1
                    hits.append(h)
                    break
        if model == "syncmap":
            cases, ms = (300, 300) if tier == "quick" else (5000, 5000)
            h, line = maprange(c, binary, cases, ms)
            c.cov["syncmap_range"] = {"result": line[:200], "sequential_cases": cases, "concurrent_ms": ms}
            c.cov["evaluations"] += cases
            if h:
                hits.append(h)
        if model == "clist":
            # big-list snapshot: reads that are atomic only for small lists (batched copies etc.)
            ms = 500 if tier == "quick" else 8000
            if broken and not hits:
                ms = max(ms, 5000)
            big = {}
            for kind in ("array", "linked"):
                h, line = biglist(c, binary, kind, 3, ms)
                big[kind] = line[:200]
                c.cov["evaluations"] += 1
                if h:
                    hits.append(h)
            c.cov["clist_biglist"] = dict(big, duration_ms=ms, readers=3, elements=1000)
        c.cov[model + "_stress"] = {"objects": sobjs, "rounds": rounds, "goroutines": 4, "ops_per_goroutine": 10,
                                    "hits": len(hits)}
        c.cov["evaluations"] += rounds * len(sobjs)
        for h in hits[:3]:
            c.report("%s:locked:%s:%s" % (c.pid, model, h["kind"]),
                     "%s: %s" % (what, h["result"]), dict(h, kind="stress-history", violation=h["kind"]))
        if broken and not hits:
            c.report("%s:locked:%s:lockstep" % (c.pid, model),
                     "%s no longer corresponds to its interleaving model (theorems %s do not transfer)" % (what, theorems),
                     {"kind": "lockstep-correspondence", "object": model, "skeleton_problems": problems[:12],
                      "mismatches": mism[:3], "model_stderr": merr[-500:], "go_stderr": gerr[-500:],
                      "how": "modelrun %s run %d %d %d <report>  against  h lockstep" % (name, c.seed, nsched, maxev)},
                     found_input=False)
        summary[model] = {"broken": broken, "hits": len(hits)}

    # documentation: the extracted PINNED reader model reproduces the panic of cow_get_panics_refuted
    try:
        p = subprocess.run([MODELRUN, "cow-pinned"], stdout=subprocess.PIPE, stderr=subprocess.PIPE, text=True, timeout=60)
        c.cov["cow_pinned_model_replay"] = p.stdout.strip()
    except Exception as e:                                      # documentation only
        c.cov["cow_pinned_model_replay"] = "not run: %s" % e
    c.cov["locked_summary"] = summary
    c.cov["locked_rule"] = RULE
    for a in ASSUMPTIONS:
        if a not in c.assumptions:
            c.assumptions.append(a)
    c.cov.setdefault("trusted_base_parts", []).extend(t for t in TRUSTED if t not in c.cov.get("trusted_base_parts", []))
    return summary


RULE = ("lock-based containers: lock-step schedules chosen by the extracted models (2-4 goroutines x <= 6 calls, all public "
        "methods, ArrayList- and LinkedList-backed ConcurrentList, bounded/unbounded priority queue), each executed statement by "
        "statement on the real goroutines; non-trivial = readers and writers meet at the RWMutex (cpq, clist), a writer publishes "
        "while a reader holds a snapshot / a reader returns from a replaced snapshot (cow), the map changes between the Load and "
        "LoadOrStore halves of a LoadOrStoreFunc or fn's value is discarded (syncmap); plus chaos-mode histories checked by porcupine")
ASSUMPTIONS = [
    "sync.Mutex / sync.RWMutex: Lock enabled iff free, RLock iff no writer holds it (trusted specification; writer preference only removes behaviours)",
    "sync.Map: Load/Store/LoadOrStore/LoadAndDelete/Delete are atomic (documented contract); concurrent Map.Range is outside the linearizability claim (sync.Map.Range is documented not to be a snapshot) — its sequential contract and the weak concurrent contract are checked by c06-locked-maprange",
    "CopyOnWriteArrayList: slices as values — every slice a statement writes to was made in the same call and is published by one assignment (pinned by the statement skeleton check)",
    "the inner sequential objects (heap, ArrayList, LinkedList) are represented by their sequential specifications (sorted multiset, sequence); their own correctness is C05/C04",
    "interleavings inside one Go statement are modelled only for the delegating `return inner.Op()` statement (read / write-back); LoadOrStoreFunc's fn is a pure function of the call's arguments",
    "linearizability is proved in linearisation-point form; its equivalence with the textbook definition is not mechanised",
]
TRUSTED = ["ocaml/drv_locked.ml (label tables, schedule generator)", "harness/locked (instances, porcupine specifications)",
           "github.com/anishathalye/porcupine v1.3.0 (search oracle only)"]
