"""C04 — list implementations refine an abstract sequence; failed calls change nothing.
Proof layer + differential correspondence of ListModel against /repo/list, with the capacity
oracle (Cap() of the implementation after every call) fed to the model, and a search layer
that minimises every disagreement against the abstract sequence."""
import random
import re

from common import Check, coq_z, coq_list

IMPLS = ["array", "linked", "cow", "conc-array", "conc-linked", "conc-cow"]
CAPS = [0, 1, 5, 64, 65, 130, 2049, 5000]
KIND = {"N": "NewArrayListOf", "b": "Append", "n": "NewOf", "g": "Get", "a": "Append", "i": "Add", "s": "Set", "d": "Delete", "l": "Len", "c": "Cap",
        "r": "Range", "v": "AsSlice"}


def bare(o):
    """operation token without the `~` (= not observed) prefix"""
    return o[1:] if o.startswith("~") else o


def kind_of(o, im=""):
    if bare(o)[0] == "n" and im.endswith("array"):
        return "Append"           # NewArrayListOf is documented to share its argument: the harness appends instead
    return KIND[bare(o)[0]]


# ----------------------------------------------------------------------------- generation
class Gen:
    """Builds one history while tracking the abstract sequence (only to choose indices)."""

    def __init__(self, r, stats):
        self.r = r
        self.seq = []
        self.ops = []
        self.next = r.choice([1, 1, 100, 1000000])
        self.stats = stats
        self.sparse = False       # sparse observation: only ~1/3 of the ops are followed by the observers
        self.quiet = False        # inside a burst of unobserved ops

    def val(self):
        x = self.r.random()
        if x < 0.06:
            return 0                      # the zero value: must not be confused with "absent"
        if x < 0.10:
            return -self.r.randint(1, 50)
        if x < 0.13 and self.seq:
            return self.r.choice(self.seq)  # duplicate
        self.next += 1
        return self.next

    def index(self, hi_valid):
        """hi_valid = largest valid index (len-1 for Get/Set/Delete, len for Add)."""
        n = len(self.seq)
        x = self.r.random()
        if x < 0.60 and hi_valid >= 0:
            i = self.r.choice([0, hi_valid, hi_valid // 2, hi_valid // 2 + 1] if self.r.random() < 0.35
                              else [self.r.randint(0, hi_valid)])
            i = min(max(i, 0), hi_valid)
        elif x < 0.97:
            i = self.r.randint(-1, n + 1)
        else:
            i = self.r.choice([-2, -100, n + 2, n + 100, 1 << 40, -(1 << 40)])
        self.stats["idx_valid" if 0 <= i <= hi_valid else "idx_invalid"] += 1
        if 0 <= i <= hi_valid:
            self.last_idx = i
        return i

    def emit(self, tok):
        if self.sparse:
            if self.quiet or self.r.random() >= 1 / 3:
                self.stats["ops_unobserved"] += 1
                self.ops.append("~" + tok)
            else:
                self.stats["ops_observed_in_sparse"] += 1
                self.ops.append(tok)
        else:
            self.ops.append(tok)
        self.stats["op_" + KIND[tok[0]]] += 1

    def near(self, hi_valid):
        """a valid index, preferring the neighbourhood of the last index used and the two ends"""
        if hi_valid < 0:
            return 0
        last = getattr(self, "last_idx", 0)
        i = self.r.choice([last, last, last - 1, last + 1, hi_valid, hi_valid, hi_valid, 0, hi_valid // 2,
                           self.r.randint(0, hi_valid)])
        return min(max(i, 0), hi_valid)

    def burst(self):
        """a few unobserved operations around one index: the length is unchanged (Delete+Add, Set burst) or restored
        and slightly grown at the far end (Get, Delete, Append..., then one more access at the same index)"""
        n = len(self.seq)
        if n == 0:
            self.append(self.r.choice([1, 3, 20]))
            return
        self.quiet = True
        self.stats["bursts"] += 1
        k = self.r.random()
        if k < 0.3:                       # Delete then Add (1-2 times)
            for _ in range(self.r.randint(1, 2)):
                i = self.near(len(self.seq) - 1)
                del self.seq[i]
                self.emit("d:%d" % i)
                j = self.near(len(self.seq))
                x = self.val()
                self.seq.insert(j, x)
                self.emit("i:%d:%d" % (j, x))
                self.last_idx = j
        elif k < 0.5:                     # Set burst
            for _ in range(self.r.randint(2, 5)):
                i, x = self.near(n - 1), self.val()
                self.seq[i] = x
                self.emit("s:%d:%d" % (i, x))
                self.last_idx = i
        else:                             # Get, Delete, Append (then often one more access at the same index)
            i = self.near(n - 1)
            self.emit("g:%d" % i)
            j = i if self.r.random() < 0.6 else self.near(n - 1)
            del self.seq[j]
            self.emit("d:%d" % j)
            for _ in range(self.r.choice([1, 1, 2])):      # refill at the end, in one or two calls
                xs = [self.val() for _ in range(self.r.choice([1, 1, 2, 3]))]
                self.seq += xs
                self.emit("a:" + ",".join(map(str, xs)))
            self.last_idx = j
            if self.r.random() < 0.8:
                w = self.r.random()
                if w < 0.4:
                    self.emit("g:%d" % j)
                elif w < 0.6:
                    y = self.val()
                    self.seq[j] = y
                    self.emit("s:%d:%d" % (j, y))
                elif w < 0.8:
                    y = self.val()
                    self.seq.insert(j, y)
                    self.emit("i:%d:%d" % (j, y))
                    del self.seq[-1]
                    self.emit("d:%d" % len(self.seq))
                else:
                    del self.seq[j]
                    self.emit("d:%d" % j)
                    y = self.val()
                    self.seq.append(y)
                    self.emit("a:%d" % y)
        self.quiet = False

    def get(self):
        self.emit("g:%d" % self.index(len(self.seq) - 1))

    def append(self, k=None):
        if k is None:
            k = self.r.choice([0, 1, 1, 2, 3, 4, 7])
        xs = [self.val() for _ in range(k)]
        self.seq += xs
        first = not self.ops
        if first and k and self.r.random() < 0.25:
            self.emit("n:" + ",".join(map(str, xs)))          # New...Of(xs)
        elif k and self.r.random() < 0.15:
            self.emit("b:" + ",".join(map(str, xs)))          # the same slice also goes to a second list
        else:
            self.emit("a:" + ",".join(map(str, xs)))

    def add(self):
        i, x = self.index(len(self.seq)), self.val()
        if 0 <= i <= len(self.seq):
            self.seq.insert(i, x)
        self.emit("i:%d:%d" % (i, x))

    def set(self):
        i, x = self.index(len(self.seq) - 1), self.val()
        if 0 <= i < len(self.seq):
            self.seq[i] = x
        self.emit("s:%d:%d" % (i, x))

    def delete(self, i=None):
        if i is None:
            i = self.index(len(self.seq) - 1)
        if 0 <= i < len(self.seq):
            del self.seq[i]
        self.emit("d:%d" % i)

    def range(self):
        n = len(self.seq)
        stop = self.r.choice([-1, -1, n, n + 1]) if self.r.random() < 0.5 or n == 0 else self.r.randint(0, n - 1)
        self.emit("r:%d" % stop)

    def random_op(self, w=None):
        w = w or (("get", 15), ("append", 13), ("add", 20), ("set", 10), ("delete", 20), ("len", 3), ("cap", 2),
                  ("range", 8), ("asslice", 9))
        k = self.r.choices([a for a, _ in w], [b for _, b in w])[0]
        if k == "len":
            self.emit("l")
        elif k == "cap":
            self.emit("c")
        elif k == "asslice":
            self.emit("v")
        else:
            getattr(self, k)()

    def drain(self):
        """delete down to empty (mostly valid indices, a few failing calls in between)"""
        mode = self.r.choice(["front", "back", "mixed", "middle"])
        while self.seq:
            n = len(self.seq)
            x = self.r.random()
            if x < 0.04:
                self.delete(self.r.choice([-1, n, n + 1]))
                continue
            if x < 0.06:
                self.emit("i:%d:%d" % (self.r.choice([-1, n + 1]), self.val()))
                continue
            if x < 0.08:
                self.emit(self.r.choice(["r:-1", "v", "g:%d" % (n - 1), "g:%d" % n]))
                continue
            i = {"front": 0, "back": n - 1, "middle": n // 2}.get(mode)
            if i is None:
                i = self.r.choice([0, n - 1, self.r.randint(0, n - 1), n // 2])
            self.delete(i)
        self.stats["drains_to_empty"] += 1


def drain_history(r, stats, size, tail_ops):
    g = Gen(r, stats)
    left = size
    while left > 0:
        k = min(left, r.choice([size, size // 2 + 1, 33, 70]))
        g.append(k)
        left -= k
        if r.random() < 0.3:
            g.random_op()
    for _ in range(r.randint(0, 4)):
        g.random_op()
    g.drain()
    # the empty list: every index is out of range, Add(0) is the only insertion
    for tok in r.sample(["g:0", "d:0", "s:0:5", "i:1:6", "g:-1", "r:0", "v", "l", "d:-1"], 5):
        g.emit(tok)
    if r.random() < 0.5:
        g.emit("i:0:%d" % g.val())
        g.seq.insert(0, int(g.ops[-1].split(":")[2]))
        g.append(r.choice([3, 40, 70]))
    else:           # refill the empty list in one batch, usually larger than the capacity that is left
        g.append(r.choice([1, 3, 40, 70, 130]))
        g.append(r.choice([0, 2, 70]))
    for _ in range(tail_ops):
        g.random_op()
    if r.random() < 0.5:
        g.drain()
        g.append(2)
    return g.ops


def gen_histories(c):
    r = random.Random(c.seed * 1000003 + 4)
    full = c.tier == "thorough"
    st = c.cov.setdefault("distribution", {})
    for k in ["idx_valid", "idx_invalid", "drains_to_empty", "hist_random", "hist_drain", "hist_regression", "hist_sparse", "hist_argument", "hist_shared_ctor",
              "ops_unobserved", "ops_observed_in_sparse", "bursts"] + \
             ["op_" + v for v in KIND.values()]:
        st[k] = 0
    hs = []
    # regression corpus: the two defects of the pinned tree (fixed by 3fdc36e and 7815cea)
    for im in IMPLS:
        hs.append((im, 5, ["a:1,2,3", "i:7:9", "g:0", "i:-1:9", "a:4"]))
        hs.append((im, 65, ["a:1", "d:0", "a:2", "d:0"]))
        hs.append((im, 2049, ["a:1,2", "d:0", "d:0", "i:0:3"]))
        st["hist_regression"] += 3
    # argument slices: batches into empty lists of small capacity, Set/Append afterwards, drained and refilled
    for k in range(3000 if full else 90):
        im = IMPLS[k % len(IMPLS)]
        cap0 = [0, 1, 5, 0, 64, 2][(k // len(IMPLS)) % 6]
        g = Gen(r, st)
        for rounds in range(r.randint(1, 3)):
            g.append(r.choice([1, 2, 3, 6, 7, 20, 70]))
            for _ in range(r.randint(0, 4)):
                r.choice([g.set, g.append, g.get, g.add, lambda: g.emit("v")])()
            if r.random() < 0.7:
                g.drain()
        g.emit("v")
        hs.append((im, cap0, g.ops))
        st["hist_argument"] += 1
    # NewArrayListOf(ts): the list shares ts (documented); every op observed, incl. the sharing probe
    for k in range(2000 if full else 70):
        im = ["array", "conc-array"][k % 2]
        cap0 = [0, 1, 5, 64, 65, 130, 0, 70][(k // 2) % 8]
        g = Gen(r, st)
        xs = [g.val() for _ in range(r.choice([1, 2, 3, 6, 20, 66, 70]))]
        g.seq += xs
        g.emit("N:" + ",".join(map(str, xs)))
        for _ in range(r.randint(3, 30)):
            if r.random() < 0.1:
                g.drain()
                g.append(r.choice([1, 3, 40]))
            else:
                g.random_op()
        hs.append((im, cap0, g.ops))
        st["hist_shared_ctor"] += 1
    n_random = 40000 if full else 560
    for k in range(n_random):
        im = IMPLS[k % len(IMPLS)] if r.random() < 0.8 else r.choice(IMPLS[:3])
        cap0 = CAPS[(k // len(IMPLS)) % len(CAPS)]
        g = Gen(r, st)
        n_ops = r.randint(1, 50)
        if r.random() < 0.35:
            g.append(r.choice([1, 3, 8, 20, 33, 66, 70]))
        bias = r.random()
        w = None
        if bias < 0.2:     # delete-heavy: walks the capacity down through the shrink thresholds
            w = (("get", 8), ("append", 6), ("add", 8), ("set", 5), ("delete", 50), ("len", 2), ("cap", 2),
                 ("range", 5), ("asslice", 5))
        elif bias < 0.35:  # insert-heavy
            w = (("get", 8), ("append", 20), ("add", 40), ("set", 5), ("delete", 8), ("len", 2), ("cap", 2),
                 ("range", 5), ("asslice", 5))
        while len(g.ops) < n_ops:
            if r.random() < 0.08:
                g.burst()
            else:
                g.random_op(w)
        hs.append((im, cap0, g.ops))
        st["hist_random"] += 1
    # sparse observation: Len/AsSlice(/Cap) only after ~1/3 of the ops, bursts of unobserved length-preserving mutations
    n_sparse = 12000 if full else 260
    for k in range(n_sparse):
        im = IMPLS[k % len(IMPLS)]
        cap0 = CAPS[(k // len(IMPLS)) % len(CAPS)]
        g = Gen(r, st)
        g.sparse = True
        g.append(r.choice([2, 5, 12, 17, 18, 20, 25, 33, 40, 66]))
        n_ops = r.randint(6, 50)
        while len(g.ops) < n_ops:
            if r.random() < 0.3:
                g.burst()
            else:
                g.random_op()
        g.sparse = False
        g.emit(r.choice(["l", "v", "r:-1"]))       # the final state is always observed
        hs.append((im, cap0, g.ops))
        st["hist_sparse"] += 1
    # grow past 64 / 2048, drain to empty, refill
    sizes = [66, 70, 130, 65, 129, 257, 300, 66] if not full else \
        [66, 70, 130, 257, 600] * 30 + [2049, 2050, 2100, 2500] * 6 + [5000] * 8
    if not full:
        sizes = sizes + [2050]
    for k, size in enumerate(sizes):
        im = IMPLS[k % len(IMPLS)]
        cap0 = CAPS[(k * 3 + k // len(IMPLS)) % len(CAPS)]
        if size >= 2049 and not full:
            im, cap0 = "array", 0
        if size >= 2049 and full and k % 2 == 0:
            im = "array"
        hs.append((im, cap0, drain_history(r, st, size, r.randint(3, 25))))
        st["hist_drain"] += 1
    return hs


# ----------------------------------------------------------------------------- running both sides
def hist_line(h, caps=None):
    im, cap0, ops = h
    if caps is None:
        return "%s %d %s" % (im, cap0, ";".join(ops))
    return "%s %d %s" % (im, cap0, ";".join("%s@%s" % (o, caps[i] if i < len(caps) else "-") for i, o in enumerate(ops)))


def split_impl(line):
    """implementation line -> (compared entries, caps, flags, sharing); flag "1" = fine, "0" = a slice returned by
    AsSlice is aliased, "A" = an argument slice of Append / New...Of (or a second list fed from it) is aliased,
    "C0"/"CP" = a slice published earlier by a CopyOnWriteArrayList changed / a mutator re-published the same array;
    sharing = S/U/?/- (does a list made by NewArrayListOf(ts) still live in ts's array)"""
    ent, caps, fresh, sh = [], [], [], []
    for e in line.split(";") if line else []:
        p = e.split("|")
        if len(p) >= 5:
            ent.append("|".join(p[:3]))
            caps.append(p[3] if re.fullmatch(r"-?\d+", p[3]) else "-")
            f = "A" if len(p) > 5 and p[5] != "1" else p[4]
            if f == "1" and len(p) > 6 and p[6] in ("0", "P"):
                f = "C" + p[6]
            fresh.append(f)
            sh.append(p[7] if len(p) > 7 else "-")
        else:
            ent.append(e)          # "panic" or an observation that panicked
            caps.append("-")
            fresh.append("1")
            sh.append("-")
    return ent, caps, fresh, sh


def split_model(line):
    ent, caps = [], []
    for e in line.split(";") if line else []:
        p = e.split("|")
        if len(p) >= 4:
            ent.append("|".join(p[:3]))
            caps.append(p[3])
        else:
            ent.append(e)
            caps.append("-")
    return ent, caps


class Runner:
    def __init__(self, c, binary):
        self.c, self.binary = c, binary

    def run(self, hs, want_spec=False):
        """-> list of dicts {impl, caps, fresh, model, mcaps, spec, spec_only}.
        The concrete model costs O(len^2) per shifted element access (Coq lists), i.e. O(len^3) for a
        drain; histories whose list can exceed BIG elements are therefore replayed on the extracted
        ABSTRACT SEQUENCE only, which theorem new_list_refines_seq proves equal to the model's output
        for every history and every oracle."""
        text = "\n".join(hist_line(h) for h in hs) + "\n"
        rc, impl_lines, err = self.c.run_impl(self.binary, ["c04"], text)
        res = []
        for i, h in enumerate(hs):
            ent, caps, fresh, sh = split_impl(impl_lines[i] if i < len(impl_lines) else "<missing>")
            res.append({"impl": ent, "caps": caps, "fresh": fresh, "sh": sh, "spec_only": max_len_bound(h) > BIG})
        lines = [hist_line(h, res[i]["caps"]) for i, h in enumerate(hs)]
        small = [i for i in range(len(hs)) if not res[i]["spec_only"]]
        mlines = self.c.run_model("list", "\n".join(lines[i] for i in small) + "\n") if small else []
        need_spec = list(range(len(hs))) if want_spec else [i for i in range(len(hs)) if res[i]["spec_only"]]
        slines = self.c.run_model("list-spec", "\n".join(lines[i] for i in need_spec) + "\n") if need_spec else []
        spec = {i: split_model(slines[j] if j < len(slines) else "<missing>")[0] for j, i in enumerate(need_spec)}
        mod = {i: split_model(mlines[j] if j < len(mlines) else "<missing>") for j, i in enumerate(small)}
        for i in range(len(hs)):
            if i in spec:
                res[i]["spec"] = spec[i]
            if res[i]["spec_only"]:
                res[i]["model"], res[i]["mcaps"] = spec[i], []
            else:
                res[i]["model"], res[i]["mcaps"] = mod[i]
        return res


BIG = 700


def max_len_bound(h):
    """upper bound of the length the list can reach in this history"""
    n = 0
    for o in h[2]:
        o = bare(o)
        if o[0] in "abnN":
            n += o.count(",") + 1 if len(o) > 2 else 0
        elif o[0] == "i":
            n += 1
    return n


def first_diff(h, a, b, fresh=None):
    """index of the first op on which the two observable streams differ (None = agree)."""
    n = len(h[2])
    for k in range(n):
        x = a[k] if k < len(a) else "<missing>"
        y = b[k] if k < len(b) else "<missing>"
        if x != y:
            if x == "<missing>" and k > 0 and "panic" in (a[k - 1] if k - 1 < len(a) else ""):
                return None        # both stopped at a panic already reported at k-1
            return k
        if fresh is not None and k < len(fresh) and fresh[k] != "1":
            return k
        if x == "panic" or "panic" in x.split("|"):
            return None
    return None


def classify(h, k, impl, ref, fresh):
    x = impl[k] if k < len(impl) else "<missing>"
    y = ref[k] if k < len(ref) else "<missing>"
    if "panic" in x.split("|"):
        return "panic"
    if x == "<missing>" or y == "<missing>" or "panic" in y.split("|"):
        return "stream"
    px, py = x.split("|"), y.split("|")
    if k < len(fresh) and fresh[k].startswith("C"):
        return "cow-snapshot-changed" if fresh[k] == "C0" else "cow-mutator-did-not-copy"
    if len(px) > 2 and px[2].startswith("A:"):
        return "asslice-aliased"       # AsSlice returned the list's own backing array (pointer identity)
    if (k < len(fresh) and fresh[k] == "A") or re.search(r"-[34]0000\d\d", x):
        return "argument-aliased"      # the list shares memory with a slice the caller passed to Append / New...Of
    if (k < len(fresh) and fresh[k] != "1") or re.search(r"-[12]0000\d\d", x):
        return "asslice-aliased"       # a slice returned by AsSlice shares memory with the list
    if px[0] != py[0]:
        ex, ey = px[0].startswith("e:"), py[0].startswith("e:")
        if ex != ey:
            return "error-expected" if ey else "unexpected-error"
        return "result"
    if px[0].startswith("e:") and (px[1] != py[1] or px[2] != py[2]):
        return "failed-call-changed-list"
    if px[1] != py[1]:
        return "len"
    if px[2].split(":")[0] != py[2].split(":")[0]:
        return "nil-slice"
    if px[2] != py[2]:
        return "contents"
    if k < len(fresh) and fresh[k] != "1":
        return "asslice-aliased"
    return "other"


def minimise(runner, h, budget=40):
    """ddmin over the operations: keep the history failing (implementation != abstract sequence,
    or a returned slice aliased), re-running both sides on every candidate batch."""
    def failing(hs):
        out = []
        for hh, r in zip(hs, runner.run(hs, want_spec=True)):
            out.append(first_diff(hh, r["impl"], r["spec"], r["fresh"]))
        return out
    im, cap0, ops = h
    k = failing([h])[0]
    if k is None:
        return h
    ops = ops[:k + 1]
    chunk = max(1, len(ops) // 2)
    rounds = 0
    while rounds < budget:
        rounds += 1
        cands = []
        for s in range(0, len(ops), chunk):
            cand = ops[:s] + ops[s + chunk:]
            if cand:
                cands.append(cand)
        cands = cands[:400]
        ks = failing([(im, cap0, o) for o in cands]) if cands else []
        hit = next((j for j, kk in enumerate(ks) if kk is not None), None)
        if hit is not None:
            ops = cands[hit][:ks[hit] + 1]
            chunk = max(1, min(chunk, len(ops) // 2))
            continue
        if chunk == 1:
            break
        chunk = max(1, chunk // 2)
    # shrink the appended blocks
    for _ in range(12):
        cands = []
        for j, o in enumerate(ops):
            if bare(o)[:2] in ("a:", "b:", "n:", "N:") and o.count(",") >= 1:
                pre = ("~" if o.startswith("~") else "") + bare(o)[:2]
                xs = bare(o)[2:].split(",")
                for keep in (xs[:len(xs) // 2], xs[len(xs) // 2:]):
                    cands.append(ops[:j] + [pre + ",".join(keep)] + ops[j + 1:])
        if not cands:
            break
        ks = failing([(im, cap0, o) for o in cands[:200]])
        hit = next((j for j, kk in enumerate(ks) if kk is not None), None)
        if hit is None:
            break
        ops = cands[hit][:ks[hit] + 1]
    for c0 in (0, 1):
        if cap0 > c0 and failing([(im, c0, ops)])[0] is not None:
            cap0 = c0
            break
    return (im, cap0, ops)


# ----------------------------------------------------------------------------- Coq cross-check
def zs(txt):
    return coq_list([coq_z(x) for x in txt.split(",")] if txt else [])


def res_to_coq(t):
    if t == "panic":
        return "XPanic"
    if t == "e:index":
        return "XErrIndex"
    if t.startswith("e:"):
        return "XErrOther"
    if t == "ok":
        return "(XOk OUnit)"
    if t == "cap":
        return "XCap"
    k, _, rest = t.partition(":")
    if k == "v":
        return "(XOk (OVal %s))" % coq_z(rest)
    if k == "len":
        return "(XOk (OLen %s))" % coq_z(rest)
    if k == "s":
        nil, _, l = rest.partition(":")
        return "(XOk (OSlice %s %s))" % ("true" if nil == "1" else "false", zs(l))
    if k == "r":
        st, _, l = rest.partition(":")
        fl = l.split(",") if l else []
        prs = ["(%s, %s)" % (coq_z(fl[i]), coq_z(fl[i + 1])) for i in range(0, len(fl), 2)]
        return "(XOk (ORange %s %s))" % (coq_list(prs), "true" if st == "1" else "false")
    raise ValueError(t)


def op_to_coq(o):
    p = bare(o).split(":")
    if p[0] == "g":
        return "OpGet %s" % coq_z(p[1])
    if p[0] in "abnN":
        return "OpAppend %s" % zs(p[1] if len(p) > 1 else "")
    if p[0] == "i":
        return "OpAdd %s %s" % (coq_z(p[1]), coq_z(p[2]))
    if p[0] == "s":
        return "OpSet %s %s" % (coq_z(p[1]), coq_z(p[2]))
    if p[0] == "d":
        return "OpDelete %s" % coq_z(p[1])
    if p[0] == "r":
        return "OpRange %s" % coq_z(p[1])
    return {"l": "OpLen", "c": "OpCap", "v": "OpAsSlice"}[p[0]]


def impl_to_coq(im):
    return "(IConc %s)" % impl_to_coq(im[5:]) if im.startswith("conc-") else {"array": "IArr", "linked": "ILinked", "cow": "ICow"}[im]


CROSS_PRELUDE = """From Ekit Require Import Common ListModel.
Inductive xres := XOk (o : out) | XErrIndex | XErrOther | XPanic | XCap.
Definition zl_eqb (a b : list Z) : bool :=
  Nat.eqb (length a) (length b) && forallb (fun p => Z.eqb (fst p) (snd p)) (combine a b).
Definition pl_eqb (a b : list (Z * Z)) : bool :=
  Nat.eqb (length a) (length b) &&
  forallb (fun p => Z.eqb (fst (fst p)) (fst (snd p)) && Z.eqb (snd (fst p)) (snd (snd p))) (combine a b).
Definition out_eqb (a b : out) : bool :=
  match a, b with
  | OUnit, OUnit => true
  | OVal x, OVal y | OLen x, OLen y => Z.eqb x y
  | OSlice n x, OSlice m y => Bool.eqb n m && zl_eqb x y
  | ORange x s, ORange y t => Bool.eqb s t && pl_eqb x y
  | _, _ => false end.
Definition agree (o : outcome out) (e : xres) : bool :=
  match o, e with
  | Ok (OCap _), XCap => true
  | Ok a, XOk b => out_eqb a b
  | Err EIndex, XErrIndex => true
  | Err EIndex, _ => false
  | Err _, XErrOther => true
  | Panic, XPanic => true
  | _, _ => false end.
Definition agree4 (m : outcome out * option (outcome out * outcome out * outcome out)) (e : xres * option (xres * xres)) : bool :=
  match m, e with
  | (r, Some (rl, rs, _)), (er, Some (el, es)) => agree r er && agree rl el && agree rs es
  | (r, None), (er, None) => agree r er
  | _, _ => false end.
Definition check (c : impl * Z * list (op * Z * bool) * list (xres * option (xres * xres))) : bool :=
  let '(im, c0, h, e) := c in
  let m := obs_run (linit im c0) h in
  Nat.eqb (length m) (length e) && forallb (fun p => agree4 (fst p) (snd p)) (combine m e).
Definition cases : list (impl * Z * list (op * Z * bool) * list (xres * option (xres * xres))) :=
"""


def crosscheck(c, hs, results):
    r = random.Random(c.seed + 17)
    small = [i for i, h in enumerate(hs) if len(h[2]) <= 40 and results[i]["model"] and not results[i]["spec_only"]
             and not any("#" in e or e == "panic" or "panic" in e for e in results[i]["model"])
             and all(len(o) < 200 for o in h[2])]
    idx = sorted(r.sample(small, min(200, len(small))))
    items = []
    for i in idx:
        im, cap0, ops = hs[i]
        caps = results[i]["caps"]
        hist = coq_list(["(%s, %s, %s)" % (op_to_coq(o), coq_z(caps[k]) if k < len(caps) and caps[k] != "-" else "0",
                                           "false" if o.startswith("~") else "true")
                         for k, o in enumerate(ops)])
        exp = []
        for e in results[i]["model"]:
            p = e.split("|")
            if p[1] == "~":
                exp.append("(%s, None)" % res_to_coq(p[0]))
            else:
                exp.append("(%s, Some (%s, %s))" % (res_to_coq(p[0]), res_to_coq("len:" + p[1]), res_to_coq("s:" + p[2])))
        items.append("(%s, %s, %s, %s)" % (impl_to_coq(im), coq_z(cap0), hist, coq_list(exp)))
    v = CROSS_PRELUDE + "  [" + ";\n   ".join(items) + "].\n" + \
        "Definition bad := Eval vm_compute in length (filter (fun c => negb (check c)) cases).\nPrint bad.\n"
    rc, out = c.coq_crosscheck(v)
    okx = rc == 0 and re.search(r"bad\s*=\s*0(%nat)?\s", out.replace("\n", " ") + " ") is not None
    c.cov["coq_vm_compute_crosscheck"] = {"histories": len(idx), "agree": bool(okx)}
    if not okx:
        c.report("C04:extraction", "OCaml extraction and vm_compute disagree on the model's output",
                 {"kind": "extraction-crosscheck", "coq_output": out[-1500:]}, found_input=False)


# ----------------------------------------------------------------------------- sharing of NewArrayListOf's argument
def sharing_check(c, hs, results):
    """For the histories that start with NewArrayListOf(ts) the harness reports after every call whether the list still
    lives in ts's array (pointer identity + two write-through probes).  The memory-level model predicts it: the list
    stays in ts's array until the first call for which ListMemModel.reallocates (extracted; proved exact in
    props/C04_mem.v, theorem arraylist_mem_step) holds of (len, cap) before the call.  Sharing is DOCUMENTED behaviour of
    NewArrayListOf, not a violation of C04; a disagreement here means the memory model does not describe the code."""
    lines, where = [], []
    for hi, (h, r) in enumerate(zip(hs, results)):
        if not h[2] or bare(h[2][0])[0] != "N":
            continue
        for k in range(1, len(h[2])):
            prev = r["impl"][k - 1].split("|") if k - 1 < len(r["impl"]) else []
            if k >= len(r["impl"]) or len(prev) < 2 or not prev[1].isdigit() or r["caps"][k - 1] == "-":
                break
            lines.append("%s %s %s" % (prev[1], r["caps"][k - 1], bare(h[2][k])))
            where.append((hi, k))
    n_s = n_u = n_bad = 0
    if lines:
        out = c.run_model("list-realloc", "\n".join(lines) + "\n")
        realloc = {w: (out[j] == "1") for j, w in enumerate(where) if j < len(out)}
        for hi, (h, r) in enumerate(zip(hs, results)):
            if not h[2] or bare(h[2][0])[0] != "N":
                continue
            moved = False
            for k in range(len(r["sh"])):
                if k > 0:
                    if (hi, k) not in realloc:
                        break
                    moved = moved or realloc[(hi, k)]
                got = r["sh"][k]
                if got == "-":
                    continue
                want = "U" if moved else "S"
                n_s += got == "S"
                n_u += got == "U"
                if got != want:
                    n_bad += 1
                    c.report("C04:%s:%s:sharing-differs-from-memory-model" % (h[0], kind_of(h[2][k], h[0])),
                             "NewArrayListOf(ts): after op #%d %r the list %s ts's array, the memory-level model says it %s"
                             % (k, h[2][k], {"S": "still uses", "U": "no longer uses", "?": "inconsistently uses"}[got],
                                "has left it" if moved else "still uses it"),
                             {"kind": "memory-model-correspondence", "history": hist_line(h), "op_index": k,
                              "sharing_observed": r["sh"][:k + 1], "caps": r["caps"][:k + 1]}, found_input=False)
                    break
    c.cov["newarraylistof_sharing"] = {"steps_shared": n_s, "steps_unshared": n_u, "disagree_with_memory_model": n_bad}


# ----------------------------------------------------------------------------- main
def nontrivial(h, impl):
    """a history is non-trivial when it has a failing call AND a successful structural change"""
    failed = any(e.startswith("e:") for e in impl)
    changed = any(bare(o)[0] in "aidbnN" and e.startswith(("ok", "v:")) for o, e in zip(h[2], impl))
    return failed and changed


def main(tier):
    c = Check("C04", tier)
    c.proof_layer()
    c.ensure_modelrun()
    binary, log = c.build_harness(pkgs=["c04"])
    if binary is None:
        c.report("build", "harness does not build against /repo", {"kind": "build", "log": log[-3000:]},
                 found_input=False)
        finish(c)
    runner = Runner(c, binary)
    hs = gen_histories(c)
    import part_llptr
    part_llptr.run(c, hs)          # pointer-level LinkedList model (props/C04_llptr.v) against the real ring of nodes
    results = []
    B = 4000
    for s in range(0, len(hs), B):
        results += runner.run(hs[s:s + B])
    st = c.cov["distribution"]
    n_ops = n_agree_hist = grow = shrinks = cap_eq = cap_ne = maxlen = n_spec_only = 0
    per_impl = {}
    failing = []
    for h, r in zip(hs, results):
        per_impl["%s/cap%d" % (h[0], h[1])] = per_impl.get("%s/cap%d" % (h[0], h[1]), 0) + 1
        n_ops += len(h[2])
        n_spec_only += bool(r["spec_only"])
        c.note_case(hist_line(h), nontrivial(h, r["impl"]))
        k = first_diff(h, r["impl"], r["model"], r["fresh"])
        if k is None:
            n_agree_hist += 1
        else:
            failing.append((h, r, k))
        prev = h[1]
        for j, cp in enumerate(r["caps"]):
            if cp == "-":
                continue
            cp = int(cp)
            if h[0].endswith("array"):
                grow += cp > prev
                shrinks += cp < prev
            prev = cp
            if j < len(r["mcaps"]) and r["mcaps"][j] not in ("-", "~"):
                if r["mcaps"][j] == str(cp):
                    cap_eq += 1
                else:
                    cap_ne += 1
        for e in r["impl"]:
            p = e.split("|")
            if len(p) > 1 and p[1].isdigit():
                maxlen = max(maxlen, int(p[1]))
    c.cov["evaluations"] = n_ops          # one evaluation = one operation compared (result, Len, AsSlice)
    c.cov["histories"] = len(hs)
    c.cov["histories_replayed_on_abstract_sequence_only"] = n_spec_only   # longer than BIG elements, see Runner.run
    c.cov["traces_validated_against_impl"] = n_agree_hist
    c.cov["impl_x_cap"] = per_impl
    st["arraylist_growth_events"] = grow
    st["arraylist_shrink_events"] = shrinks
    st["max_len"] = maxlen
    c.cov["capacity_diagnostic_not_compared"] = {"model_cap_equals_impl_cap": cap_eq, "differs": cap_ne}
    for h in hs[:2] + hs[-1:]:
        c.sample(hist_line(h)[:300])
    # ---------------- search layer: every disagreement is a failing history; minimise it
    seen = set()
    for h, r, k in failing:
        pre = "C04:%s:%s:%s" % (h[0], kind_of(h[2][k], h[0]), classify(h, k, r["impl"], r["model"], r["fresh"]))
        if pre in seen or len(seen) >= 8:
            c.cov["violations_not_minimised"] = c.cov.get("violations_not_minimised", 0) + 1
            continue
        seen.add(pre)
        m = minimise(runner, h)
        rr = runner.run([m], want_spec=True)[0]
        km = first_diff(m, rr["impl"], rr["spec"], rr["fresh"])
        if km is None:          # implementation agrees with the abstract sequence but not with the model
            km2 = first_diff(m, rr["impl"], rr["model"], rr["fresh"])
            c.report("C04:model:%s:%s" % (h[0], kind_of(h[2][k], h[0])),
                     "model and implementation disagree but the abstract sequence agrees with the implementation "
                     "(the model does not describe the code)",
                     {"kind": "correspondence", "history": hist_line(h, r["caps"])[:4000], "first_diverging_op": k,
                      "implementation": r["impl"][max(0, k - 1):k + 1], "model": r["model"][max(0, k - 1):k + 1],
                      "minimised_first_diff": km2}, found_input=False)
            continue
        cls = classify(m, km, rr["impl"], rr["spec"], rr["fresh"])
        kind = kind_of(m[2][km], m[0])
        prevk = kind_of(m[2][km - 1], m[0]) if km > 0 else "-"
        what = ("%s: after %s the implementation shows %r, the abstract sequence %r (op #%d %r of the minimised history)"
                % (m[0], kind, rr["impl"][km] if km < len(rr["impl"]) else "<missing>",
                   rr["spec"][km] if km < len(rr["spec"]) else "<missing>", km, m[2][km]))
        c.report("C04:%s:%s:%s" % (m[0], kind, cls), what,
                 {"kind": "history", "history": hist_line(m), "ops": m[2], "impl": m[0], "cap0": m[1],
                  "failing_op_index": km, "previous_op": prevk,
                  "implementation": rr["impl"], "abstract_sequence": rr["spec"], "model": rr["model"],
                  "aliasing_flags": rr["fresh"],
                  "original_history_ops": len(h[2]),
                  "how": "echo '<history>' | <harness> c04 ; echo '<history>' | ocaml/modelrun list-spec   "
                         "(entry = result|Len|nil:AsSlice[|cap|fresh])"})
    sharing_check(c, hs, results)
    crosscheck(c, hs, results)
    finish(c)


def finish(c):
    c.finish(
        level="proof",
        rule="one evaluation = one list operation whose result, Len() and AsSlice() afterwards were compared with the model "
             "(histories from VERIF_SEED: 6 wrappers of the 4 implementations x initial capacities {0,1,5,64,65,130,2049,5000}, "
             "<=50 random ops with indices in [-1,len+1] (~60% valid) plus rare far-out indices, delete-heavy and insert-heavy "
             "mixes, grow-past-64/2048 then drain-to-empty then refill histories, 18 regression histories); "
             "a history is non-trivial when it contains a failing call and a successful structural change; distinct by md5 of the history text",
        assumptions=["Go's built-in append/copy/make behave as modelled; append's growth policy is an oracle (Cap() after each call is fed to the model, never compared)",
                     "int(float32(c)*0.625) = c*5/8 for c < 3355451 (exhaustively checked); beyond that only the model's capacity, never contents, could differ",
                     "ConcurrentList / CopyOnWriteArrayList locking is not part of this sequential model (C06/C15)",
                     "AsSlice freshness is by construction in the functional model; on the implementation it is tested (returned slices are overwritten "
                     "and must stay unchanged by later list mutations), not proved",
                     "contents longer than 32 elements are compared through two 31-bit polynomial hashes computed by both drivers"],
        trusted_base=["Coq 8.16.1 kernel + vm_compute", "no axioms (Print Assumptions: closed under the global context)",
                      "extraction: ExtrOcamlBasic only; cross-checked against vm_compute on <=200 histories per run",
                      "OCaml driver ocaml/drv_list.ml, Go harness harness/c04, checks/c04.py (history generator, minimiser)"])


if __name__ == "__main__":
    import sys
    main(sys.argv[1] if len(sys.argv) > 1 else "quick")
