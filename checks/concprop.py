"""Property-level check for the concurrent properties: proof layer + instrumented build +
the per-object parts (checks/part_<obj>.py: run(c, binary, labels, tier, focus))."""
import importlib
import sys
import traceback

from common import Check

PROPS = {
    "C06": (["clq", "locked"], "linearizability of the non-blocking thread-safe containers"),
    "C07": (["abq", "lbq"], "blocking queues are bounded FIFO queues"),
    "C08": (["dq"], "DelayQueue never releases early, always the earliest"),
    "C09": (["abq", "lbq", "dq"], "blocked queue calls wake when they can proceed; cancellation is prompt and clean"),
    "C10": (["pool"], "task pool runs every accepted task exactly once"),
    "C11": (["pool"], "task pool never exceeds maxGo workers; one-way lifecycle"),
    "C12": (["pool"], "graceful Shutdown completes"),
    "C13": (["cond"], "syncx.Cond never loses or invents a wake-up"),
}

TRUSTED = ["Coq 8.16.1 kernel + vm_compute (no native_compute); no axioms unless listed under axioms_reported",
           "extraction ExtrOcamlBasic only (no Extract Constant); ocaml/lockstep.ml and the per-object drivers (pc -> label tables)",
           "tools/instrument (yield points only; timers swapped for controller-fired ones in lock-step), hooks/verifhook, harness/lockstep",
           "specifications of sync.Mutex/RWMutex, x/sync/semaphore v0.4.0, channels, context, timers (asynctimerchan=1 semantics) written into the models"]
ASSUME = ["interleavings inside one Go statement are not modelled (one model step = one statement)",
          "Go scheduler fairness for the liveness-flavoured clauses (stated as safety of stuck configurations)",
          "the run-time primitives behave as specified in the models (validated only indirectly by the lock-step runs)"]


def main(pid, tier):
    parts, title = PROPS[pid]
    c = Check(pid, tier)
    c.proof_layer()
    c.ensure_modelrun()
    ov, labels = c.instrument()
    if ov is None:
        c.report(pid + ":instrument", "the instrumenter cannot process /repo's concurrent files", {"kind": "build", "log": str(labels)[-3000:]}, found_input=False)
        return done(c, parts, title)
    binary, log = c.build_harness(extra_overlay=ov, pkgs=parts + ["lockstep"])
    if binary is None:
        c.report(pid + ":build", "instrumented harness does not build against /repo", {"kind": "build", "log": log[-3000:]}, found_input=False)
        return done(c, parts, title)
    for p in parts:
        try:
            mod = importlib.import_module("part_" + p)
            mod.run(c, binary, labels, tier, pid.lower())
        except SystemExit:
            raise
        except Exception:
            c.report("%s:%s:crash" % (pid, p), "check part %s crashed" % p, {"kind": "internal", "trace": traceback.format_exc()[-3000:]}, found_input=False)
    done(c, parts, title)


def done(c, parts, title):
    c.finish(level="proof",
             rule="%s: lock-step schedules chosen by the extracted Coq model (events CALL/STEP/CANCEL/FIRE/TICK) executed on the real goroutines of: %s; "
                  "distinct = hash of (parameters, event list); non-trivial = the schedule hit one of the object's window tags (see <obj>_lockstep.coverage_tags); "
                  "plus chaos-mode stress runs with property monitors as search oracle" % (title, ", ".join(parts)),
             assumptions=ASSUME, trusted_base=TRUSTED)


if __name__ == "__main__":
    main(sys.argv[1], sys.argv[2] if len(sys.argv) > 2 else "quick")
