"""Part `cond` of property C13 — syncx.Cond: lock-step of the real Wait/Signal/Broadcast statements against
the extracted interleaving model (CondModel.v), synchronisation skeleton (labels), and the chaos-mode
stress/monitor command c13-cond-stress as the search oracle.

    run(c, binary, labels, tier, focus)

`c` is the calling property's common.Check, `binary` the instrumented harness built with
pkgs=[..., "cond", "lockstep"], `labels` the instrumenter's label list."""
import subprocess

from common import GOENV

THEOREMS = ("token_ledger, signal_not_lost, node_in_list_iff, broadcast_releases_all_present, gave_up_never_absorbs, "
            "wait_returns_with_lock, nil_return_consumed_a_token, error_return_only_when_cancelled")


def stress(c, binary, configs, timeout=600):
    """configs: (seed, rounds, maxWaiters) for the general scenario, or (seed, "bcast-expiry", rounds, waiters, probes) /
    (seed, "first-use", rounds) / (seed, "positions", repeats) for the directed ones"""
    bad = []
    for cfg in configs:
        cmd = [binary, "c13-cond-stress"] + [str(x) for x in cfg]
        try:
            p = subprocess.run(cmd, stdout=subprocess.PIPE, stderr=subprocess.PIPE, text=True, timeout=timeout, env=GOENV)
            out = p.stdout.strip() or ("crash: " + p.stderr[-1500:])
        except subprocess.TimeoutExpired:
            out = "VIOLATION kind=hang the stress command did not finish within %d s" % timeout
        first = out.splitlines()[0] if out else ""
        if not first.startswith("ok "):
            kind = "other"
            for tok in first.split():
                if tok.startswith("kind="):
                    kind = tok[5:]
            if first.startswith("crash") or "DATA RACE" in out:
                kind = "race" if "DATA RACE" in out else "crash"
            bad.append({"kind_of_violation": kind, "result": first[:600], "detail": out[:3000],
                        "how": "h c13-cond-stress %s   (instrumented harness, chaos mode)" % " ".join(str(x) for x in cfg)})
    return bad


def run(c, binary, labels, tier, focus="c13"):
    pid = c.pid
    # 1. synchronisation skeleton
    problems = c.check_labels("cond-lockstep", labels)
    # 2. lock-step
    nsched, maxev = (250, 400) if tier == "quick" else (5000, 500)
    rc, txt, merr, gerr = c.lockstep(binary, "cond-lockstep", ["run", c.seed, nsched, maxev, focus])
    stats, tags, samples, mism = c.parse_lockstep_report(txt)
    c.cov["cond_lockstep"] = dict(stats, coverage_tags=tags, waiters_max=4, threads=6,
                                  windows=["expiry-races-send:owner-in-ctx-branch-before-l.mu",
                                           "expiry-races-unlink:owner-in-ctx-branch-before-l.mu",
                                           "timeout-path-takes-token", "token-forwarded-to-next-waiter",
                                           "token-dropped:list-empty-at-forwarding", "pool-reuse-by-later-waiter",
                                           "broadcast-with-3+-waiters-in-list", "return-of-Wait-blocked-on-L"])
    c.cov["evaluations"] += stats.get("schedules", 0)
    c.cov["traces_validated_against_impl"] += stats.get("schedules", 0) - stats.get("mismatches", 0)
    for i in range(stats.get("nontrivial", 0)):
        c._distinct.add("cond%d" % i)
    for s in samples[:1]:
        c.sample("cond lock-step schedule: " + s[:700])
    broken = bool(problems or mism or not stats)
    # 3. stress / monitors (dynamic complement; the search when 1/2 failed)
    configs = [(c.seed, 150, 4), (c.seed + 1, 60, 8),
               (c.seed, "bcast-expiry", 40, 32, 192), (c.seed, "first-use", 600), (c.seed, "positions", 3)] if tier == "quick" else \
              [(c.seed, 3000, 4), (c.seed + 1, 1500, 8), (c.seed + 2, 600, 16), (c.seed + 3, 4000, 2),
               (c.seed, "bcast-expiry", 400, 32, 192), (c.seed + 1, "bcast-expiry", 200, 64, 256),
               (c.seed, "first-use", 6000), (c.seed, "positions", 40)]
    sbad = stress(c, binary, configs)
    searched = 0
    if broken and not sbad:
        more = [(c.seed + 10 + i, 1500, w) for i, w in enumerate((2, 3, 4, 6, 8, 12))] + \
               [(c.seed + 30, "bcast-expiry", 600, 32, 192), (c.seed + 31, "bcast-expiry", 300, 8, 64),
                (c.seed + 30, "first-use", 10000), (c.seed + 30, "positions", 100)]
        searched = len(more)
        sbad = stress(c, binary, more)
        if not sbad:
            # the race detector sees a return of Wait without L (plain counter) even when no count is off
            rbin, rlog = c.build_harness(race=True, extra_overlay=getattr(c, "_cond_overlay", None), pkgs=["cond", "lockstep"])
            if rbin:
                sbad = stress(c, rbin, [(c.seed + 20, 400, 4), (c.seed + 21, 200, 8)])
                searched += 2
    c.cov["cond_stress"] = {"configs": configs, "extra_search_runs": searched, "violations": len(sbad)}
    # 4. report
    for b in sbad[:3]:
        c.report("%s:cond:%s" % (pid, b["kind_of_violation"]), "syncx.Cond: " + b["result"],
                 dict(kind="stress-run", **b))
    if broken and not sbad:
        c.report("%s:cond:lockstep" % pid,
                 "syncx.Cond no longer corresponds to its interleaving model (theorems %s do not transfer)" % THEOREMS,
                 {"kind": "lockstep-correspondence", "skeleton_problems": problems[:10], "mismatches": mism[:3],
                  "model_stderr": merr[-500:], "go_stderr": gerr[-500:],
                  "how": "modelrun cond-lockstep replay <file with 'PARAMS <copied> <mode>' + the event lines> | h lockstep"},
                 found_input=False)
    return {"skeleton_problems": problems, "mismatches": mism, "stats": stats, "stress_violations": sbad}
