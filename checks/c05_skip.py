"""C05, skip-list half: differential correspondence of coq/theories/model/SkipModel.v against
/repo/internal/list/skip_list.go (through list.SkipList and the add-only accessors of
hooks/internal/list, hooks/list), plus the search layer.

Entry point: run(c, binary)   c = common.Check of property C05, binary = the built harness.
Counts are added to c.cov under keys prefixed "skip_"; c.finish is NOT called here."""
import random
import re
import subprocess

from common import GOENV, coq_z, coq_list

CMPS = ["asc", "desc", "mod3", "half"]


# ----------------------------------------------------------------------------- comparators
def sgn(x):
    return (x > 0) - (x < 0)


def pycmp(name):
    return {"asc": lambda a, b: sgn(a - b), "desc": lambda a, b: sgn(b - a),
            "mod3": lambda a, b: a % 3 - b % 3, "half": lambda a, b: a // 2 - b // 2}[name]


# ----------------------------------------------------------------------------- generation
class Gen:
    def __init__(self, r, cmpname, tagged=True):
        self.r = r
        self.cmp = cmpname
        self.tagged = tagged
        self.tag = 0
        self.ops = []
        self.live = []          # keys currently in the list (approximation used for targeting)

    def val(self, k):
        if self.tagged:
            self.tag += 1
            return "%d:%d" % (k, self.tag)
        return "%d:0" % k

    def ins(self, k):
        self.ops.append("I " + self.val(k))
        self.live.append(k)

    def dele(self, k):
        self.ops.append("D %d:0" % k)
        f = pycmp(self.cmp)
        for i, x in enumerate(self.live):
            if f(x, k) == 0:
                del self.live[i]
                break

    def fromslice(self, ks):
        self.ops.append("F " + ",".join(self.val(k) for k in ks))
        self.live = list(ks)

    def probe(self, lo, hi):
        r = self.r
        x = r.random()
        if x < 0.3:
            self.ops.append("S %d:0" % r.randint(lo, hi))
        elif x < 0.6:
            self.ops.append("G %d" % r.randint(-2, len(self.live) + 2))
        elif x < 0.75:
            self.ops.append("P")
        elif x < 0.9:
            self.ops.append("L")
        else:
            self.ops.append("A")


def gen_history(r, kind, maxops, seedpool):
    cmpname = r.choice(CMPS)
    tagged = not (kind == "mix" and r.random() < 0.2)
    g = Gen(r, cmpname, tagged)
    seed = r.choice(seedpool) if (seedpool and (kind == "tall" or r.random() < 0.25)) else r.randint(1, 1 << 48)
    lo, hi = r.choice([(0, 3), (0, 5), (-4, 9), (-8, 20), (0, 40)])
    n = r.randint(max(1, maxops // 2), maxops)
    if kind == "mix" or kind == "tall":
        pdel = r.choice([0.15, 0.3, 0.45])
        while len(g.ops) < n:
            x = r.random()
            if x < 0.5:
                g.ins(r.randint(lo, hi))
            elif x < 0.5 + pdel:
                if g.live and r.random() < 0.7:
                    g.dele(r.choice(g.live))
                else:
                    g.dele(r.randint(lo - 2, hi + 2))      # often absent
            else:
                g.probe(lo - 1, hi + 1)
    elif kind == "slice":
        g.fromslice([r.randint(lo, hi) for _ in range(r.randint(0, min(25, maxops)))])
        while len(g.ops) < n:
            x = r.random()
            if x < 0.3:
                g.ins(r.randint(lo, hi))
            elif x < 0.7:
                g.dele(r.choice(g.live) if g.live and r.random() < 0.8 else r.randint(lo - 2, hi + 2))
            else:
                g.probe(lo - 1, hi + 1)
    elif kind == "drain":
        # fill, drain to empty (in a random order, deleting absent values in between), refill
        m = max(1, min(n // 3, 20))
        for _ in range(m):
            g.ins(r.randint(lo, hi))
        g.ops.append("A")
        while g.live and len(g.ops) < maxops - 6:
            order = r.choice(["first", "last", "rand"])
            f = pycmp(cmpname)
            srt = sorted(g.live, key=lambda k: (k % 3 if cmpname == "mod3" else k // 2 if cmpname == "half" else -k if cmpname == "desc" else k))
            k = srt[0] if order == "first" else srt[-1] if order == "last" else r.choice(srt)
            g.dele(k)
            if r.random() < 0.2:
                g.dele(hi + 5)
            if r.random() < 0.2:
                g.probe(lo, hi)
        g.ops += ["P", "L", "G 0", "D %d:0" % lo]
        for _ in range(r.randint(1, 5)):
            g.ins(r.randint(lo, hi))
    elif kind == "runs":
        # runs of elements that compare equal; delete hits the first of a run; then middle/last by key
        keys = [r.randint(lo, hi) for _ in range(r.randint(1, 3))]
        for _ in range(min(n, 30)):
            g.ins(r.choice(keys))
        g.ops.append("A")
        while len(g.ops) < n:
            x = r.random()
            if x < 0.55:
                g.dele(r.choice(keys))
            elif x < 0.75:
                g.ins(r.choice(keys))
            else:
                g.probe(lo, hi)
    return "%s %d %s" % (cmpname, seed, ";".join(g.ops[:maxops]))


def gen_sparse(r, maxops, seedpool, stats):
    """'Sparse observation' history: only about a third of the operations are followed by
    AsSlice / Len / the tower dump ('~' marks an unobserved op: return value only).  Contains runs of
    2-5 unobserved mutations that leave the size unchanged (DeleteElement of a present element then
    Insert), framed by observations - a result cached inside the list and invalidated only by a
    change of the size is then visible."""
    if r.random() < 0.25:          # an ordinary history, sparsely observed
        h = gen_history(r, r.choice(["mix", "tall", "slice", "drain", "runs"]), maxops, seedpool)
        p = (h.split(" ", 2) + [""])[:3]
        ops = [o for o in p[2].split(";") if o.strip()]
        ops = [o if (o.strip()[0] == "F" or r.random() < 1 / 3) else "~" + o for o in ops]
        stats["unobserved_ops"] += sum(o.startswith("~") for o in ops)
        return "%s %s %s" % (p[0], p[1], ";".join(ops))
    cmpname = r.choice(CMPS)
    g = Gen(r, cmpname, True)
    seed = r.choice(seedpool) if (seedpool and r.random() < 0.25) else r.randint(1, 1 << 48)
    lo, hi = r.choice([(0, 3), (0, 5), (-4, 9), (0, 40)])
    n = r.randint(max(4, maxops // 2), maxops)

    def hide():
        g.ops[-1] = "~" + g.ops[-1]
        stats["unobserved_ops"] += 1

    def observe():
        x = r.random()
        if x < 0.4:
            g.ops.append("A")
        elif x < 0.6:
            g.ops.append("L")
        elif x < 0.75:
            g.ops.append("G %d" % r.randint(0, max(0, len(g.live) - 1)))
        elif x < 0.9:
            g.ops.append("S %d:0" % (r.choice(g.live) if g.live and r.random() < 0.7 else r.randint(lo - 1, hi + 1)))
        else:
            g.ops.append("P")

    if r.random() < 0.3:
        g.fromslice([r.randint(lo, hi) for _ in range(r.randint(0, 10))])
    for _ in range(r.randint(1, 6)):
        g.ins(r.randint(lo, hi))
        if r.random() < 2 / 3:
            hide()
    while len(g.ops) < n:
        x = r.random()
        if x < 0.4 and g.live:
            # observation, then 2-5 unobserved mutations with the size unchanged at the end, then observation
            if r.random() < 0.8:
                observe()
            k = r.randint(2, 5)
            stats["const_size_runs"] += 1
            while k >= 2 and g.live:
                if r.random() < 0.5:
                    g.dele(r.choice(g.live)); hide()
                    g.ins(r.randint(lo, hi)); hide()
                else:
                    g.ins(r.randint(lo, hi)); hide()
                    g.dele(r.choice(g.live)); hide()
                k -= 2
            if k == 1:
                g.dele(hi + 7); hide()          # absent: no change at all
            if r.random() < 0.8:
                observe()
        else:
            y = r.random()
            if y < 0.45:
                g.ins(r.randint(lo, hi))
            elif y < 0.75:
                g.dele(r.choice(g.live) if g.live and r.random() < 0.7 else r.randint(lo - 2, hi + 2))
            else:
                g.probe(lo - 1, hi + 1)
            if r.random() < 2 / 3:
                hide()
    return "%s %d %s" % (cmpname, seed, ";".join(g.ops))


def gen_long(r, nel, seedpool):
    cmpname = r.choice(CMPS)
    g = Gen(r, cmpname, True)
    lo, hi = 0, r.choice([50, 400, 5000])
    for _ in range(nel):
        g.ins(r.randint(lo, hi))
    for _ in range(nel // 2):
        x = r.random()
        if x < 0.6:
            g.dele(r.choice(g.live) if g.live else 0)
        elif x < 0.8:
            g.ins(r.randint(lo, hi))
        else:
            g.probe(lo, hi)
    for k in list(g.live)[: nel // 3]:
        g.dele(k)
    return "%s %d %s" % (cmpname, r.randint(1, 1 << 48), ";".join(g.ops))


# ----------------------------------------------------------------------------- running
def parse_blocks(lines):
    """'H n' + n lines per history -> list of blocks (a truncated last block is dropped)."""
    blocks, i = [], 0
    while i < len(lines):
        m = re.fullmatch(r"H (\d+)", lines[i])
        if not m:
            break
        n = int(m.group(1))
        if i + 1 + n > len(lines):
            break
        blocks.append(lines[i + 1:i + 1 + n])
        i += 1 + n
    return blocks


def impl_run(binary, hists, timeout):
    """Run the harness on the histories.  Returns (blocks, problems): blocks[i] = list of output
    lines or None; problems = {i: 'hang'|'crash'}."""
    def once(text, to):
        try:
            p = subprocess.run([binary, "c05skip"], input=text, text=True, timeout=to, env=GOENV,
                               stdout=subprocess.PIPE, stderr=subprocess.PIPE)
            return p.returncode, p.stdout.splitlines()
        except subprocess.TimeoutExpired:
            return "hang", []
    rc, lines = once("\n".join(hists) + "\n", timeout)
    blocks = parse_blocks(lines)
    problems = {}
    if len(blocks) == len(hists):
        return blocks, problems
    # hang or crash somewhere: run the remaining histories one by one (bounded)
    out = blocks + [None] * (len(hists) - len(blocks))
    budget = 60
    for i in range(len(blocks), len(hists)):
        if budget <= 0 or len(problems) >= 3:
            break
        rc, lines = once(hists[i] + "\n", 10)
        b = parse_blocks(lines)
        if len(b) == 1:
            out[i] = b[0]
        else:
            problems[i] = "hang" if rc == "hang" else "crash"
            budget -= 10
    return out, problems


def opl(o):
    """Operation letter of an op text; a leading '~' marks an unobserved op."""
    o = o.strip().lstrip("~").strip()
    return o[0] if o else "?"


def heights_of(line):
    f = line.split("|")
    if len(f) != 6 or f[4] == "":
        return {}
    try:
        return {int(x.split(":")[0]): int(x.split(":")[1]) for x in f[4].split(",")}
    except ValueError:
        return {}


def annotate(hist, block):
    """The model's input: the history with the tower heights the implementation drew.
    Observed Insert: the height of the newest node (identities are creation numbers) in the dump;
    unobserved Insert ('~I'): the height the harness printed alone ("<ret>|~|<h>")."""
    cmpname, _seed, rest = (hist.split(" ", 2) + [""])[:3]
    ops = [o for o in rest.split(";") if o.strip()]
    created = 0
    res = []
    for o, line in zip(ops, block):
        o = o.strip()
        un = o.startswith("~")
        body = o.lstrip("~").strip()
        if body[0] == "I":
            created += 1
            if un:
                f = line.split("|")
                try:
                    h = int(f[2]) if len(f) == 3 else 1
                except ValueError:
                    h = 1
            else:
                h = heights_of(line).get(created, 1)
            res.append("%s%s@%d" % ("~" if un else "", body, max(1, h)))
        elif body[0] == "F":
            cur = heights_of(line)
            items = [x for x in body[1:].strip().split(",") if x]
            created += len(items)
            res.append("F " + ",".join("%s@%d" % (it, max(1, cur.get(j + 1, 1))) for j, it in enumerate(items)))
        else:
            res.append(o)
    return "%s %s" % (cmpname, ";".join(res))


def api_part(line):
    f = line.split("|")
    return "|".join(f[:2])


# ----------------------------------------------------------------------------- invariants on the dump
def dump_invariants(cmpname, line):
    """The skip-list invariants evaluated on one dump line of the implementation.
    Returns the name of the first violated invariant or None."""
    f = line.split("|")
    if len(f) == 3 and f[1] == "~":      # unobserved op: nothing rendered
        return None
    if len(f) != 6:
        return "observer"
    if "!" in f[5] or "!" in f[1]:
        return "chain-not-nil-terminated"
    try:
        keys = [int(x.split(":")[0]) for x in f[1].split(",")] if f[1] else []
        level, size = int(f[2]), int(f[3])
        tw = [[int(x) for x in lv.split(",")] if lv else [] for lv in f[5].split("/")] if f[5] else []
    except ValueError:
        return "observer"
    cmpf = pycmp(cmpname)
    if any(cmpf(keys[i], keys[i + 1]) > 0 for i in range(len(keys) - 1)):
        return "level0-sorted"
    for lv in tw:
        if len(set(lv)) != len(lv):
            return "ids-unique"
    for i in range(len(tw) - 1):
        it = iter(tw[i])
        if not all(x in it for x in tw[i + 1]):
            return "subsequence"
    if any(tw[i] for i in range(level, len(tw))):
        return "empty-above-level"
    if level < 1:
        return "level>=1"
    if size != (len(tw[0]) if tw else 0):
        return "size"
    return None


# ----------------------------------------------------------------------------- search layer
def spec_lines(c, hists):
    return parse_blocks(c.run_model(["skip", "spec"], "\n".join(strip_seed(h) for h in hists) + "\n"))


def strip_seed(h):
    p = (h.split(" ", 2) + [""])[:3]
    return "%s %s" % (p[0], p[2])


def api_failure(c, binary, hist):
    """First op where the implementation's return value / AsSlice differs from the sorted-multiset
    specification; None when they agree on the whole history."""
    blocks, problems = impl_run(binary, [hist], 20)
    if problems:
        return (0, problems[0], "", "")
    spec = spec_lines(c, [hist])[0]
    for j, (a, b) in enumerate(zip(blocks[0], spec)):
        if api_part(a) != b:
            return (j, "api", api_part(a), b)
    return None


def minimise(c, binary, hist, budget=120):
    cmpname, seed, rest = (hist.split(" ", 2) + [""])[:3]
    ops = [o for o in rest.split(";") if o.strip()]
    mk = lambda os_: "%s %s %s" % (cmpname, seed, ";".join(os_))
    fail = api_failure(c, binary, mk(ops))
    if fail is None:
        return hist, None
    ops = ops[:fail[0] + 1]
    n = 2
    while len(ops) >= 2 and budget > 0:
        chunk = max(1, len(ops) // n)
        reduced = False
        for s in range(0, len(ops), chunk):
            cand = ops[:s] + ops[s + chunk:]
            if not cand or (opl(cand[0]) != "F" and any(opl(o) == "F" for o in cand)):
                continue
            budget -= 1
            f2 = api_failure(c, binary, mk(cand))
            if f2 is not None:
                ops, fail, reduced = cand[:f2[0] + 1], f2, True
                n = max(n - 1, 2)
                break
            if budget <= 0:
                break
        if not reduced:
            if chunk == 1:
                break
            n = min(len(ops), n * 2)
    return mk(ops), fail


# ----------------------------------------------------------------------------- vm_compute cross-check
CROSS_PRELUDE = """From Ekit Require Import Common SkipModel.
Definition V := (Z * Z)%type.
Definition st := (list V * nat * Z * list (nat * nat) * list (list nat))%type.
Fixpoint drop_te (l : list (list nat)) : list (list nat) :=
  match l with [] => [] | x :: t => match drop_te t, x with [], [] => [] | t', _ => x :: t' end end.
Definition obs (s : sl V) : st :=
  (as_slice V s, level s, size s, heights V s, drop_te (towers V s)).
Definition v_eqb (a b : V) := Z.eqb (fst a) (fst b) && Z.eqb (snd a) (snd b).
Fixpoint list_eqb {A} (e : A -> A -> bool) (a b : list A) : bool :=
  match a, b with [], [] => true | x :: a', y :: b' => e x y && list_eqb e a' b' | _, _ => false end.
Definition nn_eqb (a b : nat * nat) := Nat.eqb (fst a) (fst b) && Nat.eqb (snd a) (snd b).
Definition st_eqb (a b : st) : bool :=
  let '(s1, l1, z1, h1, t1) := a in let '(s2, l2, z2, h2, t2) := b in
  list_eqb v_eqb s1 s2 && Nat.eqb l1 l2 && Z.eqb z1 z2 && list_eqb nn_eqb h1 h2 && list_eqb (list_eqb Nat.eqb) t1 t2.
Inductive xo := XOk | XBool (b : bool) | XVal (v : V) | XErr | XPanic | XLen (z : Z) | XSlice.
Definition out_ok (o : out V) (x : xo) : bool :=
  match o, x with
  | RUnit, XOk => true | RBool a, XBool b => Bool.eqb a b
  | RVal (Ok v), XVal w => v_eqb v w | RVal (Err _), XErr => true | RVal Panic, XPanic => true
  | RLen a, XLen b => Z.eqb a b | RSlice _, XSlice => true | _, _ => false end.
Fixpoint trace cmp (s : sl V) (ops : list (op V)) : list (out V * st) :=
  match ops with [] => [] | o :: t => let '(s', r) := step V cmp s o in (r, obs s') :: trace cmp s' t end.
Definition check (c : (V -> V -> Z) * option (list (V * nat)) * list (op V) * list (xo * st)) : bool :=
  let '(cmp, batch, ops, expect) := c in
  let got := match batch with
             | Some b => let s0 := from_slice V cmp b in (RUnit, obs s0) :: trace cmp s0 ops
             | None => trace cmp empty ops end in
  (rep (fst (run_from V cmp (match batch with Some b => from_slice V cmp b | None => empty end) ops))) &&
  Nat.eqb (length got) (length expect) &&
  forallb (fun p => out_ok (fst (fst p)) (fst (snd p)) && st_eqb (snd (fst p)) (snd (snd p))) (combine got expect).
Definition cases : list ((V -> V -> Z) * option (list (V * nat)) * list (op V) * list (xo * st)) :=
"""


def coq_v(s):
    k, t = s.split(":")
    return "(%s, %s)" % (coq_z(k), coq_z(t))


def coq_nat(n):
    return "%d%%nat" % int(n)


def coq_case(annotated, model_block):
    cmpname, rest = (annotated.split(" ", 1) + [""])[:2]
    ops = [o.strip() for o in rest.split(";") if o.strip()]
    batch = "None"
    cops = []
    for o in ops:
        a = o[1:].strip()
        if o[0] == "F":
            items = [x for x in a.split(",") if x]
            batch = "(Some %s)" % coq_list(["(%s, %s)" % (coq_v(x.split("@")[0]), coq_nat(int(x.split("@")[1]) - 1)) for x in items])
        elif o[0] == "I":
            v, h = a.split("@")
            cops.append("OInsert %s %s" % (coq_v(v), coq_nat(int(h) - 1)))
        elif o[0] in "DS":
            cops.append("%s %s" % ({"D": "ODelete", "S": "OSearch"}[o[0]], coq_v(a)))
        elif o[0] == "G":
            cops.append("OGet %s" % coq_z(a))
        else:
            cops.append({"P": "OPeek", "L": "OLen", "A": "OAsSlice"}[o[0]])
    exp = []
    for o, line in zip(ops, model_block):
        f = line.split("|")
        ret = f[0]
        if ret == "ok":
            x = "XOk"
        elif ret in ("true", "false"):
            x = "XBool %s" % ret
        elif ret.startswith("ok "):
            x = "XVal %s" % coq_v(ret[3:])
        elif ret == "err":
            x = "XErr"
        elif ret == "panic":
            x = "XPanic"
        elif ret == "-":
            x = "XSlice"
        else:
            x = "XLen %s" % coq_z(ret)
        sl = coq_list([coq_v(v) for v in f[1].split(",")] if f[1] else [])
        hs = coq_list(["(%s, %s)" % (coq_nat(p.split(":")[0]), coq_nat(p.split(":")[1])) for p in f[4].split(",")] if f[4] else [])
        tw = coq_list([coq_list([coq_nat(i) for i in lv.split(",")] if lv else []) for lv in f[5].split("/")] if f[5] else [])
        exp.append("(%s, (%s, %s, %s, %s, %s))" % (x, sl, coq_nat(f[2]), coq_z(f[3]), hs, tw))
    return "(cmp_%s, %s, %s, %s)" % (cmpname, batch, coq_list(cops), coq_list(exp))


# ----------------------------------------------------------------------------- main entry
def run(c, binary):
    r = random.Random(c.seed * 7919 + 5)
    full = c.tier == "thorough"
    # seeds whose first inserts draw tall towers (level bookkeeping when the tallest tower goes)
    seedpool = []
    try:
        p = subprocess.run([binary, "c05skip-seeds", "20000" if full else "3000", "6"], text=True, timeout=120,
                           env=GOENV, stdout=subprocess.PIPE, stderr=subprocess.PIPE)
        scan = [tuple(map(int, l.split())) for l in p.stdout.splitlines()]
        scan.sort(key=lambda t: -t[1])
        seedpool = [s for s, h in scan[: 60 if not full else 400] if h >= 3]
        c.cov["skip_seedscan_max_height"] = scan[0][1] if scan else 0
    except Exception as e:       # the scan is a coverage aid only
        c.cov["skip_seedscan_error"] = str(e)[:200]
    nh = 20000 if full else 400
    maxops = 60
    kinds = ["mix"] * 4 + ["tall"] * 2 + ["slice"] * 2 + ["drain"] * 2 + ["runs"] * 2
    hists = []
    kind_count = {}
    # a few fixed corner histories first
    hists += ["asc 1 ", "asc 1 P;L;G 0;G -1;A;S 1:0;D 1:0;P", "half 2 F ;P;L;I 4:1;I 5:2;D 5:0;D 4:0;D 4:0;P",
              "mod3 3 F 3:1,0:2,6:3,9:4;D 0:0;A;D 3:0;D 6:0;D 9:0;D 12:0;L;I 1:5"]
    for i in range(nh):
        k = r.choice(kinds)
        kind_count[k] = kind_count.get(k, 0) + 1
        hists.append(gen_history(r, k, r.choice([8, 20, 40, maxops]), seedpool))
    # "sparse observation" histories: state observed after about a third of the ops only
    sparse_stats = {"histories": 0, "unobserved_ops": 0, "const_size_runs": 0}
    for i in range(6000 if full else 150):
        hists.append(gen_sparse(r, r.choice([12, 30, maxops]), seedpool, sparse_stats))
        sparse_stats["histories"] += 1
    c.cov["skip_sparse"] = sparse_stats
    nlong = 0
    if full:
        for nel in [1000, 1500, 2500]:
            hists.append(gen_long(r, nel, seedpool))
            nlong += 1
    else:
        hists.append(gen_long(r, 150, seedpool))
    blocks, problems = impl_run(binary, hists, 1500 if full else 200)
    for i, what in list(problems.items())[:2]:
        mh, fail = hists[i], None
        c.report("C05:skip:%s" % what, "skip list: the implementation %s on a history" % ("does not terminate" if what == "hang" else "crashes"),
                 {"kind": "input", "history": mh, "how": "echo '<history>' | harness/bin/h c05skip"})
    good = [i for i in range(len(hists)) if blocks[i] is not None]
    annotated = {i: annotate(hists[i], blocks[i]) for i in good}
    model = parse_blocks(c.run_model(["skip"], "\n".join(annotated[i] for i in good) + "\n"))
    spec = parse_blocks(c.run_model(["skip", "spec"], "\n".join(annotated[i] for i in good) + "\n"))
    if len(model) != len(good) or len(spec) != len(good):
        raise RuntimeError("modelrun skip: %d/%d/%d blocks" % (len(model), len(spec), len(good)))
    nops = agree = 0
    hstat = {"max_height": 0, "heights>=3": 0, "deletes_present": 0, "deletes_absent": 0, "level_drops": 0,
             "max_len": 0, "dup_inserts": 0}
    bad_api, bad_tower = [], []
    for gi, i in enumerate(good):
        b, m, s = blocks[i], model[gi], spec[gi]
        first_api = first_tw = None
        prev_size, prev_level = 0, 1
        ops = [o.strip() for o in (hists[i].split(" ", 2) + [""])[2].split(";") if o.strip()]
        nontriv_del = nontriv_dup = False
        for j in range(len(b)):
            nops += 1
            if api_part(b[j]) != s[j] and first_api is None:
                first_api = j
            if b[j] != m[j]:
                if first_tw is None:
                    first_tw = j
            else:
                agree += 1
            f = b[j].split("|")
            if len(f) == 6:
                try:
                    sz, lv = int(f[3]), int(f[2])
                except ValueError:
                    continue
                hs = heights_of(b[j])
                if hs:
                    mh = max(hs.values())
                    hstat["max_height"] = max(hstat["max_height"], mh)
                if j < len(ops) and opl(ops[j]) == "D":
                    if sz < prev_size:
                        hstat["deletes_present"] += 1
                        nontriv_del = True
                    else:
                        hstat["deletes_absent"] += 1
                    if lv < prev_level:
                        hstat["level_drops"] += 1
                if j < len(ops) and opl(ops[j]) == "I":
                    ks = [x.split(":")[0] for x in f[1].split(",")]
                    if len(ks) != len(set(ks)):
                        nontriv_dup = True
                        hstat["dup_inserts"] += 1
                hstat["max_len"] = max(hstat["max_len"], sz)
                prev_size, prev_level = sz, lv
        if any(h >= 3 for h in heights_of(b[-1]).values()) if b else False:
            hstat["heights>=3"] += 1
        c.note_case(hists[i], nontriv_del and nontriv_dup)
        if first_api is not None:
            bad_api.append((i, first_api))
        elif first_tw is not None:
            bad_tower.append((i, gi, first_tw))
    c.cov["skip_histories"] = len(hists)
    c.cov["skip_ops_compared"] = nops
    c.cov["skip_ops_agree_full_state"] = agree
    c.cov["skip_kinds"] = kind_count
    c.cov["skip_long_histories"] = nlong
    c.cov["skip_stats"] = hstat
    c.cov["traces_validated_against_impl"] = c.cov.get("traces_validated_against_impl", 0) + len(good) - len(bad_api) - len(bad_tower)
    for h in hists[4:6]:
        c.sample("skip: " + h[:300])
    # ---- search layer
    for i, j in bad_api[:8]:
        mh, fail = minimise(c, binary, hists[i])
        if fail is None:       # not reproducible in isolation: report the original
            mh, fail = hists[i], (j, "api", "?", "?")
        ops = [o for o in (mh.split(" ", 2) + [""])[2].split(";") if o.strip()]
        opl_ = opl(ops[fail[0]]) if fail[0] < len(ops) else "?"
        if fail[1] != "api":
            kind = fail[1]
        else:
            ir, sr = fail[2].split("|")[0], fail[3].split("|")[0]
            kind = "panic" if ir == "panic" else "ret" if ir != sr else "slice"
        c.report("C05:skip:%s:%s" % (opl_, kind),
                 "skip list: after %s the implementation shows %r, the sorted multiset gives %r" % (ops[fail[0]].strip() if fail[0] < len(ops) else "?", fail[2], fail[3]),
                 {"kind": "input", "history": mh, "first_diverging_op": fail[0], "implementation": fail[2], "specification": fail[3],
                  "format": "<cmp> <seed of x/exp/rand> <ops>; observable = <ret>|<AsSlice>", "how": "echo '<history>' | harness/bin/h c05skip"})
    for i, gi, j in bad_tower[:8]:
        ops = [o.strip() for o in (hists[i].split(" ", 2) + [""])[2].split(";") if o.strip()]
        cmpname = hists[i].split(" ", 1)[0]
        viol = None
        for jj in range(len(blocks[i])):
            w = dump_invariants(cmpname, blocks[i][jj])
            if w:
                viol = (jj, w)
                break
        opl_ = opl(ops[j]) if j < len(ops) else "?"
        if viol:
            jj, w = viol
            p = hists[i].split(" ", 2)
            c.report("C05:skip:%s:inv:%s" % (opl(ops[jj]), w),
                     "skip list: index invariant '%s' broken after %s (API observables still agree)" % (w, ops[jj]),
                     {"kind": "input", "history": "%s %s %s" % (p[0], p[1], ";".join(ops[:jj + 1])), "state": blocks[i][jj], "invariant": w,
                      "format": "<ret>|<AsSlice>|<level>|<size>|<id:height>|<chains of ids per level>"})
        else:
            fi, fm = blocks[i][j].split("|"), model[gi][j].split("|")
            which = [n for n, a, b in zip(["ret", "slice", "level", "size", "heights", "towers"], fi, fm) if a != b]
            c.report("C05:skip:%s:towers" % opl_,
                     "skip list: internal index (%s) differs from the model after %s; API observables and the index invariants hold" % (",".join(which), ops[j] if j < len(ops) else "?"),
                     {"kind": "correspondence", "model": "SkipModel (heights model)", "history": hists[i], "first_diverging_op": j,
                      "implementation": blocks[i][j], "expected": model[gi][j],
                      "theorems_not_transferring": ["skip_invariants_reachable (level = max(1, tallest tower), chains = nodes higher than i)"]},
                     found_input=False)
    # ---- layer B: the statement-by-statement pointer model on the same histories (short ones)
    psel = [gi for gi, i in enumerate(good) if len(blocks[i]) <= 80]
    ptr = parse_blocks(c.run_model(["skip", "ptr"], "\n".join(annotated[good[gi]] for gi in psel) + "\n"))
    pagree = pops = 0
    pbad = None
    for k, gi in enumerate(psel):
        b = blocks[good[gi]]
        pb = ptr[k] if k < len(ptr) else []
        for j in range(len(b)):
            pops += 1
            if j < len(pb) and pb[j] == b[j]:
                pagree += 1
            elif pbad is None:
                pbad = (gi, j, pb[j] if j < len(pb) else "<missing>")
    c.cov["skip_ptr_model_ops_compared"] = pops
    c.cov["skip_ptr_model_ops_agree"] = pagree
    if pbad is not None and not bad_api and not bad_tower:
        gi, j, got = pbad
        c.report("C05:skip:ptr-model", "skip list: the pointer model (layer B) differs from the implementation's dump although the heights model agrees",
                 {"kind": "correspondence", "model": "SkipModel pointer model (Section Ptr)", "history": hists[good[gi]], "first_diverging_op": j,
                  "implementation": blocks[good[gi]][j], "expected": got}, found_input=False)
    # ---- vm_compute cross-check of the extraction
    short = [gi for gi, i in enumerate(good) if 0 < len(blocks[i]) <= 30 and "~" not in hists[i]]
    r2 = random.Random(c.seed + 11)
    pick = sorted(r2.sample(short, min(40, len(short))))
    items = [coq_case(annotated[good[gi]], model[gi]) for gi in pick]
    v = CROSS_PRELUDE + "  [" + ";\n   ".join(items) + "].\n" + \
        "Definition bad := Eval vm_compute in length (filter (fun c => negb (check c)) cases).\nPrint bad.\n"
    rc, out = c.coq_crosscheck(v, name="cases_skip")
    okx = rc == 0 and re.search(r"bad\s*=\s*0(%nat)?\s", out.replace("\n", " ") + " ") is not None
    c.cov["skip_coq_vm_compute_crosscheck"] = {"histories": len(pick), "ops": sum(len(model[gi]) for gi in pick), "agree": bool(okx)}
    if not okx:
        c.report("C05:skip:extraction", "skip list: OCaml extraction and vm_compute disagree on the model's output",
                 {"kind": "extraction-crosscheck", "coq_output": out[-1500:]}, found_input=False)


RULE = ("skip list: histories = (comparator asc/desc/k mod 3/k div 2, seed of x/exp/rand, ops Insert/DeleteElement/Search/Get/Peek/Len/AsSlice, "
        "optionally NewSkipListFromSlice first); kinds mix/tall-seed/from-slice/drain-refill/runs-of-equals; after every op the return value, AsSlice, "
        "level, size, every tower height and every level's chain of node identities are compared with the model fed with the drawn heights; "
        "plus sparse-observation histories (each op observed with probability 1/3, otherwise only its return value is compared and neither AsSlice nor Len is "
        "called; runs of 2-5 unobserved DeleteElement/Insert leaving the size unchanged, framed by observations); "
        "non-trivial = history deletes a present element and inserts a duplicate key")
ASSUMPTIONS = ["skip list: golang.org/x/exp/rand only contributes the tower height of each Insert (read back from the dump and given to the model)"]
TRUSTED = ["skip list: ocaml/drv_skip.ml, harness/c05skip, hooks/internal/list/x_verif.go + hooks/list/x_skip_verif.go (read-only dump, pass-throughs), checks/c05_skip.py",
           "skip list: the tie between the real pointers and the heights model is the per-operation comparison of all 32 chains (checked every run, not a theorem); "
           "a statement-by-statement pointer model (heap of nodes with Forward arrays) is compared too (every run) and is PROVED to simulate the heights model for all histories (props/C05_skipptr.v: ptr_simulates_heights)"]
