"""Check part for the lock-free queue.ConcurrentLinkedQueue (object tag clq; model CLQModel.v; serves C06, footprint for C15).

run(c, binary, labels, tier, focus):
  1. synchronisation skeleton: every program counter of the model is a current source statement of
     Enqueue/Dequeue and every statement of the two methods has a program counter;
  2. lock-step: model-chosen interleavings (2..4 goroutines x <= 6 calls, biased towards parking an
     Enqueue between its link CAS and its tail CAS) executed statement by statement on the real goroutines;
  3. dynamic complement / search: chaos-mode stress with monitors (no loss / duplication / invention,
     per-producer order, final drain, panic, hang) + porcupine on recorded histories;
  4. reporting as described in CONC_TASK.md.
"""
import subprocess

from common import GOENV

THEOREMS = "clq_linearizable, clq_linearizable_textbook, clq_step_refines_fifo, clq_no_panic, clq_tail_cas_succeeds"


def stress(c, binary, configs, seed0=0):
    """returns (list of violations, list of ok summaries)"""
    bad, oks = [], []
    for i, (p, k, n, rounds) in enumerate(configs):
        seed = c.seed * 131 + seed0 + i
        cmd = [binary, "c06-clq-stress", str(seed), str(p), str(k), str(n), str(rounds)]
        try:
            r = subprocess.run(cmd, stdout=subprocess.PIPE, stderr=subprocess.PIPE, text=True, timeout=400, env=GOENV)
            out, err = r.stdout.strip(), r.stderr
        except subprocess.TimeoutExpired:
            out, err = "VIOLATION hang: stress command did not finish in 400 s", ""
        first = out.splitlines()[0] if out else ""
        if first.startswith("ok"):
            oks.append(first)
            continue
        if not first.startswith("VIOLATION"):
            first = "VIOLATION crash: " + (err.strip().splitlines() or ["no output"])[0][:300]
        kind = first.split()[1].rstrip(":") if len(first.split()) > 1 else "other"
        bad.append({"kind": "stress-run", "monitor": kind, "result": first[len("VIOLATION "):][:600],
                    "history": "\n".join(out.splitlines()[1:60]), "stderr_tail": err[-1500:],
                    "producers": p, "consumers": k, "per_producer": n, "porcupine_rounds": rounds,
                    "how": "h c06-clq-stress %d %d %d %d %d   (instrumented build, chaos mode; schedules are random: re-run a few times)" % (seed, p, k, n, rounds)})
    return bad, oks


def run(c, binary, labels, tier, focus="c06"):
    pid = c.pid
    # 1. skeleton
    problems = c.check_labels("clq-lockstep", labels)
    # 2. lock-step
    nsched, maxev = (400, 600) if tier == "quick" else (5000, 600)
    rc, txt, merr, gerr = c.lockstep(binary, "clq-lockstep", ["run", c.seed, nsched, maxev])
    stats, tags, samples, mism = c.parse_lockstep_report(txt)
    c.cov["clq_lockstep"] = dict(stats, coverage_tags=tags, focus=focus,
                                 goroutines="2..4", calls_per_goroutine="1..6", values="distinct per call")
    c.cov["evaluations"] += stats.get("schedules", 0)
    c.cov["traces_validated_against_impl"] += stats.get("schedules", 0) - stats.get("mismatches", 0)
    for i in range(stats.get("nontrivial", 0)):
        c._distinct.add("clq%d" % i)
    for s in samples[:1]:
        c.sample("clq lock-step schedule: " + s[:600])
    broken = bool(problems or mism or not stats)
    # 3. stress (dynamic complement)
    if tier == "quick":
        configs = [(4, 4, 3000, 150), (2, 3, 2000, 100), (8, 1, 500, 50), (1, 2, 2000, 100)]
    else:
        configs = [(4, 4, 50000, 2000), (2, 8, 20000, 1000), (8, 2, 20000, 1000), (16, 16, 5000, 1000), (1, 1, 50000, 500), (3, 0, 5000, 500)]
    sbad, oks = stress(c, binary, configs)
    if broken and not sbad:
        # the correspondence no longer holds: search harder before giving up
        more = [(p, k, n, 400) for p in (1, 2, 4) for k in (1, 2, 4) for n in (2000, 20000)]
        sbad, oks2 = stress(c, binary, more, seed0=1000)
        oks += oks2
    c.cov["clq_stress"] = {"configs_PxCxNxRounds": configs, "violations": len(sbad), "ok_runs": len(oks), "last_ok": oks[-1] if oks else None}
    # 4. report
    seen = set()
    for b in sbad:
        if b["monitor"] in seen:
            continue
        seen.add(b["monitor"])
        c.report("%s:clq:%s" % (pid, b["monitor"]), "ConcurrentLinkedQueue: " + b["result"].splitlines()[0], b)
    if broken and not sbad:
        c.report("%s:clq:lockstep" % pid,
                 "ConcurrentLinkedQueue no longer corresponds to its interleaving model (theorems %s do not transfer)" % THEOREMS,
                 {"kind": "lockstep-correspondence", "skeleton_problems": problems[:10], "mismatches": mism[:3],
                  "model_stderr": merr[-500:], "go_stderr": gerr[-500:],
                  "how": "modelrun clq-lockstep replay <file> against `h lockstep` (first line PARAMS ..., then the event lines of the mismatch)"},
                 found_input=False)
    return {"broken": broken, "problems": problems, "mismatches": mism, "stress_violations": sbad}


RULE = ("ConcurrentLinkedQueue: lock-step schedules = model-chosen interleavings of the statements of Enqueue/Dequeue of 2..4 goroutines x 1..6 calls "
        "(values distinct per call), each executed statement by statement on the real goroutines and compared (yield point reached / value returned) with the "
        "extracted Coq transition function; non-trivial = the schedule contains a Dequeue answering empty while a node is linked but the tail not swung, "
        "an Enqueue spinning on tailNext != nil, a failed head CAS or a failed link CAS")
ASSUMPTIONS = [
    "sync/atomic LoadPointer / CompareAndSwapPointer are atomic and sequentially consistent (Go memory model); Go is memory safe and garbage collected (no ABA: a node address is never reused while referenced)",
    "interleavings inside one Go statement are not modelled (every statement of concurrent_linked_queue.go contains at most one shared access)",
    "linearizability is proved in linearisation-point form and, derived from it, in the textbook permutation form (props/C06_clq.v states both precisely)",
]
TRUSTED = ["ocaml/lockstep.ml + drv_clq.ml (label table), harness/clq (Instance + stress monitors), porcupine v1.3.0 (search oracle only)"]


if __name__ == "__main__":
    # stand-alone development run (no evidence file, replays of this run are removed): python3 checks/part_clq.py [quick|thorough]
    import json, os, shutil, sys
    from common import Check
    tier = sys.argv[1] if len(sys.argv) > 1 else "quick"
    c = Check("C06", tier)
    c.ensure_modelrun()
    ov, labels = c.instrument()
    binary, log = (None, labels) if ov is None else c.build_harness(extra_overlay=ov, pkgs=["clq", "lockstep"])
    if binary is None:
        print("instrumented harness does not build:\n" + str(log)[-3000:])
    else:
        res = run(c, binary, labels, tier, "c06")
        print(json.dumps({"lockstep": c.cov.get("clq_lockstep"), "stress": c.cov.get("clq_stress"),
                          "skeleton_problems": res["problems"][:5], "mismatch": [m[:1500] for m in res["mismatches"][:1]]}, indent=1))
    for v in c.violations:
        print("VIOLATION", v[2] if len(v) > 2 else "", v[1])
        print(open(v[0]).read()[:2000])
        os.remove(v[0])
    shutil.rmtree(c.tmp, ignore_errors=True)
