import sys
import concprop
concprop.main("C10", sys.argv[1] if len(sys.argv) > 1 else "quick")
