"""C19 — retry strategies and Retry: proof layer + correspondence against /repo/retry.

Correspondence pieces (model = coq/theories/model/RetryModel.v extracted to OCaml):
  seq    sequential differential of the strategies, 200 Next calls per (initial, max, maxRetries)
  probe  white-box "late caller": the counter (and flag) are set to a state that concurrent callers
         reach between their flag load and flag store, then one Next; differential + property oracle
  conc   G goroutines hammering Next: number of grants / bounds vs the model run on a random schedule
         (a test of the theorems budget_exact / interval_in_bounds on the real code, not lock-step)
  retry  REAL-TIME runs of Retry (intervals 1-50 ms) under GODEBUG=asynctimerchan=1 and =0:
         invocation count and result class vs the model on the virtual clock; measured gaps are
         only used in the direction noise cannot falsify (gap >= interval returned)
  cases.v  vm_compute cross-check of the OCaml extraction on a sample of seq / probe cases
"""
import random
import re

from common import Check, coq_z

I63 = (1 << 63) - 1
MS = 1000000


def wrap32(x):
    return ((x + (1 << 31)) % (1 << 32)) - (1 << 31)


# ----------------------------------------------------------------------------------------------
# case generation
# ----------------------------------------------------------------------------------------------
def gen_triples(r, full):
    inits = [1, 2, 3, 7, 1000, MS, 50 * MS, (1 << 40) - 1, 1 << 40, (1 << 40) + 1, (1 << 62) - 1, 1 << 62,
             (1 << 62) + 1, I63 - 1, I63, 3 << 40, (1 << 31) + 1, (1 << 32) - 1, (1 << 33) + 5]
    inits += [r.randint(1, 1 << r.randint(1, 62)) for _ in range(40 if full else 8)]
    maxrs = [0, -1, 1, 2, 5, 24, 25, 63, 64, 65, 100, 199, 200, 201, 250, (1 << 31) - 1, -(1 << 31)]
    out = []
    for i in inits:
        maxes = {i, min(i + 1, I63), min(2 * i, I63), 1 << 62, I63}
        for k in (1, 5, 22, 23, 24, 30, 61, 62):
            for d in (-1, 0, 1):
                m = i * (1 << k) + d
                if i <= m <= I63:
                    maxes.add(m)
        maxes.update(r.randint(i, I63) for _ in range(3))
        ms = sorted(maxes)
        if not full and len(ms) > 9:
            ms = sorted(r.sample(ms, 9))
        for m in ms:
            for mr in (r.sample(maxrs, 3 if not full else 7)):
                out.append((i, m, mr))
    # the documented witness of interval_wrap_refuted, every budget
    out += [((1 << 40) + 1, 1 << 62, mr) for mr in (0, 22, 23, 24, 25, 30)]
    return out


def gen_cases(c):
    r = random.Random(c.seed)
    full = c.tier == "thorough"
    seq, probe, conc, rt = [], [], [], []
    triples = gen_triples(r, full)
    for (i, m, mr) in triples:
        seq.append("seq exp %d %d %d 200" % (i, m, mr))
    for iv in [1, 2, 1000, MS, I63, r.randint(1, I63)]:
        for mr in [0, -3, 1, 2, 199, 200, 201, (1 << 31) - 1]:
            seq.append("seq fixed %d %d 200" % (iv, mr))
    # constructor argument sweep (valid and invalid)
    edge = [-(1 << 63), -(1 << 62), -2, -1, 0, 1, 2, 3, 1000, 1 << 40, I63 - 1, I63]
    for i in edge:
        for m in edge:
            seq.append("seq exp %d %d %d 3" % (i, m, r.choice([0, 1, 5, -1])))
        seq.append("seq fixed %d %d 3" % (i, r.choice([0, 1, 5, -1])))
    for _ in range(300 if full else 60):
        i, m = r.randint(-5, 50), r.randint(-5, 50)
        seq.append("seq exp %d %d %d 4" % (i, m, r.randint(-2, 6)))
    # late-caller probes: every ticket around the overflow points, counter wrap, both flag values
    pts = r.sample(triples, min(len(triples), 400 if full else 60)) + [((1 << 40) + 1, 1 << 62, 0), ((1 << 40) + 1, 1 << 62, 30),
                                                                       (1, I63, 0), (3, I63, 0), ((1 << 62) + 1, I63, 0)]
    r0s = list(range(0, 70)) + [127, 1022, 1023, 1024, 1025, (1 << 31) - 3, (1 << 31) - 2, (1 << 31) - 1,
                                -(1 << 31), -(1 << 31) + 1, -3, -2, -1]
    for (i, m, mr) in pts:
        for r0 in (r0s if (i, m) == ((1 << 40) + 1, 1 << 62) or full else r.sample(r0s, 14) + [22, 23, 24, 62, 63, 64]):
            probe.append("probe exp %d %d %d %d 0" % (i, m, mr, r0))
            if r.random() < 0.25:
                probe.append("probe exp %d %d %d %d 1" % (i, m, mr, r0))
    for r0 in [0, 1, 5, (1 << 31) - 2, (1 << 31) - 1, -(1 << 31), -1]:
        for mr in [0, 1, 5, (1 << 31) - 1]:
            probe.append("probe fixed 7 %d %d 0" % (mr, r0))
    # concurrent budget
    for k in range(60 if full else 16):
        g = r.choice([2, 4, 8, 16, 32] if full else [2, 4, 8, 16])
        per = r.choice([50, 200, 1000] if full else [50, 200])
        n = g * per
        mr = r.choice([0, -1, 1, 7, n - 1, n, n + 1, n // 2, 10 * n])
        if r.random() < 0.3:
            conc.append("conc fixed %d %d %d %d %d" % (r.choice([1, 5, MS]), mr, g, per, r.randint(1, 1 << 30)))
        else:
            i, m, _ = r.choice(triples)
            conc.append("conc exp %d %d %d %d %d %d" % (i, m, mr, g, per, r.randint(1, 1 << 30)))
    conc.append("conc exp %d %d 0 16 200 7" % ((1 << 40) + 1, 1 << 62))
    # real-time Retry scripts (nanoseconds)
    def script(steps):
        return ",".join("%s%d" % (k, d) for (k, d) in steps)
    F, O = "f", "o"
    rt += [
        # the witness of retry_gap_refuted scaled to milliseconds: shorter, LONGER, equal, then success
        "retry fixed:%d:0 none %s" % (10 * MS, script([(F, 1 * MS), (F, 25 * MS), (F, 10 * MS), (O, 1 * MS)])),
        "retry fixed:%d:0 none %s" % (5 * MS, script([(F, 12 * MS), (F, 12 * MS), (F, 0), (O, 0)])),
        "retry fixed:%d:0 none %s" % (1 * MS, script([(F, 3 * MS), (F, 1 * MS), (F, 0), (F, 7 * MS), (O, 0)])),
        "retry fixed:%d:3 none %s" % (5 * MS, script([(F, 0)] * 6)),
        "retry fixed:%d:1 none %s" % (5 * MS, script([(F, 8 * MS)] * 4)),
        "retry fixed:%d:2 none %s" % (3 * MS, script([(O, 2 * MS)])),
        "retry exp:%d:%d:6 none %s" % (2 * MS, 16 * MS, script([(F, 3 * MS)] * 9)),
        "retry exp:%d:%d:0 none %s" % (1 * MS, 8 * MS, script([(F, 20 * MS), (F, 1 * MS), (F, 20 * MS), (F, 0), (F, 9 * MS), (O, 0)])),
        "retry exp:%d:%d:4 none %s" % (20 * MS, 20 * MS, script([(F, 25 * MS), (F, 20 * MS), (O, 1 * MS)])),
        # the context ends the run: cancelled by the k-th attempt itself (the wait that follows is 50 ms,
        # the cancellation precedes it by microseconds), deadline inside the first attempt, deadline in
        # the middle of a 300 ms wait
        "retry fixed:%d:0 after:1 %s" % (50 * MS, script([(F, 2 * MS), (O, 0)])),
        "retry fixed:%d:0 after:2 %s" % (50 * MS, script([(F, 60 * MS), (F, 1 * MS), (O, 0)])),
        "retry fixed:%d:5 after:2 %s" % (50 * MS, script([(F, 0), (O, 1 * MS)])),
        "retry fixed:%d:1 after:2 %s" % (50 * MS, script([(F, 0), (F, 0), (O, 0)])),
        "retry exp:%d:%d:0 after:3 %s" % (50 * MS, 50 * MS, script([(F, 70 * MS), (F, 0), (F, 5 * MS), (O, 0)])),
        "retry fixed:%d:0 deadline:%d %s" % (50 * MS, 1 * MS, script([(F, 40 * MS), (O, 0)])),
        "retry fixed:%d:0 deadline:%d %s" % (300 * MS, 150 * MS, script([(F, 1 * MS), (O, 0)])),
    ]
    for _ in range(200 if full else 14):
        iv = r.choice([1, 2, 5, 10, 20]) * MS
        k = r.randint(1, 6)
        steps = [(F, r.choice([0, iv // 2, iv, 2 * iv + MS, 3 * iv])) for _ in range(k)]
        mr = r.choice([0, 0, k - 1, k, 1])
        if mr == 0 or mr >= k:
            steps.append((O, r.choice([0, MS])))
        else:
            steps += [(F, 0)] * 2
        if r.random() < 0.5:
            rt.append("retry fixed:%d:%d none %s" % (iv, mr, script(steps)))
        else:
            rt.append("retry exp:%d:%d:%d none %s" % (iv, r.choice([iv, 2 * iv, 4 * iv]), mr, script(steps)))
    return seq, probe, conc, rt


# ----------------------------------------------------------------------------------------------
# the property decided directly on the implementation's output (big-integer oracle, independent of
# the extracted model)
# ----------------------------------------------------------------------------------------------
def parse_answers(words):
    out = []
    for w in words:
        a, b = w.split(":")
        out.append((int(a), b == "1"))
    return out


def ctor_expect(kind, i, m):
    if i <= 0:
        return "err interval"
    if kind == "exp" and i > m:
        return "err maxinterval"
    return None


def oracle(case, out):
    """Returns (signature, reason) or None."""
    w = case.split()
    if out == "panic":
        return ("C19:%s:panic" % w[0], "panic")
    if w[0] in ("seq", "probe", "conc"):
        kind = w[1]
        if kind == "exp":
            i, m, mr, rest = int(w[2]), int(w[3]), int(w[4]), w[5:]
        else:
            i, m, mr, rest = int(w[2]), int(w[2]), int(w[3]), w[4:]
        ce = ctor_expect(kind, i, m)
        if ce is not None or out.startswith("err"):
            if out != (ce or "ok"):
                if ce is None and out.startswith("err"):
                    return ("C19:ctor", "constructor rejected valid arguments: %s" % out)
                return ("C19:ctor", "constructor returned %r, expected %r" % (out.split()[0:2], ce))
            return None
    if w[0] == "seq":
        ans = parse_answers(out.split()[1:])
        if len(ans) != int(rest[0]):
            return ("C19:%s:interval" % kind, "wrong number of answers")
        prev = None
        for k, (iv, ok) in enumerate(ans, 1):
            want_ok = mr <= 0 or k <= mr
            if ok != want_ok:
                return ("C19:budget", "call %d of a strategy with maxRetries=%d returned ok=%s" % (k, mr, ok))
            want = (min(i << (k - 1), m) if kind == "exp" else i) if ok else 0
            if iv != want:
                return ("C19:%s:interval" % kind, "call %d returned %d ns, expected %s = %d ns" % (
                    k, iv, "min(initial*2^%d, max)" % (k - 1) if kind == "exp" else "interval", want))
            if ok and prev is not None and iv < prev:
                return ("C19:%s:interval" % kind, "interval decreased at call %d" % k)
            prev = iv if ok else prev
        return None
    if w[0] == "probe":
        r0, fl = int(rest[0]), rest[1] == "1"
        f = out.split()
        iv, ok = parse_answers([f[1]])[0]
        tick = wrap32(r0 + 1)
        want_ok = mr <= 0 or tick <= mr
        if ok != want_ok:
            return ("C19:budget", "ticket %d with maxRetries=%d returned ok=%s" % (tick, mr, ok))
        if not ok:
            return None if iv == 0 else ("C19:%s:interval" % kind, "refused call returned %d" % iv)
        if not (i <= iv <= m):
            return ("C19:%s:interval" % kind,
                    "a caller drawing ticket %d while the max-reached flag is %s gets %d ns, outside [initial=%d, max=%d]"
                    % (tick, "set" if fl else "not yet stored", iv, i, m))
        if kind == "exp" and 1 <= tick and iv != m and iv != i << (tick - 1):
            return ("C19:exp:interval", "ticket %d returned %d, neither the cap nor initial*2^%d" % (tick, iv, tick - 1))
        return None
    if w[0] == "conc":
        g, per = int(rest[0]), int(rest[1])
        n = g * per
        mm = re.match(r"okcount=(\d+) bad=(\d+)", out)
        if not mm:
            return ("C19:budget", "unparsable")
        want = n if mr <= 0 else min(n, mr)
        if int(mm.group(1)) != want:
            return ("C19:budget", "%d goroutines x %d calls, maxRetries=%d: %s grants, expected %d" % (g, per, mr, mm.group(1), want))
        if int(mm.group(2)) != 0:
            return ("C19:%s:interval" % kind, "%s concurrent answers outside [initial, max]" % mm.group(2))
        return None
    return None


def wrap_territory(case):
    w = case.split()
    r0 = int(w[-2])
    return r0 < 0 or r0 >= (1 << 31) - 1


def limited_budget(case):
    w = case.split()
    return int(w[5] if w[1] == "exp" else w[4]) > 0


WRAP_PROBES = ["probe fixed 7 3 2147483647 0", "probe exp 1000 1000000 3 2147483647 0"]


def int32_wrap_finding(c, binary):
    """Known finding: after 2^31 Next calls the int32 counter wraps to -2^31 <= maxRetries and a strategy whose
    budget (maxRetries = 3) is long spent grants retries again (theorem budget_wraps_after_2p31_refuted).
    Instant white-box probe in both tiers (counter set to 2^31-1, one Next), the real loop in thorough."""
    rc, out, err = c.run_impl(binary, ["c19"], "\n".join(WRAP_PROBES) + "\n")
    seen = []
    for cs, o in zip(WRAP_PROBES, out):
        f = o.split()
        if len(f) >= 2 and f[0] == "ok" and f[1].endswith(":1"):
            seen.append((cs, o))
    c.cov["int32_wrap_probe"] = {"cases": WRAP_PROBES, "implementation": out, "wrap_observed": [cs.split()[1] for cs, _ in seen]}
    real = None
    if c.tier == "thorough":
        rc, o2, err = c.run_impl(binary, ["c19"], "wrapreal 3\n", timeout=900)
        real = o2[0] if o2 else None
        c.cov["int32_wrap_replay"] = {"case": "wrapreal 3", "implementation": real}
        if real and real.endswith("call_2p31=1:1"):
            seen.append(("wrapreal 3", real))
    if seen:
        c.report("C19:budget:int32-wrap",
                 "after 2^31 Next calls the int32 retries counter wraps negative and a strategy with maxRetries=3 grants retries again "
                 "(%s)" % "; ".join("%s -> %s" % x for x in seen),
                 {"kind": "input", "cases": [x[0] for x in seen], "implementation": [x[1] for x in seen],
                  "theorem": "budget_wraps_after_2p31_refuted; budget_exact is stated for fewer than 2^31 calls",
                  "how": "echo 'probe fixed 7 3 2147483647 0' | <harness> c19   (counter set to 2^31-1 by reflect+unsafe, then one Next); "
                         "echo 'wrapreal 3' | <harness> c19   (really performs 2^31 calls, ~13 s)"})


def retry_fields(out):
    d = {}
    head, _, tail = out.partition(" | ")
    for tok in (head + " " + tail).split():
        if "=" in tok:
            k, v = tok.split("=", 1)
            d[k] = v
    return head, d


def retry_oracle(case, out):
    """Real-time observations, only in the directions scheduling noise cannot falsify."""
    if out == "panic":
        return ("C19:retry:panic", "Retry panicked", {})
    head, d = retry_fields(out)
    gaps = [int(x) for x in d.get("gaps", "").split(",") if x]
    ans = parse_answers([x for x in d.get("answers", "").split(",") if x])
    for k, g in enumerate(gaps):
        if k >= len(ans) or not ans[k][1]:
            return ("C19:retry:result", "invocation %d followed an invocation for which Next did not grant a retry" % (k + 2), {})
        if g < ans[k][0]:
            return ("C19:retry:gap",
                    "invocation %d started %.3f ms after invocation %d ended; the strategy had returned %.3f ms for that wait"
                    % (k + 2, g / 1e6, k + 1, ans[k][0] / 1e6),
                    {"gaps_ns": gaps, "intervals_ns": [a for a, _ in ans], "short_gap_index": k})
    if d.get("res") == "exhausted" and d.get("wraps") != "1":
        return ("C19:retry:result", "exhausted error does not wrap exactly the last failure (errors.Is)", {})
    if d.get("res") == "ctx" and d.get("kind") != d.get("want"):
        return ("C19:retry:result", "context error kind %s, expected %s" % (d.get("kind"), d.get("want")), {})
    if d.get("res") in ("other", "overrun"):
        return ("C19:retry:result", "unexpected result class %s" % d.get("res"), {})
    return None


# ----------------------------------------------------------------------------------------------
# retry.Retry: text pin + virtual-clock runs
# ----------------------------------------------------------------------------------------------
# every statement of retry.Retry as the instrumenter normalises it (the model RetryModel.retry is the model of
# exactly this statement list: bizFunc; nil -> return; Next; !ok -> exhausted(err); NewTimer/Reset(duration); select)
RETRY_LABELS = [
    "Retry|defer func() { if timer != nil { timer.Stop() } }()|0",
    "Retry|if timer != nil|0",
    "Retry|timer.Stop()|0",
    "Retry|for|0",
    "Retry|err := bizFunc()|0",
    "Retry|if err == nil|0",
    "Retry|return nil|0",
    "Retry|duration, ok := s.Next()|0",
    "Retry|if !ok|0",
    "Retry|return errs.NewErrRetryExhausted(err)|0",
    "Retry|if timer == nil|0",
    "Retry|timer = time.NewTimer(duration)|0",
    "Retry|timer.Reset(duration)|0",
    "Retry|select|0",
    "Retry|case <-ctx.Done():|0",
    "Retry|return ctx.Err()|0",
    "Retry|case <-timer.C:|0",
]
RETRY_FILES = ["retry/retry.go", "retry/exponential.go", "retry/fixed_internal.go"]

X_VERIF_GO = """//go:build verif

package retry

import "time"

// overlay-only (checks/c19.py): the instrumented copy of retry.go arms its timer through these
var VerifNewTimer func(time.Duration) *time.Timer
var VerifResetTimer func(*time.Timer, time.Duration) bool

func verifNewTimer(d time.Duration) *time.Timer {
	if VerifNewTimer != nil {
		return VerifNewTimer(d)
	}
	return time.NewTimer(d)
}

func verifResetTimer(t *time.Timer, d time.Duration) bool {
	if VerifResetTimer != nil {
		return VerifResetTimer(t, d)
	}
	return t.Reset(d)
}
"""


def strat_answers(strat, n):
    """(interval, ok) of the first n sequential Next calls — used only to place cancellation instants."""
    w = strat.split(":")
    out = []
    if w[0] == "script":
        for a in [x for x in w[1].split(";") if x]:
            iv, ok = a.split("/")
            out.append((int(iv), ok == "1"))
        out += [(0, False)] * n
        return out[:n]
    for k in range(1, n + 1):
        if w[0] == "fixed":
            iv, mr = int(w[1]), int(w[2])
            out.append((iv, True) if mr <= 0 or k <= mr else (0, False))
        else:
            i, m, mr = int(w[1]), int(w[2]), int(w[3])
            out.append((min(i << (k - 1), m), True) if mr <= 0 or k <= mr else (0, False))
    return out


def timeline(strat, steps):
    """No-cancel timeline [(start, end, wait or None)] on the virtual clock."""
    ans = strat_answers(strat, len(steps))
    now, tl = 0, []
    for k, (kind, d) in enumerate(steps):
        e = now + d
        if kind == "o" or not ans[k][1]:
            tl.append((now, e, None))
            break
        tl.append((now, e, ans[k][0]))
        now = max(e, e + ans[k][0])
    return tl


def gen_virtual(c):
    r = random.Random(c.seed + 7)
    full = c.tier == "thorough"
    H = 3600 * 10 ** 9
    ivs = [1, 999, 999999, MS, MS + 1, 1500000, 2500000, 999999999, 10 ** 9, 10 ** 9 + 1, 1500 * MS, 59 * 10 ** 9 + 7,
           H, H + 1, 90 * 60 * 10 ** 9 + 123456789, 1 << 40, (1 << 52) + 1]
    durs = [0, 0, 1, 999, MS, 1500000, 10 ** 9 + 1, 2 * H]
    strats = []
    for iv in ivs:
        for mr in [0, -1, 1, 3, 17, 39]:
            strats.append("fixed:%d:%d" % (iv, mr))
    for (i, m) in [(1, H), (999999, 10 ** 10), (1500000, 1500000 << 20), (MS, 1 << 58), ((1 << 40) + 1, 1 << 57), (333, 333), (7, 1 << 30)]:
        for mr in [0, -5, 2, 16, 17, 31, 40]:
            strats.append("exp:%d:%d:%d" % (i, m, mr))
    for _ in range(40 if not full else 400):
        n = r.randint(1, 40)
        ans = []
        for k in range(n):
            iv = r.choice([0, 0, -1, -3, -(1 << 40), 1, 5, 999999, 1500000, 10 ** 9 + 1, H + 1, r.randint(-10, 10 ** 7)])
            ans.append("%d/%d" % (iv, 0 if r.random() < 0.04 else 1))
        if r.random() < 0.3:
            ans.append("%d/0" % r.choice([0, 5, -2]))       # a refusal that carries a non-zero interval
        strats.append("script:" + ";".join(ans))
    cases = []

    def script(steps):
        return ",".join("%s%d" % x for x in steps)

    reps = 1 if not full else 4
    for st in strats * reps:
        w = st.split(":")
        mr = int(w[-1]) if w[0] != "script" else None
        # number of failing attempts: up to 40, incl. 30+ with an unlimited budget
        if w[0] == "script":
            k = r.randint(1, 42)
        elif mr <= 0:
            k = r.choice([1, 16, 17, 30, 33, 40])
        else:
            k = r.choice([mr - 1, mr, mr + 1, mr + 3, 1])
            k = max(k, 1)
        steps = [("f", r.choice(durs)) for _ in range(k)]
        if r.random() < 0.6:
            steps.append(("o", r.choice(durs)))
        else:
            steps += [("f", 0)] * 2 if (mr is not None and mr > 0) or w[0] == "script" else [("o", 0)]
        # keep the virtual clock inside int64 (the harness counts in int64, the model in Z)
        while sum((t[2] or 0) + (t[1] - t[0]) for t in timeline(st, steps) if True) >= (1 << 61) and len(steps) > 2:
            steps.pop(0)
        tl = timeline(st, steps)
        if len(tl) == len(steps) and tl[-1][2] is not None:
            steps.append(("o", 0))                      # the script must not run out before Retry returns
            tl = timeline(st, steps)
        if sum(abs(t[2] or 0) + (t[1] - t[0]) for t in tl) >= (1 << 61):
            continue
        cases.append("vretry %s none c %s" % (st, script(steps)))
        kind = r.choice(["canceled", "deadline", "custom"])
        # the context is already done at entry (cancelled / past its deadline)
        cases.append("vretry %s at:%d:%s c %s" % (st, r.choice([0, -1, -(10 ** 12)]), kind, script(steps)))
        j = r.randrange(len(tl))
        s_j, e_j, w_j = tl[j]
        spots = [e_j]                                   # exactly at the end of attempt j+1
        if e_j > s_j:
            spots.append(r.randint(s_j + 1, e_j))       # inside the attempt
        if w_j is not None and w_j > 1:
            spots.append(e_j + r.randint(1, w_j - 1))   # in the middle of the wait
            spots.append(e_j + w_j - 1)
            spots.append(e_j + w_j + 1)
        for at in r.sample(spots, min(len(spots), 2 if not full else 5)):
            cases.append("vretry %s at:%d:%s c %s" % (st, at, kind, script(steps)))
        if w_j is not None and w_j > 0 and w[0] != "script":
            # exactly at the timer instant: both orders of the two simultaneous events
            cases.append("vretry %s at:%d:%s c %s" % (st, e_j + w_j, kind, script(steps)))
            cases.append("vretry %s at:%d:%s t %s" % (st, e_j + w_j, kind, script(steps)))
    return cases


def retry_skeleton_and_virtual(c):
    """Text pin of retry.Retry + the virtual-clock differential.  Needs its own instrumented build."""
    import os
    import common
    ov, labels = c.instrument(files=RETRY_FILES)
    if ov is None:
        c.report("C19:retry:skeleton", "the instrumenter cannot process retry/retry.go", {"kind": "build", "log": str(labels)[-2000:]}, found_input=False)
        return
    have = sorted(l["label"] for l in labels if l["func"] == "Retry")
    want = sorted(RETRY_LABELS)
    extra = [l for l in have if l not in want]
    missing = [l for l in want if l not in have]
    c.cov["retry_text_pin"] = {"statements": len(have), "expected": len(want), "extra": extra, "missing": missing}
    skeleton_broken = bool(extra or missing or len(have) != len(want))
    src = ov.get(os.path.join(common.REPO, "retry/retry.go"))
    text = open(src).read() if src else ""
    if "verifhook.NewTimer(" not in text or "verifhook.ResetTimer(" not in text:
        c.report("C19:retry:skeleton", "retry.Retry no longer creates one time.Timer and re-arms it with Reset (statements: +%s -%s)" % (extra, missing),
                 {"kind": "skeleton", "extra_statements": extra, "missing_statements": missing}, found_input=False)
        return
    text = text.replace("verifhook.NewTimer(", "verifNewTimer(").replace("verifhook.ResetTimer(", "verifResetTimer(")
    d = os.path.join(c.tmp, "virt")
    os.makedirs(d, exist_ok=True)
    open(os.path.join(d, "retry.go"), "w").write(text)
    open(os.path.join(d, "x_c19_verif.go"), "w").write(X_VERIF_GO)
    ov2 = {os.path.join(common.REPO, "retry/retry.go"): os.path.join(d, "retry.go"),
           os.path.join(common.REPO, "retry/x_c19_verif.go"): os.path.join(d, "x_c19_verif.go")}
    b, log = c.build_harness(extra_overlay=ov2, pkgs=["c19"], tags="verif,c19virt")
    found = False
    if b is None:
        c.report("C19:retry:skeleton", "the virtual-clock build of retry.Retry fails", {"kind": "build", "log": log[-2500:]}, found_input=False)
        return
    cases = gen_virtual(c)
    vtext = "\n".join(cases) + "\n"
    rc, impl, err = c.run_impl(b, ["c19virt"], vtext, env={"GODEBUG": "asynctimerchan=1"}, timeout=600)
    model = c.run_model("retry", vtext)
    ok = 0
    dist = {}
    for k, cs in enumerate(cases):
        o = impl[k] if k < len(impl) else "<missing>"
        mo = model[k] if k < len(model) else "<missing>"
        c.note_case(cs, True)
        key = cs.split()[1].split(":")[0] + ("/ctx" if " at:" in cs else "")
        dist[key] = dist.get(key, 0) + 1
        if o == mo:
            ok += 1
            continue
        if o == "aborted":
            continue
        found = True
        w = cs.split()
        rep = {"kind": "run", "case": cs, "implementation": o[:1500], "model_virtual_clock": mo[:1500],
               "reading": "n = invocations of the operation; trace = start-end+<duration handed to the timer> per invocation on the virtual clock; "
                          "exhausted requires errors.Unwrap(result) to BE the error of invocation <lasterr>; ctx requires the result to BE ctx.Err()",
               "how": "virtual-clock build (checks/c19.py retry_skeleton_and_virtual): echo '<case>' | GODEBUG=asynctimerchan=1 <harness> c19virt"}
        if o.partition(" | ")[0] != mo.partition(" | ")[0]:
            c.report("C19:retry:result", "Retry on the virtual clock: %r, the verified model gives %r" % (o.partition(" | ")[0], mo.partition(" | ")[0]), rep)
        else:
            c.report("C19:retry:wait", "Retry on the virtual clock: the waits handed to the timer / invocation times differ from the verified model "
                                       "(the wait must equal the interval the strategy returned)", rep)
    c.cov["retry_virtual_clock"] = {"cases": len(cases), "agree": ok, "distribution": dist}
    c.cov["traces_validated_against_impl"] += ok
    if skeleton_broken:
        c.report("C19:retry:skeleton", "the statements of retry.Retry differ from the modelled ones: extra %s, missing %s" % (extra, missing),
                 {"kind": "skeleton", "extra_statements": extra, "missing_statements": missing,
                  "virtual_clock_runs_found_a_difference": found}, found_input=False)


# ----------------------------------------------------------------------------------------------
# cases.v
# ----------------------------------------------------------------------------------------------
CROSS_PRELUDE = """From Ekit Require Import Common RetryModel.
Definition ans_eqb (a b : Z * bool) : bool := Z.eqb (fst a) (fst b) && Bool.eqb (snd a) (snd b).
Fixpoint list_eqb (a b : list (Z * bool)) : bool :=
  match a, b with
  | [], [] => true
  | x :: a', y :: b' => ans_eqb x y && list_eqb a' b'
  | _, _ => false
  end.
Definition chk_seq (c : ctor_res * nat * nat * list (Z * bool)) : bool :=
  let '(ct, n, code, expd) := c in
  match ct with
  | CtorOk p => Nat.eqb code 0 && list_eqb (snd (run p s0 n)) expd
  | CtorErrInterval => Nat.eqb code 1
  | CtorErrMaxInterval => Nat.eqb code 2
  end.
Definition chk_probe (c : ctor_res * Z * bool * (Z * bool) * Z * bool) : bool :=
  let '(ct, r0, fl, a, r1, fl1) := c in
  match ct with
  | CtorOk p => let '(s, b) := probe p r0 fl in ans_eqb a b && Z.eqb (retries s) r1 && Bool.eqb (reached s) fl1
  | _ => false
  end.
"""


def coq_ctor(w):
    if w[0] == "exp":
        return "(new_exp VNow %s %s %s)" % (coq_z(w[1]), coq_z(w[2]), coq_z(w[3])), w[4:]
    return "(new_fixed %s %s)" % (coq_z(w[1]), coq_z(w[2])), w[3:]


def coq_ans(a):
    iv, ok = a.split(":")
    return "(%s, %s)" % (coq_z(iv), "true" if ok == "1" else "false")


def cases_v(seq_pairs, probe_pairs):
    s_items, p_items = [], []
    for case, out in seq_pairs:
        ct, rest = coq_ctor(case.split()[1:])
        o = out.split()
        code = 0 if o[0] == "ok" else (1 if o[1] == "interval" else 2)
        s_items.append("(%s, %s%%nat, %d%%nat, [%s])" % (ct, rest[0], code, "; ".join(coq_ans(a) for a in o[1:]) if code == 0 else ""))
    for case, out in probe_pairs:
        ct, rest = coq_ctor(case.split()[1:])
        o = out.split()
        p_items.append("(%s, %s, %s, %s, %s, %s)" % (ct, coq_z(rest[0]), "true" if rest[1] == "1" else "false", coq_ans(o[1]),
                                                     coq_z(o[2].split("=")[1]), "true" if o[3].split("=")[1] == "1" else "false"))
    return (CROSS_PRELUDE + "Definition seqs : list (ctor_res * nat * nat * list (Z * bool)) :=\n  [" + ";\n   ".join(s_items) + "].\n"
            + "Definition probes : list (ctor_res * Z * bool * (Z * bool) * Z * bool) :=\n  [" + ";\n   ".join(p_items) + "].\n"
            + "Definition bad := Eval vm_compute in (length (filter (fun c => negb (chk_seq c)) seqs) + length (filter (fun c => negb (chk_probe c)) probes))%nat.\nPrint bad.\n")


# ----------------------------------------------------------------------------------------------
def main(tier):
    c = Check("C19", tier)
    c.proof_layer()
    c.ensure_modelrun()
    binary, log = c.build_harness(pkgs=["c19"])
    if binary is None:
        c.report("build", "harness does not build against /repo", {"kind": "build", "log": log[-3000:]}, found_input=False)
        finish(c)
    import shutil, os
    plain = os.path.join(c.tmp, "h_plain")
    shutil.copy(binary, plain)
    binary = plain
    seq, probe, conc, rt = gen_cases(c)
    static = seq + probe + conc
    text = "\n".join(static) + "\n"
    rc, impl, err = c.run_impl(binary, ["c19"], text)
    model = c.run_model("retry", text)
    c.cov["case_distribution"] = {"seq": len(seq), "probe": len(probe), "conc": len(conc), "retry_realtime": len(rt),
                                  "retry_godebug_settings": 2}
    agree = 0
    for k, cs in enumerate(static):
        o = impl[k] if k < len(impl) else "<missing>"
        mo = model[k] if k < len(model) else "<missing>"
        c.note_case(cs, not o.startswith("err"))
        why = oracle(cs, o)
        if cs.startswith("probe") and wrap_territory(cs):
            # states only reachable after >= 2^31 calls (known finding C19:budget:int32-wrap): accept the model's
            # (wrapping) answer or, for a limited budget, a refusal — a later repair of the code is not an alarm
            if o.split()[:2] == mo.split()[:2] or (limited_budget(cs) and o.split()[:2] == ["ok", "0:0"]):
                agree += 1
                continue
        if why:
            sig, reason = why
            rep = {"kind": "input", "case": cs, "implementation": o[:600], "model": mo[:600],
                   "how": "echo '<case>' | <harness> c19   (formats in harness/c19/c19.go)"}
            if cs.startswith("probe"):
                w = cs.split()
                rep["reachable_by"] = ("the callers holding the tickets before %d have loaded the max-reached flag but not yet "
                                       "stored it (theorem interval_in_bounds quantifies over these schedules; the pinned model "
                                       "variant has interval_wrap_refuted)" % wrap32(int(w[-2]) + 1))
                pm = c.run_model(["retry", "pinned"], cs + "\n")
                rep["pinned_model_pre_672671a"] = pm[0] if pm else None
            c.report(sig, "retry strategy: %s" % reason, rep)
        elif o != mo:
            # the model's answer IS the specification for these observables (exp_answers / fixed_answers / budget_exact)
            kind = cs.split()[1]
            sig = "C19:budget" if cs.startswith("conc") else "C19:%s:interval" % kind
            c.report(sig, "retry strategy answers differ from the verified model", {"kind": "input", "case": cs, "implementation": o[:600], "model": mo[:600]})
        else:
            agree += 1
    for cs in [seq[0], probe[0], conc[0], rt[0], rt[9]]:
        c.sample(cs)
    # ---- real-time Retry under both timer-channel semantics ----
    rtext = "\n".join(rt) + "\n"
    mrt = c.run_model("retry", rtext)
    mins = {}
    for dbg in ("asynctimerchan=1", "asynctimerchan=0"):
        rc, out, err = c.run_impl(binary, ["c19", "16" if tier == "thorough" else "8"], rtext, env={"GODEBUG": dbg})
        slack = None
        for k, cs in enumerate(rt):
            o = out[k] if k < len(out) else "<missing>"
            mo = mrt[k] if k < len(mrt) else "<missing>"
            c.note_case(dbg + " " + cs, True)
            why = retry_oracle(cs, o) if o != "<missing>" else ("C19:retry:result", "no output", {})
            head = o.partition(" | ")[0]
            if why:
                sig, reason, extra = why
                rep = dict(extra, kind="run", case=cs, GODEBUG=dbg, implementation=o, model_virtual_clock=mo,
                           operation_durations_ns=[int(s[1:]) for s in cs.split()[3].split(",")],
                           how="echo '<case>' | GODEBUG=%s <harness> c19" % dbg)
                if sig == "C19:retry:gap":
                    tk = c.run_model(["retry", "ticker1"], cs + "\n")
                    rep["pinned_ticker_model_pre_b47c510"] = tk[0] if tk else None
                c.report(sig, "Retry (%s): %s" % (dbg, reason), rep)
            elif head != mo.partition(" | ")[0]:
                c.report("C19:retry:result", "Retry (%s): invocations/result %r, the verified model gives %r" % (dbg, head, mo.partition(" | ")[0]),
                         {"kind": "run", "case": cs, "GODEBUG": dbg, "implementation": o, "model_virtual_clock": mo})
            else:
                agree += 1
                _, d = retry_fields(o)
                gaps = [int(x) for x in d.get("gaps", "").split(",") if x]
                ans = parse_answers([x for x in d.get("answers", "").split(",") if x])
                for g, a in zip(gaps, ans):
                    slack = g - a[0] if slack is None else min(slack, g - a[0])
        mins[dbg] = slack
    c.cov["retry_min_gap_minus_interval_ns"] = mins
    c.cov["traces_validated_against_impl"] = agree
    # ---- int32 counter wrap (known finding; never a C19:budget violation) ----
    int32_wrap_finding(c, binary)
    # ---- retry.Retry: every statement pinned by text + virtual-clock differential (own instrumented build) ----
    retry_skeleton_and_virtual(c)
    # ---- cross-check the OCaml extraction against vm_compute inside Coq ----
    r = random.Random(c.seed + 1)
    sp = [(cs, model[k]) for k, cs in enumerate(static) if cs.startswith("seq")]
    pp = [(cs, model[k]) for k, cs in enumerate(static) if cs.startswith("probe") and model[k].startswith("ok")]
    sp = r.sample(sp, min(60, len(sp)))
    pp = r.sample(pp, min(200, len(pp)))
    rc, out = c.coq_crosscheck(cases_v(sp, pp))
    okx = rc == 0 and re.search(r"bad\s*=\s*0(%nat)?\s", out.replace("\n", " ") + " ") is not None
    c.cov["coq_vm_compute_crosscheck"] = {"cases": len(sp) + len(pp), "agree": bool(okx)}
    if not okx:
        c.report("C19:extraction", "OCaml extraction and vm_compute disagree on the model's output",
                 {"kind": "extraction-crosscheck", "coq_output": out[-1500:]}, found_input=False)
    finish(c)


def finish(c):
    # statement-granular interleaving model of the two Next methods in lock-step on the real goroutines
    # (props/C19_ls.v: refinement to the three-step concurrent semantics, budget and bounds for every schedule)
    try:
        import part_retryls
        ov, labels = c.instrument()
        if ov is None:
            c.report("C19:retryls:instrument", "the instrumenter cannot process the retry files", {"kind": "build", "log": str(labels)[-2000:]}, found_input=False)
        else:
            b2, log2 = c.build_harness(extra_overlay=ov, pkgs=["c19", "retryls", "lockstep"])
            if b2 is None:
                c.report("C19:retryls:build", "instrumented harness does not build", {"kind": "build", "log": log2[-2000:]}, found_input=False)
            else:
                part_retryls.run(c, b2, labels, c.tier, "c19")
    except SystemExit:
        raise
    except Exception:
        import traceback
        c.report("C19:retryls:crash", "check part retryls crashed", {"kind": "internal", "trace": traceback.format_exc()[-3000:]}, found_input=False)
    c.finish(
        level="proof",
        rule="cases from VERIF_SEED: (initial, max, maxRetries) triples incl. products that overflow 64 bits (initial near 2^40, 2^62, 1, "
             "max = initial, max = initial*2^k +-1, max = 2^63-1) with 200 sequential Next calls each; constructor argument sweep incl. "
             "invalid; white-box late-caller probes (counter set to every ticket 1..70, the int32 wrap points, flag unset/set); "
             "G goroutines x N calls for the budget; real-time Retry scripts (operation shorter/equal/longer than the interval, "
             "exhaustion, cancellation by the attempt, deadlines) under GODEBUG=asynctimerchan=1 and =0; retry.Retry on a VIRTUAL clock "
             "(instrumented copy whose NewTimer/Reset go through hooks that record the exact duration): sub-millisecond / > 1 s / > 1 h "
             "intervals, scripted strategies returning 0 and negative intervals and refusals, up to 42 failures incl. 30+ with unlimited "
             "retries, context already done at entry, ending inside an attempt, at its end, mid-wait, one ns before/after and exactly at the "
             "timer instant (both orders), compared verbatim with the model: invocations, start/end of each, the duration handed to the timer "
             "for each wait, errors.Unwrap(result) IS the last failure / result IS ctx.Err(); every statement of retry.Retry pinned by text; non-trivial = the constructor "
             "accepted the arguments; distinct by md5 of the case text",
        assumptions=["float64->int64 conversion of 2^n, n >= 63, yields -2^63 (amd64 CVTTSD2SQ 'integer indefinite'; other architectures saturate "
                     "differently: arm64 gives 2^63-1 — the model is for amd64)",
                     "the Go runtime delivers a one-shot timer's value not before now+d on the monotonic clock, and select blocks until a case is ready "
                     "(timer/ctx/select are modelled on a virtual clock, not verified); statements other than bizFunc and the select take no virtual time",
                     "concurrent Next: three atomic steps per call (atomic add, flag load, compute+flag store); sync/atomic is sequentially consistent",
                     "budget theorems assume fewer than 2^31 Next calls (int32 counter; budget_wraps_after_2p31_refuted shows the bound is needed)",
                     "real-time runs compare invocation count / result class with the model and assert gap >= interval only; scripts are built so that "
                     "the context never ends within 50 ms of a timer expiry"],
        trusted_base=["Coq 8.16.1 kernel + vm_compute (no native_compute)", "no axioms (Print Assumptions: closed under the global context)",
                      "extraction: ExtrOcamlBasic only, no Extract Constant; cross-checked against vm_compute on a sample per run",
                      "OCaml driver ocaml/drv_retry.ml (random schedule generator for the conc cases), Go harness harness/c19 "
                      "(reflect+unsafe access to the unexported counter/flag for the late-caller probes; constructor errors classified by message text), "
                      "checks/c19.py (case generator, big-integer oracle; expected statement list of retry.Retry; the 2-line textual rewrite "
                      "verifhook.NewTimer/ResetTimer -> package-local hooks of the instrumented retry.go), harness/c19/virt.go (virtual clock, fake context, "
                      "timer delivery by Reset(0) under asynctimerchan=1)"])


if __name__ == "__main__":
    import sys
    main(sys.argv[1] if len(sys.argv) > 1 else "quick")
