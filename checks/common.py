"""Shared machinery of the /verif checks: proof layer, builds, correspondence runs,
replay / evidence / known-findings handling.  Python 3 standard library only."""
import hashlib
import json
import os
import re
import shutil
import subprocess
import sys
import tempfile
import time

VERIF = os.path.dirname(os.path.dirname(os.path.abspath(__file__)))
REPO = os.environ.get("VERIF_REPO", "/repo")
COQ = os.path.join(VERIF, "coq")
OCAML = os.path.join(VERIF, "ocaml")
HARNESS = os.path.join(VERIF, "harness")
MODELRUN = os.environ.get("MODELRUN", os.path.join(OCAML, "modelrun"))
ALLOWED_AXIOMS = {
    # standard-library axioms only; anything else fails the proof layer
    "functional_extensionality_dep", "proof_irrelevance", "eq_rect_eq", "JMeq_eq", "classic",
    "Coq.Logic.FunctionalExtensionality.functional_extensionality_dep",
    "Coq.Logic.ProofIrrelevance.proof_irrelevance",
    "Coq.Logic.Eqdep.Eq_rect_eq.eq_rect_eq", "Coq.Logic.JMeq.JMeq_eq",
    "Coq.Logic.Classical_Prop.classic",
}
HYGIENE = re.compile(
    r"\b(Admitted|admit|Axiom|Axioms|Parameter|Parameters|Conjecture|Admit Obligations)\b"
    r"|Unset Guard|bypass_check|-type-in-type|Unset Universe Checking|Unset Positivity")

GOENV = dict(os.environ, GOFLAGS="-mod=mod", GOPROXY="off", GOSUMDB="off",
             GOTOOLCHAIN="local", CGO_ENABLED=os.environ.get("CGO_ENABLED", "1"))


def sh(cmd, cwd=None, env=None, timeout=1800, input=None):
    p = subprocess.run(cmd, cwd=cwd, env=env, timeout=timeout, input=input,
                       stdout=subprocess.PIPE, stderr=subprocess.STDOUT, text=True,
                       shell=isinstance(cmd, str))
    return p.returncode, p.stdout


class Check:
    """One run of one property's check. Collects evidence and violations."""

    def __init__(self, pid, tier):
        self.pid = pid
        self.tier = tier
        self.seed = int(os.environ.get("VERIF_SEED", "1"))
        self.t0 = time.time()
        self.violations = []      # (replay_path, suffix)
        self.known_lines = []
        self.cov = {"evaluations": 0, "distinct_nontrivial": 0, "samples": [],
                    "traces_validated_against_impl": 0}
        self.assumptions = []
        self.tmp = tempfile.mkdtemp(prefix="verif_%s_" % pid)
        self.findings = load_known_findings(pid)
        self._distinct = set()

    # ---------------- proof layer ----------------
    def proof_layer(self, extra_files=()):
        """make (no-op when up to date), recompile props/<pid>.v to capture
        Print Assumptions, hygiene grep.  Returns True when all obligations discharged."""
        ok = True
        sh(["bash", os.path.join(VERIF, "tools/gencoqproject.sh")])
        # build only what this property's theorem files need (a runaway or broken file of another
        # property must not block this check); every coqc under a time limit
        props_dir0 = os.path.join(COQ, "theories/props")
        targets = " ".join("theories/props/" + f[:-2] + ".vo" for f in sorted(os.listdir(props_dir0))
                           if re.fullmatch(re.escape(self.pid) + r"(_[A-Za-z0-9]+)?\.v", f))
        rc, out_make = sh("flock .make.lock make -k -j16 COQC='timeout 2400 coqc' %s 2>&1 | tail -30" % targets, cwd=COQ, timeout=6000)
        props_dir = os.path.join(COQ, "theories/props")
        srcs = sorted(os.path.join(props_dir, f) for f in os.listdir(props_dir)
                      if re.fullmatch(re.escape(self.pid) + r"(_[A-Za-z0-9]+)?\.v", f))
        if not srcs:
            self.fail_proof("no props/%s*.v" % self.pid)
            return False
        theorems, text, out = [], "", ""
        # the Print Assumptions output depends only on /verif's own Coq sources (never on /repo): cache it per
        # property, keyed by the contents of every .v file, so that an unchanged development is not re-traversed
        hh = hashlib.sha256(self.pid.encode())
        for f in self.coq_closure(srcs):
            hh.update(os.path.basename(f).encode())
            hh.update(open(f, "rb").read())
        pa_cache = os.path.join(COQ, ".pa_%s_%s.txt" % (self.pid, hh.hexdigest()[:20]))
        cached = open(pa_cache).read() if os.path.exists(pa_cache) else None
        for src in srcs:
            if not os.path.exists(src[:-2] + ".vo"):
                self.fail_proof("coq build did not produce %s.vo:\n%s" % (os.path.basename(src)[:-2], out_make))
                return False
            t = open(src).read()
            text += t
            theorems += re.findall(r"^\s*Theorem\s+([A-Za-z0-9_']+)", t, re.M)
            if cached is not None:
                continue
            vo = os.path.join(self.tmp, os.path.basename(src)[:-2] + ".vo")
            rc, o = sh(["coqc", "-Q", "theories", "Ekit", "-o", vo, src], cwd=COQ, timeout=2400)
            if rc != 0:
                self.fail_proof("%s does not compile:\n%s" % (os.path.basename(src), o[-2000:]))
                return False
            out += o + "\n"
        if cached is not None:
            out = cached
            self.cov["print_assumptions_from_cache"] = os.path.basename(pa_cache)
        else:
            try:
                open(pa_cache, "w").write(out)
            except OSError:
                pass
        closed = out.count("Closed under the global context")
        axioms = set()
        for blk in re.findall(r"Axioms:\n((?:.+\n?)+?)(?=\n\S|\Z)", out):
            for m in re.finditer(r"^([A-Za-z0-9_.']+)\s*:", blk, re.M):
                axioms.add(m.group(1))
        n_print = len(re.findall(r"^\s*Print Assumptions", text, re.M))
        bad_axioms = sorted(a for a in axioms if a not in ALLOWED_AXIOMS and a.split(".")[-1] not in ALLOWED_AXIOMS)
        hyg = hygiene_hits()
        self.cov["obligations"] = len(theorems)
        self.cov["theorems"] = theorems
        self.cov["axioms_reported"] = sorted(axioms)
        self.cov["checker_cmd"] = ("make -C coq -j16 (full .vo build, coq_makefile) && coqc -Q theories Ekit "
                                   "theories/props/%s*.v  [Print Assumptions under every theorem]" % self.pid)
        if n_print < len(theorems):
            self.fail_proof("props/%s.v: %d theorems but only %d Print Assumptions" % (self.pid, len(theorems), n_print))
            ok = False
        if bad_axioms:
            self.fail_proof("non-whitelisted axioms: %s" % bad_axioms)
            ok = False
        if hyg:
            self.fail_proof("hygiene grep hits: %s" % hyg[:5])
            ok = False
        self.cov["discharged"] = len(theorems) if ok else 0
        self.cov["closed_under_global_context"] = closed
        if self.tier == "thorough" and ok:
            ok = self.coqchk() and ok
        return ok

    def coq_closure(self, srcs):
        """The .v files the given sources depend on (transitively, themselves included), from the dependency file coqdep
        wrote for the last make (.Makefile.d).  When that file is missing or does not know one of the sources, every .v
        file of the development is returned (the conservative key)."""
        allv = []
        for root, _, files in sorted(os.walk(os.path.join(COQ, "theories"))):
            allv += [os.path.join(root, f) for f in sorted(files) if f.endswith(".v")]
        deps = {}
        try:
            for line in open(os.path.join(COQ, ".Makefile.d")):
                if ":" not in line:
                    continue
                lhs, rhs = line.split(":", 1)
                tg = [t for t in lhs.split() if t.endswith(".vo")]
                if not tg:
                    continue
                deps[tg[0][:-1]] = [d[:-1] for d in rhs.split() if d.endswith(".vo") and d.startswith("theories/")]
        except OSError:
            return allv
        todo = [os.path.relpath(x, COQ) for x in srcs]
        seen = []
        while todo:
            v = todo.pop()
            if v in seen:
                continue
            if v not in deps or not os.path.exists(os.path.join(COQ, v)):
                return allv
            seen.append(v)
            todo += deps[v]
        return sorted(os.path.join(COQ, v) for v in seen)

    def coqchk(self):
        """Independent re-check of this property's compiled theorem files and everything they depend on
        (coqchk, thorough tier); cached by a stamp keyed on the property and the contents of all .v files."""
        h = hashlib.sha256(self.pid.encode())
        props_dir0 = os.path.join(COQ, "theories/props")
        mine = sorted(os.path.join(props_dir0, f) for f in os.listdir(props_dir0)
                      if re.fullmatch(re.escape(self.pid) + r"(_[A-Za-z0-9]+)?\.v", f))
        for f in self.coq_closure(mine):
            h.update(open(f, "rb").read())
        stamp = os.path.join(COQ, ".coqchk_%s_%s" % (self.pid, h.hexdigest()[:16]))
        if os.path.exists(stamp):
            self.cov["coqchk"] = open(stamp).read()
            return not self.cov["coqchk"].startswith("FAILED")
        props_dir = os.path.join(COQ, "theories/props")
        mods = ["Ekit.props." + f[:-3] for f in sorted(os.listdir(props_dir))
                if re.fullmatch(re.escape(self.pid) + r"(_[A-Za-z0-9]+)?\.vo", f)]
        rc, out = sh(["coqchk", "-silent", "-o", "-Q", "theories", "Ekit"] + mods, cwd=COQ, timeout=7200)
        res = ("coqchk %s rc=%d\n" % (" ".join(mods), rc)) + out[-3000:]
        if rc != 0:
            res = "FAILED " + res
        open(stamp, "w").write(res)
        self.cov["coqchk"] = res
        if rc != 0:
            self.fail_proof("coqchk failed:\n" + out[-1500:])
        return rc == 0

    def fail_proof(self, msg):
        path = self.write_replay({"kind": "proof-obligation", "detail": msg,
                                  "theorems_file": "coq/theories/props/%s.v" % self.pid})
        self.violations.append((path, "no-failing-input-found"))

    # ---------------- builds ----------------
    def ensure_modelrun(self):
        if "MODELRUN" in os.environ:      # private build supplied by the caller
            return
        srcs = [os.path.join(OCAML, f) for f in os.listdir(OCAML) if f.endswith((".ml", ".sh"))]
        srcs += [os.path.join(OCAML, "extract.d", f) for f in os.listdir(os.path.join(OCAML, "extract.d"))]
        for root, _, files in os.walk(os.path.join(COQ, "theories")):
            srcs += [os.path.join(root, f) for f in files if f.endswith(".v")]
        newest = max(os.path.getmtime(s) for s in srcs)
        if not os.path.exists(MODELRUN) or os.path.getmtime(MODELRUN) < newest:
            rc, out = sh(["bash", os.path.join(OCAML, "build.sh")], timeout=1800)
            if rc != 0:
                if os.path.exists(MODELRUN):
                    # e.g. another property's model is being edited: keep the last good runner (its models for
                    # THIS property are unchanged unless this property's own files are the broken ones, in which
                    # case the proof layer has already reported it)
                    self.cov["modelrun_rebuild_failed"] = out[-600:]
                    os.utime(MODELRUN, None)
                else:
                    raise RuntimeError("modelrun build failed:\n" + out)

    def build_harness(self, race=False, extra_overlay=None, tags="verif", pkgs=None):
        """Build the Go harness against /repo's current working tree, with the add-only
        white-box accessor files of /verif/hooks overlaid (nothing is written into /repo)."""
        overlay = {}
        hooks = os.path.join(VERIF, "hooks")
        for root, _, files in os.walk(hooks):
            for f in files:
                if f.endswith(".go"):
                    rel = os.path.relpath(os.path.join(root, f), hooks)
                    overlay[os.path.join(REPO, rel)] = os.path.join(root, f)
        if extra_overlay:
            overlay.update(extra_overlay)
        if pkgs is None and os.environ.get("HARNESS_ONLY"):
            pkgs = os.environ["HARNESS_ONLY"].split()
        if pkgs is not None:
            # link only the named harness sub-packages (a half-written package of someone else cannot break this build)
            imp = os.path.join(self.tmp, "imports_only.go")
            open(imp, "w").write("package main\n\nimport (\n" + "".join('\t_ "verifharness/%s"\n' % p for p in pkgs) + ")\n")
            overlay[os.path.join(HARNESS, "imports_gen.go")] = imp
        sh(["bash", os.path.join(VERIF, "tools/genimports.sh")])
        ov = os.path.join(self.tmp, "overlay.json")
        json.dump({"Replace": overlay}, open(ov, "w"))
        out = os.path.join(self.tmp, "h_race" if race else "h")
        modfile = os.path.join(self.tmp, "go.mod")
        gm = open(os.path.join(HARNESS, "go.mod")).read().replace("=> /repo", "=> " + REPO)
        open(modfile, "w").write(gm)
        shutil.copy(os.path.join(REPO, "go.sum"), os.path.join(self.tmp, "go.sum"))
        cmd = ["go", "build", "-modfile", modfile, "-tags", tags, "-overlay", ov, "-o", out]
        if race:
            cmd.append("-race")
        cmd.append(".")
        rc, log = sh(cmd, cwd=HARNESS, env=GOENV, timeout=1800)
        if rc != 0:
            # an accessor file that names a declaration the tree no longer has: swap in its `.fallback` sibling (reduced
            # observation) so that the search for a failing run can still go on; the lost accessor is itself reported as a
            # broken correspondence.
            swapped = []
            for dst, srcf in list(overlay.items()):
                fb = srcf + ".fallback"
                if os.path.exists(fb) and os.path.basename(srcf) + ":" in log:
                    tmpf = os.path.join(self.tmp, "fb_" + os.path.basename(srcf))
                    shutil.copy(fb, tmpf)
                    overlay[dst] = tmpf
                    swapped.append(os.path.relpath(srcf, VERIF))
            if swapped:
                json.dump({"Replace": overlay}, open(ov, "w"))
                rc2, log2 = sh(cmd, cwd=HARNESS, env=GOENV, timeout=1800)
                if rc2 == 0:
                    self.cov.setdefault("hook_fallbacks", []).extend(x for x in swapped if x not in self.cov.get("hook_fallbacks", []))
                    sig = "%s:hooks:%s" % (self.pid, ",".join(os.path.basename(x) for x in swapped))
                    if sig not in getattr(self, "_fb_reported", set()):
                        self._fb_reported = getattr(self, "_fb_reported", set()) | {sig}
                        self.report(sig, "white-box accessor %s no longer compiles against /repo (a declaration it reads was removed or renamed); "
                                    "the reduced fallback accessor is used for the search" % ", ".join(swapped),
                                    {"kind": "build", "accessors": swapped, "log": log[-2000:]}, found_input=False)
                    return out, log2
            return None, log
        return out, log

    CONCURRENT_FILES = [
        "queue/concurrent_linked_queue.go", "queue/concurrent_array_blocking_queue.go",
        "queue/concurrent_linked_blocking_queue.go", "queue/delay_queue.go",
        "queue/concurrent_priority_queue.go", "list/concurrent_list.go",
        "list/copy_on_write_array_list.go", "syncx/cond.go", "syncx/map.go", "syncx/limit_pool.go",
        "syncx/segment_key_lock.go", "pool/task_pool.go", "retry/retry.go", "retry/exponential.go",
        "retry/fixed_internal.go"]

    def instrument(self, files=None):
        """Insert yield points into copies of /repo's CURRENT concurrent files (tools/instrument);
        returns (overlay dict, labels list). Nothing is written into /repo."""
        files = files or self.CONCURRENT_FILES
        tool = os.path.join(VERIF, "tools/instrument/instrument")
        src = os.path.join(VERIF, "tools/instrument/main.go")
        if not os.path.exists(tool) or os.path.getmtime(tool) < os.path.getmtime(src):
            rc, out = sh(["go", "build", "-o", tool, "."], cwd=os.path.dirname(tool), env=GOENV)
            if rc != 0:
                raise RuntimeError("instrumenter build failed: " + out)
        d = os.path.join(self.tmp, "inst")
        os.makedirs(d, exist_ok=True)
        rc, out = sh([tool, "-repo", REPO, "-out", d] + files)
        if rc != 0:
            return None, out
        ov = json.load(open(os.path.join(d, "overlay.json")))["Replace"]
        labels = json.load(open(os.path.join(d, "labels.json")))
        return ov, labels

    def lockstep(self, binary, model, args, timeout=1800):
        """Run `modelrun <model> <args>` (the master) against `h lockstep` connected by two pipes.
        The model writes its report to a file whose path it receives as the last argument."""
        report = os.path.join(self.tmp, "lockstep_%s.txt" % model)
        m2g_r, m2g_w = os.pipe()
        g2m_r, g2m_w = os.pipe()
        g = subprocess.Popen([binary, "lockstep"], stdin=m2g_r, stdout=g2m_w, stderr=subprocess.PIPE, env=GOENV)
        m = subprocess.Popen([MODELRUN, model] + [str(a) for a in args] + [report], stdin=g2m_r, stdout=m2g_w,
                             stderr=subprocess.PIPE)
        for fd in (m2g_r, m2g_w, g2m_r, g2m_w):
            os.close(fd)
        try:
            _, merr = m.communicate(timeout=timeout)
        except subprocess.TimeoutExpired:
            m.kill()
            merr = b"model timeout"
        try:
            g.wait(timeout=10)
        except subprocess.TimeoutExpired:
            g.kill()
        gerr = g.stderr.read() if g.stderr else b""
        txt = open(report).read() if os.path.exists(report) else ""
        return m.returncode, txt, (merr or b"").decode(errors="replace")[-3000:], gerr.decode(errors="replace")[-3000:]

    def check_labels(self, model, labels):
        """The synchronisation skeleton: every label the model's program counters carry must be a
        yield point the instrumenter derived from /repo's CURRENT source, and every statement of the
        functions the model claims to cover must have a program counter.  Returns list of problems."""
        rep = os.path.join(self.tmp, "labels_%s.txt" % model)
        p = subprocess.run([MODELRUN, model, "labels", rep], stdin=subprocess.DEVNULL, stdout=subprocess.PIPE,
                           stderr=subprocess.PIPE, text=True, timeout=120)
        txt = open(rep).read() if os.path.exists(rep) else ""
        mlabels = [l[6:] for l in txt.splitlines() if l.startswith("LABEL ")]
        funcs = [l[5:] for l in txt.splitlines() if l.startswith("FUNC ")]
        src = set(l["label"] for l in labels)
        problems = []
        for l in mlabels:
            if l not in src:
                problems.append("model statement not in the source any more: " + l)
        for l in labels:
            if l["func"] in funcs and l["label"] not in mlabels:
                problems.append("source statement the model does not have: " + l["label"])
        self.cov.setdefault("skeleton", {})[model] = {"model_labels": len(mlabels), "covered_functions": funcs,
                                                       "problems": len(problems)}
        return problems

    def parse_lockstep_report(self, txt):
        stats = {}
        m = re.search(r"STATS schedules=(\d+) events=(\d+) mismatches=(\d+) distinct=(\d+) nontrivial=(\d+)", txt)
        if m:
            stats = dict(schedules=int(m.group(1)), events=int(m.group(2)), mismatches=int(m.group(3)),
                         distinct=int(m.group(4)), nontrivial=int(m.group(5)))
        tags = {t: int(n) for t, n in re.findall(r"^TAG (\S+) (\d+)$", txt, re.M)}
        samples = re.findall(r"^SAMPLE (.*)$", txt, re.M)
        mism = re.findall(r"^((?:MISMATCH|MODEL-DISABLED|MODEL-CHECK-FAILED).*(?:\n  .*)*)", txt, re.M)
        return stats, tags, samples, mism

    def run_impl(self, binary, args, cases_text, timeout=1800, env=None):
        e = dict(GOENV)
        if env:
            e.update(env)
        p = subprocess.run([binary] + args, input=cases_text, text=True, timeout=timeout,
                           stdout=subprocess.PIPE, stderr=subprocess.PIPE, env=e)
        return p.returncode, p.stdout.splitlines(), p.stderr

    def run_model(self, model, cases_text, timeout=1800):
        p = subprocess.run([MODELRUN] + (model if isinstance(model, list) else [model]), input=cases_text,
                           text=True, timeout=timeout, stdout=subprocess.PIPE, stderr=subprocess.PIPE)
        if p.returncode != 0:
            raise RuntimeError("modelrun %s failed: %s" % (model, p.stderr[-2000:]))
        return p.stdout.splitlines()

    def coq_crosscheck(self, vtext, name="cases"):
        """Evaluate a harness-written cases.v with vm_compute inside Coq.
        The file must end by printing a term that is `[]`/`true` when all cases agree."""
        path = os.path.join(self.tmp, name + ".v")
        open(path, "w").write(vtext)
        rc, out = sh(["coqc", "-Q", os.path.join(COQ, "theories"), "Ekit", path], cwd=self.tmp, timeout=1800)
        return rc, out

    # ---------------- bookkeeping ----------------
    def note_case(self, canon, nontrivial):
        self.cov["evaluations"] += 1
        if nontrivial:
            self._distinct.add(hashlib.md5(canon.encode()).hexdigest())

    def sample(self, s):
        if len(self.cov["samples"]) < 5:
            self.cov["samples"].append(s)

    def write_replay(self, obj):
        os.makedirs(os.path.join(VERIF, "replays"), exist_ok=True)
        obj = dict(obj, property=self.pid, seed=self.seed, tier=self.tier)
        h = hashlib.md5(json.dumps(obj, sort_keys=True).encode()).hexdigest()[:10]
        path = os.path.join(VERIF, "replays", "%s_%s.json" % (self.pid, h))
        json.dump(obj, open(path, "w"), indent=1, sort_keys=True)
        return path

    def report(self, signature, what, replay_obj, found_input=True):
        """Report a property violation unless it is a listed known finding."""
        for f in self.findings:
            if f.get("kind") == "known" and f.get("signature") == signature:
                line = "KNOWN-FINDING: property=%s %s" % (self.pid, f.get("what", what))
                if line not in self.known_lines:
                    self.known_lines.append(line)
                return
        if any(v[2] == signature for v in self.violations if len(v) > 2):
            return
        if len(self.violations) >= 6:      # enough replays; the rest is counted only
            self.cov["violations_not_listed"] = self.cov.get("violations_not_listed", 0) + 1
            return
        path = self.write_replay(dict(replay_obj, signature=signature, what=what))
        self.violations.append((path, "" if found_input else "no-failing-input-found", signature))

    def finish(self, level="proof", rule="", assumptions=(), trusted_base=(), extra=None):
        self.cov["distinct_nontrivial"] = len(self._distinct)
        self.cov["rule"] = rule
        self.cov["trusted_base"] = list(trusted_base)
        if extra:
            self.cov.update(extra)
        ev = {"property_id": self.pid, "tier": self.tier, "seed": self.seed, "level": level,
              "coverage": self.cov, "assumptions": list(assumptions) + self.assumptions,
              "wall_s": round(time.time() - self.t0, 2), "violations": len(self.violations)}
        os.makedirs(os.path.join(VERIF, "evidence"), exist_ok=True)
        json.dump(ev, open(os.path.join(VERIF, "evidence", "%s.json" % self.pid), "w"), indent=1)
        shutil.rmtree(self.tmp, ignore_errors=True)
        for l in self.known_lines:
            print(l)
        for v in self.violations:
            print(("VIOLATION property=%s replay=%s %s" % (self.pid, v[0], v[1])).rstrip())
        if self.violations:
            sys.exit(1)
        print("OK property=%s tier=%s evaluations=%d obligations=%s/%s wall=%.1fs" % (
            self.pid, self.tier, self.cov["evaluations"], self.cov.get("discharged"),
            self.cov.get("obligations"), time.time() - self.t0))
        sys.exit(0)


def hygiene_hits():
    hits = []
    for root, _, files in os.walk(os.path.join(COQ, "theories")):
        for f in files:
            if not f.endswith(".v"):
                continue
            p = os.path.join(root, f)
            txt = open(p).read()
            txt = re.sub(r"\(\*.*?\*\)", "", txt, flags=re.S)   # comments may mention the words
            for i, line in enumerate(txt.splitlines(), 1):
                if HYGIENE.search(line):
                    hits.append("%s:%d:%s" % (os.path.relpath(p, COQ), i, line.strip()[:80]))
    return hits


def load_known_findings(pid):
    p = os.path.join(VERIF, "known_findings.json")
    if not os.path.exists(p):
        return []
    return [f for f in json.load(open(p)).get("findings", []) if f.get("property") == pid]


def diff_lines(cases, impl, model):
    """Indices where the two observable streams differ (length mismatch counts)."""
    bad = []
    n = max(len(impl), len(model), len(cases))
    for i in range(n):
        a = impl[i] if i < len(impl) else "<missing>"
        b = model[i] if i < len(model) else "<missing>"
        if a != b:
            bad.append(i)
    return bad


def coq_z(z):
    z = int(z)
    return "(%d)" % z if z < 0 else "%d" % z


def coq_list(items):
    return "[" + "; ".join(items) + "]"
