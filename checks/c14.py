"""C14 — LimitPool bound/conservation (lock-step against the interleaving model) and
SegmentKeysLock per-key exclusion (sequential differential against the FNV/RWMutex model)."""
import random
import subprocess

from common import Check, diff_lines, GOENV


def fnv1a(b):
    h = 2166136261
    for x in b:
        h = ((h ^ x) * 16777619) & 0xFFFFFFFF
    return h


KEYPOOL = [b"", b"a", b"b", b"ab", b"ba", b"key", b"key2", "键".encode(), "ключ".encode(), b"\x00", b"\xff\xfe",
           b"x" * 300, b"x" * 301, b"user:1", b"user:2", b"user:10", b"order/42", b" ", b"A", b"a "]


def gen_segkey(c, n, maxops):
    """Histories of non-blocking lock operations; a generator-side mirror keeps Unlock/RUnlock legal
    (an unlock of an unlocked sync.RWMutex is an unrecoverable fatal error, not a property matter)."""
    r = random.Random(c.seed * 7 + 3)
    lines = []
    for _ in range(n):
        size = r.choice([1, 1, 2, 3, 4, 5, 7, 8, 16, 31, 32, 64, r.randint(1, 64)])
        keys = r.sample(KEYPOOL, r.randint(1, 6)) + [bytes(r.randrange(256) for _ in range(r.randint(0, 12))) for _ in range(r.randint(0, 3))]
        w, rd = {}, {}
        ops = []
        for _ in range(r.randint(1, maxops)):
            k = r.choice(keys)
            i = fnv1a(k) % size
            choice = r.random()
            if choice < 0.25:
                op = "trylock"
                if not w.get(i) and not rd.get(i):
                    w[i] = True
            elif choice < 0.45:
                op = "tryrlock"
                if not w.get(i):
                    rd[i] = rd.get(i, 0) + 1
            elif choice < 0.55:
                op = "lock"
                if not w.get(i) and not rd.get(i):
                    w[i] = True
            elif choice < 0.65:
                op = "rlock"
                if not w.get(i):
                    rd[i] = rd.get(i, 0) + 1
            elif choice < 0.85:
                held = [kk for kk in keys if w.get(fnv1a(kk) % size)]
                if not held:
                    continue
                k = r.choice(held)
                w[fnv1a(k) % size] = False
                op = "unlock"
            else:
                held = [kk for kk in keys if rd.get(fnv1a(kk) % size)]
                if not held:
                    continue
                k = r.choice(held)
                rd[fnv1a(k) % size] -= 1
                op = "runlock"
            ops.append("%s:%s" % (op, k.hex()))
        lines.append("%d %s" % (size, " ".join(ops)))
    return lines


def stress(c, binary, configs):
    """search oracle (not a proof): chaos-mode hammering of the real LimitPool"""
    bad = []
    for (m, g, n) in configs:
        p = subprocess.run([binary, "c14-stress", str(c.seed), str(m), str(g), str(n)], stdout=subprocess.PIPE,
                           stderr=subprocess.PIPE, text=True, timeout=300, env=GOENV)
        out = p.stdout.strip() or ("crash: " + p.stderr[-500:])
        if out.startswith("ok"):
            for kv in out.split()[1:]:
                k, _, v = kv.partition("=")
                c.cov.setdefault("limitpool_stress_objects", {}).setdefault(k, 0)
                c.cov["limitpool_stress_objects"][k] += int(v)
        else:
            bad.append({"maxTokens": m, "goroutines": g, "ops": n, "result": out,
                        "how": "h c14-stress %d %d %d %d" % (c.seed, m, g, n)})
    return bad


# ---------------------------------------------------------------------------------------------------------------
# LimitPool, sequential differential over the BUDGET domain (NewLimitPool is exercised, not only pinned) and the
# objects Get returns; model side `modelrun limitpool-seq` (lp_init / lp_exec1 run alone), Go side `h c14-lpseq`.
SPECIAL_BUDGETS = [0, 1, 2, 3, 4, 5, 1023, 1024, 1025, 4095, 65535, 65536, 2 ** 31 - 1, 2 ** 31 + 5, 2 ** 32 - 1, 2 ** 32,
                   2 ** 32 + 1, 2 ** 62, 2 ** 63 - 1]


def budgets():
    b = set(SPECIAL_BUDGETS)
    for k in range(0, 41):
        b.update(x for x in (2 ** k - 1, 2 ** k, 2 ** k + 1))
    return sorted(b)


def gen_lpseq(c, tier):
    r = random.Random(c.seed * 11 + 5)
    exhaust_upto = 5000 if tier == "quick" else 70000
    lines = []
    bs = budgets()
    for b in bs:
        # white-box: counter after construction, after n Gets (= max - n), after Puts; the same for every budget
        lines.append("%d t g7 t p3 t g5 t p100 t g2 t" % b)
        if b <= exhaust_upto:
            # behavioural: EXACTLY b of b+3 Gets succeed; Put k; exactly k of k+2 succeed; Put everything; exactly b again
            k = r.randint(1, max(1, min(b, 50)))
            lines.append("%d t g%d t p%d t g%d t p%d t g%d t" % (b, b + 3, k, k + 2, b + 5, b + 1))
    for b in (-1, -3):              # outside the property's quantifier (maxTokens >= 0), the model still is the code
        lines.append("%d t g3 t" % b)
    for _ in range(200 if tier == "quick" else 4000):
        b = r.choice([r.choice(bs), r.randint(0, 40), r.randint(0, 40), r.randint(41, 3000)])
        toks = []
        for _ in range(r.randint(3, 12)):
            x = r.random()
            toks.append("t" if x < 0.3 else "g%d" % r.choice([1, 2, 3, r.randint(0, 60), b % 97]) if x < 0.7 else "p%d" % r.choice([1, 2, r.randint(0, 60)]))
        lines.append("%d %s" % (b, " ".join(toks)))
    return lines


def impl_tokens(line):
    """the Go side appends ' !<text>' to a g-token when an object clause is violated: glue it back"""
    out = []
    for t in line.split():
        if t.startswith("!") and out:
            out[-1] += " " + t
        else:
            out.append(t)
    return out


def lpseq(c, binary, tier):
    lines = gen_lpseq(c, tier)
    text = "\n".join(lines) + "\n"
    rc, impl, err = c.run_impl(binary, ["c14-lpseq"], text)
    model = c.run_model("limitpool-seq", text)
    objs = {}
    if impl and impl[-1].startswith("#"):
        objs = {k: int(v) for k, _, v in (kv.partition("=") for kv in impl[-1].split()[1:])}
        impl = impl[:-1]
    na = agree = 0
    reported = 0
    for i, l in enumerate(lines):
        ops = l.split()
        a = impl_tokens(impl[i]) if i < len(impl) else ["crash"]
        b = model[i].split() if i < len(model) else []
        k = next((j for j in range(max(len(a), len(b)))
                  if j >= len(a) or j >= len(b) or (a[j] != b[j] and a[j] != "tna")), None)
        na += a.count("tna")
        nontrivial = int(ops[0]) >= 5 and any(o.startswith("p") for o in ops[1:]) and any(o.startswith("g") for o in ops[1:])
        c.note_case("lpseq:" + l, nontrivial)
        if k is None:
            agree += 1
            continue
        if reported >= 4:
            continue
        reported += 1
        got, want = (a[k] if k < len(a) else None), (b[k] if k < len(b) else None)
        op = ops[1 + k] if 1 + k < len(ops) else "?"
        if got and "!" in got:
            kind, what = "object", "an object clause is violated: " + got.split("!", 1)[1].replace("_", " ")
        elif op == "t" and k == 0:
            kind, what = "constructor", "NewLimitPool(%s) leaves the token counter at %s, the model (tokens = maxTokens) has %s" % (ops[0], got, want)
        elif op == "t":
            kind, what = "counter", "the token counter is %s after %s, the model has %s (tokens = maxTokens - outstanding)" % (got, " ".join(ops[1:1 + k]), want)
        elif op.startswith("g"):
            kind, what = "bound", "%s of %s Gets succeeded, the model says exactly %s (maxTokens = %s)" % ((got or "?")[1:], op[1:], (want or "?")[1:], ops[0])
        else:
            kind, what = "put", "operation %s answers %r, the model %r" % (op, got, want)
        c.report("C14:limitpool:seq:" + kind, "LimitPool: " + what,
                 {"kind": "script", "case": " ".join(ops[:2 + k]), "implementation": a[:k + 1], "model": b[:k + 1],
                  "stderr": err[-600:] if rc != 0 else "",
                  "how": "echo '<case>' | h c14-lpseq   (format: <maxTokens> g<n Gets> | p<k Puts> | t = token counter)"})
    bs = budgets()
    c.cov["limitpool_seq"] = {"scripts": len(lines), "agree": agree, "budgets": len(bs), "budget_max": max(bs),
                              "budgets_exhausted_behaviourally": len([b for b in bs if b <= (5000 if tier == "quick" else 70000)]),
                              "counter_reads_not_available": na, "objects_returned": objs}
    c.cov["evaluations"] += len(lines)
    c.cov["traces_validated_against_impl"] += agree
    c.sample("limitpool script: " + lines[1][:200] + "  ->  " + (impl[1] if len(impl) > 1 else "?")[:200])


# ---------------------------------------------------------------------------------------------------------------
# SegmentKeysLock: the segment INDEX the implementation uses for a key (white-box: position of getLock(key) in s.locks,
# and every public method probed on that very mutex) against SegKeyModel.seg_index (`modelrun segkey-index`).
def gen_index(c, tier):
    r = random.Random(c.seed * 13 + 1)
    keys = list(KEYPOOL) + [b"y" * 1000, b"z" * 4096, bytes(range(256)) * 256, b"\xc3\x28", b"\xff" * 5, b"\xed\xa0\x80",
                            b"\xf8\x88\x80\x80\x80", b"\x80", "日本語のキー".encode(), "🔒".encode(), b"a\x00b", b"\x00\x00"]
    keys += [bytes(r.randrange(256) for _ in range(r.randint(1, 24))) for _ in range(12)]
    # hashes at the ends of the uint32 range (top bit set / nearly 2^32 / nearly 0), found by search from the seed
    hi = lo = 0
    n = 0
    while (hi < 3 or lo < 3) and n < 400000:
        k = b"k%d-%d" % (c.seed, n)
        n += 1
        h = fnv1a(k)
        if h >= 0xFFF00000 and hi < 3:
            keys.append(k)
            hi += 1
        elif h < 0x00100000 and lo < 3:
            keys.append(k)
            lo += 1
    sizes = [1, 2, 3, 7, 8, 1000, 65535, 65536, 65537, 2 ** 20 - 1, 2 ** 20, 2 ** 20 + 1] + [r.randint(1, 5000) for _ in range(8)]
    if tier != "quick":
        sizes += [2 ** 24 - 1, 2 ** 24 + 1] + [r.randint(1, 2 ** 20) for _ in range(20)]
    lines = []
    for sz in sorted(set(sizes)):
        for k in keys:
            lines.append(("%d %s" % (sz, k.hex())).strip())
    return lines, keys, sorted(set(sizes))


def segkey_index(c, binary, tier):
    lines, keys, sizes = gen_index(c, tier)
    text = "\n".join(lines) + "\n"
    rc, impl, err = c.run_impl(binary, ["c14-segkey-index"], text)
    model = c.run_model("segkey-index", text)
    agree = na = reported = 0
    for i, l in enumerate(lines):
        f = l.split()
        a = impl[i] if i < len(impl) else "crash"
        b = model[i] if i < len(model) else "?"
        c.note_case("ski:" + l, int(f[0]) >= 2 and len(f) > 1)
        if a == "na":
            na += 1
            continue
        if a == b:
            agree += 1
            continue
        if reported >= 3:
            continue
        reported += 1
        key = bytes.fromhex(f[1]) if len(f) > 1 else b""
        if a.split()[0] == b and "!" in a:
            c.report("C14:segkey:index:method", "SegmentKeysLock: with %s segments getLock(%r) is segment %s, but a public method does not work on that segment's mutex: %s"
                     % (f[0], key[:40], b, a.split(None, 1)[1]),
                     {"kind": "index", "case": l, "implementation": a, "model": b, "how": "echo '<case>' | h c14-segkey-index   (format: <segments> <hexkey>)"})
        else:
            c.report("C14:segkey:index", "SegmentKeysLock: with %s segments the key %r (FNV-1a %#x) uses segment %s, the model (hash mod size) says %s"
                     % (f[0], key[:40], fnv1a(key), a, b),
                     {"kind": "index", "case": l, "implementation": a, "model": b, "stderr": err[-600:] if rc != 0 else "",
                      "how": "echo '<case>' | h c14-segkey-index   (format: <segments> <hexkey>)"})
    hs = [fnv1a(k) for k in keys]
    c.cov["segkey_index"] = {"cases": len(lines), "agree": agree, "accessor_not_available": na, "sizes": sizes, "keys": len(keys),
                             "keys_hash_top_bit_set": len([h for h in hs if h >= 2 ** 31]), "keys_hash_ge_0xfff00000": len([h for h in hs if h >= 0xFFF00000]),
                             "keys_hash_lt_0x00100000": len([h for h in hs if h < 0x00100000]), "longest_key": max(len(k) for k in keys),
                             "not_reachable": "segment counts >= 2^31 (the lock array alone needs > 16 GiB)"}
    c.cov["evaluations"] += len(lines)
    c.cov["traces_validated_against_impl"] += agree


def main(tier):
    c = Check("C14", tier)
    c.proof_layer()
    c.ensure_modelrun()
    ov, labels = c.instrument()
    binary, log = (None, labels) if ov is None else c.build_harness(extra_overlay=ov, pkgs=["c14", "segkeyls", "lockstep"])
    if binary is None:
        c.report("C14:build", "instrumented harness does not build against /repo", {"kind": "build", "log": str(log)[-3000:]}, found_input=False)
        return finish(c)

    # ---- LimitPool: synchronisation skeleton + lock-step ----
    problems = c.check_labels("limitpool-lockstep", labels)
    nsched, maxev = (300, 60) if tier == "quick" else (6000, 120)
    rc, txt, merr, gerr = c.lockstep(binary, "limitpool-lockstep", ["run", c.seed, nsched, maxev])
    stats, tags, samples, mism = c.parse_lockstep_report(txt)
    c.cov["limitpool_lockstep"] = dict(stats, coverage_tags=tags)
    c.cov["evaluations"] += stats.get("schedules", 0)
    c.cov["traces_validated_against_impl"] += stats.get("schedules", 0) - stats.get("mismatches", 0)
    for i in range(stats.get("nontrivial", 0)):      # distinct schedules (hash of params+events) that hit a non-trivial tag, counted by the model runner
        c._distinct.add("lp%d" % i)
    for s in samples[:2]:
        c.sample("limitpool lock-step schedule: " + s[:600])
    broken = problems or mism or not stats
    configs = [(1, 4, 3000), (3, 8, 3000), (0, 4, 500), (2147483653, 2, 10)] if tier == "quick" else [(1, 8, 20000), (2, 16, 20000), (5, 16, 20000), (0, 8, 2000), (64, 32, 20000), (2147483653, 4, 100), (4294967296, 2, 10)]
    sbad = stress(c, binary, configs)
    c.cov["limitpool_stress"] = {"configs": configs, "violations": len(sbad)}
    for b in sbad:
        c.report("C14:limitpool:stress:" + ("highwater" if "high-water" in b["result"] else "conservation" if "quiescence" in b["result"] else "large-budget" if "although maxTokens" in b["result"] else "object" if b["result"].startswith("object:") else "other"),
                 "LimitPool: " + b["result"], dict(kind="stress-run", **b))
    if broken and not sbad:
        # the correspondence no longer holds; search harder before giving up
        more = stress(c, binary, [(m, g, 20000) for m in (1, 2, 3) for g in (2, 8, 32)])
        for b in more:
            c.report("C14:limitpool:stress:found", "LimitPool: " + b["result"], dict(kind="stress-run", **b))
        if not more:
            c.report("C14:limitpool:lockstep", "LimitPool no longer corresponds to its interleaving model (theorems lp_outstanding_le_max, lp_conservation_at_quiescence do not transfer)",
                     {"kind": "lockstep-correspondence", "skeleton_problems": problems[:10], "mismatches": mism[:3],
                      "model_stderr": merr[-500:], "go_stderr": gerr[-500:]}, found_input=False)

    # ---- LimitPool: budgets 0 .. 2^62 (constructor + exact bound + conservation + returned objects), sequential differential ----
    try:
        lpseq(c, binary, tier)
    except Exception:
        import traceback
        c.report("C14:limitpool:seq:crash", "check part limitpool-seq crashed", {"kind": "internal", "trace": traceback.format_exc()[-3000:]}, found_input=False)

    # ---- SegmentKeysLock: segment index of a key against seg_index ----
    try:
        segkey_index(c, binary, tier)
    except Exception:
        import traceback
        c.report("C14:segkey:index:crash", "check part segkey-index crashed", {"kind": "internal", "trace": traceback.format_exc()[-3000:]}, found_input=False)

    # ---- SegmentKeysLock under concurrency: first-use and blocking exclusion (search oracle, chaos mode) ----
    rounds, gor = (300, 4) if tier == "quick" else (5000, 8)
    p = subprocess.run([binary, "c14-segkey-stress", str(c.seed), str(rounds), str(gor)], stdout=subprocess.PIPE,
                       stderr=subprocess.PIPE, text=True, timeout=600, env=GOENV)
    sres = p.stdout.strip() or ("crash: " + p.stderr[-500:])
    c.cov["segkey_concurrent_stress"] = {"rounds": rounds, "goroutines": gor, "result": sres[:200]}
    if sres != "ok":
        c.report("C14:segkey:concurrent-exclusion", "SegmentKeysLock: " + sres,
                 {"kind": "stress-run", "result": sres, "how": "h c14-segkey-stress %d %d %d" % (c.seed, rounds, gor)})

    # ---- SegmentKeysLock: statement-granular interleaving model in lock-step (props/C14_segkeyls.v) ----
    try:
        import part_segkeyls
        part_segkeyls.run(c, binary, labels, tier, "c14")
    except Exception:
        import traceback
        c.report("C14:segkeyls:crash", "check part segkeyls crashed", {"kind": "internal", "trace": traceback.format_exc()[-3000:]}, found_input=False)

    # ---- SegmentKeysLock: sequential differential ----
    lines = gen_segkey(c, 500 if tier == "quick" else 20000, 40)
    text = "\n".join(lines) + "\n"
    rc, impl, err = c.run_impl(binary, ["c14-segkey"], text)
    model = c.run_model("segkey", text)
    bad = diff_lines(lines, impl, model)
    c.cov["segkey"] = {"histories": len(lines), "agree": len(lines) - len(bad),
                       "sizes": sorted(set(int(l.split()[0]) for l in lines))[:20]}
    for l in lines:
        ops = l.split()[1:]
        c.note_case("sk:" + l, len(ops) >= 5 and any(o.startswith(("unlock", "runlock")) for o in ops))
    c.cov["traces_validated_against_impl"] += len(lines) - len(bad)
    c.sample("segkey history: " + lines[0][:300])
    if rc != 0 and len(impl) < len(lines):
        i = len(impl)
        first = next((l for l in err.splitlines() if l.strip()), "")[:200]
        c.report("C14:segkey:fatal", "SegmentKeysLock: the run-time aborts (%s) on a history of legal lock operations — a lock the specification says is held is not the one being released" % first,
                 {"kind": "history", "case": lines[i], "stderr": err[:1500], "model": model[i] if i < len(model) else None,
                  "how": "echo '<case>' | h c14-segkey"})
        bad = []
    for i in bad[:3]:
        # model output is the exclusion specification itself: shortest failing prefix is the replay
        ops = lines[i].split()
        a = impl[i].split() if i < len(impl) else []
        b = model[i].split() if i < len(model) else []
        k = next((j for j in range(max(len(a), len(b))) if j >= len(a) or j >= len(b) or a[j] != b[j]), 0)
        c.report("C14:segkey:" + (ops[1 + k].split(":")[0] if 1 + k < len(ops) else "?"),
                 "SegmentKeysLock: operation %d answers %r, the per-key exclusion specification gives %r" % (
                     k, a[k] if k < len(a) else None, b[k] if k < len(b) else None),
                 {"kind": "history", "case": " ".join(ops[:2 + k]), "implementation": a[:k + 1], "model": b[:k + 1],
                  "how": "echo '<case>' | h c14-segkey   (format: <segments> op:hexkey ...)"})
    finish(c)


def finish(c):
    c.finish(
        level="proof",
        rule="LimitPool: lock-step schedules (model-chosen interleavings of Get/Put statements of 5 goroutines, maxTokens 0..4) each executed on the real "
             "goroutines; non-trivial = a step taken while another goroutine's failed decrement is not yet compensated; "
             "LimitPool scripts (NewLimitPool/Get/Put run alone) for every budget 2^k-1, 2^k, 2^k+1 (k <= 40), 1023..1025, 4095, 65535/6, 2^32-1..2^32+1, 2^62, 2^63-1: "
             "token counter read white-box after construction and after every block, budgets <= 5000 exhausted with budget+3 Gets (exactly maxTokens succeed), "
             "Put k / Get k+2, every returned object checked (non-nil, from the factory or Put, never held twice; nil with ok=false); "
             "segment index of 50+ keys (empty, 64 KiB, invalid UTF-8, hashes at both ends of uint32) x 20 sizes (1 .. 2^20+1) against seg_index; SegmentKeysLock: histories of "
             "TryLock/TryRLock/Lock/RLock/Unlock/RUnlock over 1..64 segments and colliding / empty / long / non-ASCII keys; non-trivial = at least 5 ops incl. a release",
        assumptions=["fewer than 2^63 - maxTokens simultaneous callers (atomic.Int64 counter since fix 4eb4c45), 0 <= maxTokens < 2^63",
                     "sync/atomic.Int32.Add is atomic and sequentially consistent; sync.RWMutex satisfies the rw specification of SegKeyModel.v (trusted)",
                     "interleavings inside one Go statement are not modelled (each LimitPool statement contains at most one atomic operation)"],
        trusted_base=["Coq 8.16.1 kernel + vm_compute", "extraction ExtrOcamlBasic only", "tools/instrument (yield points), hooks/verifhook, harness/lockstep controller",
                      "ocaml/lockstep.ml + drv_limitpool.ml (label table, limitpool-seq), drv_segkey.ml, checks/c14.py",
                      "hooks/syncx/x_c14_verif.go (read-only accessors: token counter, position of getLock(key) in s.locks)"])


if __name__ == "__main__":
    import sys
    main(sys.argv[1] if len(sys.argv) > 1 else "quick")
