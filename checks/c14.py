"""C14 — LimitPool bound/conservation (lock-step against the interleaving model) and
SegmentKeysLock per-key exclusion (sequential differential against the FNV/RWMutex model)."""
import random
import subprocess

from common import Check, diff_lines, GOENV


def fnv1a(b):
    h = 2166136261
    for x in b:
        h = ((h ^ x) * 16777619) & 0xFFFFFFFF
    return h


KEYPOOL = [b"", b"a", b"b", b"ab", b"ba", b"key", b"key2", "键".encode(), "ключ".encode(), b"\x00", b"\xff\xfe",
           b"x" * 300, b"x" * 301, b"user:1", b"user:2", b"user:10", b"order/42", b" ", b"A", b"a "]


def gen_segkey(c, n, maxops):
    """Histories of non-blocking lock operations; a generator-side mirror keeps Unlock/RUnlock legal
    (an unlock of an unlocked sync.RWMutex is an unrecoverable fatal error, not a property matter)."""
    r = random.Random(c.seed * 7 + 3)
    lines = []
    for _ in range(n):
        size = r.choice([1, 1, 2, 3, 4, 5, 7, 8, 16, 31, 32, 64, r.randint(1, 64)])
        keys = r.sample(KEYPOOL, r.randint(1, 6)) + [bytes(r.randrange(256) for _ in range(r.randint(0, 12))) for _ in range(r.randint(0, 3))]
        w, rd = {}, {}
        ops = []
        for _ in range(r.randint(1, maxops)):
            k = r.choice(keys)
            i = fnv1a(k) % size
            choice = r.random()
            if choice < 0.25:
                op = "trylock"
                if not w.get(i) and not rd.get(i):
                    w[i] = True
            elif choice < 0.45:
                op = "tryrlock"
                if not w.get(i):
                    rd[i] = rd.get(i, 0) + 1
            elif choice < 0.55:
                op = "lock"
                if not w.get(i) and not rd.get(i):
                    w[i] = True
            elif choice < 0.65:
                op = "rlock"
                if not w.get(i):
                    rd[i] = rd.get(i, 0) + 1
            elif choice < 0.85:
                held = [kk for kk in keys if w.get(fnv1a(kk) % size)]
                if not held:
                    continue
                k = r.choice(held)
                w[fnv1a(k) % size] = False
                op = "unlock"
            else:
                held = [kk for kk in keys if rd.get(fnv1a(kk) % size)]
                if not held:
                    continue
                k = r.choice(held)
                rd[fnv1a(k) % size] -= 1
                op = "runlock"
            ops.append("%s:%s" % (op, k.hex()))
        lines.append("%d %s" % (size, " ".join(ops)))
    return lines


def stress(c, binary, configs):
    """search oracle (not a proof): chaos-mode hammering of the real LimitPool"""
    bad = []
    for (m, g, n) in configs:
        p = subprocess.run([binary, "c14-stress", str(c.seed), str(m), str(g), str(n)], stdout=subprocess.PIPE,
                           stderr=subprocess.PIPE, text=True, timeout=300, env=GOENV)
        out = p.stdout.strip() or ("crash: " + p.stderr[-500:])
        if out != "ok":
            bad.append({"maxTokens": m, "goroutines": g, "ops": n, "result": out,
                        "how": "h c14-stress %d %d %d %d" % (c.seed, m, g, n)})
    return bad


def main(tier):
    c = Check("C14", tier)
    c.proof_layer()
    c.ensure_modelrun()
    ov, labels = c.instrument()
    binary, log = (None, labels) if ov is None else c.build_harness(extra_overlay=ov, pkgs=["c14", "segkeyls", "lockstep"])
    if binary is None:
        c.report("C14:build", "instrumented harness does not build against /repo", {"kind": "build", "log": str(log)[-3000:]}, found_input=False)
        return finish(c)

    # ---- LimitPool: synchronisation skeleton + lock-step ----
    problems = c.check_labels("limitpool-lockstep", labels)
    nsched, maxev = (300, 60) if tier == "quick" else (6000, 120)
    rc, txt, merr, gerr = c.lockstep(binary, "limitpool-lockstep", ["run", c.seed, nsched, maxev])
    stats, tags, samples, mism = c.parse_lockstep_report(txt)
    c.cov["limitpool_lockstep"] = dict(stats, coverage_tags=tags)
    c.cov["evaluations"] += stats.get("schedules", 0)
    c.cov["traces_validated_against_impl"] += stats.get("schedules", 0) - stats.get("mismatches", 0)
    for i in range(stats.get("nontrivial", 0)):      # distinct schedules (hash of params+events) that hit a non-trivial tag, counted by the model runner
        c._distinct.add("lp%d" % i)
    for s in samples[:2]:
        c.sample("limitpool lock-step schedule: " + s[:600])
    broken = problems or mism or not stats
    configs = [(1, 4, 3000), (3, 8, 3000), (0, 4, 500), (2147483653, 2, 10)] if tier == "quick" else [(1, 8, 20000), (2, 16, 20000), (5, 16, 20000), (0, 8, 2000), (64, 32, 20000), (2147483653, 4, 100), (4294967296, 2, 10)]
    sbad = stress(c, binary, configs)
    c.cov["limitpool_stress"] = {"configs": configs, "violations": len(sbad)}
    for b in sbad:
        c.report("C14:limitpool:stress:" + ("highwater" if "high-water" in b["result"] else "conservation" if "quiescence" in b["result"] else "large-budget" if "although maxTokens" in b["result"] else "other"),
                 "LimitPool: " + b["result"], dict(kind="stress-run", **b))
    if broken and not sbad:
        # the correspondence no longer holds; search harder before giving up
        more = stress(c, binary, [(m, g, 20000) for m in (1, 2, 3) for g in (2, 8, 32)])
        for b in more:
            c.report("C14:limitpool:stress:found", "LimitPool: " + b["result"], dict(kind="stress-run", **b))
        if not more:
            c.report("C14:limitpool:lockstep", "LimitPool no longer corresponds to its interleaving model (theorems lp_outstanding_le_max, lp_conservation_at_quiescence do not transfer)",
                     {"kind": "lockstep-correspondence", "skeleton_problems": problems[:10], "mismatches": mism[:3],
                      "model_stderr": merr[-500:], "go_stderr": gerr[-500:]}, found_input=False)

    # ---- SegmentKeysLock under concurrency: first-use and blocking exclusion (search oracle, chaos mode) ----
    rounds, gor = (300, 4) if tier == "quick" else (5000, 8)
    p = subprocess.run([binary, "c14-segkey-stress", str(c.seed), str(rounds), str(gor)], stdout=subprocess.PIPE,
                       stderr=subprocess.PIPE, text=True, timeout=600, env=GOENV)
    sres = p.stdout.strip() or ("crash: " + p.stderr[-500:])
    c.cov["segkey_concurrent_stress"] = {"rounds": rounds, "goroutines": gor, "result": sres[:200]}
    if sres != "ok":
        c.report("C14:segkey:concurrent-exclusion", "SegmentKeysLock: " + sres,
                 {"kind": "stress-run", "result": sres, "how": "h c14-segkey-stress %d %d %d" % (c.seed, rounds, gor)})

    # ---- SegmentKeysLock: statement-granular interleaving model in lock-step (props/C14_segkeyls.v) ----
    try:
        import part_segkeyls
        part_segkeyls.run(c, binary, labels, tier, "c14")
    except Exception:
        import traceback
        c.report("C14:segkeyls:crash", "check part segkeyls crashed", {"kind": "internal", "trace": traceback.format_exc()[-3000:]}, found_input=False)

    # ---- SegmentKeysLock: sequential differential ----
    lines = gen_segkey(c, 500 if tier == "quick" else 20000, 40)
    text = "\n".join(lines) + "\n"
    rc, impl, err = c.run_impl(binary, ["c14-segkey"], text)
    model = c.run_model("segkey", text)
    bad = diff_lines(lines, impl, model)
    c.cov["segkey"] = {"histories": len(lines), "agree": len(lines) - len(bad),
                       "sizes": sorted(set(int(l.split()[0]) for l in lines))[:20]}
    for l in lines:
        ops = l.split()[1:]
        c.note_case("sk:" + l, len(ops) >= 5 and any(o.startswith(("unlock", "runlock")) for o in ops))
    c.cov["traces_validated_against_impl"] += len(lines) - len(bad)
    c.sample("segkey history: " + lines[0][:300])
    if rc != 0 and len(impl) < len(lines):
        i = len(impl)
        first = next((l for l in err.splitlines() if l.strip()), "")[:200]
        c.report("C14:segkey:fatal", "SegmentKeysLock: the run-time aborts (%s) on a history of legal lock operations — a lock the specification says is held is not the one being released" % first,
                 {"kind": "history", "case": lines[i], "stderr": err[:1500], "model": model[i] if i < len(model) else None,
                  "how": "echo '<case>' | h c14-segkey"})
        bad = []
    for i in bad[:3]:
        # model output is the exclusion specification itself: shortest failing prefix is the replay
        ops = lines[i].split()
        a = impl[i].split() if i < len(impl) else []
        b = model[i].split() if i < len(model) else []
        k = next((j for j in range(max(len(a), len(b))) if j >= len(a) or j >= len(b) or a[j] != b[j]), 0)
        c.report("C14:segkey:" + (ops[1 + k].split(":")[0] if 1 + k < len(ops) else "?"),
                 "SegmentKeysLock: operation %d answers %r, the per-key exclusion specification gives %r" % (
                     k, a[k] if k < len(a) else None, b[k] if k < len(b) else None),
                 {"kind": "history", "case": " ".join(ops[:2 + k]), "implementation": a[:k + 1], "model": b[:k + 1],
                  "how": "echo '<case>' | h c14-segkey   (format: <segments> op:hexkey ...)"})
    finish(c)


def finish(c):
    c.finish(
        level="proof",
        rule="LimitPool: lock-step schedules (model-chosen interleavings of Get/Put statements of 5 goroutines, maxTokens 0..4) each executed on the real "
             "goroutines; non-trivial = a step taken while another goroutine's failed decrement is not yet compensated; SegmentKeysLock: histories of "
             "TryLock/TryRLock/Lock/RLock/Unlock/RUnlock over 1..64 segments and colliding / empty / long / non-ASCII keys; non-trivial = at least 5 ops incl. a release",
        assumptions=["fewer than 2^31 - maxTokens simultaneous callers (int32 counter), 0 <= maxTokens < 2^31",
                     "sync/atomic.Int32.Add is atomic and sequentially consistent; sync.RWMutex satisfies the rw specification of SegKeyModel.v (trusted)",
                     "interleavings inside one Go statement are not modelled (each LimitPool statement contains at most one atomic operation)"],
        trusted_base=["Coq 8.16.1 kernel + vm_compute", "extraction ExtrOcamlBasic only", "tools/instrument (yield points), hooks/verifhook, harness/lockstep controller",
                      "ocaml/lockstep.ml + drv_limitpool.ml (label table), drv_segkey.ml, checks/c14.py"])


if __name__ == "__main__":
    import sys
    main(sys.argv[1] if len(sys.argv) > 1 else "quick")
