"""DelayQueue part of the checks of C08 / C09 (see CONC_TASK.md): synchronisation skeleton, lock-step
correspondence of the real DelayQueue with coq/theories/model/DQModel.v (fake timers fired by the
model, virtual clock), and the real-time stress/monitor command c08-dq-stress as search oracle
(real timers, GODEBUG=asynctimerchan=0 and =1)."""
import os
import re
import subprocess

from common import GOENV

OBJ = "dq"
THEOREMS = {
    "c08": "dq_dequeue_not_early, dq_dequeue_earliest, dq_exactly_once, dq_len_le_capacity, dq_ctx_error_has_no_effect",
    "c09": "dq_no_lost_wakeup, dq_stuck_implies_cannot_proceed, dq_new_earlier_element_wakes_waiter, dq_cancel_enables",
}


def stress(c, binary, configs, timeout=240):
    """c08-dq-stress under both timer-channel semantics; returns the list of monitor hits"""
    hits, runs = [], 0
    for cfg in configs:
        for g in ("1", "0"):
            env = dict(GOENV, GODEBUG="asynctimerchan=" + g)
            args = ([cfg[0], str(c.seed)] + [str(x) for x in cfg[1:]]) if cfg and cfg[0] in ("wake", "extreme", "cancelwake", "bulk", "delayhook") else [str(c.seed)] + [str(x) for x in cfg]
            runs += 1
            try:
                p = subprocess.run([binary, "c08-dq-stress"] + args, stdout=subprocess.PIPE, stderr=subprocess.PIPE,
                                   text=True, timeout=timeout, env=env)
                out, err = p.stdout.strip(), p.stderr
            except subprocess.TimeoutExpired:
                out, err = "VIOLATION hang: the stress command itself did not finish within %d s" % timeout, ""
            lines = [l for l in out.splitlines() if l.startswith("VIOLATION ")]
            if not out.startswith("ok") and not lines:
                lines = ["VIOLATION crash: " + (out or err)[-400:]]
            for l in lines[:3]:
                kind = l.split()[1].rstrip(":")
                hits.append({"kind": kind, "result": l[len("VIOLATION "):][:400], "asynctimerchan": g,
                             "how": "GODEBUG=asynctimerchan=%s h c08-dq-stress %s   (args: seed capacity producers consumers perProducer [maxDelayMs tolMs cancelPct] | wake seed consumers [rounds] | extreme seed [rounds] | cancelwake seed [rounds] | bulk seed [N ...] | delayhook seed [rounds])" % (g, " ".join(args)),
                             "goroutine_dump": err[-3000:] if kind in ("hang", "late-wakeup", "late-cancel", "capacity-after-cancel") or kind.startswith("lost-wakeup") else ""})
    return hits, runs


def early_release_in_mismatch(m):
    """A lock-step disagreement whose observed return is an element that has not expired on the
    virtual clock is itself a concrete C08 violation (the schedule is the replay)."""
    events = re.findall(r"^    (.+)$", m, re.M)
    now = sum(int(e.split()[1]) for e in events if e.startswith("TICK "))
    obs = re.search(r"observed: (.*)", m)
    if not obs:
        return None
    for tid, idv, dl in re.findall(r"(\d+) ret val:(-?\d+):(-?\d+)", obs.group(1)):
        if int(dl) > now:
            return {"tid": int(tid), "element": int(idv), "deadline": int(dl), "virtual_now": now}
    return None


def run(c, binary, labels, tier, focus):
    pid = c.pid
    model = "dq-c09-lockstep" if focus == "c09" else "dq-lockstep"
    # 1. synchronisation skeleton
    problems = c.check_labels("dq-lockstep", labels)
    # 2. lock-step
    nsched, maxev = (250, 900) if tier == "quick" else (5000, 900)
    rc, txt, merr, gerr = c.lockstep(binary, model, ["run", c.seed, nsched, maxev])
    stats, tags, samples, mism = c.parse_lockstep_report(txt)
    c.cov["dq_lockstep"] = dict(stats, model=model, coverage_tags=tags,
                                parameters="capacity 0 (unbounded) / 1 / 2, 2-4 goroutines, deadlines already expired / soon / far (all distinct), "
                                           "TICK interleaved, FIRE when the model's clock allows it (owner parked or not: stale tick), CANCEL at every yield point; "
                                           "1/4 of the schedules start with a scripted stale-tick or earlier-element scenario")
    c.cov["evaluations"] += stats.get("schedules", 0)
    c.cov["traces_validated_against_impl"] += stats.get("schedules", 0) - stats.get("mismatches", 0)
    for i in range(stats.get("nontrivial", 0)):
        c._distinct.add("dq:%s:%d" % (focus, i))
    for s in samples[:1]:
        c.sample("DelayQueue lock-step schedule: " + s[:700])
    broken = bool(problems or mism or not stats)
    # 3. real-time stress / monitors (dynamic complement; search when the correspondence is broken)
    if tier == "quick":
        configs = [(0, 4, 4, 120), (2, 4, 4, 120), (1, 3, 2, 60, 20, 5, 10)]
    else:
        configs = [(0, 8, 8, 500), (0, 2, 6, 400, 5), (1, 4, 4, 300), (2, 6, 3, 300), (3, 4, 8, 400, 40), (1, 3, 2, 200, 20, 5, 15), (0, 4, 4, 300, 20, 5, 15)]
    # directed scenario (C09): consumers blocked on a far head, a sooner / already expired element arrives
    configs += [("wake", 1), ("wake", 3)] if tier == "quick" else [("wake", 1, 4), ("wake", 3, 4), ("wake", 8, 3)]
    # directed scenario (C08): saturating delays (zero deadline = MinInt64, year 9999 = MaxInt64) mixed with ordinary ones
    configs += [("extreme",)] if tier == "quick" else [("extreme", 6)]
    # directed scenario (C08): bulk fill in shuffled order / drain against a sorted reference, with refills (grow / shrink cycles of the inner heap)
    if focus != "c09":
        configs += [("bulk", 100, 300, 1000)] if tier == "quick" else [("bulk", 100, 300, 1000, 2500), ("bulk", 64, 65, 129, 257, 513)]
    # directed scenario (C09): full bounded queue, parked producers, Dequeue and cancellation of a producer back to back
    configs += [("cancelwake", 2)] if tier == "quick" else [("cancelwake", 12)]
    # directed scenario (C09): an expired element is enqueued while the consumer evaluates the head's Delay() (hooked element type)
    configs += [("delayhook", 2)] if tier == "quick" else [("delayhook", 8)]
    hits, runs = stress(c, binary, configs)
    if broken and not hits:
        more = [(cap, p, cn, 400, d) for cap in (0, 1, 2) for (p, cn) in ((1, 4), (4, 1), (6, 6)) for d in (3, 20)]
        h2, r2 = stress(c, binary, more)
        hits += h2
        runs += r2
    c.cov["dq_stress"] = {"runs": runs, "monitor_hits": len(hits), "timer_semantics": ["asynctimerchan=1", "asynctimerchan=0"],
                          "monitors": ["early", "once", "cap", "hang", "order(tolerance)", "ctxeffect", "late-wakeup (directed scenario wake)", "order / late-wakeup / early with saturating delays (directed scenario extreme)", "lost-wakeup:enqueue / late-cancel / capacity-after-cancel (directed scenario cancelwake)", "not-earliest / early / once against a sorted reference (directed scenario bulk-order, focus c08)", "lost-wakeup:dequeue (directed scenario enqueue-during-delay, hooked Delay())"]}
    # 4. report
    found = False
    for m in mism[:3]:
        e = early_release_in_mismatch(m)
        if e:
            found = True
            c.report("%s:dq:early" % pid,
                     "DelayQueue.Dequeue returned element %d (deadline %d) at virtual time %d: released before its expiry" % (e["element"], e["deadline"], e["virtual_now"]),
                     {"kind": "lockstep-schedule", "schedule": m[:4000], "detail": e,
                      "how": "write 'PARAMS <params>' + the event lines to a file and run checks/common.Check.lockstep(binary, 'dq-lockstep', ['replay', file])"})
    for h in hits:
        found = True
        c.report("%s:dq:%s" % (pid, h["kind"]), "DelayQueue (real time, asynctimerchan=%s): %s" % (h["asynctimerchan"], h["result"]),
                 dict(h, kind="stress-run", monitor=h["kind"]))
    if broken and not found:
        c.report("%s:dq:lockstep" % pid,
                 "DelayQueue no longer corresponds to its interleaving model (theorems %s do not transfer)" % THEOREMS.get(focus, THEOREMS["c08"]),
                 {"kind": "lockstep-correspondence", "skeleton_problems": problems[:10], "mismatches": [m[:3000] for m in mism[:3]],
                  "model_stderr": merr[-500:], "go_stderr": gerr[-500:]}, found_input=False)
