"""Shared correspondence machinery of C01 (tree-backed containers refine an abstract sorted map) and
C02 (the red-black tree stays balanced): history generation, running the Go harness (harness/c01) and the
extracted model (ocaml/drv_rb.ml) on the same histories, comparing the records, the search layers
(abstract-map oracle for C01, invariant walker on the implementation's dump for C02), minimisation,
the bounded-exhaustive run and the vm_compute cross-check of the extraction.

Record per op (both sides print the same text):  ret;len;keys;vals;shape;sizefield;parentflag;calls
  C01 observables = fields 0..3 (return value, Size()/Len(), KeyValues()/Keys()/Values())
  C02 observables = fields 4..7 (exact shape+colours, size field, parent-pointer flag, comparator calls)
"""
import bisect
import math
import random
import re
import time

from common import Check, coq_z, coq_list

CONTS = ["rb", "tm", "ts"]
CMPS = ["asc", "desc", "half", "str"]
INS_PATTERNS = ["random", "asc", "desc", "zigzag_out", "zigzag_in"]
DEL_PATTERNS = ["random", "min", "max", "zigzag", "mid"]
API = (0, 1, 2, 3)
WHITE = (4, 5, 6, 7)
FIELD = ["return value", "Size()/Len()", "keys", "values", "shape+colours", "size field", "parent-pointer flag",
         "comparator calls"]
CONT_NAME = {"rb": "tree.RBTree", "tm": "mapx.TreeMap", "ts": "set.TreeSet"}
OPNAME = {("rb", "a"): "Add", ("rb", "d"): "Delete", ("rb", "f"): "Find", ("rb", "s"): "Set",
          ("tm", "p"): "Put", ("tm", "g"): "Get", ("tm", "d"): "Delete",
          ("ts", "a"): "Add", ("ts", "d"): "Delete", ("ts", "e"): "Exist"}


# --------------------------------------------------------------------------- generation
class Hist:
    """Generator state of one history: the live equivalence classes (sorted) and the key stored for each."""

    def __init__(self, r, cont, cmpn, max_size, nops, ins_pat, del_pat, big=False, sparse=False):
        self.r, self.cont, self.cmpn = r, cont, cmpn
        self.sparse, self.obs, self.quiet, self.obs_next = sparse, [], False, False
        self.max_size, self.nops, self.ins_pat, self.del_pat, self.big = max_size, nops, ins_pat, del_pat, big
        self.live = []
        self.hi_next, self.lo_next = 1, 0
        self.zin_lo, self.zin_hi = -max_size - 2, max_size + 2
        self.flip = 0
        self.ops = []
        self.kinds = {}
        self.mutations = 0
        self.peak = 0

    def key_of(self, cl):
        return 2 * cl + self.r.randint(0, 1) if self.cmpn == "half" else cl

    def has(self, cl):
        i = bisect.bisect_left(self.live, cl)
        return i < len(self.live) and self.live[i] == cl

    def fresh(self):
        r, pat = self.r, self.ins_pat
        if pat == "zigzag_out":
            self.flip ^= 1
            pat = "asc" if self.flip else "desc"
        if pat == "zigzag_in":
            self.flip ^= 1
            for _ in range(4):
                if self.zin_lo >= self.zin_hi:
                    break
                if self.flip:
                    cl, self.zin_lo = self.zin_lo, self.zin_lo + 1
                else:
                    cl, self.zin_hi = self.zin_hi, self.zin_hi - 1
                if not self.has(cl):
                    return cl
            pat = "random"
        if pat == "asc":
            cl = max(self.hi_next, (self.live[-1] + 1) if self.live else self.hi_next)
            self.hi_next = cl + 1
            return cl
        if pat == "desc":
            cl = min(self.lo_next, (self.live[0] - 1) if self.live else self.lo_next)
            self.lo_next = cl - 1
            return cl
        u = max(8, 2 * self.max_size)
        for _ in range(30):
            cl = r.randint(-u, u)
            if not self.has(cl):
                return cl
        return (self.live[-1] + 1) if self.live else 0

    def present(self):
        r, pat, live = self.r, self.del_pat, self.live
        if pat == "zigzag":
            self.flip ^= 1
            pat = "min" if self.flip else "max"
        if pat == "min":
            return live[0]
        if pat == "max":
            return live[-1]
        if pat == "mid":
            return live[len(live) // 2]
        return r.choice(live)

    def absent(self):
        r, live = self.r, self.live
        if live and r.random() < 0.3:
            return r.choice([live[0] - 1, live[-1] + 1])
        u = max(8, 2 * self.max_size)
        for _ in range(30):
            cl = r.randint(-u - 3, u + 3)
            if not self.has(cl):
                return cl
        return (live[-1] + 1) if live else 0

    def emit(self, op, cl, kind, with_val=False):
        s = "%s,%d" % (op, self.key_of(cl))
        if with_val:
            s += ",%d" % self.r.randint(0, 999)
        self.ops.append(s)
        self.kinds[kind] = self.kinds.get(kind, 0) + 1
        if self.sparse:      # observation bit of this op: runs of size-neutral mutations stay unobserved
            bit = "0" if self.quiet else "1" if self.obs_next else ("1" if self.r.random() < 1 / 3 else "0")
            if not self.quiet:
                self.obs_next = False
            self.obs.append(bit)

    def const_run(self):
        """2-5 unobserved mutations that leave the size where it was (Delete-then-Add / Delete-then-Put pairs,
        optionally a value update), followed by an observed op: a cache refreshed only 'when the size changed'
        or 'when somebody looks' is stale at that observation."""
        r, cont = self.r, self.cont
        self.quiet = True
        for _ in range(r.choice([1, 1, 2])):
            cl = self.present()
            self.live.remove(cl)
            self.emit("d", cl, "sparse_delete")
            if r.random() < 0.4:
                back = cl                       # the same key (or, by-half, possibly its equal twin) comes back
            else:
                back = self.fresh()
            bisect.insort(self.live, back)
            self.emit({"rb": "a", "tm": "p", "ts": "a"}[cont], back, "sparse_insert", cont != "ts")
            self.mutations += 2
        if cont != "ts" and r.random() < 0.5:
            self.emit({"rb": "s", "tm": "p"}[cont], r.choice(self.live), "sparse_value_update", True)
        self.quiet = False
        self.obs_next = True

    def step(self, i):
        r, cont = self.r, self.cont
        frac = i / max(1, self.nops)
        growing = frac < 0.45
        draining = frac >= 0.75
        if self.big and (growing or draining):
            pv, pd = 0.86, 0.07
        else:
            pv, pd = 0.60, 0.20
        x = r.random()
        cat = "valid" if x < pv else "dup" if x < pv + pd else "absent"
        if not self.live and cat == "dup":
            cat = "valid"
        if cat == "valid":
            if not self.live or r.random() < 0.78:
                if growing:
                    p_ins = 0.88 if len(self.live) < self.max_size else 0.45
                elif draining:
                    p_ins = 0.15
                else:
                    p_ins = 0.5 if len(self.live) < self.max_size else 0.3
                if not self.live or r.random() < p_ins:
                    cl = self.fresh()
                    bisect.insort(self.live, cl)
                    self.emit({"rb": "a", "tm": "p", "ts": "a"}[cont], cl, "insert_fresh", cont != "ts")
                else:
                    cl = self.present()
                    self.live.remove(cl)
                    self.emit("d", cl, "delete_present")
                self.mutations += 1
                self.peak = max(self.peak, len(self.live))
            else:
                cl = r.choice(self.live)
                if cont == "rb":
                    if r.random() < 0.5:
                        self.emit("f", cl, "find_present")
                    else:
                        self.emit("s", cl, "set_present", True)
                elif cont == "tm":
                    if r.random() < 0.5:
                        self.emit("g", cl, "get_present")
                    else:
                        self.emit("p", cl, "put_update", True)
                else:
                    self.emit("e", cl, "exist_present")
        elif cat == "dup":
            cl = r.choice(self.live) if self.ins_pat == "random" or r.random() < 0.5 else self.present()
            self.emit({"rb": "a", "tm": "p", "ts": "a"}[cont], cl, "insert_duplicate", cont != "ts")
        else:
            cl = self.absent()
            if cont == "rb":
                o = r.choice(["d", "f", "s"])
                self.emit(o, cl, {"d": "delete_absent", "f": "find_absent", "s": "set_absent"}[o], o == "s")
            elif cont == "tm":
                o = r.choice(["d", "g"])
                self.emit(o, cl, {"d": "delete_absent", "g": "get_absent"}[o])
            else:
                o = r.choice(["d", "e"])
                self.emit(o, cl, {"d": "delete_absent", "e": "exist_absent"}[o])

    def build(self):
        for i in range(self.nops):
            if self.sparse and len(self.live) >= 2 and self.r.random() < 0.12:
                self.const_run()
            else:
                self.step(i)
        if self.sparse and self.obs:
            self.obs[-1] = "1"
        return self

    def header(self):
        return "m:" + "".join(self.obs) if self.sparse else str(stride_for(self.max_size))


def stride_for(size):
    return 1 if size <= 64 else max(2, size // 25)


def gen_histories(c, tier):
    """The random part of the run: list of (case line, Hist)."""
    r = random.Random(c.seed * 7919 + 17)
    plan = []
    if tier == "quick":
        plan += [("small", 400)]
    else:
        plan += [("small", 18600), ("medium", 1200), ("large", 200)]
    out = []
    for cls, n in plan:
        for j in range(n):
            cont = CONTS[j % 3] if r.random() < 0.5 else r.choice(CONTS)
            cmpn = r.choice(CMPS)
            ins_pat, del_pat = r.choice(INS_PATTERNS), r.choice(DEL_PATTERNS)
            if cls == "small":
                size = r.randint(1, 40) if tier == "quick" else r.randint(1, 64)
                nops = r.randint(8, 80) if tier == "quick" else r.randint(8, 140)
                big = False
            elif cls == "medium":
                size = r.randint(65, 300)
                nops = int(size * r.uniform(3.4, 4.4))
                big = True
            else:
                size = r.choice([r.randint(301, 2000), r.randint(1500, 2000)])
                nops = int(size * r.uniform(4.0, 4.6))
                big = True
            h = Hist(r, cont, cmpn, size, nops, ins_pat, del_pat, big).build()
            h.cls = cls
            out.append(("%s %s %d %s" % (cont, cmpn, stride_for(size), " ".join(h.ops)), h))
    return out


def gen_sparse(c, tier):
    """Sparse-observation histories: the full-state observers (KeyValues/Keys/Values/Len/Size and the
    white-box dump) run only after ~1/3 of the ops and never inside the size-neutral runs of const_run();
    each op's own return value and comparator-call count are still compared at every step."""
    r = random.Random(c.seed * 104729 + 71)
    out = []
    for j in range(240 if tier == "quick" else 6000):
        cont = CONTS[j % 3]
        size = r.randint(2, 40)
        h = Hist(r, cont, r.choice(CMPS), size, r.randint(10, 90), r.choice(INS_PATTERNS), r.choice(DEL_PATTERNS),
                 False, sparse=True).build()
        h.cls = "sparse"
        out.append(("%s %s %s %s" % (cont, h.cmpn, h.header(), " ".join(h.ops)), h))
    return out


def case_items(ln):
    """case line -> (container, comparator, [(op, observed bit)]) whatever the header form."""
    f = ln.split()
    ops = f[3:]
    if f[2].startswith("m:"):
        bits = f[2][2:].ljust(len(ops), "0")
    else:
        st = max(1, int(f[2]))
        bits = "".join("1" if ((i + 1) % st == 0 or i == len(ops) - 1) else "0" for i in range(len(ops)))
    return f[0], f[1], list(zip(ops, bits))


def line_of(cont, cmpn, items):
    """the case line that replays these (op, bit) items with exactly the same observation pattern"""
    return "%s %s m:%s %s" % (cont, cmpn, "".join(b for _, b in items), " ".join(o for o, _ in items))


def compact_items(items, cmpn):
    return list(zip(compact_keys([o for o, _ in items], cmpn), [b for _, b in items]))


# --------------------------------------------------------------------------- running
def run_impl(c, binary, lines, timeout=1500):
    """Run the harness; a history on which the implementation hangs, exhausts memory or crashes ends the
    process (watchdog in harness/c01) — it is recorded as such and the run resumes with the next history."""
    out, hangs = [], 0
    while len(out) < len(lines):
        rest = lines[len(out):]
        try:
            rc, impl, err = c.run_impl(binary, ["c01"], "\n".join(rest) + "\n", timeout=timeout)
        except Exception as e:          # subprocess timeout
            rc, impl, err = -1, [], str(e)
        out += impl[:len(rest)]
        if len(out) >= len(lines):
            break
        hangs += 1
        out.append("<hang-or-crash rc=%s %s>" % (rc, err[-200:].replace("\n", " ").replace(";", ",").replace("|", "/")))
        if hangs >= 6:
            out += ["<skipped after 6 hangs>"] * (len(lines) - len(out))
    return out


def is_abort(rec0):
    return rec0 == "panic" or rec0.startswith("<")


def run_pair(c, binary, lines, timeout=1500):
    text = "\n".join(lines) + "\n"
    impl = run_impl(c, binary, lines, timeout)
    model = c.run_model("rb", text, timeout=timeout)
    cov = {}
    if model and model[-1].startswith("#cov"):
        for kv in model[-1].split()[1:]:
            k, v = kv.split("=")
            cov[k] = int(v)
        model = model[:-1]
    return impl, model, cov


def run_spec(c, lines):
    return c.run_model(["rb", "spec"], "\n".join(lines) + "\n")


def records(line):
    return [rec.split(";") for rec in line.split("|")]


def canon_rec(cont, rec):
    """TreeSet.Keys is documented as unordered: compare it as a set (sorted)."""
    if cont == "ts" and len(rec) > 2 and rec[2] not in ("~", "-"):
        try:
            rec = list(rec)
            rec[2] = ",".join(str(k) for k in sorted(int(x) for x in rec[2].split(",")))
        except ValueError:
            pass
    return rec


def first_diff(cont, impl_line, other_line, fields):
    """(op index, field index, impl record, other record) of the first disagreement on the given fields."""
    a, b = records(impl_line), records(other_line)
    for i in range(max(len(a), len(b))):
        if i >= len(a) or i >= len(b):
            return i, fields[0], a[i] if i < len(a) else ["<missing>"], b[i] if i < len(b) else ["<missing>"]
        ra, rb_ = canon_rec(cont, a[i]), canon_rec(cont, b[i])
        for f in fields:
            va = ra[f] if f < len(ra) else "<missing>"
            vb = rb_[f] if f < len(rb_) else "<missing>"
            if va != vb:
                return i, f, ra, rb_
    return None


# --------------------------------------------------------------------------- the walker (C02 search oracle)
TOK = re.compile(r"\(|\)|\.|[^\s().]+")


def parse_dump(s):
    """'(l k C r)' / '.'  ->  (nodes in post-order as (left, key, colour, right) with -1 for nil, root index)."""
    nodes, stack, root = [], [], None
    done = False

    def value(v):
        nonlocal root, done
        if not stack:
            if done:
                raise ValueError("trailing input")
            root, done = v, True
            return
        fr = stack[-1]
        if fr[0] is None:
            fr[0] = v
        elif fr[3] is None and fr[1] is not None and fr[2] is not None:
            fr[3] = v
        else:
            raise ValueError("misplaced subtree")

    for t in TOK.findall(s):
        if t == "(":
            stack.append([None, None, None, None])
        elif t == ".":
            value(-1)
        elif t == ")":
            if not stack:
                raise ValueError("unbalanced")
            fr = stack.pop()
            if None in fr:
                raise ValueError("incomplete node")
            nodes.append(tuple(fr))
            value(len(nodes) - 1)
        else:
            if not stack:
                raise ValueError("stray token " + t)
            fr = stack[-1]
            if fr[0] is None:
                raise ValueError("key before left subtree")
            if fr[1] is None:
                fr[1] = int(t)
            elif fr[2] is None and t in ("R", "B"):
                fr[2] = t
            else:
                raise ValueError("bad token " + t)
    if stack or not done:
        raise ValueError("unbalanced")
    return nodes, root


def pycmp(cmpn):
    if cmpn == "desc":
        return lambda a, b: b - a
    if cmpn == "half":
        return lambda a, b: a // 2 - b // 2
    return lambda a, b: a - b


def inorder_keys(nodes, root):
    out, st, cur = [], [], root
    while cur != -1 or st:
        while cur != -1:
            st.append(cur)
            cur = nodes[cur][0]
        cur = st.pop()
        out.append(nodes[cur][1])
        cur = nodes[cur][3]
    return out


def walk(shape, sizefield, pflag, cmpn):
    """The property C02 itself, decided on one dump of the IMPLEMENTATION: list of violated clauses."""
    bad = []
    if "!CYCLE" in shape:
        return ["child pointers form a cycle"]
    try:
        nodes, root = parse_dump(shape)
    except ValueError as e:
        return ["unreadable dump: %s" % e]
    if root != -1 and nodes[root][2] != "B":
        bad.append("root is red")
    bh = [0] * len(nodes)
    redred = mismatch = False
    for i, (l, k, col, r) in enumerate(nodes):          # post-order: children come first
        hl = bh[l] if l != -1 else 0
        hr = bh[r] if r != -1 else 0
        if hl != hr:
            mismatch = True
        bh[i] = max(hl, hr) + (1 if col == "B" else 0)
        if col == "R" and ((l != -1 and nodes[l][2] == "R") or (r != -1 and nodes[r][2] == "R")):
            redred = True
    if redred:
        bad.append("red node with a red child")
    if mismatch:
        bad.append("black heights differ")
    keys = inorder_keys(nodes, root)
    cf = pycmp(cmpn)
    if any(cf(keys[i], keys[i + 1]) >= 0 for i in range(len(keys) - 1)):
        bad.append("keys not strictly ascending in-order")
    if str(len(nodes)) != sizefield:
        bad.append("size field %s != node count %d" % (sizefield, len(nodes)))
    if pflag != "0":
        bad.append("parent pointer inconsistent with child link")
    return bad


def calls_bound_ok(calls, n_before, lookups):
    """calls <= lookups * 2*log2(n+1)  (a TreeMap.Put that updates is two look-ups)."""
    return calls <= lookups * 2 * math.log2(n_before + 1) + 1e-9


def walk_history(cont, cmpn, ops, impl_line):
    """Walk every observed state of one implementation run; returns (op index, reasons) of the first bad one."""
    recs = records(impl_line)
    n_before = 0
    for i, rec in enumerate(recs):
        if is_abort(rec[0]) or len(rec) < 8:
            return None
        reasons = []
        if rec[4] != "~":
            reasons = walk(rec[4], rec[5], rec[6], cmpn)
        try:
            calls = int(rec[7])
            op = ops[i].split(",")[0] if i < len(ops) else "?"
            lookups = 2 if (cont in ("tm", "ts") and op in ("p", "a")) else 1
            if not calls_bound_ok(calls, n_before, lookups):
                reasons.append("%d comparator calls on a container of %d keys (bound %d x 2*log2(n+1) = %.2f)" % (
                    calls, n_before, lookups, lookups * 2 * math.log2(n_before + 1)))
            n_before = int(rec[5])
        except ValueError:
            pass
        if reasons:
            return i, reasons
    return None


# --------------------------------------------------------------------------- minimisation
def minimise(ops, still_fails, budget=260, seconds=40):
    """delta-debugging on the op list; still_fails(ops) re-runs the history."""
    ops = list(ops)
    spent = 0
    n = 2
    t0 = time.time()
    while len(ops) >= 2 and spent < budget and time.time() - t0 < seconds:
        chunk = max(1, len(ops) // n)
        reduced = False
        i = 0
        while i < len(ops) and spent < budget and time.time() - t0 < seconds:
            cand = ops[:i] + ops[i + chunk:]
            spent += 1
            if cand and still_fails(cand):
                ops = cand
                reduced = True
            else:
                i += chunk
        if not reduced:
            if chunk == 1:
                break
            n = min(len(ops), n * 2)
    return ops


def compact_keys(ops, cmpn):
    """rename keys to small integers, preserving order (and, for 'half', which keys compare equal)."""
    ks = sorted({int(o.split(",")[1]) for o in ops})
    if cmpn == "half":
        classes = sorted({k // 2 for k in ks})
        ren = {k: 2 * classes.index(k // 2) + (k & 1) for k in ks}
    else:
        ren = {k: i + 1 for i, k in enumerate(ks)}
    out = []
    for o in ops:
        p = o.split(",")
        p[1] = str(ren[int(p[1])])
        out.append(",".join(p))
    return out


# --------------------------------------------------------------------------- vm_compute cross-check
CROSS_PRELUDE = """From Ekit Require Import Common RBModel TreeMapModel.
Definition color_eqb (a b : color) := match a, b with Red, Red | Black, Black => true | _, _ => false end.
Fixpoint tree_eqb (a b : tree) : bool :=
  match a, b with
  | E, E => true
  | T c l k v r, T c' l' k' v' r' => color_eqb c c' && tree_eqb l l' && (k =? k') && (v =? v') && tree_eqb r r'
  | _, _ => false
  end.
Definition exp := (nat * nat * tree * Z)%type.   (* return-value code, comparator calls, tree, size field *)
Definition exp_eqb (a b : exp) : bool :=
  let '(r, n, t, s) := a in let '(r', n', t', s') := b in
  Nat.eqb r r' && Nat.eqb n n' && tree_eqb t t' && (s =? s').
Definition code_rb (o : rb_out) : nat :=
  match o with RUnit => 0 | RErr EDuplicate => 1 | RErr EAbsent => 2 | RErr _ => 3 | RAbsent => 4
             | RVal v => 10 + Z.to_nat v | _ => 5 end.
Definition code_tm (o : tm_out) : nat :=
  match o with TUnit => 0 | TErr EDuplicate => 1 | TErr EAbsent => 2 | TErr _ => 3 | TAbsent => 4
             | TVal v => 10 + Z.to_nat v | _ => 5 end.
Definition code_ts (o : ts_out) : nat :=
  match o with SUnit => 0 | SBool true => 6 | SBool false => 7 | _ => 5 end.
Fixpoint trace_rb cmp s ops : list exp :=
  match ops with [] => [] | o :: r =>
    let '(s', out) := rb_step cmp s o in (code_rb out, rb_op_calls cmp s o, root s', size s') :: trace_rb cmp s' r end.
Fixpoint trace_tm cmp s ops : list exp :=
  match ops with [] => [] | o :: r =>
    let '(s', out) := tm_step cmp s o in (code_tm out, tm_op_calls cmp s o, root s', size s') :: trace_tm cmp s' r end.
Fixpoint trace_ts cmp s ops : list exp :=
  match ops with [] => [] | o :: r =>
    let '(s', out) := ts_step cmp s o in (code_ts out, ts_op_calls cmp s o, root s', size s') :: trace_ts cmp s' r end.
Fixpoint all_eq (a b : list exp) : bool :=
  match a, b with [] , [] => true | x :: a', y :: b' => exp_eqb x y && all_eq a' b' | _, _ => false end.
"""


def ret_code(ret):
    if ret.startswith("val:"):
        return 10 + int(ret[4:])
    return {"ok": 0, "err:dup": 1, "err:absent": 2, "err:other": 3, "absent": 4, "true": 6, "false": 7}[ret]


def tree_term(shape, keys, vals):
    nodes, root = parse_dump(shape)
    order = []
    st, cur = [], root
    while cur != -1 or st:
        while cur != -1:
            st.append(cur)
            cur = nodes[cur][0]
        cur = st.pop()
        order.append(cur)
        cur = nodes[cur][3]
    val_of = {}
    for j, idx in enumerate(order):
        val_of[idx] = vals[j] if vals else 0
    term = {}
    for i, (l, k, col, r) in enumerate(nodes):
        term[i] = "(T %s %s %s %s %s)" % ("Red" if col == "R" else "Black", term[l] if l != -1 else "E",
                                         coq_z(k), coq_z(val_of[i]), term[r] if r != -1 else "E")
    return term[root] if root != -1 else "E"


def op_term(cont, o):
    p = o.split(",")
    k = coq_z(p[1])
    v = coq_z(p[2]) if len(p) > 2 else "0"
    return {("rb", "a"): "OAdd %s %s" % (k, v), ("rb", "d"): "ODelete %s" % k, ("rb", "f"): "OFind %s" % k,
            ("rb", "s"): "OSet %s %s" % (k, v), ("tm", "p"): "TPut %s %s" % (k, v), ("tm", "g"): "TGet %s" % k,
            ("tm", "d"): "TDelete %s" % k, ("ts", "a"): "SAdd %s" % k, ("ts", "d"): "SDelete %s" % k,
            ("ts", "e"): "SExist %s" % k}[(cont, p[0])]


def crosscheck(c, cases, model_lines, limit=60):
    """Re-evaluate a sample of small stride-1 histories with vm_compute inside Coq and compare with what the
    OCaml extraction printed (return values, comparator-call counts, the exact tree and the size field after
    every op)."""
    r = random.Random(c.seed + 5)
    idx = [i for i, ln in enumerate(cases) if ln.split()[2] == "1" and 3 <= len(ln.split()) - 3 <= 40]
    idx = sorted(r.sample(idx, min(limit, len(idx))))
    items = []
    for i in idx:
        f = cases[i].split()
        cont, cmpn, ops = f[0], f[1], f[3:]
        exps = []
        for rec in records(model_lines[i]):
            keys = [] if rec[2] == "-" else [int(x) for x in rec[2].split(",")]
            vals = [] if rec[3] == "-" else [int(x) for x in rec[3].split(",")]
            exps.append("(%d%%nat, %s%%nat, %s, %s)" % (ret_code(rec[0]), rec[7], tree_term(rec[4], keys, vals), coq_z(rec[5])))
        cmpt = {"asc": "cmp_asc", "str": "cmp_asc", "desc": "cmp_desc", "half": "cmp_half"}[cmpn]
        items.append("all_eq (trace_%s %s rb_empty %s) %s" % (
            cont, cmpt, coq_list(["(%s)" % op_term(cont, o) for o in ops]), coq_list(exps)))
    v = CROSS_PRELUDE + "Definition results : list bool :=\n  [" + ";\n   ".join(items) + "].\n" + \
        "Definition bad := Eval vm_compute in length (filter negb results).\nPrint bad.\n"
    rc, out = c.coq_crosscheck(v, name="rbcases")
    ok = rc == 0 and re.search(r"bad\s*=\s*0(%nat)?\s", out.replace("\n", " ") + " ") is not None
    c.cov["coq_vm_compute_crosscheck"] = {"histories": len(idx), "agree": bool(ok)}
    if not ok:
        c.report("%s:extraction" % c.pid, "OCaml extraction and vm_compute disagree on the model's output",
                 {"kind": "extraction-crosscheck", "coq_output": out[-1500:]}, found_input=False)


# --------------------------------------------------------------------------- the run
def run(pid, tier, on_disagreement, fields, walk_all=False):
    """Common skeleton of checks/c01.py and checks/c02.py.  `fields` are the record fields this property
    compares; on_disagreement(c, binary, case line, impl line, model line, diff) is the search layer."""
    c = Check(pid, tier)
    c.proof_layer()
    c.ensure_modelrun()
    binary, log = c.build_harness(pkgs=["c01"])
    if binary is None:
        c.report("build", "harness does not build against the repository", {"kind": "build", "log": log[-3000:]},
                 found_input=False)
        return c
    hs = gen_histories(c, tier) + gen_sparse(c, tier)
    cases = [ln for ln, _ in hs]
    dist = {"container": {}, "comparator": {}, "insert_order": {}, "delete_order": {}, "op_kinds": {}, "class": {},
            "peak_size_max": 0}
    for ln, h in hs:
        for key, val in (("container", h.cont), ("comparator", h.cmpn), ("insert_order", h.ins_pat),
                         ("delete_order", h.del_pat), ("class", h.cls)):
            dist[key][val] = dist[key].get(val, 0) + 1
        for k, v in h.kinds.items():
            dist["op_kinds"][k] = dist["op_kinds"].get(k, 0) + v
        dist["peak_size_max"] = max(dist["peak_size_max"], h.peak)
        c.note_case(ln, h.mutations >= 3)
    # bounded-exhaustive part: every reachable shape up to the bound, every Add into every gap, every Delete
    bound = 6 if tier == "quick" else 12
    bfs = c.run_model(["rb", "bfs", str(bound)], "")
    summary = bfs[-1] if bfs and bfs[-1].startswith("#bfs") else ""
    bfs = [ln for ln in bfs if not ln.startswith("#")]
    tm_of = lambda ln: "tm" + ln[2:].replace(" a,", " p,")
    ex_cases = bfs + ([tm_of(ln) for ln in bfs] if tier != "quick" else [tm_of(ln) for ln in bfs[::3]])
    for ln in ex_cases:
        c.note_case(ln, len(ln.split()) >= 6)
    c.cov["bounded_exhaustive"] = {"bound_keys": bound, "summary": summary.lstrip("#"), "histories": len(ex_cases),
                                   "how": "model-side BFS over shapes (drv_rb.ml bfs), each probe replayed on the "
                                          "implementation as rebuild-history + op, on tree.RBTree and mapx.TreeMap"}
    allcases = cases + ex_cases
    agree = ops_total = 0
    covsum = {}
    model_all = []
    batch = 1500
    walked = 0
    for b0 in range(0, len(allcases), batch):
        chunk = allcases[b0:b0 + batch]
        impl, model, cov = run_pair(c, binary, chunk)
        for k, v in cov.items():
            covsum[k] = covsum.get(k, 0) + v
        if b0 == 0:
            model_all = model[:len(chunk)]
        for j, ln in enumerate(chunk):
            il = impl[j] if j < len(impl) else "<missing>"
            ml = model[j] if j < len(model) else "<missing>"
            f = ln.split()
            ops_total += len(f) - 3
            if il == ml:
                agree += 1
                d = None
            else:
                d = first_diff(f[0], il, ml, fields)
                if d is None:
                    agree += 1
            if d is not None:
                on_disagreement(c, binary, ln, il, ml, d)
            elif walk_all and (tier == "quick" or (b0 + j) % 25 == 0 or b0 + j >= len(cases)):
                w = walk_history(f[0], f[1], f[3:], il)
                walked += 1
                if w is not None:
                    on_disagreement(c, binary, ln, il, ml, (w[0], 4, records(il)[w[0]], records(ml)[w[0]]))
    c.cov["traces_validated_against_impl"] = agree
    c.cov["ops_compared"] = ops_total
    c.cov["case_distribution"] = dist
    c.cov["fixup_cases_fired(model side, classified by drv_rb.ml from the statuses of ins/del on the path)"] = covsum
    if walk_all:
        c.cov["histories_walked_by_invariant_walker"] = walked
    for ln in cases[:2] + ex_cases[-1:]:
        c.sample(ln[:300])
    crosscheck(c, allcases[:batch], model_all)
    return c


TRUSTED = ["Coq 8.16.1 kernel + vm_compute (no native_compute)",
           "extraction: ExtrOcamlBasic only, no Extract Constant; cross-checked against vm_compute on a sample of histories per run",
           "OCaml driver ocaml/drv_rb.ml, Go harness harness/c01 + add-only accessors hooks/{internal/tree,tree,mapx,set}, "
           "checks/rbcommon.py (history generator, comparison, invariant walker)"]
