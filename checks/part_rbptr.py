"""C01/C02, part `rbptr`: the POINTER-LEVEL model (coq/theories/model/RBPtrModel.v: heap of nodes with
color/key/value/left/right/parent, every Go function of internal/tree/red_black_tree.go transcribed statement by
statement) against the real tree.RBTree.

run(c, binary, tier="quick"):
  the tree.RBTree histories of the C01/C02 run (rbcommon's generator, same VERIF_SEED derivation: the `rb` ones of
  gen_histories + as many again generated for container rb only + the bounded-exhaustive shape x op histories of
  `modelrun rb bfs N`) are replayed through `modelrun rbptr` and through the harness (`h c01`), and ALL eight record
  fields are compared exactly after every op:
      return value, Size(), KeyValues() keys and values (the model's own stack-based inOrderTraversal),
      shape+colours (the model's heap read from its root pointer = the hook's dump), the size field,
      the parent-pointer flag (the model's own walk of its parent fields = the hook's walk), comparator calls
      (the model's ghost counter of rb.compare = the counting comparator of the harness).
  A model call ending in RPanic / RFuel prints "panic"/"fuel" and therefore disagrees with any implementation that
  returned.  Also cross-checked: `modelrun rbptr` = `modelrun rb` (the recursive model) on the same histories, which
  is what props/C02_ptr.v proves.

`binary` must contain harness package c01.  MODELRUN must contain the models rb and rbptr."""
import random

import rbcommon as rb

FIELDS = tuple(range(8))


def gen_cases(c, tier):
    """[(case line, mutations)] — container rb only."""
    out = []
    for ln, h in rb.gen_histories(c, tier):
        if h.cont == "rb":
            out.append((ln, h.mutations))
    r = random.Random(c.seed * 104729 + 5)
    extra = 400 if tier == "quick" else 6000
    for j in range(extra):
        cmpn = r.choice(rb.CMPS)
        ins_pat, del_pat = r.choice(rb.INS_PATTERNS), r.choice(rb.DEL_PATTERNS)
        if tier != "quick" and j % 40 == 0:
            size = r.randint(65, 600)
            nops = int(size * r.uniform(3.4, 4.4))
            big = True
        else:
            size = r.randint(1, 40) if tier == "quick" else r.randint(1, 64)
            nops = r.randint(8, 80) if tier == "quick" else r.randint(8, 140)
            big = False
        h = rb.Hist(r, "rb", cmpn, size, nops, ins_pat, del_pat, big).build()
        out.append(("rb %s %d %s" % (cmpn, rb.stride_for(size), " ".join(h.ops)), h.mutations))
    return out


def run(c, binary, tier="quick"):
    cases = gen_cases(c, tier)
    bound = 6 if tier == "quick" else 9
    bfs = [ln for ln in c.run_model(["rb", "bfs", str(bound)], "") if not ln.startswith("#")]
    lines = [ln for ln, _ in cases] + bfs
    for ln, mut in cases:
        c.note_case("rbptr " + ln, mut >= 3)
    for ln in bfs:
        c.note_case("rbptr " + ln, len(ln.split()) >= 6)
    agree = ops_total = rec_agree = 0
    totals = {}
    batch = 1500
    for b0 in range(0, len(lines), batch):
        chunk = lines[b0:b0 + batch]
        text = "\n".join(chunk) + "\n"
        impl = rb.run_impl(c, binary, chunk)
        ptr = c.run_model("rbptr", text)
        if ptr and ptr[-1].startswith("#ptr"):
            for kv in ptr[-1].split()[1:]:
                k, v = kv.split("=")
                totals[k] = totals.get(k, 0) + int(v)
            ptr = ptr[:-1]
        rec = [ln for ln in c.run_model("rb", text) if not ln.startswith("#cov")]
        for j, ln in enumerate(chunk):
            il = impl[j] if j < len(impl) else "<missing>"
            pl = ptr[j] if j < len(ptr) else "<missing>"
            rl = rec[j] if j < len(rec) else "<missing>"
            f = ln.split()
            ops_total += len(f) - 3
            d = None if il == pl else rb.first_diff("rb", il, pl, FIELDS)
            if d is None:
                agree += 1
            else:
                i, fld, ri, rp = d
                panicked = any(rb.is_abort(x[0]) for x in rb.records(il))
                sig = "%s:rbptr:%s" % (c.pid, "panic" if panicked else "differs:" + rb.FIELD[fld].split()[0])
                ops = f[3:]

                def differs(cand, cmpn=f[1]):
                    l2 = "rb %s 1 %s" % (cmpn, " ".join(cand))
                    a2 = rb.run_impl(c, binary, [l2], timeout=60)[0]
                    p2 = c.run_model("rbptr", l2 + "\n")[0]
                    return rb.first_diff("rb", a2, p2, FIELDS) is not None

                mini = ops
                if not any(len(v) > 2 and v[2] == sig for v in c.violations) and len(c.violations) < 6:
                    if differs(ops):
                        mini = rb.minimise(ops if il.startswith("<") else ops[:i + 1], differs, budget=160)
                l2 = "rb %s 1 %s" % (f[1], " ".join(mini))
                a2 = rb.run_impl(c, binary, [l2], timeout=60)[0]
                p2 = c.run_model("rbptr", l2 + "\n")[0]
                d2 = rb.first_diff("rb", a2, p2, FIELDS) or d
                j2, fl2, ra, rp2 = d2
                c.report(sig,
                         "tree.RBTree (comparator %s): the %s after op %d differs between internal/tree/red_black_tree.go and its "
                         "pointer-level transcription RBPtrModel.v; the theorems of props/C02_ptr.v (parent links, refinement of the "
                         "recursive model) are about the transcription and no longer transfer" % (f[1], rb.FIELD[fl2], j2),
                         {"kind": "correspondence", "container": "tree.RBTree", "comparator": f[1], "ops": mini,
                          "first_diverging_op": j2, "field": rb.FIELD[fl2],
                          "implementation_record": ";".join(ra)[:3000], "pointer_model_record": ";".join(rp2)[:3000],
                          "how": "echo '%s' | <harness> c01   vs   | ocaml/modelrun rbptr" % l2[:3000]},
                         found_input=False)
            if pl == rl or rb.first_diff("rb", pl, rl, FIELDS) is None:
                rec_agree += 1
            else:
                i, fld, rp, rr = rb.first_diff("rb", pl, rl, FIELDS)
                c.report("%s:rbptr:models-differ" % c.pid,
                         "the pointer-level model and the recursive model disagree (%s after op %d) although props/C02_ptr.v proves "
                         "them equal: extraction or driver problem" % (rb.FIELD[fld], i),
                         {"kind": "extraction-crosscheck", "case": ln[:3000], "pointer_model_record": ";".join(rp)[:2000],
                          "recursive_model_record": ";".join(rr)[:2000]}, found_input=False)
    c.cov["traces_validated_against_impl"] += agree
    c.cov["rbptr"] = {"histories": len(lines), "random_rb_histories": len(cases), "bounded_exhaustive_histories": len(bfs),
                      "bounded_exhaustive_bound_keys": bound, "ops_compared": ops_total,
                      "agree_with_implementation(all 8 fields)": agree, "agree_with_recursive_model": rec_agree,
                      "model_totals": totals,
                      "compared": "ret;len;keys;vals;shape;sizefield;parentflag;calls of every op (shape/keys/vals/parentflag at the "
                                  "stride of the case line)"}
    if cases:
        c.sample("rbptr " + cases[0][0][:300])
    return agree == len(lines)
