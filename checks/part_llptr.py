"""C04, part `llptr`: the POINTER-LEVEL model of LinkedList (coq/theories/model/LinkedPtrModel.v: heap of nodes with
val/prev/next, sentinels head/tail, length field, every function of list/linked_list.go transcribed statement by
statement; props/C04_llptr.v proves the ring invariant, the refinement of ListModel's LinkedList and of the
abstract sequence, failed call = same store, AsSlice fresh, Delete unlinks one node, findNode <= len/2+1 links)
against the real list.LinkedList.

run(c, hs, tier=None):
  hs = the histories of the C04 run, tuples (impl, cap0, [op tokens]) as checks/c04.py generates them.  Those for
  impl linked / conc-linked whose list stays below BIG elements, plus as many again generated here for the linked
  list only (VERIF_SEED derivation; forward and backward walks, splices at both ends, drains, failing indices), are
  replayed through `modelrun llptr` and through the harness (`h llptr`, white-box walker
  hooks/list/x_llptr_verif.go) and ALL six record fields are compared exactly after EVERY op:
      return value | length field | forward chain from head (length+3 nodes, nodes named by first occurrence)
      | backward chain from tail (same names) | values forward | values backward.
  The walker is read-only; the harness overwrites every slice it gets from AsSlice.
  The part builds its own harness binary (package llptr only) and leaves the caller's binary in place.

Call from checks/c04.py (after `hs = gen_histories(c)`):   import part_llptr; part_llptr.run(c, hs)
MODELRUN must contain the model llptr."""
import os
import random
import shutil

BIG = 400
FIELD = ["return value", "length field", "forward chain (next links from head)", "backward chain (prev links from tail)",
         "values along the forward chain", "values along the backward chain"]


def bare(o):
    o = o[1:] if o.startswith("~") else o
    return o.split("@")[0]


def max_len_bound(ops):
    n = 0
    for o in ops:
        o = bare(o)
        if o[0] in "abn":
            n += o.count(",") + 1 if len(o) > 2 else 0
        elif o[0] == "i":
            n += 1
    return n


def gen_extra(c, tier):
    r = random.Random(c.seed * 7919 + 404)
    n = 6000 if tier == "thorough" else 300
    out = []
    for k in range(n):
        ops, ln, val = [], 0, 1
        first = r.random() < 0.3
        if first:
            m = r.choice([0, 1, 2, 3, 5, 8, 13])
            ops.append("n:" + ",".join(str(val + i) for i in range(m)))
            val += m
            ln = m
        for _ in range(r.randint(1, 60 if tier == "thorough" else 30)):
            x = r.random()
            bad = r.random() < 0.12
            if x < 0.25:
                idx = r.choice([-1, ln + 1, ln + 2]) if bad else r.choice([0, ln, ln // 2, ln // 2 + 1, r.randint(0, ln)])
                ops.append("i:%d:%d" % (idx, val))
                val += 1
                ln += 0 if bad else 1
            elif x < 0.45:
                idx = r.choice([-1, ln, ln + 1]) if (bad or ln == 0) else r.choice([0, ln - 1, ln // 2, min(ln - 1, ln // 2 + 1), r.randint(0, ln - 1)])
                ops.append("d:%d" % idx)
                ln -= 1 if 0 <= idx < ln else 0
            elif x < 0.6:
                idx = r.choice([-1, ln, ln + 1]) if (bad or ln == 0) else r.choice([0, ln - 1, ln // 2, min(ln - 1, ln // 2 + 1)])
                ops.append("g:%d" % idx)
            elif x < 0.72:
                idx = r.choice([-1, ln]) if (bad or ln == 0) else r.randint(0, ln - 1)
                ops.append("s:%d:%d" % (idx, val))
                val += 1
            elif x < 0.84:
                m = r.choice([0, 1, 1, 2, 4])
                ops.append("a:" + ",".join(str(val + i) for i in range(m)))
                val += m
                ln += m
            elif x < 0.9:
                ops.append("r:%d" % r.choice([-1, 0, ln // 2, ln]))
            elif x < 0.96:
                ops.append("v")
            else:
                ops.append(r.choice(["l", "c"]))
        if r.random() < 0.25:          # drain to empty and refill
            while ln > 0:
                ops.append("d:%d" % r.choice([0, ln - 1, ln // 2]))
                ln -= 1
            ops += ["d:0", "i:0:%d" % val, "v"]
        out.append((r.choice(["linked", "linked", "conc-linked"]), 0, ops))
    return out


def line_of(h):
    return "%s %d %s" % (h[0], h[1], ";".join(bare(o) for o in h[2]))


def first_diff(a, b):
    """(op index, field index, impl record, model record) of the first difference, None when equal"""
    ra, rb = a.split(";"), b.split(";")
    for k in range(max(len(ra), len(rb))):
        x = ra[k] if k < len(ra) else "<missing>"
        y = rb[k] if k < len(rb) else "<missing>"
        if x != y:
            fx, fy = x.split("|"), y.split("|")
            for j in range(max(len(fx), len(fy))):
                if (fx[j] if j < len(fx) else None) != (fy[j] if j < len(fy) else None):
                    return k, min(j, 5), x, y
    return None


def run(c, hs, tier=None):
    tier = tier or c.tier
    h_path = os.path.join(c.tmp, "h")
    bak = None
    if os.path.exists(h_path):
        bak = h_path + ".caller"
        shutil.copy2(h_path, bak)
    binary, log = c.build_harness(pkgs=["llptr"])
    mine = None
    if binary is not None:
        mine = os.path.join(c.tmp, "h_llptr")
        shutil.copy2(binary, mine)
    if bak:
        shutil.move(bak, h_path)
    if mine is None:
        c.report("%s:llptr:build" % c.pid, "harness package llptr (white-box walker of LinkedList) does not build against /repo",
                 {"kind": "build", "log": log[-3000:]}, found_input=False)
        return False
    own = [h for h in hs if h[0] in ("linked", "conc-linked") and max_len_bound(h[2]) <= BIG]
    extra = gen_extra(c, tier)
    cases = own + extra
    lines = [line_of(h) for h in cases]
    for h, ln in zip(cases, lines):
        c.note_case("llptr " + ln, len(h[2]) >= 3)

    def both(ls):
        text = "\n".join(ls) + "\n"
        rc, impl, err = c.run_impl(mine, ["llptr"], text)
        mod = [x for x in c.run_model("llptr", text) if not x.startswith("#llptr")]
        return impl, mod

    agree = ops_total = 0
    B = 3000
    for b0 in range(0, len(lines), B):
        chunk = lines[b0:b0 + B]
        impl, mod = both(chunk)
        for j, ln in enumerate(chunk):
            il = impl[j] if j < len(impl) else "<missing>"
            ml = mod[j] if j < len(mod) else "<missing>"
            f = ln.split()
            ops = f[2].split(";") if len(f) > 2 else []
            ops_total += len(ops)
            if il == ml:
                agree += 1
                continue
            d = first_diff(il, ml)
            k, fld = d[0], d[1]
            sig = "%s:llptr:differs:%s" % (c.pid, FIELD[fld].split()[0])
            if any(len(v) > 2 and v[2] == sig for v in c.violations):
                continue

            def differs(cand):
                a, m = both(["%s 0 %s" % (f[0], ";".join(cand))])
                return (a[0] if a else "<missing>") != (m[0] if m else "<missing>")

            mini = ops[:k + 1]
            if not differs(mini):
                mini = ops
            budget, i = 120, 0
            while i < len(mini) and budget > 0 and len(mini) > 1:
                cand = mini[:i] + mini[i + 1:]
                budget -= 1
                if differs(cand):
                    mini = cand
                else:
                    i += 1
            l2 = "%s 0 %s" % (f[0], ";".join(mini))
            a2, m2 = both([l2])
            d2 = first_diff(a2[0] if a2 else "<missing>", m2[0] if m2 else "<missing>") or d
            c.report(sig,
                     "list.LinkedList: the %s after op %d differs between list/linked_list.go and its pointer-level transcription "
                     "LinkedPtrModel.v; the theorems of props/C04_llptr.v (ring invariant, refinement of the abstract sequence, "
                     "failed call = same store, Delete unlinks one node) are about the transcription and no longer transfer"
                     % (FIELD[d2[1]], d2[0]),
                     {"kind": "correspondence", "container": "list.LinkedList", "impl": f[0], "ops": mini,
                      "first_diverging_op": d2[0], "field": FIELD[d2[1]],
                      "implementation_record": d2[2][:3000], "pointer_model_record": d2[3][:3000],
                      "record_format": "res|length|fwd|bwd|fvals|bvals",
                      "how": "echo '%s' | <harness> llptr   vs   | ocaml/modelrun llptr" % l2[:3000]},
                     found_input=d2[1] in (0, 4))
    c.cov["traces_validated_against_impl"] = c.cov.get("traces_validated_against_impl", 0) + agree
    c.cov["llptr"] = {"histories": len(lines), "from_c04_generator": len(own), "generated_for_linkedlist": len(extra),
                      "ops_compared": ops_total, "agree_with_implementation(all 6 fields)": agree,
                      "compared": "res|length field|forward chain|backward chain|forward values|backward values after every op"}
    if lines:
        c.sample("llptr " + lines[0][:300])
    return agree == len(lines)
