"""C15 — data-race freedom of the thread-safe types.

Proof layer: props/C15.v (HB.v lemmas, per-type drf_<type> from `disciplined table = true`).
Correspondence: tools/footprint RE-DERIVES the footprint table from /repo's CURRENT source on every
run; it is compared, per (type, method, location, access kind), with the table the Coq model
declares (printed by the extracted model, `modelrun footprint`):
  * an access / guard the source has and the table does not declare  -> the footprint model no
    longer covers the code (the drf theorem does not transfer);
  * a declared row the source no longer has                          -> stale table (correspondence broken);
  * anything the tool cannot classify                                 -> reported, never ignored.
Dynamic complement (never counted as proof): a pairwise method matrix + mixed workloads over every
listed type from ONE `-race` build over the instrumented overlay, verifhook in chaos mode; any
race report is a concrete replay (workload name + seed + the two stacks)."""
import json
import os
import re
import subprocess

from common import Check, GOENV, VERIF, REPO, sh

MEM = ("read", "write", "aread", "awrite", "armw")
EXTRA_FILES = ["syncx/pool.go", "syncx/atomicx/atomic.go", "bean/copier/reflect_copier.go"]


# ---------------------------------------------------------------------------------------------
# static part: declared table (Coq) vs derived table (source)

def declared_rows(c):
    out = c.run_model("footprint", "")
    rows, disc, ctor, pinned = [], {}, [], []
    for l in out:
        p = l.split("\t")
        if p[0] == "ROW" and len(p) == 7:
            rows.append(dict(type=p[1], func=p[2], stmt=p[3], loc=p[4], kind=p[5], guard=p[6]))
        elif p[0] == "DISCIPLINED":
            disc[p[1]] = p[2] == "true"
        elif p[0] == "CTOR":
            ctor.append(p[1])
        elif p[0] == "PINNED":
            pinned.append(p[1:])
    return rows, disc, ctor, pinned


def derive(c):
    tool_dir = os.path.join(VERIF, "tools/footprint")
    binary = os.path.join(c.tmp, "footprint")
    rc, out = sh(["go", "build", "-o", binary, "."], cwd=tool_dir, env=GOENV)
    if rc != 0:
        raise RuntimeError("tools/footprint does not build: " + out)
    p = subprocess.run([binary, "-repo", REPO], stdout=subprocess.PIPE, stderr=subprocess.PIPE, text=True, timeout=300)
    if p.returncode != 0:
        raise RuntimeError("tools/footprint failed: " + p.stderr[-2000:])
    return json.loads(p.stdout)


def acceptable(r):
    """guards a declared row may carry and still be implied by what the source does at this access"""
    k = r["kind"]
    acc = {"none"}
    if k not in ("read", "write"):
        return acc
    for l, m in r["locks"].items():
        acc.add("lock:%s:S" % l)
        if m == "E":
            acc.add("lock:%s:E" % l)
    if k == "read":
        acc.add("const")
        acc |= {"pub-after:" + o for o in r["acq_before"]}
    if r["fresh"] or r.get("once"):
        acc |= {"pub-before:" + o for o in r["rel_after"]}
    return acc


def compare(declared, derived):
    """returns (uncovered, stale, unclassified, n_checked)"""
    dec = {}
    for r in declared:
        dec.setdefault((r["type"], r["func"], r["loc"], r["kind"]), {})[r["guard"]] = r
    matched = set()
    uncovered, unclassified = [], []
    n = 0
    for r in derived["rows"]:
        if r["kind"].startswith("unclassified"):
            unclassified.append(r)
            continue
        n += 1
        key = (r["type"], r["func"], r["loc"], r["kind"])
        have = dec.get(key)
        acc = acceptable(r)
        if have is None:
            uncovered.append(dict(r, why="the table declares no %s of %s in %s" % (r["kind"], r["loc"], r["func"])))
            continue
        ok = [g for g in have if g in acc]
        if r["kind"] in ("read", "write") and not any(g != "none" for g in ok) and any(g != "none" for g in have):
            # the only declared guard this access would satisfy is "nothing": the declared protection is gone
            ok = []
        if not ok:
            uncovered.append(dict(r, why="declared guard(s) %s; the source at this access only supports %s" % (
                sorted(have), sorted(acc))))
            continue
        for g in ok:
            matched.add(key + (g,))
    stale = [r for r in declared if (r["type"], r["func"], r["loc"], r["kind"], r["guard"]) not in matched]
    return uncovered, stale, unclassified, n


# ---------------------------------------------------------------------------------------------
# dynamic part: race detector

RACE_BLOCK = re.compile(r"WARNING: DATA RACE\n(.*?)\n==================", re.S)
ACCESS = re.compile(r"^(Read|Write|Previous read|Previous write|Atomic read|Atomic write|Previous atomic read|Previous atomic write) at 0x[0-9a-f]+ by (?:main )?goroutine \d+:$", re.M)


def parse_races(stderr):
    """-> list of dict(workload, seed, text, frames=[(func, file, line), (func, file, line)])"""
    races = []
    pos = 0
    marks = [(m.start(), m.group(1), m.group(2)) for m in re.finditer(r"^=== C15 WORKLOAD (.*) seed=(-?\d+)$", stderr, re.M)]
    for m in RACE_BLOCK.finditer(stderr):
        wl, seed = "?", "?"
        for (p, w, s) in marks:
            if p < m.start():
                wl, seed = w, s
        text = m.group(1)
        frames = []
        parts = ACCESS.split(text)
        # parts: [pre, kind1, body1, kind2, body2, ...]
        for i in range(1, len(parts) - 1, 2):
            body = parts[i + 1]
            fr = None
            for fm in re.finditer(r"^  (\S+)\(.*\)\n\s+(\S+):(\d+)", body, re.M):
                fn, fl, ln = fm.group(1), fm.group(2), int(fm.group(3))
                if "/verifhook" in fl or "/harness/" in fl or fl.startswith("/usr/") or "runtime/" in fl:
                    continue
                fr = (fn, fl, ln)
                break
            frames.append((parts[i], fr))
            if len(frames) == 2:
                break
        races.append(dict(workload=wl, seed=seed, text=text[:6000], frames=frames))
    return races


def stmt_of_frame(frame, overlay):
    """the yield-point label that precedes the racing line in the instrumented copy"""
    if frame is None:
        return None
    fn, fl, ln = frame
    src = overlay.get(fl)
    if not src or not os.path.exists(src):
        return None
    lines = open(src).read().splitlines()
    for i in range(min(ln, len(lines)) - 1, -1, -1):
        m = re.search(r'verifhook\.At\("((?:[^"\\]|\\.)*)"\)', lines[i])
        if m:
            return json.loads('"' + m.group(1) + '"')
    return None


def location_of_race(race, overlay, derived):
    """map the two racing statements to a location name of the footprint table (best effort)"""
    base = race["workload"].split("|")[0].split("/")[0]
    base = {"atomicx.Value": "Value"}.get(base, base)
    texts = []
    for (_, fr) in race["frames"]:
        lab = stmt_of_frame(fr, overlay)
        if lab:
            texts.append(lab.split("|")[1] if "|" in lab else lab)
    cands = None
    for t in texts:
        locs = set()
        for r in derived["rows"]:
            if r["kind"] in MEM and r["type"] == base and r["stmt"].split(": ")[-1].startswith(t[:100]):
                locs.add(r["loc"])
        if locs:
            cands = locs if cands is None else (cands & locs or cands | locs)
    plain = set()
    if cands:
        for r in derived["rows"]:
            if r["type"] == base and r["loc"] in cands and r["kind"] in ("read", "write") and not r["fresh"]:
                plain.add(r["loc"])
    pick = sorted(plain or cands or [])
    return base, (pick[0] if pick else None), texts


def run_matrix(c, binary, iters, k, filt=None, timeout=1500):
    args = [binary, "c15", str(c.seed), str(iters), str(k)] + ([filt] if filt else [])
    env = dict(GOENV, GORACE="halt_on_error=0 history_size=3")
    p = subprocess.run(args, stdout=subprocess.PIPE, stderr=subprocess.PIPE, text=True, timeout=timeout, env=env)
    return p.returncode, p.stdout.strip(), p.stderr


def main(tier):
    c = Check("C15", tier)
    c.proof_layer()
    c.ensure_modelrun()
    static = {}        # signature -> info
    cov = c.cov

    # ---- declared vs derived footprint ----
    declared, disc, ctor, pinned = declared_rows(c)
    derived = derive(c)
    uncovered, stale, unclassified, n = compare(declared, derived)
    cov["footprint"] = {"declared_rows": len(declared), "derived_rows": len(derived["rows"]), "derived_rows_checked": n,
                        "uncovered": len(uncovered), "stale": len(stale), "unclassified": len(unclassified),
                        "types": {t: v["entries"] for t, v in derived["types"].items()},
                        "disciplined": disc}
    cov["evaluations"] += n
    cov["traces_validated_against_impl"] += n - len(uncovered)
    for r in declared:
        c._distinct.add("row:%s:%s:%s:%s:%s" % (r["type"], r["func"], r["loc"], r["kind"], r["guard"])) if r["guard"] not in ("none", "const") else None
    for r in declared[:2]:
        c.sample("declared row: %(type)s.%(func)s  %(kind)s %(loc)s  guard=%(guard)s  [%(stmt)s]" % r)
    for r in derived.get("problems") or []:
        static["C15:footprint:tool"] = dict(kind="footprint-tool", what="tools/footprint: " + str(r), detail={})
    for t, okd in disc.items():
        if not okd and not t.endswith("_pinned_table"):
            static["C15:%s:discipline" % t] = dict(kind="discipline", detail={}, what="the declared table of %s is not disciplined (extracted checker): drf theorem missing" % t)
    for t in ("cow_pinned_table", "cond_pinned_table"):
        if disc.get(t, True):
            static["C15:%s:discipline" % t] = dict(kind="discipline", detail={}, what="%s is expected to be refuted but is disciplined" % t)
    for r in unclassified:
        sig = "C15:%s:unclassified" % r["type"]
        static.setdefault(sig, dict(kind="unclassified", what="%s.%s: the footprint analysis cannot classify `%s` (%s)" % (
            r["type"], r["func"], r["loc"], r["kind"].split(":", 1)[1]), detail={"rows": []}))["detail"]["rows"].append(
                {k: r[k] for k in ("func", "stmt", "loc", "kind", "line")})
    for r in uncovered:
        sig = "C15:%s:%s" % (r["type"], r["loc"])
        static.setdefault(sig, dict(kind="uncovered", detail={"rows": []}, what=(
            "%s: the source's footprint is no longer covered by the model's table (drf_%s does not transfer): %s.%s %s %s — %s" % (
                r["type"], r["type"], r["type"], r["func"], r["kind"], r["loc"], r["why"]))))["detail"]["rows"].append(
                    {k: r[k] for k in ("func", "stmt", "loc", "kind", "locks", "acq_before", "rel_after", "fresh", "line", "why")})
    for r in stale:
        sig = "C15:%s:%s" % (r["type"], r["loc"])
        static.setdefault(sig, dict(kind="stale", detail={"rows": []}, what=(
            "%s: the model's table declares a row the source no longer has (correspondence broken): %s.%s %s %s guard=%s" % (
                r["type"], r["type"], r["func"], r["kind"], r["loc"], r["guard"]))))["detail"].setdefault("stale_rows", []).append(r)
    # ---- additional obligations (tools/footprint/inner.go, go/types) ----
    #  (1) the inner-container methods a wrapper calls under a read lock / no lock are READ-ONLY on their receiver:
    #      discharges the `kind_matches` conjunct of guards_respected for the KRead rows of the abstract `Field.*` locations
    #  (2) no unsynchronised package-level state in the packages of the concurrent files
    inner = derived.get("inner")
    if not inner:
        static["C15:footprint:inner"] = dict(kind="footprint-tool", what="tools/footprint printed no inner-container / package-level analysis", detail={})
        inner = {"obligations": [], "violations": [], "pkgvars_allowed": [], "pkgvars_violations": [], "problems": [], "skipped_exclusive": []}
    cov["inner_readonly"] = {
        "obligation": "every method of a foreign container called by a wrapper while it holds only a read lock (or none) writes nothing reachable from its receiver (transitively)",
        "checked": sorted(set("%s -> %s" % (o["wrapper"], o["inner"]) for o in inner["obligations"])),
        "violations": len(inner["violations"]), "functions_analysed": inner.get("functions_analysed"),
        "writer_controls_seen_writing": inner.get("writer_controls"), "skipped_exclusive_lock": inner["skipped_exclusive"]}
    cov["package_level_state"] = {
        "rule": "a package-level variable of a concurrent package (or of a repository package it reaches) may only be written during package initialisation, "
                "atomically, or under a package-level lock held by all its accessors",
        "allow_list_derived_from_this_tree": inner["pkgvars_allowed"], "violations": inner["pkgvars_violations"]}
    n_inner = len(inner["obligations"]) + len(inner["pkgvars_allowed"]) + len(inner["pkgvars_violations"])
    cov["evaluations"] += n_inner
    cov["traces_validated_against_impl"] += n_inner - len(inner["violations"]) - len(inner["pkgvars_violations"])
    for o in inner["obligations"]:
        c._distinct.add("inner:%s:%s" % (o["wrapper"], o["inner"]))
    for pr in inner["problems"]:
        static.setdefault("C15:footprint:inner", dict(kind="footprint-tool", what="tools/footprint (inner analysis): " + str(pr), detail={"problems": inner["problems"]}))
    for o in sorted(inner["violations"], key=lambda o: len((((o.get("writes") or []) + (o.get("unknown") or []))[0]).get("via", ""))):
        wtype = o["wrapper"].split(".")[0]
        ws = (o.get("writes") or []) + (o.get("unknown") or [])
        first = ws[0]
        lock = ", ".join("%s:%s" % kv for kv in sorted(o["locks"].items())) or "no lock"
        sig = "C15:%s:%s.*" % (wtype, o["field"])
        static.setdefault(sig, dict(kind="inner-write", detail={"violations": []}, what=(
            "%s: %s calls %s holding only [%s], but the inner method is not read-only: %s at %s in %s%s — the table's KRead row for %s.* "
            "no longer covers the code (two readers race)" % (
                wtype, o["wrapper"], o["inner"], lock, ("writes " if o.get("writes") else "") + first["what"], first["pos"], first["in"],
                (" (via " + first["via"] + ")") if first.get("via") else "", o["field"]))))["detail"]["violations"].append(o)
    for v in inner["pkgvars_violations"]:
        static["C15:pkgvar:%s" % v["var"]] = dict(kind="pkgvar", detail=v, what=(
            "unsynchronised package-level state: %s (%s) is %s: %s; also read in %s" % (
                v["var"], v["type"], v["class"], "; ".join(v.get("writes") or []), ", ".join(v.get("read_in") or []) or "-")))
    # entry points and constructor-only helpers
    dec_entries = {}
    for r in declared:
        dec_entries.setdefault(r["type"], set()).add(r["func"])
    for t, v in derived["types"].items():
        have_rows = set(r["func"] for r in derived["rows"] if r["type"] == t)
        for f in have_rows - dec_entries.get(t, set()):
            static.setdefault("C15:%s:%s" % (t, f), dict(kind="uncovered", detail={}, what="%s has a method / goroutine body %s the table does not know" % (t, f)))
    for t in set(dec_entries) - set(derived["types"]):
        static["C15:%s:missing" % t] = dict(kind="stale", detail={}, what="type %s is in the table but not in the source" % t)
    if sorted(derived.get("unreached") or []) != sorted(ctor):
        static["C15:footprint:ctor-only"] = dict(kind="uncovered", detail={"source": derived.get("unreached"), "declared": ctor},
                                                 what="methods touching fields that no public method reaches differ from the declared constructor-only list")

    # ---- dynamic complement: race detector over the pairwise matrix ----
    files = list(c.CONCURRENT_FILES) + EXTRA_FILES
    ov, labels = c.instrument(files)
    binary, log = (None, labels) if ov is None else c.build_harness(race=True, extra_overlay=ov, pkgs=["c15"])
    races = []
    if binary is None:
        c.report("C15:build", "instrumented -race harness does not build against /repo", {"kind": "build", "log": str(log)[-3000:]}, found_input=False)
    else:
        iters, k = (3, 20) if tier == "quick" else (40, 50)
        rc, out, err = run_matrix(c, binary, iters, k)
        races = parse_races(err)
        m = re.search(r"ok workloads=(\d+) pairs=(\d+) ops=(\d+)", out)
        wl, pairs, ops = (int(m.group(1)), int(m.group(2)), int(m.group(3))) if m else (0, 0, 0)
        cov["race_matrix"] = {"workloads": wl, "method_pairs": pairs, "operations": ops, "race_reports": len(races),
                              "iterations_per_pair": iters, "ops_per_goroutine": k, "exit": rc, "completed": bool(m)}
        cov["evaluations"] += wl
        cov["traces_validated_against_impl"] += max(0, wl - len(races))
        for mm in re.finditer(r"^=== C15 WORKLOAD (\S+?)\|(\S+)\|(\S+) seed", err, re.M):
            if mm.group(2) != mm.group(3):
                c._distinct.add("wl:%s:%s:%s" % (mm.group(1), mm.group(2), mm.group(3)))
        c.sample("race-matrix workload: h c15 %d %d %d  (e.g. CopyOnWriteArrayList|Get|Append, 2-4 goroutines, chaos yields between statements)" % (c.seed, iters, k))
        if not m:
            hang = re.search(r"=== C15 HANG (.*)", err)
            c.report("C15:matrix:" + ("hang" if hang else "crash"), "the race-matrix run did not complete: " + (hang.group(1) if hang else err[-400:]),
                     {"kind": "stress-run", "how": "h_race c15 %d %d %d" % (c.seed, iters, k), "stderr": err[-3000:]})
        # search: a static disagreement without a dynamic witness gets a longer, focused run
        if static and not races and m:
            types = set(s.split(":")[1] for s in static if s.split(":")[1] in derived["types"])
            for info in static.values():
                if info["kind"] == "pkgvar":  # package-level state: the types of that package
                    pk = info["detail"]["var"].rsplit(".", 1)[0]
                    types |= set(t for t, v in derived["types"].items() if os.path.dirname(v["file"]) == pk)
            types = sorted(types)
            for t in types[:4]:
                filt = {"Value": "atomicx.Value"}.get(t, t)
                rc2, out2, err2 = run_matrix(c, binary, 60 if tier == "quick" else 300, 40, filt=filt, timeout=600)
                races += parse_races(err2)
            cov["race_matrix"]["search_types"] = types[:4]
            cov["race_matrix"]["race_reports"] = len(races)

    # ---- reports ----
    dyn = {}
    for r in races:
        base, loc, texts = location_of_race(r, ov or {}, derived)
        sig = "C15:%s:%s" % (base, loc if loc else "|".join(r["workload"].split("|")[1:3]))
        if not texts:
            # both accesses are outside the instrumented files (inside a foreign container / package-level state)
            texts = ["%s (%s:%d)" % (fr[0].split("/")[-1], os.path.basename(fr[1]), fr[2]) for (_, fr) in r["frames"] if fr]
            cands = [s for s, i in static.items() if i["kind"] == "inner-write" and s.split(":")[1] == base]
            if not loc and len(cands) == 1:
                sig = cands[0]  # the witness of the statically found write inside the inner container
        if not loc:
            for s_, i_ in static.items():  # a race on statically found package-level state: one signature
                if i_["kind"] == "pkgvar" and any(re.search(r"\b%s\b" % re.escape(i_["detail"]["var"].rsplit(".", 1)[1]), t) for t in texts):
                    sig = s_
                    break
        dyn.setdefault(sig, []).append(dict(r, statements=texts))
    for sig, rs in dyn.items():
        r = rs[0]
        info = static.pop(sig, None)
        c.report(sig, "data race reported by the Go race detector in workload %s (seed %s) between `%s`%s" % (
            r["workload"], r["seed"], "` and `".join(r["statements"]) or "?",
            "; static: " + info["what"] if info else ""),
            {"kind": "race", "workload": r["workload"], "workload_seed": r["seed"], "stacks": r["text"],
             "how": "h_race c15 %d <iters> <ops> %s   (race build over the instrumented overlay, chaos mode)" % (c.seed, r["workload"].split("|")[0]),
             "reports_with_this_signature": len(rs), "static": info})
    for sig, info in static.items():
        c.report(sig, info["what"], dict(kind="footprint-" + info["kind"], **info["detail"]), found_input=False)
    finish(c)


def finish(c):
    # bridge: guards_respected is PROVED from the statement-granular interleaving models (props/C15_bridge.v); the
    # Coq-side pc -> statement tables must agree with the lock-step drivers' label tables
    try:
        import part_c15bridge
        part_c15bridge.run(c)
    except Exception:
        import traceback
        c.report("C15:bridge:crash", "check part c15bridge crashed", {"kind": "internal", "trace": traceback.format_exc()[-3000:]}, found_input=False)
    c.finish(
        level="proof",
        rule="static: every (type, entry method or goroutine body, location, access kind) row that tools/footprint derives from the current source is one evaluation; "
             "non-trivial = the declared row carries a lock or publication guard (not none/const); dynamic: one workload = 2-4 goroutines calling one pair of public "
             "methods (or all methods, mixed) of a fresh instance under chaos yields in a -race build; non-trivial = the two methods differ; distinct by (type, method pair)",
        assumptions=["the theorems are about the FOOTPRINT MODEL under guards_respected (every access is an instance of a table row and the declared guard is held): "
                     "tools/footprint ties the rows to the source syntactically, the race detector validates the guards only on executed pairs",
                     "Go run-time, sync.Mutex/RWMutex, sync/atomic (sequentially consistent), channels, sync.Once, x/sync/semaphore, sync.Pool, sync.Map and context internals are trusted",
                     "the client publishes the instance safely (constructor writes are outside the tables), never copies it, and does not mutate elements after handing them over; "
                     "user-supplied comparators / Delay / tasks / converters are outside the footprint",
                     "executions are sequentially consistent interleavings (DRF-SC); a failed CAS is treated as a write; RUnlock -> RLock and atomic store as acquire give no edge (fewer edges = stronger theorem)",
                     "foreign containers behind a field (list.LinkedList, the embedded list.List, internal/queue.PriorityQueue, set.MapSet) are ONE abstract location `Field.*` classified read/write by method name; "
                     "that the methods classified as readers really are read-only on everything reachable from their receiver is CHECKED on the current source (coverage.inner_readonly, all implementations of an "
                     "interface-typed field), exclusive-lock callers are not constrained; sync.Pool/sync.Map/context behind syncx types stay trusted",
                     "package-level variables are outside the tables: the current source is checked to write none after package initialisation (coverage.package_level_state lists the derived allow-list)"],
        trusted_base=["Coq 8.16.1 kernel + vm_compute", "no axioms (Print Assumptions: closed under the global context)",
                      "extraction ExtrOcamlBasic only; ocaml/drv_footprint.ml prints the declared tables",
                      "tools/footprint (go/ast + go/parser; syntactic lock-context and alias analysis, inlining of package-local helpers; inner.go: go/types points-to-lite write summaries per function, flow-insensitive), checks/c15.py (covers relation)",
                      "Go race detector, tools/instrument + hooks/verifhook (chaos yields), harness/c15"])


if __name__ == "__main__":
    import sys
    main(sys.argv[1] if len(sys.argv) > 1 else "quick")
