"""C03 — hash-backed maps and sets under arbitrary collisions: proof layer + differential
correspondence (API observables and white-box bucket dump) against mapx/hashmap.go,
linkedmap.go, multi_map.go, builtin_map.go and set/set.go."""
import random
import re

from common import Check, coq_z, coq_list
import decor

TWO64 = 1 << 64


# ---------------------------------------------------------------- cases.v (vm_compute cross-check)
CROSS_PRELUDE = """From Ekit Require Import Common DecorSpec HashModel DecorModel.
Definition l_eqb (a b : list Z) : bool :=
  Nat.eqb (length a) (length b) && forallb (fun p => Z.eqb (fst p) (snd p)) (combine a b).
Definition ll_eqb (a b : list (list Z)) : bool :=
  Nat.eqb (length a) (length b) && forallb (fun p => l_eqb (fst p) (snd p)) (combine a b).
Definition lll_eqb (a b : list (list (list Z))) : bool :=
  Nat.eqb (length a) (length b) && forallb (fun p => ll_eqb (fst p) (snd p)) (combine a b).
Definition b2z (b : bool) : Z := if b then 1 else 0.
Definition ret_code (r : mout Z) : list Z :=
  match r with RPut (Ok _) => [0] | RPut _ => [2] | RFound v ok => [1; v; b2z ok] | _ => [3] end.
Definition enc_tbl {A} (f : A -> list Z) (t : list (Z * list (Z * A))) : list Z :=
  flat_map (fun hc => fst hc :: Z.of_nat (length (snd hc)) :: flat_map (fun kv => fst kv :: f (snd kv)) (snd hc)) t.
Definition fam (m : Z) (half lawless : bool) : (Z -> Z) * (Z -> Z -> bool) :=
  (if half && negb lawless then code_half m else code_mod m, if half then eqb_half else eqb_exact).
Fixpoint trace_h code eqb (s : hstate Z) (ops : list (mop Z)) : list (list (list Z)) :=
  match ops with
  | [] => []
  | o :: t => let (s', r) := hstep 0 code eqb s o in
      [ret_code r; [hlen s']; hkeys s'; hvals s'; enc_tbl (fun v => [v]) (tbl s'); [size s']] :: trace_h code eqb s' t
  end.
Definition keys_of {V} (r : mout V) : list Z := match r with RKeys l => l | _ => [-7] end.
Definition vals_of (r : mout Z) : list Z := match r with RVals l => l | _ => [-7] end.
Definition len_of {V} (r : mout V) : list Z := match r with RLen n => [n] | _ => [-7] end.
Fixpoint trace_l code eqb (s : lstate Z (hstate nat)) (ops : list (mop Z)) : list (list (list Z)) :=
  let B := hash_backing 0%nat code eqb in
  match ops with
  | [] => []
  | o :: t => let (s', r) := lstep 0 B s o in
      [ret_code r; len_of (snd (lstep 0 B s' MLen)); keys_of (snd (lstep 0 B s' MKeys));
       vals_of (snd (lstep 0 B s' MValues)); enc_tbl (fun _ => []) (tbl (lm s')); [size (lm s')]] :: trace_l code eqb s' t
  end.
Definition mret (r : mmout Z) : list Z :=
  match r with MRPut => [0] | MRFound vs ok => 1 :: b2z ok :: vs | _ => [3] end.
Definition enc_ll (l : list (list Z)) : list Z := flat_map (fun x => Z.of_nat (length x) :: x) l.
Fixpoint trace_m code eqb (s : hstate (list Z)) (ops : list (mmop Z)) : list (list (list Z)) :=
  let B := hash_backing [] code eqb in
  match ops with
  | [] => []
  | o :: t => let (s', r) := mmstep B s o in
      [mret r; [hlen s']; hkeys s'; enc_ll (hvals s'); enc_tbl (fun v => Z.of_nat (length v) :: v) (tbl s'); [size s']] :: trace_m code eqb s' t
  end.
Inductive hist :=
| HH (ops : list (mop Z)) | HL (ops : list (mop Z)) | HM (ops : list (mmop Z)).
Definition check (c : Z * bool * bool * hist * list (list (list Z))) : bool :=
  let '(m, half, lawless, h, expect) := c in
  let (code, eqb) := fam m half lawless in
  match h with
  | HH ops => lll_eqb (trace_h code eqb hinit ops) expect
  | HL ops => lll_eqb (trace_l code eqb (linit 0 hinit) ops) expect
  | HM ops => lll_eqb (trace_m code eqb hinit ops) expect
  end.
Definition cases : list (Z * bool * bool * hist * list (list (list Z))) :=
"""


def zl(items):
    return coq_list([coq_z(x) for x in items])


def ints(s, sep=";"):
    return [int(x) for x in s.split(sep)] if s != "" else []


def inner_list(s):
    return ints(s[1:-1], ".")


def ch_coq(ch):
    ch = int(ch)
    return "None" if ch < 0 else "(Some %d%%nat)" % ch


def op_coq(op, multi):
    f = op.split(":")
    if f[0] == "p":
        return "MPut %s %s %s" % (coq_z(f[1]), coq_z(f[2]), ch_coq(f[3]))
    if f[0] == "P":
        return "MMPutMany %s %s %s" % (coq_z(f[1]), zl(ints(f[2], ".")), ch_coq(f[3]))
    if f[0] == "g":
        return ("MMGet %s" if multi else "MGet %s") % coq_z(f[1])
    return ("MMDelete %s" if multi else "MDelete %s") % coq_z(f[1])


def dump_enc(d, container):
    bs, sz = d.rsplit("#", 1)
    enc = []
    for b in (bs.split("&") if bs else []):
        h, c = b.split("=")
        nodes = [] if c == "nil" else c.split(">")
        enc += [int(h), len(nodes)]
        for n in nodes:
            if container == "hash":
                k, v = n.split(":")
                enc += [int(k), int(v)]
            elif container == "lhm":
                enc += [int(n)]
            else:
                k, v = n.split(":")
                l = inner_list(v)
                enc += [int(k), len(l)] + l
    return enc, int(sz)


def expect_coq(container, model_line):
    obs = []
    for s in model_line.split("|"):
        f = s.split("/")
        if len(f) < 5:
            return None
        ret = f[0]
        if container == "mhm":
            if ret == "ok":
                rc = [0]
            else:
                v, ok = ret.rsplit(",", 1)
                rc = [1, int(ok)] + inner_list(v.lstrip("~"))
            vals = []
            for x in (f[3].split(";") if f[3] else []):
                l = inner_list(x)
                vals += [len(l)] + l
        else:
            if ret == "ok":
                rc = [0]
            else:
                v, ok = ret.split(",")
                rc = [1, int(v), int(ok)]
            vals = ints(f[3])
        enc, sz = dump_enc(f[4], container)
        obs.append(coq_list([zl(rc), zl([int(f[1])]), zl(ints(f[2])), zl(vals), zl(enc), zl([sz])]))
    return coq_list(obs)


def cross_item(h, model_line):
    container, code, eq, ops = h[0], h[1], h[2], h[3]
    lawless = code.startswith("L")
    m = code.lstrip("L")
    m = TWO64 if m == "m64" else int(m[1:])
    ex = expect_coq(container, model_line)
    if ex is None:
        return None
    multi = container == "mhm"
    hist = "(%s %s)" % ({"hash": "HH", "lhm": "HL", "mhm": "HM"}[container],
                        coq_list([op_coq(o, multi) for o in ops]))
    return "(%d, %s, %s, %s, %s)" % (m, "true" if eq == "h" else "false", "true" if lawless else "false", hist, ex)


def crosscheck(c, r):
    stats = decor.new_stats()
    hs = decor.gen_histories(r, ["hash", "hash", "lhm", "mhm"], 60, 24, stats, lawless_frac=0.05, sparse_frac=0.0)
    text = "\n".join(decor.case_line(h) for h in hs) + "\n"
    model = c.run_model("hash", text)
    items = [x for x in (cross_item(h, ml) for h, ml in zip(hs, model)) if x]
    v = CROSS_PRELUDE + "  [" + ";\n   ".join(items) + "].\n" + \
        "Definition bad := Eval vm_compute in length (filter (fun c => negb (check c)) cases).\nPrint bad.\n"
    rc, out = c.coq_crosscheck(v)
    okx = rc == 0 and re.search(r"bad\s*=\s*0(%nat)?\s", out.replace("\n", " ") + " ") is not None
    c.cov["coq_vm_compute_crosscheck"] = {"histories": len(items), "ops": sum(len(h[3]) for h in hs), "agree": bool(okx)}
    if not okx:
        c.report("C03:extraction", "OCaml extraction and vm_compute disagree on the model's output",
                 {"kind": "extraction-crosscheck", "coq_output": out[-1500:]}, found_input=False)


# ---------------------------------------------------------------- fixed regression histories
# (container, code, eq, ops, nontrivial): the witness of the repaired Len defect (fix ace65f0: two colliding
# keys gave Len 1) and the three positional Delete cases followed by a recycled re-insert, on a constant hash
REGRESSION = [
    ("hash", "m1", "x", ["p:1:0:-1", "p:2:0:-1"], True),
    ("hash", "m1", "x", ["p:1:10:-1", "p:2:20:-1", "p:3:30:-1", "d:1", "p:4:40:0", "g:2", "g:1"], True),
    ("hash", "m1", "x", ["p:1:10:-1", "p:2:20:-1", "p:3:30:-1", "d:2", "p:2:21:0", "g:3", "d:1", "d:3", "d:2"], True),
    ("hash", "m1", "x", ["p:1:10:-1", "p:2:20:-1", "p:3:30:-1", "d:3", "p:5:50:0", "d:5", "d:2", "d:1", "p:1:11:1"], True),
    ("hash", "m2", "h", ["p:2:1:-1", "p:3:5:-1", "g:2", "p:6:7:-1", "d:3", "g:2", "p:7:9:0"], True),
    ("lhm", "m1", "x", ["p:3:30:-1", "p:1:10:-1", "p:2:20:-1", "p:1:11:-1", "d:3", "p:3:31:0", "d:1", "d:2", "d:3"], True),
    ("mhm", "m1", "x", ["P:1:1.2:-1", "P:2::-1", "P:1:3:-1", "g:1", "g:2", "d:1", "P:1:4:0", "g:1"], True),
    # sparse observation: size-preserving mutations with no full-state observation in between (a Keys cache
    # invalidated only by a size change, seeded change C03-1c, is seen only this way)
    ("set", "-", "x", ["a:1", "a:2", "!d:1", "!a:3", "e:1"], True),
    ("hash", "m2", "x", ["p:1:10:-1", "p:2:20:-1", "!d:1", "!p:3:30:0", "g:3"], True),
    ("builtin", "-", "x", ["p:1:10:-1", "p:2:20:-1", "!d:1", "!p:3:30:-1", "g:1"], True),
    ("lhm", "m1", "x", ["p:1:10:-1", "p:2:20:-1", "!d:1", "!p:3:30:0", "g:2"], True),
    ("mhm", "m1", "x", ["P:1:1:-1", "P:2:2:-1", "!d:1", "!P:3:3:0", "g:2"], True),
    ("ltm", "-", "x", ["p:1:10:-1", "p:2:20:-1", "!d:1", "!p:3:30:-1", "g:2"], True),
    ("mtm", "-", "x", ["P:1:1:-1", "P:2:2:-1", "!d:1", "!P:3:3:-1", "g:2"], True),
]


# ---------------------------------------------------------------- main
def main(tier):
    c = Check("C03", tier)
    c.proof_layer()
    c.ensure_modelrun()
    binary, log = c.build_harness(pkgs=["c03"])
    if binary is None:
        c.report("build", "harness does not build against the repository", {"kind": "build", "log": log[-3000:]},
                 found_input=False)
        finish(c)
    g, _ = decor.run_batch(c, binary, REGRESSION, "C03")
    c.cov["regression_histories"] = {"histories": len(REGRESSION), "agree": g}
    r = random.Random(c.seed)
    n = 500 if tier == "quick" else 30000
    stats = decor.new_stats()
    # HashMap itself (white box), plus MapSet and builtinMap (trusted builtin map, thin wrappers)
    left, good = n, 0
    first = None
    while left > 0:
        m = min(left, 2000)
        hs = decor.gen_histories(r, ["hash"] * 8 + ["set", "builtin"], m, 60, stats, lawless_frac=0.04)
        first = first or hs
        g, _ = decor.run_batch(c, binary, hs, "C03")
        good += g
        left -= m
    if tier == "thorough":      # long histories: chains of a dozen nodes, pools of several recycled nodes
        hs = decor.gen_histories(r, ["hash"] * 3 + ["lhm", "mhm"], 2000, 300, stats)
        g, _ = decor.run_batch(c, binary, hs, "C03")
        c.cov["long_histories"] = {"histories": len(hs), "ops_each": "<=300", "agree": g}
    c.cov["hash"] = {"histories": n, "agree": good, "generator": stats}
    for h in first[:3]:
        c.sample(decor.case_line(h)[:300])
    # decorators over the hash backing (the same function serves C01 with backing="tree")
    decor.run_decor(c, binary, "hash", n=(160 if tier == "quick" else 8000))
    # the harness also drives the tree-backed decorators; a small smoke run keeps that path alive here
    decor.run_decor(c, binary, "tree", n=(20 if tier == "quick" else 200))
    crosscheck(c, random.Random(c.seed + 1))
    finish(c)


def finish(c):
    c.finish(
        level="proof",
        rule="case = one history (container, Code family k mod m for m in {1,2,3,7,2^64}, Equals exact or by floor(k/2), <=60 ops "
             "Put/Get/Delete[/PutMany] with a pool-oracle choice per Put) generated from VERIF_SEED, biased to delete-then-reinsert "
             "(half of the histories are SPARSELY observed: the full-state observers run only after ~1/3 of the ops and never inside "
             "runs of 2-5 size-preserving mutations, return values are still compared at every op) "
             "(recycling pooled nodes) and to head/middle/tail deletions in chains of length >= 3; after EVERY op the return value, "
             "Len, Keys, Values (sorted; sequence for the linked map), the bucket dump (chain order per code, size counter) and, for "
             "the linked map, the order list walked backwards are compared; non-trivial = the history deletes inside a chain of "
             "length >= 2 or recycles a pooled node; distinct by md5 of the history text; ~4% of the hash histories use a Code that "
             "violates the hash law (model faithfulness only)",
        assumptions=["Go's builtin map is trusted to be the abstract map keyed by == (HashMap's bucket table, MapSet, builtinMap)",
                     "sync.Pool hands out either a node previously Put or a fresh one (the oracle of the model); which one is not observable",
                     "the int64 size counter does not wrap (fewer than 2^63 entries)",
                     "slices are modelled as lists: aliasing is checked on the real code by overwriting (elements and spare capacity) every slice returned by Keys / Values / multi-map Get / Delete and every slice passed to PutMany",
                     "nil-ness of Keys()/Values() results is compared (the code never returns nil there); the nil-ness of the slice returned by MultiMap.Delete is not",
                     "tree-backed multi map: the decorator model runs over the abstract map, its (key, values) pairs are sorted by the comparator before the in-order comparison with the implementation"],
        trusted_base=["Coq 8.16.1 kernel + vm_compute (no native_compute)", "no axioms (Print Assumptions: closed under the global context)",
                      "extraction: ExtrOcamlBasic only, no Extract Constant; cross-checked against vm_compute on 60 histories per run",
                      "OCaml driver ocaml/drv_hash.ml, Go harness harness/c03, hooks/mapx/x_verif.go, checks/c03.py + checks/decor.py"])


if __name__ == "__main__":
    import sys
    main(sys.argv[1] if len(sys.argv) > 1 else "quick")
