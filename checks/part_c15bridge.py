"""C15, bridge part: the tie between the Coq-side statement tables of proof/C15Bridge*.v and the
lock-step drivers.

The theorems guards_respected_<O> (props/C15_bridge.v) speak about `stmt_of_pc_<O>` — the statement
text a program counter of the interleaving model carries — and match it against the r_stmt column
of the footprint tables.  The lock-step correspondence (C06–C13) validates the interleaving models
against the real goroutines through the drivers' OCaml table `label_of_pc`.  This check makes the two
tables one: `modelrun c15bridge` prints the extracted Coq table (lines
`<obj> <pc> <Recv>.<Func>|<stmt>|<occ>`), `modelrun <obj>-lockstep labels <file>` prints the driver's
(`LABEL <Recv>.<Func>|<stmt>|<occ>`); for every function the Coq table covers the two label sets must
be equal (the drivers print each label once, so sets are compared; the Coq table has one line per
(operation / call site, pc)).  Driver labels of functions WITHOUT a Coq-side program counter (the
comparator closure of NewDelayQueue: one heap operation is one model step) are listed in the evidence.

run(c) -> adds c.cov["c15_bridge"]; any difference is reported as C15:bridge:<obj> (found_input=False:
a broken tie between two tables has no failing input)."""
import os
import subprocess

import common

OBJECTS = ["lbq", "abq", "dq", "cond", "cpq", "clist", "cow", "pool"]
# labels the drivers carry for bookkeeping that are no statements of the current source
DRIVER_PSEUDO_FUNCS = {"pinned", "task"}


def coq_tables(c):
    p = subprocess.run([common.MODELRUN, "c15bridge"], stdin=subprocess.DEVNULL, stdout=subprocess.PIPE,
                       stderr=subprocess.PIPE, text=True, timeout=120)
    if p.returncode != 0:
        raise RuntimeError("modelrun c15bridge failed: " + p.stderr[-1000:])
    tables, cover = {}, {}
    for line in p.stdout.splitlines():
        if line.startswith("COVER "):
            _, obj, total, unm = line.split()
            cover[obj] = (int(total), int(unm))
            continue
        obj, pc, label = line.split(" ", 2)
        tables.setdefault(obj, []).append((pc, label))
    return tables, cover


def driver_labels(c, obj):
    rep = os.path.join(c.tmp, "c15bridge_labels_%s.txt" % obj)
    if os.path.exists(rep):
        os.remove(rep)
    p = subprocess.run([common.MODELRUN, obj + "-lockstep", "labels", rep], stdin=subprocess.DEVNULL,
                       stdout=subprocess.PIPE, stderr=subprocess.PIPE, text=True, timeout=120)
    txt = open(rep).read() if os.path.exists(rep) else ""
    return [l[6:] for l in txt.splitlines() if l.startswith("LABEL ")], p.stderr[-500:]


def func_of(label):
    return label.split("|", 1)[0]


def run(c):
    cov = {"objects": {}, "rows_total": 0, "rows_matched": 0}
    try:
        tables, cover = coq_tables(c)
    except Exception as e:  # the extracted table is missing: the bridge theorems are not tied to anything
        c.report("C15:bridge:driver", "modelrun c15bridge does not run: %s" % str(e)[:300],
                 {"kind": "bridge-driver", "error": str(e)[:1000]}, found_input=False)
        c.cov["c15_bridge"] = cov
        return cov
    for obj in OBJECTS:
        lines = tables.get(obj, [])
        coq = set(l for _, l in lines)
        funcs = set(func_of(l) for l in coq)
        drv, err = driver_labels(c, obj)
        drv_all = set(drv)
        drv_cov = set(l for l in drv_all if func_of(l) in funcs)
        drv_other = sorted(set(func_of(l) for l in drv_all - drv_cov) - DRIVER_PSEUDO_FUNCS)
        only_coq = sorted(coq - drv_cov)
        only_drv = sorted(drv_cov - coq)
        total, unm = cover.get(obj, (0, 0))
        cov["objects"][obj] = {"coq_lines": len(lines), "coq_labels": len(coq), "driver_labels": len(drv_all),
                               "functions": sorted(funcs), "driver_only_functions": drv_other,
                               "only_in_coq": len(only_coq), "only_in_driver": len(only_drv),
                               "glock_rows": total, "glock_rows_matched": total - unm}
        cov["rows_total"] += total
        cov["rows_matched"] += total - unm
        if not lines or not drv_all or only_coq or only_drv:
            what = ("the Coq-side statement table of %s (stmt_of_pc, proof/C15Bridge*.v) and the lock-step driver's "
                    "label_of_pc differ: %d label(s) only in Coq%s, %d only in the driver%s" % (
                        obj, len(only_coq), (" e.g. `%s`" % only_coq[0]) if only_coq else "",
                        len(only_drv), (" e.g. `%s`" % only_drv[0]) if only_drv else ""))
            if not lines:
                what = "modelrun c15bridge prints no table for %s" % obj
            elif not drv_all:
                what = "modelrun %s-lockstep labels prints no labels (%s)" % (obj, err.strip()[:200])
            c.report("C15:bridge:" + obj, what,
                     {"kind": "bridge-table", "object": obj, "only_in_coq": only_coq[:20], "only_in_driver": only_drv[:20],
                      "how": "modelrun c15bridge | grep '^%s '  vs  modelrun %s-lockstep labels <file>" % (obj, obj)},
                     found_input=False)
    cov["theorems"] = ("guards_respected_{LBQ,ABQ,DQ,Cond,CPQ,CList,COW,Pool}, section_locks_held_*, pool_lock_discipline, "
                       "lbq_trace_drf (composition), glock_rows_matched")
    c.cov["c15_bridge"] = cov
    return cov


if __name__ == "__main__":   # manual try:  MODELRUN=/tmp/x/modelrun python3 checks/part_c15bridge.py
    import json
    ck = common.Check("C15", "quick")
    print(json.dumps(run(ck), indent=1))
    print("violations:", ck.violations)
