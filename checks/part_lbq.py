"""ConcurrentLinkedBlockingQueue part of C07 / C09 (object tag lbq).

run(c, binary, labels, tier, focus):
  1. synchronisation skeleton: every program counter of the model (LBQModel.v, table in
     ocaml/drv_lbq.ml) is a statement of the CURRENT source and every statement of Enqueue /
     Dequeue / Len / AsSlice / cond.signalCh / cond.broadcast has a program counter;
  2. lock-step: model-chosen interleavings (maxSize in {-1,0,1,2,3}, 2-5 goroutines, CANCEL at
     every yield point and while parked in the select, the enabling event fired while a call sits
     at each park point) executed statement by statement on the real goroutines;
  3. the chaos-mode stress/monitor command c07-lbq-stress (dynamic complement, and the search
     oracle when 1/2 found a problem);
  4. reports: a monitor hit is a concrete replay; a broken correspondence without a monitor hit
     is reported with found_input=False.
"""
import subprocess

from common import GOENV

THEOREMS_C07 = "lbq_capacity, lbq_mutual_exclusion, lbq_linearizable, ctx_error_has_no_effect, lbq_exactly_once_fifo, delete0_never_fails"
THEOREMS_C09 = "no_lost_wakeup, stuck_implies_cannot_proceed, cancel_enables, lbq_closer_enabled"

# property-relevant monitor kinds per focus (the others are still reported, under the caller's id)
KINDS = ("capacity", "negative", "order", "duplicate", "lost", "phantom", "ctx-effect", "hang", "fill", "panic")


def stress(c, binary, configs, timeout=150):
    """configs: (maxSize, producers, consumers, items, rounds). Returns list of hits."""
    bad = []
    for k, (m, p, q, n, rounds) in enumerate(configs):
        seed = c.seed * 1000 + k
        cmd = [binary, "c07-lbq-stress", str(seed), str(m), str(p), str(q), str(n), str(rounds)]
        try:
            pr = subprocess.run(cmd, stdout=subprocess.PIPE, stderr=subprocess.PIPE, text=True, timeout=timeout, env=GOENV)
            out = (pr.stdout.strip().splitlines() or [""])[0]
            err = pr.stderr
            if not out:
                out = "panic: process died rc=%d: %s" % (pr.returncode, err[-400:].replace("\n", " | "))
        except subprocess.TimeoutExpired:
            out, err = "hang: the stress command itself did not finish within %d s" % timeout, ""
        if not out.startswith("ok"):
            kind = out.split(":", 1)[0].strip()
            bad.append({"kind": kind if kind in KINDS else "other", "result": out[:600],
                        "maxSize": m, "producers": p, "consumers": q, "items": n, "rounds": rounds,
                        "goroutine_dump": err[-1500:] if kind == "hang" else "",
                        "how": "h c07-lbq-stress %d %d %d %d %d %d   (instrumented harness, chaos mode)" % (seed, m, p, q, n, rounds)})
    return bad


def run(c, binary, labels, tier, focus):
    focus = (focus or c.pid).lower()
    pid = c.pid
    theorems = THEOREMS_C09 if focus == "c09" else THEOREMS_C07

    # 1. skeleton
    problems = c.check_labels("lbq-lockstep", labels)

    # 2. lock-step
    nsched, maxev = (220, 110) if tier == "quick" else (5000, 160)
    rc, txt, merr, gerr = c.lockstep(binary, "lbq-lockstep", ["run", c.seed, nsched, maxev, focus])
    stats, tags, samples, mism = c.parse_lockstep_report(txt)
    c.cov["lbq_lockstep"] = dict(stats, focus=focus, coverage_tags=tags,
                                 parameters="maxSize in {-1,0,1,2,3}; 2..5 goroutines; schedule styles: uniform / slow waiter "
                                            "between unlock and select / slow close(old) / consumers outnumber producers")
    c.cov["evaluations"] += stats.get("schedules", 0)
    c.cov["traces_validated_against_impl"] += stats.get("schedules", 0) - stats.get("mismatches", 0)
    for i in range(stats.get("nontrivial", 0)):
        c._distinct.add("lbq-%s-%d" % (focus, i))
    for s in samples[:1]:
        c.sample("lbq lock-step schedule (%s): %s" % (focus, s[:700]))
    broken = bool(problems or mism or not stats)

    # 3. stress / monitors
    if tier == "quick":
        configs = [(2, 3, 3, 150, 60), (1, 2, 2, 100, 60), (0, 2, 2, 100, 30)]
        if focus == "c09":
            configs = [(1, 2, 3, 80, 120), (3, 3, 2, 80, 100), (0, 2, 2, 60, 40)]
    else:
        configs = [(m, p, q, 300, 200) for (m, p, q) in
                   [(1, 1, 1), (1, 4, 4), (2, 4, 4), (2, 1, 4), (3, 4, 1), (3, 2, 4), (7, 4, 4), (0, 4, 4), (-1, 2, 2)]]
    sbad = stress(c, binary, configs)
    if broken and not sbad:
        # the correspondence no longer holds: search harder before giving up
        sbad = stress(c, binary, [(m, p, q, 300, 300) for m in (1, 2, 3) for (p, q) in ((1, 1), (4, 4), (1, 4), (4, 1))]
                      + [(0, 4, 4, 300, 100)])
    c.cov["lbq_stress"] = {"configs": len(configs), "violations": len(sbad),
                           "monitors": "Len()/AsSlice() samples vs maxSize, per-producer order at every consumer, exactly-once, "
                                       "zero value with context error, drain after quiescence, completion deadlines with goroutine dump, "
                                       "exactly maxSize enqueues accepted after cancellation patterns"}
    c.cov["evaluations"] += len(configs)

    # 4. reports
    for b in sbad[:4]:
        c.report("%s:lbq:%s" % (pid, b["kind"]), "ConcurrentLinkedBlockingQueue: " + b["result"], dict(b, kind="stress-run", monitor=b["kind"]))
    if broken and not sbad:
        what = ("ConcurrentLinkedBlockingQueue no longer corresponds to its interleaving model (theorems %s do not transfer)" % theorems)
        c.report("%s:lbq:lockstep" % pid, what,
                 {"kind": "lockstep-correspondence", "skeleton_problems": problems[:12], "mismatches": mism[:3],
                  "lockstep_stats": stats, "model_stderr": merr[-500:], "go_stderr": gerr[-500:],
                  "how": "modelrun lbq-lockstep replay <file with 'PARAMS ...' + the event lines> against `h lockstep` (checks/common.py: Check.lockstep)"},
                 found_input=False)
    return {"problems": problems, "mismatches": mism, "stats": stats, "stress": sbad}
