"""C17 — AnyValue accessors: proof layer + differential correspondence against value.go."""
import random
import re

from common import Check, diff_lines, coq_z, coq_list

KINDS = ["i", "i8", "i16", "i32", "i64", "u", "u8", "u16", "u32", "u64"]
BITS = {"i": 64, "i8": 8, "i16": 16, "i32": 32, "i64": 64, "u": 64, "u8": 8, "u16": 16, "u32": 32, "u64": 64}
TYS = KINDS + ["f32", "f64", "str", "bytes", "bool"]
ATYS = KINDS + ["f32", "f64", "str", "bytes"]


def rng_of(k):
    b = BITS[k]
    return (-(1 << (b - 1)), (1 << (b - 1)) - 1) if k[0] == "i" else (0, (1 << b) - 1)


def hx(s):
    return s.encode("utf-8", "surrogateescape").hex() if isinstance(s, str) else bytes(s).hex()


def held_values(r):
    hs = ["nil", "sliceother", "other", "bool:0:1", "bool:0:0", "bool:1:1", "bytes:0:nil", "bytes:1:nil"]
    for k in KINDS:
        lo, hi = rng_of(k)
        for z in {lo, hi, 0, 1, min(hi, 127), max(lo, -1), r.randint(lo, hi)}:
            hs.append("int:%s:0:%d" % (k, z))
            hs.append("int:%s:1:%d" % (k, z))
    for b in [0, 0x3F800000, 0x7FC00000, 0xFF800000, 0x7F7FFFFF, 1]:
        hs += ["f32:0:%d" % b, "f32:1:%d" % b]
    for b in [0, 0x3FF0000000000000, 0x7FF8000000000000, 0xFFF0000000000000, 0x7FEFFFFFFFFFFFFF, 1]:
        hs += ["f64:0:%d" % b, "f64:1:%d" % b]
    for s in ["", "0", "-1", "12", "abc", "1.5", "中文", "18446744073709551615"]:
        hs += ["str:0:" + hx(s), "str:1:" + hx(s), "bytes:0:" + hx(s), "bytes:1:" + hx(s)]
    # JSON documents (for JSONScan: decoded value and error class are compared with encoding/json called directly)
    for s in ['{"a":1,"b":[true,null,"x"]}', "[1,2,3]", '"x"', "null", "true", '{"a":', "[1,]", " 7 ", '{"a":1}{']:
        hs += ["str:0:" + hx(s), "bytes:0:" + hx(s)]
    return hs


def default_for(t, r):
    if t in KINDS:
        lo, hi = rng_of(t)
        return "int:%d" % r.choice([lo, hi, 7, 0])
    return {"f32": "f32:1065353216", "f64": "f64:4607182418800017408", "str": "str:" + hx("dflt"),
            "bytes": "bytes:" + hx("dflt"), "bool": "bool:1"}[t]


def numeral_variants(z, r, full):
    base = str(abs(z))
    neg = z < 0
    out = [("-" if neg else "") + base]
    if not neg:
        out.append("+" + base)
    out.append(("-" if neg else "") + "0" * r.randint(1, 3) + base)
    if full or r.random() < 0.3:
        out.append(("-" if neg else "+") + "00" + base)
    if z == 0:
        out += ["-0", "+0", "000"]
    return out


MALFORMED = ["", "+", "-", " 1", "1 ", "1_000", "0x10", "1e3", "١٢", "--1", "+-1", "1.0", "0b1", "9" * 40, "-" + "9" * 40,
             "\x00", "1\n", "+ 1", "２", "1,000", "-", "+0x1", "0_1", "_1", "inf", "NaN", "9223372036854775808x",
             "99999999999999999999x", "300x", "-129x", "65536_"]


def gen_cases(c):
    r = random.Random(c.seed)
    full = c.tier == "thorough"
    cases = []
    helds = held_values(r)
    # every held kind x every accessor (with and without a stored error)
    for h in helds:
        for t in TYS:
            cases.append("%s 0 exact:%s" % (h, t))
            cases.append("%s 0 ordef:%s:%s" % (h, t, default_for(t, r)))
        for t in ATYS:
            cases.append("%s 0 as:%s" % (h, t))
        cases.append("%s 0 jsonscan" % h)
        cases.append("%s 1 jsonscan" % h)
    for h in r.sample(helds, 25):
        for t in TYS:
            cases.append("%s 1 exact:%s" % (h, t))
            cases.append("%s 1 ordef:%s:%s" % (h, t, default_for(t, r)))
        for t in ATYS:
            cases.append("%s 1 as:%s" % (h, t))
    # decimal strings around every width boundary
    for k in KINDS:
        lo, hi = rng_of(k)
        zs = set()
        for b in (lo, hi, 0, -(1 << 63), (1 << 63), (1 << 64), 255, 256, 127, 128, -128, -129, 65535, 65536,
                  32767, 32768, -32768, -32769, 1 << 31, (1 << 31) - 1, -(1 << 31), 1 << 32):
            for d in range(-2, 3):
                zs.add(b + d)
        if BITS[k] <= 16:
            span = 70000 if full else (400 if BITS[k] == 8 else 0)
            step = 1
            zs.update(range(-span, span + 1, step))
            if not full and BITS[k] == 16:
                zs.update(r.randint(-70000, 70000) for _ in range(300))
        else:
            zs.update(r.randint(-(1 << 65), 1 << 65) for _ in range(200 if not full else 3000))
            zs.update(r.randint(lo - 1000, hi + 1000) for _ in range(100))
        for z in sorted(zs):
            for s in numeral_variants(z, r, full):
                cases.append("str:0:%s 0 as:%s" % (hx(s), k))
    # malformed stream + fuzz
    alphabet = "0123456789+-_ .ex"
    fuzz = ["".join(r.choice(alphabet) for _ in range(r.randint(0, 8))) for _ in range(400 if not full else 5000)]
    for s in MALFORMED + fuzz:
        for k in KINDS:
            cases.append("str:0:%s 0 as:%s" % (hx(s), k))
        cases.append("str:0:%s 0 as:str" % hx(s))
        cases.append("str:0:%s 0 as:bytes" % hx(s))
        cases.append("str:0:%s 0 as:f64" % hx(s))
        cases.append("str:0:%s 0 as:f32" % hx(s))
    # decimal strings for the float targets: range limits of both widths, sub-normals, a double-rounding witness
    # (1+2^-24+eps rounds up as float32 but to 1.0 through float64), hex floats, infinities, NaNs, malformed
    for s in FLOAT_STRINGS + [repr(r.uniform(-1e40, 1e40)) for _ in range(40 if not full else 600)] + \
            ["%de%d" % (r.randint(-99999, 99999), r.randint(-330, 330)) for _ in range(40 if not full else 600)]:
        cases.append("str:0:%s 0 as:f32" % hx(s))
        cases.append("str:0:%s 0 as:f64" % hx(s))
    return cases


FLOAT_STRINGS = ["1e39", "-1e39", "3.4028235e38", "3.4028236e38", "3.40282357e38", "1e-46", "1e-45", "1.4e-45", "7e-46",
                 "1.000000059604644775390626", "1.000000059604644775390625", "1.000000059604644775390624", "0.1", "16777217",
                 "16777216", "1e309", "-1e309", "1.7976931348623157e308", "1.7976931348623159e308", "4.9e-324", "2e-324", "2.5e-324",
                 "Inf", "-Inf", "+Inf", "infinity", "nan", "NaN", "-nan", "0x1p-2", "0x1.fffffep127", "0x1p128", "1_0", "1e", ".5", "5.",
                 "1e+2", " 1.5", "1.5 ", "١.٥", "1.5e", "e5", "-", "+", "-0", "0.0", "-0.0", "1e400", "1e-400", "0.000000000000000000000000000000000000000000001",
                 "340282346638528859811704183484516925440", "340282356779733661637539395458142568448", "9007199254740993", "1.5", "2.5", "-2.5"]


NUM_S = re.compile(rb"\A[+-]?[0-9]+\Z")
NUM_U = re.compile(rb"\A[0-9]+\Z")


def oracle_violation(case, out):
    """Decide the property itself on one (case, implementation output), independently of the
    extracted model where that is possible (big-integer oracle).  Returns a reason or None."""
    h, e, a = case.split()
    if out == "panic":
        return "panic"
    if e == "1" and not a.startswith("ordef") and out != "err stored":   # incl. jsonscan
        return "stored Err not returned unchanged"
    if e == "0" and a.startswith("as:") and a[3:] in KINDS and h.startswith("str:0:"):
        k = a[3:]
        raw = bytes.fromhex(h.split(":")[2])
        lo, hi = rng_of(k)
        m = (NUM_S if k[0] == "i" else NUM_U).match(raw)
        want = None
        if m:
            z = int(raw.decode())
            if lo <= z <= hi:
                want = "ok int %d" % z
        if want is None and out.startswith("ok"):
            return "returned %r for a string that does not denote a number fitting %s" % (out, k)
        if want is not None and out != want:
            return "returned %r, the denoted number is %r" % (out, want)
    return None


def nontrivial(case):
    h, e, a = case.split()
    return e == "1" or h.startswith(("str:", "int:", "bytes:")) or a.startswith("ordef")


def held_to_coq(h):
    p = h.split(":")
    nm = lambda x: "true" if x == "1" else "false"
    bl = lambda hexs: coq_list([str(b) for b in bytes.fromhex("" if hexs == "nil" else hexs)])
    K = lambda k: k.upper()
    if p[0] == "nil":
        return "HNil"
    if p[0] == "int":
        return "(HInt %s %s %s)" % (K(p[1]), nm(p[2]), coq_z(p[3]))
    if p[0] in ("f32", "f64"):
        return "(H%s %s %s)" % (p[0].upper(), nm(p[1]), p[2])
    if p[0] == "str":
        return "(HStr %s %s)" % (nm(p[1]), bl(p[2]))
    if p[0] == "bytes":
        return "(HBytes %s %s)" % (nm(p[1]), bl(p[2]))
    if p[0] == "bool":
        return "(HBool %s %s)" % (nm(p[1]), nm(p[2]))
    return {"sliceother": "HSliceOther", "other": "HOther"}[p[0]]


def res_to_coq(parts):
    bl = lambda hexs: coq_list([str(b) for b in bytes.fromhex(hexs)])
    t, v = parts[0], (parts[1] if len(parts) > 1 else "")
    return {"int": lambda: "(RInt %s)" % coq_z(v), "f32": lambda: "(RF32 %s)" % v, "f64": lambda: "(RF64 %s)" % v,
            "str": lambda: "(RStr %s)" % bl(v), "bytes": lambda: "(RBytes %s)" % bl(v),
            "bool": lambda: "(RBool %s)" % ("true" if v == "1" else "false")}[t]()


def acc_to_coq(a):
    p = a.split(":")
    ty = lambda t: "(TInt %s)" % t.upper() if t in KINDS else {"f32": "TF32", "f64": "TF64", "str": "TStr", "bytes": "TBytes", "bool": "TBool"}[t]
    aty = lambda t: "(AsI %s)" % t.upper() if t in KINDS else {"f32": "AsF32", "f64": "AsF64", "str": "AsStr", "bytes": "AsBytes"}[t]
    if p[0] == "jsonscan":
        return "AJsonScan"
    if p[0] == "exact":
        return "(AExact %s)" % ty(p[1])
    if p[0] == "as":
        return "(AAs %s)" % aty(p[1])
    return "(AOrDef %s %s)" % (ty(p[1]), res_to_coq(p[2:]))


def out_to_coq(o):
    p = o.split()
    if p[0] == "panic":
        return "OPanic"
    if p[0] == "err":
        return "OErrStored" if p[1] == "stored" else "OErrOther"
    if p[1] in ("parsefloat", "fmtfloat", "jsonscan"):
        return "OOpaque"
    return "(OOk %s)" % res_to_coq(p[1:] if len(p) > 2 else [p[1], ""])


CROSS_PRELUDE = """From Ekit Require Import Common ValueModel.
Inductive obs := OOk (r : res) | OErrStored | OErrOther | OOpaque | OPanic.
Definition res_eqb (a b : res) : bool :=
  match a, b with
  | RInt x, RInt y | RF32 x, RF32 y | RF64 x, RF64 y => Z.eqb x y
  | RStr x, RStr y | RBytes x, RBytes y => (Nat.eqb (length x) (length y)) && forallb (fun p => Z.eqb (fst p) (snd p)) (combine x y)
  | RBool x, RBool y => Bool.eqb x y
  | _, _ => false end.
Definition agree (o : outcome res) (e : obs) : bool :=
  match o, e with
  | Ok (RParseFloat _ _), OOpaque | Ok (RFmtFloat _ _), OOpaque | Ok (RJsonScan _), OOpaque => true
  | Ok r, OOk r' => res_eqb r r'
  | Err EStored, OErrStored => true
  | Err EStored, _ => false
  | Err _, OErrOther => true
  | Panic, OPanic => true
  | _, _ => false end.
Definition check (c : held * bool * acc * obs) : bool :=
  let '(h, e, a, o) := c in agree (access_now a {| val := h; has_err := e |}) o.
Definition cases : list (held * bool * acc * obs) :=
"""


def main(tier):
    c = Check("C17", tier)
    c.proof_layer()
    c.ensure_modelrun()
    binary, log = c.build_harness()
    if binary is None:
        c.report("build", "harness does not build against /repo", {"kind": "build", "log": log[-3000:]}, found_input=False)
        finish(c)
    cases = gen_cases(c)
    text = "\n".join(cases) + "\n"
    rc, impl, err = c.run_impl(binary, ["c17"], text)
    model = c.run_model("value", text)
    for i, cs in enumerate(cases):
        c.note_case(cs, nontrivial(cs))
    for cs in cases[:2] + [x for x in cases if "as:i8" in x and "str:" in x][:2]:
        c.sample(cs)
    kinds = {}
    for cs in cases:
        k = cs.split()[2].split(":")[0]
        kinds[k] = kinds.get(k, 0) + 1
    c.cov["case_distribution"] = kinds
    bad = diff_lines(cases, impl, model)
    c.cov["traces_validated_against_impl"] = len(cases) - len(bad)
    # property decided directly on every implementation output (search oracle), not only on mismatches
    for i, cs in enumerate(cases):
        o = impl[i] if i < len(impl) else "<missing>"
        why = oracle_violation(cs, o)
        if why:
            acc = cs.split()[2]
            cls = "panic" if why == "panic" else "stored" if why.startswith("stored") else "not-denoted" if " for a string" in why else "wrong-number"
            c.report("C17:%s:%s" % (":".join(acc.split(":")[:2]), cls),
                     "AnyValue accessor %s: %s" % (acc, why),
                     {"kind": "input", "case": cs, "implementation": o, "model": model[i] if i < len(model) else None,
                      "how": "echo '<case>' | harness/bin/h c17   (format: <held> <has_err> <accessor>)"})
    for i in bad:
        cs = cases[i] if i < len(cases) else "<none>"
        o = impl[i] if i < len(impl) else "<missing>"
        if oracle_violation(cs, o):
            continue
        acc = cs.split()[2] if cs != "<none>" else "?"
        # the model's output IS the abstract spec for this property (refinement): a disagreement is a failing input
        c.report("C17:diff:%s" % ":".join(acc.split(":")[:2]),
                 "AnyValue accessor %s returns %r, the specification gives %r" % (acc, o, model[i] if i < len(model) else None),
                 {"kind": "input", "case": cs, "implementation": o, "model": model[i] if i < len(model) else None})
    # cross-check the OCaml extraction against vm_compute inside Coq on a sample
    r = random.Random(c.seed + 1)
    idx = sorted(r.sample(range(len(cases)), min(300, len(cases))))
    items = []
    for i in idx:
        h, e, a = cases[i].split()
        items.append("(%s, %s, %s, %s)" % (held_to_coq(h), "true" if e == "1" else "false", acc_to_coq(a), out_to_coq(model[i])))
    v = CROSS_PRELUDE + "  [" + ";\n   ".join(items) + "].\n" + \
        "Definition bad := Eval vm_compute in length (filter (fun c => negb (check c)) cases).\nPrint bad.\n"
    rc, out = c.coq_crosscheck(v)
    okx = rc == 0 and re.search(r"bad\s*=\s*0(%nat)?\s", out.replace("\n", " ") + " ") is not None
    c.cov["coq_vm_compute_crosscheck"] = {"cases": len(idx), "agree": bool(okx)}
    if not okx:
        c.report("C17:extraction", "OCaml extraction and vm_compute disagree on the model's output",
                 {"kind": "extraction-crosscheck", "coq_output": out[-1500:]}, found_input=False)
    finish(c)


def finish(c):
    c.finish(
        level="proof",
        rule="cases = (held value, stored-error flag, accessor); generated from VERIF_SEED: every held kind at its extremes x every accessor, "
             "decimal numerals around every width boundary (8-bit exhaustively in quick, 8/16-bit exhaustively over [-70000,70000] in thorough) "
             "with sign / leading-zero variants, and a malformed+fuzz stream; non-trivial = held value is a string/number/bytes, or a stored error, or an OrDefault form; "
             "distinct by md5 of the case text",
        assumptions=["strconv.ParseFloat/FormatFloat are opaque (only dispatch is modelled; float results compared for ok/err class only)",
                     "reflect.ValueOf/Kind, type switches and strconv.ParseInt/ParseUint/FormatInt behave as modelled (cross-checked by the differential run)"],
        trusted_base=["Coq 8.16.1 kernel + vm_compute (no native_compute)", "no axioms (Print Assumptions: closed under the global context)",
                      "extraction: ExtrOcamlBasic only, no Extract Constant; cross-checked against vm_compute on 300 cases per run",
                      "OCaml driver ocaml/drv_value.ml, Go harness harness/c17, checks/c17.py (case generator, big-integer oracle)"])


if __name__ == "__main__":
    import sys
    main(sys.argv[1] if len(sys.argv) > 1 else "quick")
