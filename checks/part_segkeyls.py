"""C14, part `segkeyls`: syncx.SegmentKeysLock under CONCURRENCY (complements the sequential differential
of checks/c14.py).  Interleaving model coq/theories/model/SegKeyLSModel.v, theorems props/C14_segkeyls.v.

run(c, binary, labels, tier, focus):
  1. statement skeleton: every statement of Lock/Unlock/RLock/RUnlock/TryLock/TryRLock/getLock/hash (and the
     pinned constructor) against the model's program counters;
  2. lock-step session (`segkeyls-lockstep`, ocaml/drv_segkeyls.ml): the extracted Coq transition function picks
     interleavings of 3-5 goroutines over 1-8 segments, keys from a pool with empty / non-ASCII / 300-byte keys and
     colliding pairs (incl. two pairs with EQUAL 32-bit FNV-1a hashes), every call on a fresh allocation of the key;
     the real goroutines execute them statement by statement; arrivals and answers are compared.  A Lock/RLock the
     model says would block is never granted; Unlock/RUnlock are only called by a goroutine holding the segment;
  3. search oracle `c14-segkeyls-stress` (harness/segkeyls/stress.go): label-independent controlled schedules
     (round-robin through getLock on a fresh instance) + chaos-mode brackets with monitors that evaluate the
     property by key contents; briefly on every run, longer when 1/2 found a problem;
  4. report."""
import subprocess

from common import GOENV

THEOREMS = ("segkeyls_mutual_exclusion, segkeyls_lock_excludes_equal_keys, segkeyls_readers_share, "
            "segkeyls_trylock_succeeds_when_idle, segkeyls_index_in_range")
WINDOWS = ["trylock-fails-while-held", "two-readers-share", "two-goroutines-in-getLock-same-segment",
           "colliding-distinct-keys"]


def fnv1a(b):
    h = 2166136261
    for x in b:
        h = ((h ^ x) * 16777619) & 0xFFFFFFFF
    return h


# mirror of the key pool of ocaml/drv_segkeyls.ml (documentation + sanity of the collision claims)
POOL = [b"", b"a", b"b", b"key", b"key2", "键".encode(), "ключ".encode(), b"\x00", b"\xff\xfe",
        b"x" * 300, b"x" * 301, b"costarring", b"liquid", b"declinate", b"macallums", b"user:1", b"user:2"]


def stress(c, binary, rounds, goroutines, seed_off=0):
    """one run of the search oracle; None when nothing was found, else a dict describing the hit"""
    cmd = [binary, "c14-segkeyls-stress", str(c.seed + seed_off), str(rounds), str(goroutines)]
    try:
        p = subprocess.run(cmd, stdout=subprocess.PIPE, stderr=subprocess.PIPE, text=True, timeout=900, env=GOENV)
        out = p.stdout.strip()
        if not out.startswith(("ok ", "violation ")):
            # the Go run-time aborted (e.g. "fatal error: sync: Unlock of unlocked RWMutex"): a lock the
            # specification says the caller holds is not the one being released
            first = next((l for l in p.stderr.splitlines() if l.strip()), "no output")
            out = "violation fatal: the run-time aborted (%s) during legal lock operations\n%s" % (first[:200], out[-300:])
    except subprocess.TimeoutExpired:
        out = "violation hang: the stress command did not finish in 900 s"
    lines = out.splitlines()
    first = lines[0] if lines else "violation crash: no output"
    if first.startswith("ok "):
        return None
    kind = first.split()[1].rstrip(":") if len(first.split()) > 1 else "crash"
    if kind not in ("exclusion", "idle", "readers-share", "panic", "hang", "fatal"):
        kind = "crash"
    return {"kind": kind, "result": first[:500], "detail": lines[1:6],
            "how": "h c14-segkeyls-stress %d %d %d   (instrumented harness; controlled schedules are deterministic in the seed)"
                   % (c.seed + seed_off, rounds, goroutines)}


def run(c, binary, labels, tier, focus="c14"):
    name = "segkeyls-lockstep"
    # 1. skeleton
    problems = c.check_labels(name, labels)
    # 2. lock-step
    nsched, maxev = (200, 70) if tier == "quick" else (5000, 110)
    rc, txt, merr, gerr = c.lockstep(binary, name, ["run", c.seed, nsched, maxev])
    stats, tags, samples, mism = c.parse_lockstep_report(txt)
    collide = {s: sorted(set(fnv1a(k) % s for k in POOL)).__len__() for s in range(1, 9)}
    c.cov["segkeyls_lockstep"] = dict(stats, coverage_tags=tags, skeleton_problems=len(problems),
                                      goroutines="3-5", segments="1-8", key_pool=len(POOL),
                                      distinct_segments_hit_by_pool_per_size=collide,
                                      equal_hash_pairs=[[a.decode(), b.decode()] for a, b in
                                                        ((b"costarring", b"liquid"), (b"declinate", b"macallums"))
                                                        if fnv1a(a) == fnv1a(b)])
    c.cov["evaluations"] += stats.get("schedules", 0)
    c.cov["traces_validated_against_impl"] += stats.get("schedules", 0) - stats.get("mismatches", 0)
    for i in range(stats.get("nontrivial", 0)):
        c._distinct.add("segkeyls%d" % i)
    if samples:
        c.sample("segkeyls lock-step schedule: " + samples[0][:600])
    missing = [w for w in WINDOWS if stats and not mism and tags.get(w, 0) == 0]
    if missing:
        c.cov["segkeyls_lockstep"]["windows_not_reached"] = missing
    broken = bool(problems or mism or not stats)

    # 3. search oracle: always briefly; harder when the correspondence is broken
    rounds, gor = (300, 4) if tier == "quick" else (6000, 5)
    hits = []
    h = stress(c, binary, rounds, gor)
    if h:
        hits.append(h)
    if broken and not hits:
        harder = [(3000, 2), (3000, 3), (4000, 5)] if tier == "quick" else [(20000, 2), (20000, 3), (30000, 5), (60000, 4)]
        for k, (r, g) in enumerate(harder):
            h = stress(c, binary, r, g, seed_off=1 + k)
            if h:
                hits.append(h)
                break
    c.cov["segkeyls_stress"] = {"controlled_rounds": rounds, "chaos_rounds": rounds // 4, "goroutines_max": gor,
                                "hits": len(hits), "searched_harder": bool(broken)}
    c.cov["evaluations"] += rounds + rounds // 4

    # 4. report
    for h in hits[:2]:
        c.report("%s:segkeyls:%s" % (c.pid, h["kind"]), "SegmentKeysLock: " + h["result"],
                 dict(h, kind="stress-history", violation=h["kind"]))
    if broken and not hits:
        c.report("%s:segkeyls:lockstep" % c.pid,
                 "SegmentKeysLock no longer corresponds to its interleaving model (theorems %s do not transfer)" % THEOREMS,
                 {"kind": "lockstep-correspondence", "object": "segkeyls", "skeleton_problems": problems[:12],
                  "mismatches": mism[:3], "model_stderr": merr[-500:], "go_stderr": gerr[-500:],
                  "how": "modelrun %s run %d %d %d <report>  against  h lockstep" % (name, c.seed, nsched, maxev)},
                 found_input=False)
    c.cov["segkeyls_rule"] = RULE
    for a in ASSUMPTIONS:
        if a not in c.assumptions:
            c.assumptions.append(a)
    c.cov.setdefault("trusted_base_parts", []).extend(t for t in TRUSTED if t not in c.cov.get("trusted_base_parts", []))
    return {"broken": broken, "hits": len(hits), "mismatches": len(mism), "skeleton_problems": len(problems)}


RULE = ("SegmentKeysLock under concurrency: lock-step schedules chosen by the extracted interleaving model (3-5 goroutines, 1-8 "
        "segments, Lock/Unlock/RLock/RUnlock/TryLock/TryRLock on keys from a pool with empty, non-ASCII, 300-byte keys and "
        "colliding pairs, each call on a fresh allocation of the key), executed statement by statement on the real goroutines; "
        "non-trivial = a TryLock/TryRLock answered false under a holder, two goroutines shared a read lock, two goroutines were "
        "inside getLock of one segment at once, or distinct colliding keys met; plus label-independent controlled schedules and "
        "chaos-mode brackets with property monitors")
ASSUMPTIONS = [
    "sync.RWMutex satisfies the rw specification of SegKeyModel.v: Lock enabled iff no writer and no reader, RLock iff no writer, the Try variants answer exactly that (trusted; a pending writer never exists because a Lock that would block is not scheduled)",
    "client discipline: a goroutine calls Unlock(k)/RUnlock(k) only while it holds a write/read acquisition of k's segment (otherwise Go aborts or releases somebody else's lock: misuse, outside the property)",
    "interleavings inside one Go statement are not modelled: the last statement of a call (slice index + the RWMutex operation) is one step; NewSegmentKeysLock runs before the instance is shared (its text is pinned by the skeleton check)",
]
TRUSTED = ["ocaml/drv_segkeyls.ml (label table, schedule generator)", "harness/segkeyls (instance, stress monitors)"]
