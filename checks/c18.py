"""C18 — EncryptColumn / JsonColumn: proof layer + differential correspondence against sqlx/encrypt.go, sqlx/json.go.

Two harness runs: phase 1 calls Value()/JsonColumn.Value() and Scan() of plaintexts the harness seals itself;
phase 2 derives the corruption stream (every truncation, bit flips, appended bytes, wrong key, wrong source
type) and the JSON round trips from the REAL outputs of phase 1.  The extracted model replays every case:
 * Value: toy AEAD (only framing, plaintext serialisation and length are observable; the harness decrypts
   Value()'s output itself with crypto/aes + cipher.NewGCM);
 * Scan of a plaintext sealed by the harness: toy AEAD on the model side, real AES-GCM on the other;
 * Scan of raw/corrupted bytes: the IDEAL WORLD of ciphertext integrity (open = look-up in the log of what
   Value() issued) — comparing the real code with it is the empirical test of the AEAD hypothesis;
 * JSON: the model's abstract codec is instantiated by what encoding/json itself answers (oracle fields).
"""
import random
import re

from common import Check, diff_lines, coq_z, coq_list

NUM = ["i8", "i16", "i32", "i64", "int", "u8", "u16", "u32", "u64", "uint", "f32", "f64"]
WIDTH = {"i8": 1, "i16": 2, "i32": 4, "i64": 8, "int": 8, "u8": 1, "u16": 2, "u32": 4, "u64": 8, "uint": 8, "f32": 4, "f64": 8}
SIGNED = {"i8", "i16", "i32", "i64", "int"}
COQK = {"i8": "NI8", "i16": "NI16", "i32": "NI32", "i64": "NI64", "int": "NInt", "u8": "NU8", "u16": "NU16",
        "u32": "NU32", "u64": "NU64", "uint": "NUint", "f32": "NF32", "f64": "NF64"}
JS = ["json:bool", "json:stru", "json:map", "json:slice", "json:mapany", "json:unexp", "json:nan", "json:myint",
      "json:nested", "json:chan", "json:time", "json:ptr", "json:structs", "json:mystr", "json:mybytes", "json:arr"]
BIG = [4095, 4096, 4097, 65536, 1 << 20]
OTHER_SRC = ["nil", "int", "float", "bool", "time", "ibytes"]
MALFORMED_JSON = [b"", b"{", b"nul", b"[1,2", b'{"A":"x","B":"kept"}', b"\xff", b"123", b'"s"', b"{}", b"null", b"[]", b"true",
                  b'{"A":1}{', b" ", b'{"a":1e999}', b"[\"x\"]", b'{"X":"NaN"}',
                  # JSON strings whose CONTENT is JSON text (double-encoded documents): a string is wrongly typed input for
                  # every non-string T, whatever it contains
                  b'"123"', b'"true"', b'"false"', b'"null"', b'"{}"', b'"[]"', b'"[1,2,3]"', b'"1.5"', b'"\\"s\\""', b'""', b'" "']


def rng_of(k):
    b = 8 * WIDTH[k]
    return (-(1 << (b - 1)), (1 << (b - 1)) - 1) if k in SIGNED else (0, (1 << b) - 1)


def enc_py(k, z):
    """independent oracle of the serialisation: big-endian two's complement of the exact width"""
    return (z % (1 << (8 * WIDTH[k]))).to_bytes(WIDTH[k], "big")


def dec_py(k, b):
    if len(b) < WIDTH[k]:
        return None
    return int.from_bytes(b[:WIDTH[k]], "big", signed=k in SIGNED)


def num_values(k, r, full):
    lo, hi = rng_of(k)
    if k == "f32":
        vs = [0, 0x80000000, 0x3F800000, 0x7FC00000, 0x7FA00000, 0xFFC00001, 0x7F800000, 0xFF800000, 1, 0x7F7FFFFF, 0x7F800001]
    elif k == "f64":
        vs = [0, 1 << 63, 0x3FF0000000000000, 0x7FF8000000000000, 0x7FF4000000000000, 0xFFF8000000000001,
              0x7FF0000000000000, 0xFFF0000000000000, 1, 0x7FEFFFFFFFFFFFFF, 0x7FF0000000000001]
    else:
        vs = [lo, hi, 0, 1, lo + 1, hi - 1, 85, 128 if hi >= 128 else 100, 255 if hi >= 255 else 101, 256 if hi >= 256 else 102]
        if k in SIGNED:
            vs += [-1, -128, -129 if lo <= -129 else -2]
    vs += [r.randint(lo, hi) for _ in range(20 if full else 3)]
    out = []
    for v in vs:
        if lo <= v <= hi and v not in out:
            out.append(v)
    return out


def byte_values(r, full):
    vs = [b"", b"a", b"hello", b"\xff\xfe\x00bad", b"123", b"{}", b"x" * 11, b"y" * 12, b"z" * 13, b"w" * 16,
          "中文 ünï".encode(), bytes(range(256))]
    vs += [bytes(r.randrange(256) for _ in range(r.choice([1, 7, 31, 100, 1000]))) for _ in range(12 if full else 2)]
    return vs


def big_values(r, ty, full):
    """plaintexts around and far beyond 4096 bytes (a silent truncation / chunking limit would show here);
    quick: the megabyte only as a string"""
    sizes = [n for n in BIG if full or n < (1 << 20) or ty == "str"]
    out = []
    for n in sizes:
        off = r.randrange(256)
        out.append((bytes((i * 31 + n + off) & 255 for i in range(n)), "%s of %d bytes, byte i = (31*i + %d) mod 256" % (ty, n, n + off)))
    return out


def hx(b):
    return "h" + bytes(b).hex()


def gen_keys(r):
    good = [b"0123456789abcdef", b"0123456789abcdef01234567", b"0123456789abcdef0123456789abcdef",
            bytes(r.randrange(256) for _ in range(16)), bytes(r.randrange(256) for _ in range(24)),
            bytes(r.randrange(256) for _ in range(32)), b"\x00" * 16, b"\xff" * 32]
    bad = [b"", b"k", b"x" * 15, b"x" * 17, b"x" * 23, b"x" * 25, b"x" * 31, b"x" * 33, b"x" * 64, b"x" * 8]
    return good, bad


class Case:
    __slots__ = ("impl", "kind", "sig", "meta")

    def __init__(self, impl, kind, sig, **meta):
        self.impl, self.kind, self.sig, self.meta = impl, kind, sig, meta


def prior_of(ty):
    if ty in ("str", "bytes"):
        return b"prior".hex()
    if ty in NUM:
        return "85"
    return "#z"


def gen_phase1(c, cat):
    r = random.Random(c.seed)
    full = c.tier == "thorough"
    good, bad = gen_keys(r)
    cases = []
    ki = 0

    def nextkey():
        nonlocal ki
        ki += 1
        return good[ki % len(good)]

    # (a) Value() for every type and value; all three key lengths for the first values of each type
    for ty in NUM + ["str", "bytes"]:
        vals = [str(v) for v in num_values(ty, r, full)] if ty in NUM else [v.hex() for v in byte_values(r, full)]
        for j, v in enumerate(vals):
            keys = good[:3] if (j < 2 or full) else [nextkey()]
            for k in keys:
                cases.append(Case("V %s=%s 1 %s" % (ty, v, hx(k)), "V", "C18:codec:" + ty, ty=ty, val=v, key=k, base=True))
        cases.append(Case("V %s=%s 0 %s" % (ty, vals[0], hx(good[0])), "V", "C18:value:invalid", ty=ty, val=vals[0], key=good[0]))
        if ty in ("str", "bytes"):
            for v, recipe in big_values(r, ty, full):
                k = nextkey()
                cases.append(Case("V %s=%s 1 %s" % (ty, v.hex(), hx(k)), "V", "C18:codec:" + ty, ty=ty, val=v.hex(), key=k, base=True, big=True,
                                  recipe="Value() then Scan() of a %s under a %d-byte key" % (recipe, len(k))))
    # []byte(nil) with Valid = true is a value, not NULL: it encrypts to the empty plaintext (28 stored bytes)
    for k in good[:3]:
        cases.append(Case("V bytes=nil 1 %s" % hx(k), "V", "C18:codec:bytes", ty="bytes", val="nil", key=k, base=True, force=True))
        cases.append(Case("V bytes= 1 %s" % hx(k), "V", "C18:codec:bytes", ty="bytes", val="", key=k, base=True, force=True))
        cases.append(Case("V str= 1 %s" % hx(k), "V", "C18:codec:str", ty="str", val="", key=k, base=True, force=True))
    cases.append(Case("V bytes=nil 0 %s" % hx(good[0]), "V", "C18:value:invalid", ty="bytes", val="nil", key=good[0]))
    for ty in JS:
        for idx in sorted(i for (t, i) in cat if t == ty):
            for k in (good[:3] if full else [nextkey()]):
                cases.append(Case("V %s=%s 1 %s" % (ty, idx, hx(k)), "V", "C18:json:value", ty=ty, val=idx, key=k, base=True))
            cases.append(Case("V %s=%s 0 %s" % (ty, idx, hx(good[1])), "V", "C18:value:invalid", ty=ty, val=idx, key=good[1]))
    # invalid key lengths (valid and invalid column: the Valid check comes first)
    for ty in ["int", "str", "i8", "f64", "json:stru"]:
        v = "#1" if ty.startswith("json") else ("68656c6c6f" if ty == "str" else "5")
        for k in bad:
            for valid in "10":
                cases.append(Case("V %s=%s %s %s" % (ty, v, valid, hx(k)), "V", "C18:value:keylen", ty=ty, val=v, key=k))
    # (d) repeated Value() of the same column: ciphertexts and nonces must differ pairwise
    reps = 400 if full else 40
    for ty, v, k in [("int", "5", good[0]), ("str", "", good[2]), ("json:bool", "#1", good[1])]:
        for _ in range(reps):
            cases.append(Case("V %s=%s 1 %s" % (ty, v, hx(k)), "V", ("C18:json:value" if ty.startswith("json") else "C18:codec:" + ty), ty=ty, val=v, key=k, rep=(ty, v, k)))
    # (b) Scan of plaintexts sealed by the harness itself: exact / shorter / longer / random
    for ty in NUM:
        w = WIDTH[ty]
        pts = [enc_py(ty, z) for z in num_values(ty, r, full)]
        pts += [bytes(r.randrange(256) for _ in range(n)) for n in list(range(0, w)) + [w + 1, w + 5, 2 * w, 3 * w + 1]]
        pts += [bytes(r.randrange(256) for _ in range(w)) for _ in range(30 if full else 4)]
        pts += [b"\x00" * w, b"\xff" * w, b"\x80" + b"\x00" * (w - 1), b"\x7f" + b"\xff" * (w - 1), b"\x00" * (w - 1), b"\xff" * (w + 1)]
        for j, pt in enumerate(pts):
            k = nextkey()
            cases.append(Case("S %s=%s %d %s %s %s %s" % (ty, prior_of(ty), j % 2, hx(k), "string" if j % 3 == 0 else "bytes", hx(pt), hx(k)),
                              "S", "C18:codec:" + ty, ty=ty, pt=pt, key=k, sealkey=k))
    for ty in ["str", "bytes"]:
        for j, pt in enumerate(byte_values(r, full)):
            k = nextkey()
            cases.append(Case("S %s=%s %d %s %s %s %s" % (ty, prior_of(ty), j % 2, hx(k), "string" if j % 2 else "bytes", hx(pt), hx(k)),
                              "S", "C18:codec:" + ty, ty=ty, pt=pt, key=k, sealkey=k))
    for ty in JS:
        idxs = sorted(i for (t, i) in cat if t == ty)
        for j, pt in enumerate(MALFORMED_JSON):
            k = nextkey()
            pr = idxs[j % len(idxs)]
            cases.append(Case("S %s=%s %d %s bytes %s %s" % (ty, pr, j % 2, hx(k), hx(pt), hx(k)), "S", "C18:json:scan", ty=ty, pt=pt, key=k, sealkey=k))
    # sealed under another key (same and different length), and scanning with a key of invalid length
    for ty in ["int", "str", "u8", "f32", "json:map"]:
        pt = b"{}" if ty.startswith("json") else (b"hello" if ty == "str" else enc_py(ty, 1))
        for k, sk in [(good[0], good[3]), (good[0], good[1]), (good[2], good[0]), (good[4], good[1]), (good[5], good[7])]:
            cases.append(Case("S %s=%s 1 %s bytes %s %s" % (ty, prior_of(ty), hx(k), hx(pt), hx(sk)), "S", "C18:scan:corrupt:wrongkey", ty=ty, pt=pt, key=k, sealkey=sk))
        for k in bad:
            cases.append(Case("S %s=%s 1 %s bytes %s %s" % (ty, prior_of(ty), hx(k), hx(pt), hx(good[0])), "S", "C18:scan:keylen", ty=ty, pt=pt, key=k, sealkey=good[0]))
    # (e) JsonColumn.Value
    for ty in JS:
        for idx in sorted(i for (t, i) in cat if t == ty):
            for valid in "10":
                cases.append(Case("JV %s=%s %s" % (ty, idx, valid), "JV", "C18:json:value", ty=ty, val=idx, valid=valid))
    return cases


def flip(b, i):
    b = bytearray(b)
    b[i // 8] ^= 1 << (i % 8)
    return bytes(b)


def gen_phase2(c, cat, cases1, impl1):
    r = random.Random(c.seed + 7)
    full = c.tier == "thorough"
    good, bad = gen_keys(random.Random(c.seed))
    out = []
    bases = []          # (ty, valtext, key, stored, pt)
    jencs = {}          # (ty, idx) -> marshalled bytes
    for cs, o in zip(cases1, impl1):
        if cs.kind == "V" and cs.meta.get("base") and o.startswith("ok stored="):
            m = re.match(r"ok stored=([0-9a-f]*) pt=h([0-9a-f]*) ", o)
            if m:
                bases.append((cs.meta["ty"], cs.meta["val"], cs.meta["key"], bytes.fromhex(m.group(1)), bytes.fromhex(m.group(2)),
                              bool(cs.meta.get("big")), bool(cs.meta.get("force"))))
        if cs.kind == "JV" and cs.meta["valid"] == "1":
            m = re.match(r"ok h([0-9a-f]*) ", o)
            if m:
                jencs[(cs.meta["ty"], cs.meta["val"])] = bytes.fromhex(m.group(1))
    # choose the base ciphertexts of the corruption stream
    per_ty = {}
    for b in bases:
        if not b[5] and not b[6]:
            per_ty.setdefault(b[0], []).append(b)
    chosen = [b for b in bases if b[5] or b[6]]
    for ty, bs in sorted(per_ty.items()):
        if full:
            chosen += r.sample(bs, min(len(bs), 24 if ty in NUM else 8))
        else:
            chosen += r.sample(bs, min(len(bs), 3 if ty in NUM else 2))
    small_done = False
    n_flip = n_trunc = 0
    for bi, (ty, val, key, stored, pt, big, _forced) in enumerate(chosen):
        n = len(stored)
        log = "%s,%s,%s,%s" % (hx(key), hx(stored[:12]), hx(stored[12:]), hx(pt))
        pr = prior_of(ty)

        def add(kind, src, k=key, sig=None, pv=None):
            pvv = (len(out) % 2) if pv is None else pv
            out.append(Case("X %s=%s %d %s %s" % (ty, pr, pvv, hx(k), src), "X", sig or ("C18:scan:corrupt:" + kind),
                            ty=ty, val=val, log=log, corrupt=kind, key=k,
                            recipe=("Scan of the Value() output (corruption: %s) of a %d-byte %s" % (kind, len(pt), ty)) if big else None))
        add("none", "bytes:" + stored.hex(), sig="C18:scan:roundtrip")
        if big:
            # a handful of corruptions of a large ciphertext: cuts around the 4096-byte mark and the end, flips at both ends
            huge = n > (1 << 19)
            for l in ([12 + 4096, n - 1] if huge else [0, 11, 12, 27, 12 + 4095, 12 + 4096, n - 17, n - 1]):
                if 0 <= l < n:
                    add("trunc", "bytes:" + stored[:l].hex())
                    n_trunc += 1
            for i in ([8 * n - 1] if huge else [0, 8 * 12, 8 * (12 + 4096) + 1, 8 * (n - 16), 8 * n - 1]):
                if 0 <= i < 8 * n:
                    add("flip", "string:" + flip(stored, i).hex())
                    n_flip += 1
            if not huge:
                add("append", "bytes:" + (stored + b"\x00").hex())
                add("wrongkey", "bytes:" + stored.hex(), k=[k for k in good if k != key][0])
            continue
        add("none", "string:" + stored.hex(), sig="C18:scan:roundtrip")
        lens = range(n) if (n <= 80 or full and n <= 300) else sorted(set(list(range(0, 30)) + [n - 1, n - 2, n - 16, n - 17] + [r.randrange(n) for _ in range(20)]))
        for l in lens:
            add("trunc", ("bytes:" if l % 2 else "string:") + stored[:l].hex())
            n_trunc += 1
        allflips = full and n <= 300 or (not small_done and n <= 30)
        if allflips and not full:
            small_done = True
        bits = range(8 * n) if allflips else sorted(set([0, 7, 8 * 11 + 3, 8 * 12, 8 * 12 + 5, 8 * (n - 16) - 1, 8 * (n - 16), 8 * n - 1] + [r.randrange(8 * n) for _ in range(10)]))
        for i in bits:
            if 0 <= i < 8 * n:
                add("flip", "bytes:" + flip(stored, i).hex())
                n_flip += 1
        for extra in [b"\x00", b"\xff", bytes(r.randrange(256) for _ in range(16)), stored]:
            add("append", "bytes:" + (stored + extra).hex())
        add("append", "bytes:" + (b"\x00" + stored).hex())
        others = [k for k in good if len(k) == len(key) and k != key][:1] + [k for k in good if len(k) != len(key)][:2]
        for k in others:
            add("wrongkey", "bytes:" + stored.hex(), k=k)
        add("keylen", "bytes:" + stored.hex(), k=bad[bi % len(bad)], sig="C18:scan:keylen")
        for s in OTHER_SRC:
            add("srctype", s)
    # a legitimate ciphertext scanned into a column of another type (decode of a longer / shorter plaintext)
    byty = {}
    for b in chosen:
        if not b[5] and not b[6]:
            byty.setdefault(b[0], b)
    for (src_ty, dst_ty) in [("i64", "i32"), ("i64", "i8"), ("u32", "u16"), ("i8", "i64"), ("u16", "u32"), ("f64", "f32"), ("f32", "f64"),
                             ("int", "uint"), ("str", "int"), ("bytes", "u8"), ("i32", "str"), ("i16", "bytes"), ("json:bool", "str"),
                             ("str", "json:stru"), ("i8", "json:bool")]:
        if src_ty in byty:
            ty0, val, key, stored, pt = byty[src_ty][:5]
            log = "%s,%s,%s,%s" % (hx(key), hx(stored[:12]), hx(stored[12:]), hx(pt))
            out.append(Case("X %s=%s 1 %s bytes:%s" % (dst_ty, prior_of(dst_ty), hx(key), stored.hex()), "X", "C18:scan:crosstype",
                            ty=dst_ty, val=None, log=log, corrupt="crosstype", key=key))
    # EncryptColumn with JSON-typed T: Scan of the marshalled text into a zero and into a non-zero destination
    for (ty, idx), js in sorted(jencs.items()):
        k = good[len(out) % 3]
        for pr in ["#z"] + [i for (t, i) in sorted(cat) if t == ty and i != "#z"][:2]:
            out.append(Case("S %s=%s 0 %s bytes %s %s" % (ty, pr, hx(k), hx(js), hx(k)), "S", "C18:json:scan", ty=ty, pt=js, key=k, sealkey=k,
                            rt=(idx if pr == "#z" else None)))
    # (e) JsonColumn.Scan: round trips, nil, wrong source types, malformed JSON
    for (ty, idx), js in sorted(jencs.items()):
        for pr in ["#z"] + [i for (t, i) in sorted(cat) if t == ty and i != "#z"][:2]:
            for pv in "01":
                for sk in ("bytes", "string"):
                    out.append(Case("JX %s=%s %s %s:%s" % (ty, pr, pv, sk, js.hex()), "JX", "C18:json:scan", ty=ty, rt=(idx if pr == "#z" else None)))
    for ty in JS:
        idxs = sorted(i for (t, i) in cat if t == ty)
        for pr in idxs:
            for pv in "01":
                for s in OTHER_SRC:
                    out.append(Case("JX %s=%s %s %s" % (ty, pr, pv, s), "JX", "C18:json:srctype", ty=ty))
        for j, mj in enumerate(MALFORMED_JSON):
            pr = idxs[j % len(idxs)]
            out.append(Case("JX %s=%s %d %s:%s" % (ty, pr, j % 2, "bytes" if j % 2 else "string", mj.hex()), "JX", "C18:json:badinput", ty=ty))
    # wrongly typed JSON derived from the REAL marshalled texts: each text double-encoded as a JSON string, and the text
    # of a value of every other catalogue type (encoding/json called directly decides what is an error: the oracle field)
    import json as _json
    n_dbl = n_cross = 0
    for (ty, idx), js in sorted(jencs.items()):
        try:
            dbl = _json.dumps(js.decode("utf-8"), ensure_ascii=False).encode("utf-8")
        except UnicodeDecodeError:
            continue
        k = good[len(out) % 3]
        pr = "#z"
        for j, sk in enumerate(("bytes", "string")):
            out.append(Case("JX %s=%s %d %s:%s" % (ty, pr, j, sk, dbl.hex()), "JX", "C18:json:badinput", ty=ty))
        out.append(Case("S %s=%s 1 %s bytes %s %s" % (ty, pr, hx(k), hx(dbl), hx(k)), "S", "C18:json:scan", ty=ty, pt=dbl, key=k, sealkey=k))
        n_dbl += 3
    by_ty = {}
    for (ty, idx), js in sorted(jencs.items()):
        by_ty.setdefault(ty, []).append(js)
    for ty in JS:
        for oty, jss in sorted(by_ty.items()):
            if oty == ty:
                continue
            for js in jss[:2 if full else 1]:
                out.append(Case("JX %s=#z %d bytes:%s" % (ty, n_cross % 2, js.hex()), "JX", "C18:json:crosstype", ty=ty))
                n_cross += 1
    c.cov["wrongly_typed_json"] = {"double_encoded": n_dbl, "cross_type": n_cross}
    c.cov["corruption_stream"] = {"base_ciphertexts": len(chosen), "truncations": n_trunc, "bit_flips": n_flip}
    return out


def subst_cat(tv, cat):
    """<ty>=#i  ->  <ty>=<reprhex> (the model carries JSON-typed values as interned text)"""
    ty, v = tv.split("=", 1)
    if v.startswith("#"):
        return "%s=%s" % (ty, cat[(ty, v)])
    return tv


def field(o, name):
    m = re.search(r"(?:^| )%s=(\S*)" % name, o)
    return m.group(1) if m else "-"


def model_line(cs, o, cat):
    f = cs.impl.split()
    if cs.kind == "V":
        m = re.match(r"ok stored=([0-9a-f]*) ", o)
        nonce = m.group(1)[:24] if m else "00" * 12
        return "V %s %s %s h%s %s" % (subst_cat(f[1], cat), f[2], f[3], nonce, field(o, "jenc"))
    if cs.kind == "S":
        return "S %s %s %s %s %s %s %s" % (subst_cat(f[1], cat), f[2], f[3], f[4], f[5], f[6], field(o, "jdec"))
    if cs.kind == "X":
        return "X %s %s %s %s %s %s" % (subst_cat(f[1], cat), f[2], f[3], f[4], field(o, "jdec"), cs.meta["log"])
    if cs.kind == "JV":
        return "JV %s %s %s" % (subst_cat(f[1], cat), f[2], field(o, "jenc"))
    if cs.kind == "JX":
        return "JX %s %s %s %s" % (subst_cat(f[1], cat), f[2], f[3], field(o, "jdec"))
    raise ValueError(cs.kind)


def normalise(cs, o):
    """implementation observable -> the form printed by the model"""
    if cs.kind == "V":
        m = re.match(r"ok stored=([0-9a-f]*) pt=(\S+) ", o)
        if m:
            st = m.group(1)
            return "ok nonce=%s pt=%s len=%d" % (st[:24], m.group(2), len(st) // 2)
    return re.sub(r" (j(enc|dec)=|RESCAN|SRCMUT|ALIAS)\S*", "", o).replace("val=bytes=nil ", "val=bytes= ")


JREP = {}


def oracle(cs, o, cat):
    """The property decided directly on one implementation output, independently of the extracted model
    where that is possible (Python big-integer codec, expected outcome class of a corruption)."""
    if o.startswith("panic"):
        return "panic"
    ty = cs.meta.get("ty")
    notes = [w for w in o.split() if w in ("SRCMUT", "ALIAS", "RESCAN-PANIC") or w.startswith("RESCAN-DIFF:")]
    if notes:
        first = o.split(" jdec")[0]
        if any(w.startswith("RESCAN") for w in notes):
            second = [w for w in notes if w.startswith("RESCAN")][0].replace(",", " ")
            return "Scan of the same []byte source twice (equal columns) gives %r the first time and %s the second time%s" % (
                first, second, " — Scan modified the source it was given" if "SRCMUT" in notes else "")
        if "SRCMUT" in notes:
            return "Scan modified the []byte source it was given (driver-owned memory); result %r" % first
        return "the restored value %r changes when the source buffer is overwritten after Scan returned (Val aliases the source)" % first
    if cs.kind == "V" and cs.meta.get("base") and ty in NUM + ["str", "bytes"]:
        want = enc_py(ty, int(cs.meta["val"])) if ty in NUM else bytes.fromhex(cs.meta["val"].replace("nil", ""))
        m = re.match(r"ok stored=([0-9a-f]*) pt=(\S+) ", o)
        if not m:
            return "Value() of a valid column with a valid key failed: %s" % o.split(" jenc")[0]
        if m.group(2) != "h" + want.hex():
            return "plaintext serialisation is %s, expected big-endian %s" % (m.group(2), want.hex())
        if len(m.group(1)) // 2 != 12 + len(want) + 16:
            return "stored length %d, expected 12+%d+16" % (len(m.group(1)) // 2, len(want))
    if cs.kind == "V" and cs.meta.get("base") and ty.startswith("json:") and JREP.get((ty, cs.meta["val"])) == "1":
        m = re.match(r"ok stored=([0-9a-f]*) pt=(\S+) jenc=(\S+)", o)
        if not m:
            return "Value() of a JSON-representable value failed: %s" % o.split(" jenc")[0]
        if m.group(2) != m.group(3):
            return "plaintext of a JSON-typed value is %s, json.Marshal gives %s" % (m.group(2)[:80], m.group(3)[:80])
    if cs.kind == "S" and ty in NUM and cs.meta["key"] == cs.meta["sealkey"] and len(cs.meta["key"]) in (16, 24, 32):
        z = dec_py(ty, cs.meta["pt"])
        if z is None and o.startswith("ok"):
            return "Scan accepted a %d-byte plaintext for a %d-byte type" % (len(cs.meta["pt"]), WIDTH[ty])
        if z is not None and not o.startswith("ok val=%s=%d valid=1" % (ty, z)):
            return "Scan of plaintext %s gave %r, expected %d" % (cs.meta["pt"].hex(), o.split(" jdec")[0], z)
    if cs.kind == "X":
        k = cs.meta["corrupt"]
        if k == "none":
            v = cs.meta["val"]
            want = cat[(ty, v)] if v.startswith("#") else v.replace("nil", "")
            if ty.startswith("json:") and JREP.get((ty, v)) != "1":
                return None          # not JSON-representable (decided by encoding/json alone): the hypothesis does not apply
            if not normalise(cs, o).startswith("ok val=%s=%s valid=1" % (ty, want)):
                return "Scan(Value(x)) gave %r, expected x=%s Valid=true" % (o.split(" jdec")[0], want)
        elif k != "crosstype" and not o.startswith("err"):
            return "corrupted input (%s) was accepted: %r" % (k, o.split(" jdec")[0])
    if cs.kind in ("JX", "S") and cs.meta.get("rt") is not None and ty.startswith("json:"):
        want = cat[(ty, cs.meta["rt"])]
        if JREP.get((ty, cs.meta["rt"])) == "1" and not o.startswith("ok val=%s=%s valid=1" % (ty, want)):
            return "Scan(Value(x)) of a JSON-representable x gave %r" % o.split(" jdec")[0]
    if cs.kind == "JX" and cs.sig in ("C18:json:srctype",):
        s = cs.impl.split()[3]
        if s == "nil" and not o.startswith("ok"):
            return "Scan(nil) is not accepted"
        if s != "nil" and not o.startswith("err"):
            return "wrong source type accepted"
    if cs.kind == "JV" and cs.meta["valid"] == "0" and not o.startswith("ok null"):
        return "an invalid JsonColumn is not SQL NULL: %r" % o.split(" jenc")[0]
    return None


CROSS_PRELUDE = """From Ekit Require Import Common ColumnModel.
Definition jd (old : Z) (m : bytes) : Z * bool := (old, false).
Inductive tc :=
| TE (k : nkind) (z : Z) (want : bytes)
| TD (k : nkind) (m : bytes) (want : cout Z)
| TS (v : cval Z) (pv : bool) (key : bytes) (str : bool) (pt sealkey : bytes) (r : sres) (v' : cval Z) (valid' : bool).
Definition cval_eqb (a b : cval Z) : bool :=
  match a, b with
  | VStr x, VStr y | VBytes x, VBytes y => bytes_eqb x y
  | VNum k x, VNum k' y => nkind_eqb k k' && (x =? y)
  | _, _ => false end.
Definition cerr_eqb (a b : cerr) : bool :=
  match a, b with
  | CInvalid, CInvalid | CKeyLen, CKeyLen | CSrcType, CSrcType | CShort, CShort | CAuth, CAuth
  | CEOF, CEOF | CUnexpectedEOF, CUnexpectedEOF | CJson, CJson => true | _, _ => false end.
Definition sres_eqb (a b : sres) : bool :=
  match a, b with SOk, SOk | SPanic, SPanic => true | SErr x, SErr y => cerr_eqb x y | _, _ => false end.
Definition nonce0 : bytes := [1;2;3;4;5;6;7;8;9;10;11;12].
Definition check (t : tc) : bool :=
  match t with
  | TE k z want => bytes_eqb (encode_num k z) want
  | TD k m want =>
      match decode_num k m, want with
      | COk a, COk b => a =? b | CErr a, CErr b => cerr_eqb a b | CPanic, CPanic => true | _, _ => false end
  | TS v pv key str pt sealkey r v' valid' =>
      let stored := nonce0 ++ toy_seal sealkey nonce0 pt in
      let '(c', r') := scan_toy jd false {| val := v; valid := pv; ckey := key |} (if str then SString stored else SBytes stored) in
      sres_eqb r r' && cval_eqb (val c') v' && Bool.eqb (valid c') valid'
  end.
Definition cases : list tc :=
"""
CERR = {"invalid": "CInvalid", "keylen": "CKeyLen", "other": "CSrcType", "short": "CShort", "auth": "CAuth", "eof": "CEOF",
        "ueof": "CUnexpectedEOF", "json": "CJson"}


def bl(b):
    return coq_list([str(x) for x in b])


def cval_coq(tv):
    ty, v = tv.split("=", 1)
    if ty == "str":
        return "(VStr %s)" % bl(bytes.fromhex(v))
    if ty == "bytes":
        return "(VBytes %s)" % bl(bytes.fromhex(v))
    return "(VNum %s %s)" % (COQK[ty], coq_z(v))


def sres_coq(words):
    if words[0] == "ok":
        return "SOk"
    if words[0] == "panic":
        return "SPanic"
    return "(SErr %s)" % CERR[words[1]]


def cross_item(mline, mout):
    f = mline.split()
    if f[0] == "E":
        return "TE %s %s %s" % (COQK[f[1]], coq_z(f[2]), bl(bytes.fromhex(mout[1:])))
    if f[0] == "D":
        w = mout.split()
        want = "(COk %s)" % coq_z(w[1]) if w[0] == "ok" else "(CErr %s)" % CERR[w[1]]
        return "TD %s %s %s" % (COQK[f[1]], bl(bytes.fromhex(f[2][1:])), want)
    if f[0] == "S" and not f[1].startswith("json"):
        w = mout.split()
        val = [x for x in w if x.startswith("val=")][0][4:]
        valid = [x for x in w if x.startswith("valid=")][0][6:]
        return "TS %s %s %s %s %s %s %s %s %s" % (
            cval_coq(f[1]), "true" if f[2] == "1" else "false", bl(bytes.fromhex(f[3][1:])), "true" if f[4] == "string" else "false",
            bl(bytes.fromhex(f[5][1:])), bl(bytes.fromhex(f[6][1:])), sres_coq(w), cval_coq(val), "true" if valid == "1" else "false")
    return None


def run_model_bigstack(text):
    """Check.run_model with `ulimit -s unlimited`: the extracted list functions are not tail recursive and the
    megabyte plaintexts need a deep stack."""
    import subprocess
    from common import MODELRUN
    p = subprocess.run(["bash", "-c", 'ulimit -s unlimited 2>/dev/null || ulimit -s 1000000; exec "$0" column', MODELRUN], input=text, text=True,
                       timeout=3600, stdout=subprocess.PIPE, stderr=subprocess.PIPE)
    if p.returncode != 0:
        raise RuntimeError("modelrun column failed: %s" % p.stderr[-2000:])
    return p.stdout.splitlines()


def main(tier):
    c = Check("C18", tier)
    c.proof_layer()
    c.ensure_modelrun()
    binary, log = c.build_harness(pkgs=["c18"])
    if binary is None:
        c.report("build", "harness does not build against the repository", {"kind": "build", "log": log[-3000:]}, found_input=False)
        finish(c)
    rc, catl, err = c.run_impl(binary, ["c18", "cat"], "")
    cat, jrep = {}, {}
    for l in catl:
        ty, idx, rep, flag = l.split()
        cat[(ty, idx)] = rep
        jrep[(ty, idx)] = flag      # 1 = round-trips through encoding/json alone, 0 = does not, e = Marshal fails
    if not cat:
        c.report("build", "harness printed no catalogue", {"kind": "build", "log": err[-2000:]}, found_input=False)
        finish(c)
    JREP.update(jrep)
    cases1 = gen_phase1(c, cat)
    rc, impl1, err = c.run_impl(binary, ["c18"], "\n".join(x.impl for x in cases1) + "\n")
    impl1 += ["<missing>"] * (len(cases1) - len(impl1))
    cases2 = gen_phase2(c, cat, cases1, impl1)
    rc, impl2, err = c.run_impl(binary, ["c18"], "\n".join(x.impl for x in cases2) + "\n")
    impl2 += ["<missing>"] * (len(cases2) - len(impl2))
    cases, impl = cases1 + cases2, impl1 + impl2
    mlines = [model_line(cs, o, cat) for cs, o in zip(cases, impl)]
    # pure codec cases: model against the Python big-integer oracle (and vm_compute below)
    r = random.Random(c.seed + 3)
    full = tier == "thorough"
    codec_lines, codec_want = [], []
    for k in NUM:
        for z in num_values(k, r, full):
            codec_lines.append("E %s %d" % (k, z))
            codec_want.append("h" + enc_py(k, z).hex())
        for n in list(range(0, WIDTH[k] + 3)) * (4 if full else 1):
            b = bytes(r.randrange(256) for _ in range(n))
            codec_lines.append("D %s %s" % (k, hx(b)))
            z = dec_py(k, b)
            codec_want.append("ok %d" % z if z is not None else ("err eof" if n == 0 else "err ueof"))
    mout_all = run_model_bigstack("\n".join(mlines + codec_lines) + "\n")
    model, codec_got = mout_all[:len(mlines)], mout_all[len(mlines):]
    norm = [normalise(cs, o) for cs, o in zip(cases, impl)]

    dist = {}
    for cs, o in zip(cases, impl):
        key = cs.kind + ":" + (cs.meta.get("corrupt") or cs.sig.split(":", 1)[1])
        dist[key] = dist.get(key, 0) + 1
        c.note_case(cs.impl, cs.kind in ("V", "S", "JV") or cs.impl.split()[-1].startswith(("bytes:", "string:")))
    c.cov["case_distribution"] = dist
    c.cov["json_catalogue_values"] = len(cat)
    for cs in cases1[:2] + [x for x in cases2 if x.meta.get("corrupt") == "flip"][:2] + [x for x in cases2 if x.kind == "JX"][:1]:
        c.sample(cs.impl[:300])

    bad = diff_lines(cases, norm, model)
    c.cov["traces_validated_against_impl"] = len(cases) - len(bad)
    # search layer: the property itself on every implementation output
    decided = set()
    for i, (cs, o) in enumerate(zip(cases, impl)):
        why = oracle(cs, o, cat)
        if why:
            decided.add(i)
            sig = cs.sig
            if "[]byte source" in why or "aliases the source" in why:
                sig = "C18:scan:source"
            if why == "panic":
                sig = cs.sig if cs.sig.startswith("C18:scan:corrupt") else "C18:panic:" + cs.kind
            why = why if len(why) <= 700 else why[:500] + " ...[%d chars]... " % len(why) + why[-150:]
            c.report(sig, "sqlx column: %s" % why,
                     {"kind": "input", "case": cs.impl[:4000], "case_length": len(cs.impl), "recipe": cs.meta.get("recipe"), "implementation": o[:2000], "model": model[i] if i < len(model) else None,
                      "how": "echo '<case>' | harness c18   (formats: see harness/c18/c18.go)"})
    for i in bad:
        if i in decided or i >= len(cases):
            continue
        cs = cases[i]
        # the model IS the specification for this refinement property: a disagreement is a failing input
        c.report(cs.sig, "sqlx column: implementation gives %r, the specification gives %r" % (norm[i][:200], (model[i] if i < len(model) else None)),
                 {"kind": "input", "case": cs.impl[:4000], "implementation": impl[i][:2000], "model_case": mlines[i][:4000],
                  "model": model[i] if i < len(model) else None})
    # observations recorded, not compared: nil vs empty []byte after Scan; EncryptColumn[any] (outside the listed T's)
    nilobs = {}
    for cs, o in zip(cases, impl):
        if cs.kind == "X" and cs.meta.get("corrupt") == "none" and cs.meta.get("ty") == "bytes" and cs.meta.get("val") in ("nil", ""):
            key = "Scan(Value(%s)).Val" % ("[]byte(nil)" if cs.meta["val"] == "nil" else "[]byte{}")
            nilobs[key] = "nil" if " val=bytes=nil " in o else "empty non-nil" if " val=bytes= " in o else o[:60]
    c.cov["nil_vs_empty_bytes"] = dict(nilobs, note="the model identifies nil and empty []byte (bytes.Equal); Valid=true and a 28-byte stored value are checked")
    rc, anyl, err = c.run_impl(binary, ["c18", "anyprobe"], "")
    c.cov["out_of_scope_EncryptColumn_any"] = [
        {k: (bytes.fromhex(v).decode("utf-8", "replace") if k in ("in", "out") else v) for k, v in (x.split("=", 1) for x in l.split()[1:] if "=" in x)}
        for l in anyl if l.startswith("any ")]
    # (d) pairwise inequality of ciphertexts and nonces over repeated Value() of the same column
    groups = {}
    for cs, o in zip(cases1, impl1):
        if cs.meta.get("rep"):
            m = re.match(r"ok stored=([0-9a-f]*) ", o)
            groups.setdefault(cs.meta["rep"], []).append(m.group(1) if m else o)
    pairs = 0
    for g, outs in groups.items():
        nonces = [x[:24] for x in outs]
        bodies = [x[24:] for x in outs]
        pairs += len(outs) * (len(outs) - 1) // 2
        if len(set(outs)) != len(outs) or len(set(nonces)) != len(nonces) or len(set(bodies)) != len(bodies):
            c.report("C18:nonce", "two Value() calls on the same column returned the same nonce or ciphertext",
                     {"kind": "input", "case": "V %s=%s 1 %s  (repeated %d times)" % (g[0], g[1], hx(g[2]), len(outs)),
                      "distinct_outputs": len(set(outs)), "distinct_nonces": len(set(nonces)), "distinct_bodies": len(set(bodies))})
    c.cov["pairwise_distinct_pairs_checked"] = pairs
    # (d') the same under concurrency: G goroutines x N Value() calls on one key (same value / mixed values and types),
    # every nonce collected, any nonce used twice is a failing execution.  For 96-bit random nonces the chance of a
    # collision among 1.6e6 draws is about n^2/2^97 = 1.6e-17, so a duplicate cannot be bad luck.
    G, N = 8, (200000 if full else 20000)
    conc = []
    for mode in ("same", "mixed"):
        rc, outl, err = c.run_impl(binary, ["c18", "conc", str(G), str(N), mode], "")
        line = outl[0] if outl else "<missing> " + err[-300:]
        kv = dict(x.split("=", 1) for x in line.split()[1:] if "=" in x)
        conc.append({"mode": mode, "goroutines": G, "iterations": N, "calls": int(kv.get("total", 0)), "errors": kv.get("errors"),
                     "duplicate_nonces": kv.get("dup_nonces"), "identical_ciphertexts": kv.get("dup_stored")})
        if not line.startswith("conc ") or kv.get("errors") != "0" or int(kv.get("total", 0)) != G * N:
            c.report("C18:nonce:concurrent", "concurrent Value() calls failed or panicked: %s" % line[:300],
                     {"kind": "input", "case": "harness c18 conc %d %d %s" % (G, N, mode), "implementation": line[:1000]})
        elif kv.get("dup_nonces") != "0":
            c.report("C18:nonce:concurrent",
                     "concurrent Value() calls under one key used the same nonce twice (%s duplicate nonces, %s identical ciphertexts among %s calls)"
                     % (kv["dup_nonces"], kv["dup_stored"], kv["total"]),
                     {"kind": "input", "case": "harness c18 conc %d %d %s" % (G, N, mode), "goroutines": G, "iterations_per_goroutine": N,
                      "mode": mode, "duplicated_nonce": kv.get("first"), "first_duplicate_at_goroutine/iteration": kv.get("at"),
                      "duplicate_nonces": kv["dup_nonces"], "identical_ciphertexts": kv["dup_stored"], "implementation": line[:1000],
                      "how": "8 goroutines released by a barrier call EncryptColumn.Value() on columns with the same 32-byte key; rerun the case "
                             "(a race: the number of duplicates varies, their existence does not on a multi-core machine)"})
    c.cov["concurrent_value_calls"] = conc
    # (d'b) concurrent Value()/Scan() with per-goroutine verification: every goroutine has its own numeric type and value
    # stream; each ciphertext is decrypted by the harness itself and must be the encoding of THAT goroutine's value, and
    # Scan into a fresh column must give the value back with Valid = true (a plaintext buffer shared between calls would
    # yield a valid ciphertext of somebody else's value).
    GV, NV = 24, (50000 if full else 5000)
    rc, outl, err = c.run_impl(binary, ["c18", "concv", str(GV), str(NV)], "")
    summ = [l for l in outl if l.startswith("concv ")]
    line = summ[0] if summ else "<missing> " + err[-300:]
    kv = dict(x.split("=", 1) for x in line.split()[1:] if "=" in x)
    recs = [l.split() for l in outl if l.startswith("rec ")]
    rec_bad = [x for x in recs if len(x) != 4 or x[3] != "h" + enc_py(x[1], int(x[2])).hex()]
    c.cov["concurrent_value_scan_verified"] = {"goroutines": GV, "iterations": NV, "calls": int(kv.get("total", 0)), "errors": kv.get("errors"),
                                               "wrong_plaintext": kv.get("bad_pt"), "wrong_scan": kv.get("bad_scan"),
                                               "sampled_plaintexts_rechecked_by_bigint_oracle": len(recs)}
    cmd = "harness c18 concv %d %d" % (GV, NV)
    if not summ or kv.get("errors") != "0" or int(kv.get("total", 0)) != GV * NV:
        c.report("C18:value:concurrent", "concurrent Value()/Scan() calls failed or panicked: %s" % line[:300],
                 {"kind": "input", "case": cmd, "implementation": line[:1000]})
    elif kv.get("bad_pt") != "0" or kv.get("bad_scan") != "0" or rec_bad:
        first = (kv.get("first") or "-").split(":")
        first += ["?"] * (5 - len(first))
        if first[0] == "-" and rec_bad:
            x = rec_bad[0]
            first = [x[1], x[2], enc_py(x[1], int(x[2])).hex(), x[3][1:] if len(x) > 3 else "?", "?"]
        c.report("C18:value:concurrent",
                 "concurrent Value() calls on distinct values: %s ciphertexts decrypt to another plaintext and %s Scans restore another value "
                 "(of %s calls); e.g. %s %s: expected plaintext %s, decrypted %s, Scan gave %s"
                 % (kv.get("bad_pt"), kv.get("bad_scan"), kv.get("total"), first[0], first[1], first[2], first[3], first[4]),
                 {"kind": "input", "case": cmd, "goroutines": GV, "iterations_per_goroutine": NV,
                  "first_mismatch_at_goroutine/iteration": kv.get("at"), "type": first[0], "value": first[1],
                  "expected_plaintext_hex": first[2], "decrypted_plaintext_hex": first[3], "scan_result": first[4],
                  "wrong_plaintexts": kv.get("bad_pt"), "wrong_scans": kv.get("bad_scan"), "implementation": line[:1000],
                  "how": "24 goroutines (goroutine g: numeric type g mod 12, own value stream) released by a barrier; per call Value(), own AES-GCM "
                         "decryption compared with the big-endian encoding of the goroutine's value, Scan into a fresh column; rerun the case "
                         "(a race: counts vary)"})
    # (d'') structure of the nonces of SEQUENTIAL calls (all Value() calls of phase 1, in call order, one process).
    # The model takes the nonce from a random oracle (crypto/rand).  With S >= 100 independent uniform 12-byte strings,
    #   P(some byte position is constant over all samples)      <= 12 * 256^-(S-1)  <  10^-237,
    #   P(the samples are strictly monotone as big- or little-endian integers) <= 4 / S!  <  10^-157,
    # so neither can fire on random nonces; a fixed prefix, a counter or a timestamp does fire.  This is a break of the
    # correspondence (the nonce is no longer what the model assumes), not by itself a failing input.
    seq = []
    for cs, o in zip(cases1, impl1):
        m = re.match(r"ok stored=([0-9a-f]{24})", o) if cs.kind == "V" else None
        if m:
            seq.append(bytes.fromhex(m.group(1)))
    if len(seq) >= 100:
        const = [i for i in range(12) if len({x[i] for x in seq}) == 1]
        be = [int.from_bytes(x, "big") for x in seq]
        le = [int.from_bytes(x, "little") for x in seq]
        mono = [nm for nm, xs in (("big-endian", be), ("little-endian", le))
                if all(a < b for a, b in zip(xs, xs[1:])) or all(a > b for a, b in zip(xs, xs[1:]))]
        c.cov["sequential_nonce_structure"] = {"samples": len(seq), "constant_byte_positions": const, "monotone": mono}
        if len(const) >= 4 or mono:
            c.report("C18:nonce:structure",
                     "the nonces of %d consecutive Value() calls are not independent random strings (constant byte positions %s, monotone: %s): "
                     "the nonce does not come from crypto/rand per call as the model assumes" % (len(seq), const, mono or "no"),
                     {"kind": "correspondence", "first_nonces": [x.hex() for x in seq[:6]], "constant_byte_positions": const, "monotone": mono,
                      "theorems_not_transferring": ["fresh_nonce_gives_distinct_ciphertexts (its premise, distinct nonces, is then a property "
                                                    "of the new generator and has to be re-established, also under concurrency)"]},
                     found_input=False)
    # model's codec against the independent Python oracle
    cbad = [i for i in range(len(codec_lines)) if i >= len(codec_got) or codec_got[i] != codec_want[i]]
    c.cov["codec_model_vs_bigint_oracle"] = {"cases": len(codec_lines), "agree": len(codec_lines) - len(cbad)}
    if cbad:
        i = cbad[0]
        c.report("C18:model-codec", "the model's codec disagrees with the big-integer oracle",
                 {"kind": "model", "case": codec_lines[i], "model": codec_got[i] if i < len(codec_got) else None, "oracle": codec_want[i]}, found_input=False)
    # JSON hypothesis: how many catalogue values are JSON-representable (round trip through encoding/json alone)
    rep = tot = 0
    for cs, o in zip(cases2, impl2):
        if cs.kind == "JX" and cs.meta.get("rt") is not None and cs.impl.split()[2] == "0" and cs.impl.split()[3].startswith("bytes:"):
            tot += 1
            rep += field(o, "jdec") == cat[(cs.meta["ty"], cs.meta["rt"])] + ":1"
    c.cov["json_representable_values"] = {"marshalable": tot, "roundtrip_through_encoding_json": rep}
    # cross-check the OCaml extraction against vm_compute inside Coq on a sample
    pool = [(ml, mo) for ml, mo in zip(mlines, model) if ml.startswith("S ") and not ml.startswith("S json") and len(ml) < 600] + \
        list(zip(codec_lines, codec_got))
    r2 = random.Random(c.seed + 1)
    items = [x for x in (cross_item(ml, mo) for ml, mo in r2.sample(pool, min(300, len(pool)))) if x]
    v = CROSS_PRELUDE + "  [" + ";\n   ".join(items) + "].\n" + \
        "Definition bad := Eval vm_compute in length (filter (fun c => negb (check c)) cases).\nPrint bad.\n"
    rc, out = c.coq_crosscheck(v)
    okx = rc == 0 and re.search(r"bad\s*=\s*0(%nat)?\s", out.replace("\n", " ") + " ") is not None
    c.cov["coq_vm_compute_crosscheck"] = {"cases": len(items), "agree": bool(okx)}
    if not okx:
        c.report("C18:extraction", "OCaml extraction and vm_compute disagree on the model's output",
                 {"kind": "extraction-crosscheck", "coq_output": out[-1500:]}, found_input=False)
    finish(c)


def finish(c):
    c.finish(
        level="proof",
        rule="cases from VERIF_SEED. Phase 1: Value() of every supported T at zero/extreme/random values (floats: bit patterns incl. quiet and "
             "signalling NaNs; strings: empty, non-UTF-8, 1000 bytes) under 16/24/32-byte keys + invalid columns + 10 invalid key lengths; "
             "Scan of plaintexts sealed by the harness (exact width, every shorter length, longer, random; wrong key; malformed JSON); "
             "JsonColumn.Value of a catalogue of structs/maps/slices/bool/named/unmarshalable values. Phase 2, on the real ciphertexts of "
             "phase 1: every truncation length, single-bit flips (all flips of every base ciphertext in thorough; all flips of one 29-byte "
             "ciphertext + a sample in quick), appended/prepended bytes, wrong keys, wrong source types, cross-type scans, JSON round trips "
             "into zero and non-zero destinations. Non-trivial = the case carries data (not a bare source-type probe); distinct by md5 of the case text.",
        assumptions=["PARTIAL: AES-GCM is abstract. value_scan_roundtrip assumes aead_correct; tampered_is_error assumes aead_only_seal; "
                     "truncated/extended/bitflip/wrong_key/changed/unissued_is_error assume the ideal world of ciphertext integrity (aead_int_ctxt: only "
                     "issued ciphertexts open) — authenticity of AES-GCM is a computational assumption and cannot be a theorem",
                     "PARTIAL: encoding/json is abstract (json_enc/json_dec); json_roundtrip and the JSON case of value_scan_roundtrip assume "
                     "json_roundtrips for the JSON-representable values and a zero-valued destination (json.Unmarshal merges into the old value)",
                     "nonce freshness is crypto/rand's (the nonce is an input of the model); distinctness of 12-byte random nonces is probabilistic; "
                     "the premise is tested on the real code sequentially and with 8 concurrent goroutines (duplicate search over every nonce drawn)",
                     "int/uint are 64 bits wide; nil and empty byte slices are identified; binary.Write/Read, type switches and the order of checks "
                     "behave as modelled (cross-checked by the differential run)"],
        trusted_base=["Coq 8.16.1 kernel + vm_compute (no native_compute)", "no axioms (Print Assumptions: closed under the global context); "
                      "the cryptographic and JSON hypotheses are premises of the theorems that use them",
                      "extraction: ExtrOcamlBasic only, no Extract Constant; cross-checked against vm_compute on up to 300 cases per run",
                      "OCaml driver ocaml/drv_column.ml, Go harness harness/c18 (own AES-GCM open/seal via crypto/aes + crypto/cipher, "
                      "encoding/json oracle), checks/c18.py (case generator, big-integer codec oracle)"])


if __name__ == "__main__":
    import sys
    main(sys.argv[1] if len(sys.argv) > 1 else "quick")
