"""ConcurrentArrayBlockingQueue part of C07 / C09: synchronisation skeleton + lock-step against the
interleaving model (model/ABQModel.v, driver ocaml/drv_abq.ml) + chaos-mode stress with property
monitors (harness/abq/stress.go) as search oracle."""
import re
import subprocess

from common import GOENV

THEOREMS = {
    "c07": "abq_count_bounded, abq_ring_consistent, abq_permit_ledger, abq_linearizable, abq_return_values, "
           "abq_fifo_exactly_once, abq_ctx_error_has_no_effect, abq_quiescent_permits, abq_never_panics",
    "c09": "abq_parked_sees_no_permit, abq_stuck_implies_cannot_proceed, abq_cancel_enables, "
           "abq_capacity_after_cancellations",
}

KIND = {  # monitor output kind -> signature suffix
    "capacity": "capacity", "order": "order", "exactly-once": "exactly-once", "ctx-error-had-effect": "ctx-error",
    "drain": "drain", "capacity-after-cancel": "capacity-after-cancel", "hang": "hang", "panic": "panic",
    "other-error": "other-error",
}
# which monitor kinds belong to which property (the other property's part reports the rest)
MINE = {
    "c07": {"capacity", "order", "exactly-once", "ctx-error", "drain", "panic", "other-error", "capacity-after-cancel"},
    "c09": {"hang", "capacity-after-cancel", "panic"},
}


def stress(c, binary, configs, timeout=300):
    """chaos-mode runs of the real queue with the property monitors; returns list of hits"""
    hits = []
    runs = []
    for (cap, np_, nc, ops) in configs:
        cmd = [binary, "c07-abq-stress", str(c.seed), str(cap), str(np_), str(nc), str(ops)]
        try:
            p = subprocess.run(cmd, stdout=subprocess.PIPE, stderr=subprocess.PIPE, text=True, timeout=timeout, env=GOENV)
            out, err = p.stdout.strip(), p.stderr
        except subprocess.TimeoutExpired:
            out, err = "VIOLATION hang: the stress command itself did not finish in %ds" % timeout, ""
        if not out:
            out = "VIOLATION panic: stress command crashed: " + err[-400:]
        runs.append({"config": [cap, np_, nc, ops], "result": out.splitlines()[0][:160]})
        for line in out.splitlines():
            m = re.match(r"VIOLATION ([a-z-]+): (.*)", line)
            if m:
                hits.append({"kind": KIND.get(m.group(1), m.group(1)), "text": m.group(2)[:500],
                             "capacity": cap, "producers": np_, "consumers": nc, "ops": ops,
                             "goroutine_dump": err[-3000:] if m.group(1) == "hang" else "",
                             "how": "h c07-abq-stress %d %d %d %d %d   (harness built with -tags verif over the instrumented files; chaos mode)" % (
                                 c.seed, cap, np_, nc, ops)})
    return hits, runs


def run(c, binary, labels, tier, focus):
    pid = c.pid
    model = "abq-c09-lockstep" if focus == "c09" else "abq-lockstep"
    # 1. synchronisation skeleton: every pc of the model is a statement of the current source and vice versa
    problems = c.check_labels(model, labels)
    # 2. lock-step: the model chooses schedules (with CANCEL at every yield point a call passes and
    #    Releases while waiters are parked), the real goroutines execute them statement by statement
    nsched = 250 if tier == "quick" else 5000
    rc, txt, merr, gerr = c.lockstep(binary, model, ["run", c.seed, nsched, 3000])
    stats, tags, samples, mism = c.parse_lockstep_report(txt)
    c.cov["abq_lockstep"] = dict(stats, model=model, coverage_tags=tags,
                                 capacities="1-3", goroutines="2-5",
                                 observables="yield point reached after every statement, return values of Enqueue/Dequeue/Len/AsSlice, "
                                             "white-box SYNC (cur and number of waiters of both semaphores, head/tail/count) after every park and at random, "
                                             "quiescent wind-down of every schedule, sequential drain + refill of exactly cap elements in 1/4 of the schedules")
    c.cov["evaluations"] += stats.get("schedules", 0)
    c.cov["traces_validated_against_impl"] += stats.get("schedules", 0) - stats.get("mismatches", 0)
    for i in range(stats.get("nontrivial", 0)):
        c._distinct.add("abq-%s-%d" % (focus, i))
    for s in samples[:1]:
        c.sample("abq lock-step schedule (%s): %s" % (focus, s[:700]))
    broken = bool(problems or mism or not stats)

    # 3b. directed scenario for rings larger than the lock-step capacities (head != 0 while the ring fills to 63..capacity
    #     elements, drain against a reference slice; concurrent variant with a slow consumer on capacity 300)
    big = []
    if focus == "c07":
        try:
            p = subprocess.run([binary, "c07-abq-bigring", str(c.seed), tier], stdout=subprocess.PIPE, stderr=subprocess.PIPE,
                               text=True, timeout=600, env=GOENV)
            out = p.stdout.strip() or ("VIOLATION fifo:big-ring: command crashed: " + p.stderr[-400:])
        except subprocess.TimeoutExpired:
            out = "VIOLATION fifo:big-ring: the scenario did not finish in 600 s (hang)"
        c.cov["abq_bigring"] = {"result": out.splitlines()[0][:200],
                                "scenario": "capacities 65,100,128,129,257,1000; head moved to k in 1,7,63; fill to n in 63..257,capacity with "
                                            "dequeue/enqueue pairs; drain and refill against a reference slice; Len/AsSlice compared at several points; "
                                            "2 producers + 1 slow consumer on capacity 300"}
        c.cov["evaluations"] += int((re.search(r"scenarios=(\d+)", out) or [0, 0])[1])
        for line in out.splitlines():
            m = re.match(r"VIOLATION fifo:big-ring: (.*)", line)
            if m:
                big.append(m.group(1)[:600])
    for b in big[:1]:
        c.report("%s:abq:fifo:big-ring" % pid, "ConcurrentArrayBlockingQueue: " + b,
                 {"kind": "directed-run", "text": b, "how": "h c07-abq-bigring %d %s   (harness built with -tags verif; deterministic sequential scenario, "
                                                            "parameters in the message)" % (c.seed, tier)})
    if big:
        broken_reported = True
    else:
        broken_reported = False

    # 3. dynamic complement / search: chaos-mode stress with the property monitors
    if tier == "quick":
        configs = [(1, 2, 2, 1500), (2, 3, 3, 1500), (3, 2, 2, 1500)]
    else:
        configs = [(1, 2, 2, 20000), (1, 4, 4, 10000), (2, 3, 3, 20000), (3, 4, 4, 20000), (4, 8, 8, 10000), (5, 2, 6, 6000)]
    hits, runs = stress(c, binary, configs)
    if broken and not hits and not big:
        # the correspondence no longer holds: search harder before giving up
        more = [(cap, g, g, 12000) for cap in (1, 2, 3) for g in (2, 4)] + [(1, 1, 1, 20000), (2, 6, 2, 8000), (2, 2, 6, 8000)]
        h2, r2 = stress(c, binary, more)
        hits += h2
        runs += r2
    c.cov["abq_stress"] = {"runs": runs[:12], "violations": len(hits), "monitors":
                           "Len/AsSlice samples within 0..cap, harness ledger, per-producer order, exactly-once, ctx error has no effect, "
                           "drain after quiescence, fill exactly cap after all cancellations, completion deadlines (5 s after the call's deadline)"}

    # 4. report
    reported = broken_reported
    for h in hits:
        if h["kind"] in MINE.get(focus, ()) or broken:
            c.report("%s:abq:%s" % (pid, h["kind"]), "ConcurrentArrayBlockingQueue: " + h["text"], dict(h, kind="stress-run", monitor=h["kind"]))
            reported = True
    if broken and not reported:
        c.report("%s:abq:lockstep" % pid,
                 "ConcurrentArrayBlockingQueue no longer corresponds to its interleaving model (theorems %s do not transfer)" % THEOREMS.get(focus, ""),
                 {"kind": "lockstep-correspondence", "skeleton_problems": problems[:10], "mismatches": mism[:3],
                  "model_stderr": merr[-500:], "go_stderr": gerr[-500:],
                  "how": "modelrun %s run %d %d 3000 <report>  against  h lockstep  (see checks/common.py: Check.lockstep)" % (model, c.seed, nsched)},
                 found_input=False)
