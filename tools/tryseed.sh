#!/bin/bash
# usage: tools/tryseed.sh <Cnn> <patch.diff> [tier]  — run a check against a scratch COPY of /repo with the patch applied
set -e
id=$1; patch=$2; tier=${3:-quick}
d=$(mktemp -d /tmp/tryseed.XXXXXX)
cp -r /repo $d/repo
(cd $d/repo && git apply "$patch")
cd /verif
set +e
VERIF_REPO=$d/repo bin/check $id $tier
rc=$?
rm -rf $d
exit $rc
