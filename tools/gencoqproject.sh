#!/bin/bash
# regenerates coq/_CoqProject (every .v under theories/) and the Makefile when the file list changed
cd "$(dirname "$0")/../coq"
{ echo "-Q theories Ekit"; find theories -name '*.v' | sort; } > _CoqProject.tmp
if ! cmp -s _CoqProject.tmp _CoqProject || [ ! -f Makefile ]; then
  mv _CoqProject.tmp _CoqProject
  coq_makefile -f _CoqProject -o Makefile >/dev/null
else
  rm -f _CoqProject.tmp
fi
