// inner.go — two additional obligations on top of the declared-vs-derived footprint table
// (go/types based; the table analysis in main.go stays syntactic):
//
//  1. "inner methods called under a read lock are read-only".  A wrapper row `X.field.*` of kind
//     read (a delegated call c.List.Get(i), c.pq.Peek(), ...) is ONE abstract read in the table.
//     For every such row whose lock context has no exclusive lock (RLock only, or no lock at
//     all) the called method of EVERY concrete container that can sit behind the field is
//     analysed transitively (same-receiver helpers, functions of other repository packages,
//     closures, dynamic dispatch to every implementation) and must not write memory reachable
//     from its receiver (field stores through the pointer receiver, element stores p.data[i] = x,
//     append/copy/delete/clear on reachable slices and maps, ++/--).  This discharges the
//     `kind_matches (r_kind r) w a` conjunct of `guards_respected` (FootprintModel.v) for the
//     KRead rows of the abstract locations `Field.*`.
//
//  2. "no unsynchronised package-level state".  Every function of the packages of the concurrent
//     files and every repository function they can reach is scanned for accesses to package-level
//     variables.  A write outside package initialisation that is neither atomic nor under a
//     package-level mutex held by ALL accessors of that variable is a violation.  The variables
//     the unchanged tree legitimately has (assigned once at package init, never written again;
//     sync / atomic typed) are listed in the output (the derived allow-list).
package main

import (
	"fmt"
	"go/ast"
	"go/build"
	"go/importer"
	"go/parser"
	"go/token"
	"go/types"
	"os"
	"os/exec"
	"path/filepath"
	"sort"
	"strings"
)

// ---------------------------------------------------------------------------------------
// loading + type checking

type tpkg struct {
	path  string
	dir   string
	files []*ast.File
	pkg   *types.Package
	info  *types.Info
	repo  bool
}

type tloader struct {
	repo     string
	modPath  string
	requires map[string]string // module -> version
	modCache string
	fset     *token.FileSet
	pkgs     map[string]*tpkg
	std      types.Importer
	problems []string
	decls    map[*types.Func]*ast.FuncDecl
	declPkg  map[*types.Func]*tpkg
}

func newLoader(repo string) *tloader {
	l := &tloader{repo: repo, requires: map[string]string{}, fset: token.NewFileSet(), pkgs: map[string]*tpkg{},
		decls: map[*types.Func]*ast.FuncDecl{}, declPkg: map[*types.Func]*tpkg{}}
	l.std = importer.ForCompiler(l.fset, "source", nil)
	if b, err := os.ReadFile(filepath.Join(repo, "go.mod")); err == nil {
		for _, ln := range strings.Split(string(b), "\n") {
			f := strings.Fields(ln)
			if len(f) >= 2 && f[0] == "module" {
				l.modPath = f[1]
			}
			if len(f) >= 2 && strings.Contains(f[0], ".") && strings.HasPrefix(f[1], "v") {
				l.requires[f[0]] = f[1]
			}
			if len(f) >= 3 && f[0] == "require" && strings.HasPrefix(f[2], "v") {
				l.requires[f[1]] = f[2]
			}
		}
	}
	l.modCache = os.Getenv("GOMODCACHE")
	if l.modCache == "" {
		if out, err := exec.Command("go", "env", "GOMODCACHE").Output(); err == nil {
			l.modCache = strings.TrimSpace(string(out))
		}
	}
	return l
}

func (l *tloader) Import(path string) (*types.Package, error) { return l.ImportFrom(path, "", 0) }

func (l *tloader) ImportFrom(path, dir string, mode types.ImportMode) (*types.Package, error) {
	if path == "unsafe" {
		return types.Unsafe, nil
	}
	if p := l.pkgs[path]; p != nil {
		return p.pkg, nil
	}
	if path == l.modPath || strings.HasPrefix(path, l.modPath+"/") {
		p, err := l.load(path, filepath.Join(l.repo, strings.TrimPrefix(strings.TrimPrefix(path, l.modPath), "/")), true)
		if err != nil {
			return nil, err
		}
		return p.pkg, nil
	}
	first := path
	if i := strings.Index(path, "/"); i >= 0 {
		first = path[:i]
	}
	if !strings.Contains(first, ".") {
		return l.std.Import(path)
	}
	// a module dependency: locate it in the module cache
	best := ""
	for m := range l.requires {
		if (path == m || strings.HasPrefix(path, m+"/")) && len(m) > len(best) {
			best = m
		}
	}
	if best != "" && l.modCache != "" {
		d := filepath.Join(l.modCache, best+"@"+l.requires[best], strings.TrimPrefix(strings.TrimPrefix(path, best), "/"))
		if p, err := l.load(path, d, false); err == nil {
			return p.pkg, nil
		}
	}
	l.problems = append(l.problems, "inner: cannot import "+path+" (treated as empty)")
	p := types.NewPackage(path, path[strings.LastIndex(path, "/")+1:])
	p.MarkComplete()
	l.pkgs[path] = &tpkg{path: path, pkg: p}
	return p, nil
}

func (l *tloader) load(path, dir string, repo bool) (*tpkg, error) {
	if p := l.pkgs[path]; p != nil {
		return p, nil
	}
	bp, err := build.Default.ImportDir(dir, 0)
	if err != nil {
		if _, ok := err.(*build.MultiplePackageError); !ok && (bp == nil || len(bp.GoFiles) == 0) {
			return nil, err
		}
	}
	p := &tpkg{path: path, dir: dir, repo: repo}
	names := append([]string{}, bp.GoFiles...)
	names = append(names, bp.CgoFiles...)
	sort.Strings(names)
	for _, n := range names {
		if n == "x_verif.go" {
			continue
		}
		f, err := parser.ParseFile(l.fset, filepath.Join(dir, n), nil, 0)
		if err != nil {
			return nil, err
		}
		p.files = append(p.files, f)
	}
	p.info = &types.Info{Types: map[ast.Expr]types.TypeAndValue{}, Defs: map[*ast.Ident]types.Object{}, Uses: map[*ast.Ident]types.Object{},
		Selections: map[*ast.SelectorExpr]*types.Selection{}, Instances: map[*ast.Ident]types.Instance{}}
	l.pkgs[path] = p // (import cycles are impossible in compiling code)
	var errs []string
	conf := types.Config{Importer: l, FakeImportC: true, Error: func(e error) { errs = append(errs, e.Error()) }}
	p.pkg, _ = conf.Check(path, l.fset, p.files, p.info)
	if repo && len(errs) > 0 {
		l.problems = append(l.problems, fmt.Sprintf("inner: type errors in %s: %s", path, errs[0]))
	}
	for _, f := range p.files {
		for _, d := range f.Decls {
			if fd, ok := d.(*ast.FuncDecl); ok {
				if fn, ok := p.info.Defs[fd.Name].(*types.Func); ok {
					l.decls[fn] = fd
					l.declPkg[fn] = p
				}
			}
		}
	}
	return p, nil
}

// ---------------------------------------------------------------------------------------
// per-function summaries

type wdesc struct {
	What string `json:"what"` // the written expression
	In   string `json:"in"`   // function
	Pos  string `json:"pos"`
	Via  string `json:"via,omitempty"` // call chain below the summarised function
}

type pkgAccess struct {
	v     *types.Var
	write bool
	what  string
	fn    string
	pos   string
	held  []string // package-level mutexes lexically held
	init  bool
}

type fsum struct {
	fn      *types.Func
	params  []*types.Var
	writes  map[int][]wdesc // parameter index (0 = receiver) -> writes into memory reachable from it
	unknown map[int][]wdesc // calls the analysis cannot see into that receive memory reachable from the parameter
	pkgAcc  []pkgAccess
	callees map[*types.Func]bool
	done    bool
}

type inner struct {
	l       *tloader
	sums    map[*types.Func]*fsum
	changed bool
	impls   map[string][]*types.Func
}

var trustedSyncPkgs = map[string]bool{"sync": true, "sync/atomic": true, "context": true, "time": true,
	"golang.org/x/sync/semaphore": true, "runtime": true}

// external functions that do not write through their arguments
var pureExtPkgs = map[string]bool{"fmt": true, "errors": true, "strconv": true, "strings": true, "math": true, "math/rand": true,
	"unsafe": true, "math/bits": true, "hash/fnv": true}

func pointerLike(t types.Type, depth int) bool {
	if t == nil || depth > 6 {
		return true
	}
	switch u := t.Underlying().(type) {
	case *types.Basic:
		return u.Kind() == types.UnsafePointer || u.Kind() == types.Invalid
	case *types.Pointer, *types.Slice, *types.Map, *types.Chan, *types.Signature:
		return true
	case *types.Interface:
		return true // includes type parameters
	case *types.Struct:
		for i := 0; i < u.NumFields(); i++ {
			if pointerLike(u.Field(i).Type(), depth+1) {
				return true
			}
		}
		return false
	case *types.Array:
		return pointerLike(u.Elem(), depth+1)
	}
	return true
}

func (in *inner) pos(p token.Pos) string {
	ps := in.l.fset.Position(p)
	rel, err := filepath.Rel(in.l.repo, ps.Filename)
	if err != nil || strings.HasPrefix(rel, "..") {
		rel = ps.Filename
	}
	return fmt.Sprintf("%s:%d", rel, ps.Line)
}

func funcName(fn *types.Func) string {
	sig, _ := fn.Type().(*types.Signature)
	pk := ""
	if fn.Pkg() != nil {
		pk = fn.Pkg().Name() + "."
	}
	if sig != nil && sig.Recv() != nil {
		t := sig.Recv().Type()
		if p, ok := t.(*types.Pointer); ok {
			t = p.Elem()
		}
		if n, ok := t.(*types.Named); ok {
			return pk + n.Obj().Name() + "." + fn.Name()
		}
	}
	return pk + fn.Name()
}

func (in *inner) summary(fn *types.Func) *fsum {
	fn = fn.Origin()
	if s := in.sums[fn]; s != nil {
		return s
	}
	s := &fsum{fn: fn, writes: map[int][]wdesc{}, unknown: map[int][]wdesc{}, callees: map[*types.Func]bool{}}
	in.sums[fn] = s
	in.analyse(s)
	return s
}

func addDesc(m map[int][]wdesc, i int, d wdesc) bool {
	for _, x := range m[i] {
		if x.What == d.What && x.In == d.In && x.Pos == d.Pos {
			return false
		}
	}
	if len(m[i]) >= 12 {
		return false
	}
	m[i] = append(m[i], d)
	return true
}

type fwalk struct {
	in     *inner
	s      *fsum
	p      *tpkg
	fd     *ast.FuncDecl
	idx    map[*types.Var]int
	taintD map[*types.Var]uint64
	taintH map[*types.Var]uint64
	name   string
	locks  []lockSpan
}

type lockSpan struct {
	name     string
	from, to token.Pos
}

func (w *fwalk) typeOf(e ast.Expr) types.Type {
	if tv, ok := w.p.info.Types[e]; ok {
		return tv.Type
	}
	if id, ok := e.(*ast.Ident); ok {
		if o := w.p.info.ObjectOf(id); o != nil {
			return o.Type()
		}
	}
	return nil
}

func (w *fwalk) varOf(id *ast.Ident) *types.Var {
	v, _ := w.p.info.ObjectOf(id).(*types.Var)
	return v
}

func isPkgLevel(v *types.Var) bool {
	return v != nil && !v.IsField() && v.Pkg() != nil && v.Parent() == v.Pkg().Scope()
}

// taint of a value: d = the value itself may point INTO memory reachable from these parameters;
// h = the value is (or points to) thread-local memory that HOLDS pointers into such memory
// (storing into it is harmless, loading from it yields a shared pointer)
type tt struct{ d, h uint64 }

func (t tt) all() uint64 { return t.d | t.h }
func (t tt) or(u tt) tt  { return tt{t.d | u.d, t.h | u.h} }

func (w *fwalk) exprTaint(e ast.Expr) uint64 { return w.et(e).all() }
func (w *fwalk) direct(e ast.Expr) uint64    { return w.et(e).d }

func (w *fwalk) et(e ast.Expr) tt {
	if e == nil {
		return tt{}
	}
	if t := w.typeOf(e); t != nil && !pointerLike(t, 0) {
		return tt{}
	}
	switch x := e.(type) {
	case *ast.Ident:
		v := w.varOf(x)
		if v == nil {
			return tt{}
		}
		r := tt{w.taintD[v], w.taintH[v]}
		if i, ok := w.idx[v]; ok {
			r.d |= 1 << uint(i)
		}
		return r
	case *ast.ParenExpr:
		return w.et(x.X)
	case *ast.SelectorExpr:
		if sel := w.p.info.Selections[x]; sel != nil {
			return tt{d: w.et(x.X).all()}
		}
		return tt{} // qualified identifier pkg.Name
	case *ast.IndexExpr:
		if tv, ok := w.p.info.Types[x.X]; ok && !tv.IsValue() {
			return tt{}
		}
		return tt{d: w.et(x.X).all()}
	case *ast.StarExpr:
		return tt{d: w.et(x.X).all()}
	case *ast.SliceExpr:
		return w.et(x.X)
	case *ast.UnaryExpr:
		if x.Op == token.AND {
			return tt{d: w.memTaint(x.X), h: w.et(x.X).all()}
		}
		return tt{d: w.et(x.X).all()} // <-ch
	case *ast.TypeAssertExpr:
		return w.et(x.X)
	case *ast.CompositeLit:
		var m uint64
		for _, el := range x.Elts {
			if kv, ok := el.(*ast.KeyValueExpr); ok {
				m |= w.et(kv.Value).all()
			} else {
				m |= w.et(el).all()
			}
		}
		return tt{h: m}
	case *ast.CallExpr:
		if tv, ok := w.p.info.Types[x.Fun]; ok && tv.IsType() {
			if len(x.Args) == 1 {
				return w.et(x.Args[0])
			}
			return tt{}
		}
		if id, ok := x.Fun.(*ast.Ident); ok {
			if _, isB := w.p.info.ObjectOf(id).(*types.Builtin); isB {
				switch id.Name {
				case "append":
					var r tt
					for i, a := range x.Args {
						if i == 0 {
							r = w.et(a)
						} else {
							r.h |= w.et(a).all()
						}
					}
					return r
				case "min", "max":
				default:
					return tt{}
				}
			}
		}
		return tt{d: w.callTaint(x)}
	}
	return tt{}
}

// memTaint: the parameters whose reachable memory contains the LOCATION e designates
// (0 for a local variable or a field of a local struct value)
func (w *fwalk) memTaint(e ast.Expr) uint64 {
	switch x := e.(type) {
	case *ast.ParenExpr:
		return w.memTaint(x.X)
	case *ast.Ident:
		return 0
	case *ast.StarExpr:
		return w.direct(x.X)
	case *ast.SelectorExpr:
		sel := w.p.info.Selections[x]
		if sel == nil {
			return 0 // pkg.Var: handled as a package-level variable
		}
		if sel.Indirect() {
			return w.direct(x.X)
		}
		if t := w.typeOf(x.X); t != nil {
			if _, ok := t.Underlying().(*types.Pointer); ok {
				return w.direct(x.X)
			}
		}
		return w.memTaint(x.X)
	case *ast.IndexExpr:
		if t := w.typeOf(x.X); t != nil {
			if _, ok := t.Underlying().(*types.Array); ok {
				return w.memTaint(x.X)
			}
		}
		return w.direct(x.X)
	case *ast.SliceExpr:
		return w.direct(x.X)
	}
	return 0
}

// rootVar: the variable at the base of an lvalue path
func (w *fwalk) rootVar(e ast.Expr) *types.Var {
	for {
		switch x := e.(type) {
		case *ast.ParenExpr:
			e = x.X
		case *ast.StarExpr:
			e = x.X
		case *ast.IndexExpr:
			e = x.X
		case *ast.SliceExpr:
			e = x.X
		case *ast.SelectorExpr:
			if w.p.info.Selections[x] == nil {
				return w.varOf(x.Sel) // pkg.Var
			}
			e = x.X
		case *ast.Ident:
			return w.varOf(x)
		default:
			return nil
		}
	}
}

func (w *fwalk) text(e ast.Node) string {
	return types.ExprString(e.(ast.Expr))
}

func (w *fwalk) recordWrite(target ast.Expr, how string) {
	if id, ok := target.(*ast.Ident); ok && id.Name == "_" {
		return
	}
	what := w.text(target)
	if how != "" {
		what = how + "(" + what + ")"
	}
	if v := w.rootVar(target); isPkgLevel(v) {
		w.pkgAccess(v, true, what, target.Pos())
	}
	var m uint64
	if how == "" {
		m = w.memTaint(target)
	} else {
		m = w.direct(target) // append / copy / delete / clear act on what the value points to
	}
	for i := range w.s.params {
		if m&(1<<uint(i)) != 0 {
			if addDesc(w.s.writes, i, wdesc{What: what, In: w.name, Pos: w.in.pos(target.Pos())}) {
				w.in.changed = true
			}
		}
	}
}

func (w *fwalk) heldAt(p token.Pos) []string {
	var out []string
	for _, l := range w.locks {
		if l.from < p && p < l.to {
			out = append(out, l.name)
		}
	}
	sort.Strings(out)
	return out
}

func (w *fwalk) pkgAccess(v *types.Var, write bool, what string, p token.Pos) {
	if v.Pkg() == nil || w.in.l.pkgs[v.Pkg().Path()] == nil || !w.in.l.pkgs[v.Pkg().Path()].repo {
		return
	}
	w.s.pkgAcc = append(w.s.pkgAcc, pkgAccess{v: v, write: write, what: what, fn: w.name, pos: w.in.pos(p), held: w.heldAt(p),
		init: w.fd.Recv == nil && w.fd.Name.Name == "init"})
}

func (w *fwalk) setTaint(mp map[*types.Var]uint64, v *types.Var, m uint64) {
	if v == nil || m == 0 {
		return
	}
	if mp[v]|m != mp[v] {
		mp[v] |= m
		w.in.changed = true
	}
}

// assignTaint: lhs receives a value with taint t
func (w *fwalk) assignTaint(lhs ast.Expr, t tt) {
	if t.all() == 0 {
		return
	}
	v := w.rootVar(lhs)
	if v == nil || isPkgLevel(v) || !pointerLike(v.Type(), 0) {
		return
	}
	for {
		p, ok := lhs.(*ast.ParenExpr)
		if !ok {
			break
		}
		lhs = p.X
	}
	if _, bare := lhs.(*ast.Ident); bare {
		w.setTaint(w.taintD, v, t.d)
		w.setTaint(w.taintH, v, t.h)
	} else {
		w.setTaint(w.taintH, v, t.all()) // stored somewhere inside what v holds
	}
}

func (in *inner) analyse(s *fsum) {
	fd := in.l.decls[s.fn]
	p := in.l.declPkg[s.fn]
	if fd == nil || fd.Body == nil || p == nil {
		s.done = true
		return
	}
	w := &fwalk{in: in, s: s, p: p, fd: fd, idx: map[*types.Var]int{}, taintD: map[*types.Var]uint64{}, taintH: map[*types.Var]uint64{}, name: funcName(s.fn)}
	sig := s.fn.Type().(*types.Signature)
	s.params = nil
	if sig.Recv() != nil {
		// the receiver object of the DECLARATION (the signature's may be a different object for generic types)
		var rv *types.Var
		if len(fd.Recv.List) > 0 && len(fd.Recv.List[0].Names) > 0 {
			rv, _ = p.info.Defs[fd.Recv.List[0].Names[0]].(*types.Var)
		}
		if rv == nil {
			rv = sig.Recv()
		}
		s.params = append(s.params, rv)
	} else {
		s.params = append(s.params, nil)
	}
	for _, f := range fd.Type.Params.List {
		if len(f.Names) == 0 {
			s.params = append(s.params, nil)
		}
		for _, n := range f.Names {
			v, _ := p.info.Defs[n].(*types.Var)
			s.params = append(s.params, v)
		}
	}
	for i, v := range s.params {
		if v != nil && i < 60 {
			w.idx[v] = i
		}
	}
	// package-level mutexes lexically held: X.Lock()/RLock() ... X.Unlock()/RUnlock() (or deferred -> end of function)
	ast.Inspect(fd.Body, func(n ast.Node) bool {
		ce, ok := n.(*ast.CallExpr)
		if !ok {
			return true
		}
		se, ok := ce.Fun.(*ast.SelectorExpr)
		if !ok || (se.Sel.Name != "Lock" && se.Sel.Name != "RLock") {
			return true
		}
		if v := w.rootVar(se.X); isPkgLevel(v) {
			name := w.text(se.X)
			end := fd.Body.End()
			ast.Inspect(fd.Body, func(m ast.Node) bool {
				if es, ok := m.(*ast.ExprStmt); ok && es.Pos() > ce.Pos() {
					if c2, ok := es.X.(*ast.CallExpr); ok {
						if s2, ok := c2.Fun.(*ast.SelectorExpr); ok && (s2.Sel.Name == "Unlock" || s2.Sel.Name == "RUnlock") && w.text(s2.X) == name && es.Pos() < end {
							end = es.Pos()
						}
					}
				}
				return true
			})
			if se.Sel.Name == "RLock" {
				name += "(R)"
			}
			w.locks = append(w.locks, lockSpan{name, ce.Pos(), end})
		}
		return true
	})
	any := in.changed
	for round := 0; round < 8; round++ {
		in.changed = false
		s.pkgAcc = nil
		w.walk(fd.Body)
		if !in.changed {
			break
		}
		any = true
	}
	in.changed = any
	s.done = true
}

func (w *fwalk) walk(body ast.Node) {
	info := w.p.info
	written := map[ast.Expr]bool{}
	ast.Inspect(body, func(n ast.Node) bool {
		switch x := n.(type) {
		case *ast.AssignStmt:
			for _, l := range x.Lhs {
				written[l] = true
				if _, isId := l.(*ast.Ident); !isId || isPkgLevel(w.rootVar(l)) {
					w.recordWrite(l, "")
				}
			}
			if len(x.Lhs) == len(x.Rhs) {
				for i, l := range x.Lhs {
					w.assignTaint(l, w.et(x.Rhs[i]))
				}
			} else if len(x.Rhs) == 1 {
				m := tt{d: w.et(x.Rhs[0]).all()}
				for _, l := range x.Lhs {
					if t := w.typeOf(l); t == nil || pointerLike(t, 0) {
						w.assignTaint(l, m)
					}
				}
			}
		case *ast.IncDecStmt:
			written[x.X] = true
			if _, isId := x.X.(*ast.Ident); !isId || isPkgLevel(w.rootVar(x.X)) {
				w.recordWrite(x.X, "")
			}
		case *ast.RangeStmt:
			m := tt{d: w.et(x.X).all()}
			for _, kv := range []ast.Expr{x.Key, x.Value} {
				if kv == nil {
					continue
				}
				written[kv] = true
				if _, isId := kv.(*ast.Ident); !isId {
					w.recordWrite(kv, "")
				}
				if t := w.typeOf(kv); t == nil || pointerLike(t, 0) {
					w.assignTaint(kv, m)
				}
			}
		case *ast.ValueSpec:
			for i, nm := range x.Names {
				if i < len(x.Values) && len(x.Values) == len(x.Names) {
					w.assignTaint(nm, w.et(x.Values[i]))
				} else if len(x.Values) == 1 {
					w.assignTaint(nm, tt{d: w.et(x.Values[0]).all()})
				}
			}
		case *ast.UnaryExpr:
			if x.Op == token.AND {
				if v := w.rootVar(x.X); isPkgLevel(v) {
					if !syncTyped(v.Type()) {
						w.pkgAccess(v, true, "&"+w.text(x.X)+" (address taken)", x.Pos())
					}
				}
			}
		case *ast.CallExpr:
			w.call(x)
		case *ast.Ident:
			if v, ok := info.Uses[x].(*types.Var); ok && isPkgLevel(v) {
				w.pkgAccess(v, false, x.Name, x.Pos())
			}
		}
		return true
	})
}

func syncTyped(t types.Type) bool {
	if p, ok := t.(*types.Pointer); ok {
		t = p.Elem()
	}
	if n, ok := t.(*types.Named); ok && n.Obj().Pkg() != nil {
		pp := n.Obj().Pkg().Path()
		return pp == "sync" || pp == "sync/atomic" || pp == "golang.org/x/sync/semaphore"
	}
	return false
}

func (w *fwalk) callTaint(ce *ast.CallExpr) uint64 {
	var m uint64
	for _, a := range ce.Args {
		m |= w.exprTaint(a)
	}
	if se, ok := ce.Fun.(*ast.SelectorExpr); ok && w.p.info.Selections[se] != nil {
		m |= w.exprTaint(se.X) | w.memTaint(se.X)
	}
	if id, ok := ce.Fun.(*ast.Ident); ok {
		if _, isB := w.p.info.ObjectOf(id).(*types.Builtin); isB && id.Name != "append" {
			return 0
		}
	}
	return m
}

// implementations of an interface method among the repository's concrete types (by method name)
func (in *inner) implementations(iface *types.Interface, method string) []*types.Func {
	var names []string
	for i := 0; i < iface.NumMethods(); i++ {
		names = append(names, iface.Method(i).Name())
	}
	sort.Strings(names)
	key := strings.Join(names, ",") + "|" + method
	if r, ok := in.impls[key]; ok {
		return r
	}
	var out []*types.Func
	var paths []string
	for p := range in.l.pkgs {
		paths = append(paths, p)
	}
	sort.Strings(paths)
	for _, pp := range paths {
		p := in.l.pkgs[pp]
		if !p.repo || p.pkg == nil {
			continue
		}
		sc := p.pkg.Scope()
		for _, n := range sc.Names() {
			tn, ok := sc.Lookup(n).(*types.TypeName)
			if !ok {
				continue
			}
			named, ok := tn.Type().(*types.Named)
			if !ok {
				continue
			}
			if _, isI := named.Underlying().(*types.Interface); isI {
				continue
			}
			ms := types.NewMethodSet(types.NewPointer(named))
			all := true
			var hit *types.Func
			for _, want := range names {
				sel := ms.Lookup(p.pkg, want)
				if sel == nil {
					all = false
					break
				}
				if want == method {
					hit, _ = sel.Obj().(*types.Func)
				}
			}
			if all && hit != nil {
				out = append(out, hit.Origin())
			}
		}
	}
	in.impls[key] = out
	return out
}

func (w *fwalk) call(ce *ast.CallExpr) {
	info := w.p.info
	if tv, ok := info.Types[ce.Fun]; ok && tv.IsType() {
		return
	}
	fun := ce.Fun
	for {
		switch f := fun.(type) {
		case *ast.ParenExpr:
			fun = f.X
			continue
		case *ast.IndexExpr:
			if tv, ok := info.Types[f.X]; ok && !tv.IsType() {
				if _, isSig := tv.Type.Underlying().(*types.Signature); isSig {
					fun = f.X
					continue
				}
			}
		case *ast.IndexListExpr:
			fun = f.X
			continue
		}
		break
	}
	var obj types.Object
	var recvExpr ast.Expr
	switch f := fun.(type) {
	case *ast.Ident:
		obj = info.ObjectOf(f)
	case *ast.SelectorExpr:
		obj = info.ObjectOf(f.Sel)
		if info.Selections[f] != nil {
			recvExpr = f.X
		}
	case *ast.FuncLit:
		return // the body is walked in place
	}
	if b, ok := obj.(*types.Builtin); ok {
		switch b.Name() {
		case "append":
			if len(ce.Args) > 0 {
				w.recordWrite(ce.Args[0], "append")
			}
		case "copy", "delete", "clear":
			if len(ce.Args) > 0 {
				w.recordWrite(ce.Args[0], b.Name())
			}
		}
		return
	}
	fn, ok := obj.(*types.Func)
	if !ok {
		// a call of a function value (callback, comparator, func-typed field): client code
		return
	}
	fn = fn.Origin()
	sig, _ := fn.Type().(*types.Signature)
	// the taint of each actual (0 = receiver)
	actual := func(j int) (uint64, string) {
		if j == 0 {
			if recvExpr == nil {
				return 0, ""
			}
			m := w.exprTaint(recvExpr)
			if sig != nil && sig.Recv() != nil {
				if _, ptr := sig.Recv().Type().(*types.Pointer); ptr {
					if t := w.typeOf(recvExpr); t != nil {
						if _, isPtr := t.Underlying().(*types.Pointer); !isPtr {
							m |= w.memTaint(recvExpr) // implicit &x
						}
					}
				}
			}
			return m, w.text(recvExpr)
		}
		k := j - 1
		if sig != nil && sig.Variadic() && k >= sig.Params().Len()-1 {
			var m uint64
			for _, a := range ce.Args[minInt(sig.Params().Len()-1, len(ce.Args)):] {
				m |= w.exprTaint(a)
			}
			return m, "..."
		}
		if k < len(ce.Args) {
			return w.exprTaint(ce.Args[k]), w.text(ce.Args[k])
		}
		return 0, ""
	}
	// a package-level variable as the receiver of a pointer method of a repository type
	var pkgRecv *types.Var
	if recvExpr != nil {
		if v := w.rootVar(recvExpr); isPkgLevel(v) {
			pkgRecv = v
		}
	}
	var targets []*types.Func
	if sig != nil && sig.Recv() != nil {
		if it, isI := sig.Recv().Type().Underlying().(*types.Interface); isI {
			if recvExpr != nil {
				if _, isTP := w.typeOf(recvExpr).(*types.TypeParam); isTP {
					return // a method of a client element
				}
			}
			if fn.Pkg() != nil && w.in.l.pkgs[fn.Pkg().Path()] != nil && w.in.l.pkgs[fn.Pkg().Path()].repo {
				targets = w.in.implementations(it, fn.Name())
			} else {
				w.external(fn, ce, actual, 1+len(ce.Args))
				return
			}
		}
	}
	if targets == nil {
		if w.in.l.decls[fn] == nil {
			w.external(fn, ce, actual, 1+len(ce.Args))
			return
		}
		targets = []*types.Func{fn}
	}
	for _, t := range targets {
		w.s.callees[t] = true
		cs := w.in.summary(t)
		tname := funcName(t)
		for pass, src := range []map[int][]wdesc{cs.writes, cs.unknown} {
			dst := w.s.writes
			if pass == 1 {
				dst = w.s.unknown
			}
			for j, ds := range src {
				m, _ := actual(j)
				for _, d := range ds {
					nd := wdesc{What: d.What, In: d.In, Pos: d.Pos, Via: strings.TrimSuffix(tname+" > "+d.Via, " > ")}
					if len(nd.Via) > 200 {
						nd.Via = nd.Via[:200]
					}
					for i := range w.s.params {
						if m&(1<<uint(i)) != 0 {
							if addDesc(dst, i, nd) {
								w.in.changed = true
							}
						}
					}
					if j == 0 && pass == 0 && pkgRecv != nil {
						w.pkgAccess(pkgRecv, true, w.text(ce.Fun)+"() writes "+d.What, ce.Pos())
					}
				}
			}
		}
	}
}

func minInt(a, b int) int {
	if a < b {
		return a
	}
	return b
}

// a function without a body in the repository (standard library / dependency)
func (w *fwalk) external(fn *types.Func, ce *ast.CallExpr, actual func(int) (uint64, string), n int) {
	pk := ""
	if fn.Pkg() != nil {
		pk = fn.Pkg().Path()
	}
	if trustedSyncPkgs[pk] || pureExtPkgs[pk] {
		return
	}
	for j := 0; j < n; j++ {
		m, txt := actual(j)
		if m == 0 {
			continue
		}
		d := wdesc{What: "call of " + funcName(fn) + " with " + txt, In: w.name, Pos: w.in.pos(ce.Pos())}
		for i := range w.s.params {
			if m&(1<<uint(i)) != 0 {
				if addDesc(w.s.unknown, i, d) {
					w.in.changed = true
				}
			}
		}
	}
}

// ---------------------------------------------------------------------------------------
// the two obligations

type innerObligation struct {
	Wrapper string            `json:"wrapper"`
	Field   string            `json:"field"`
	Inner   string            `json:"inner"`
	Locks   map[string]string `json:"locks"`
	Stmt    string            `json:"stmt"`
	Writes  []wdesc           `json:"writes,omitempty"`
	Unknown []wdesc           `json:"unknown,omitempty"`
}

type pkgVarInfo struct {
	Var      string   `json:"var"`
	Type     string   `json:"type"`
	Class    string   `json:"class"`
	Readers  int      `json:"reads"`
	Writers  []string `json:"writes,omitempty"`
	Examples []string `json:"read_in,omitempty"`
}

type innerOut struct {
	Obligations []innerObligation `json:"obligations"`
	Violations  []innerObligation `json:"violations"`
	Skipped     []string          `json:"skipped_exclusive"`
	PkgAllowed  []pkgVarInfo      `json:"pkgvars_allowed"`
	PkgViol     []pkgVarInfo      `json:"pkgvars_violations"`
	Functions   int               `json:"functions_analysed"`
	Controls    int               `json:"writer_controls"` // declared writers in which the analysis does find the receiver write
	Problems    []string          `json:"problems"`
}

func (in *inner) sortedFuncs() []*types.Func {
	var fns []*types.Func
	for f := range in.sums {
		fns = append(fns, f)
	}
	sort.Slice(fns, func(i, j int) bool {
		a, b := funcName(fns[i])+"@"+in.pos(fns[i].Pos()), funcName(fns[j])+"@"+in.pos(fns[j].Pos())
		return a < b
	})
	return fns
}

func (in *inner) fixpoint(roots []*types.Func) {
	for round := 0; round < 10; round++ {
		in.changed = false
		fns := in.sortedFuncs()
		for _, f := range roots {
			if in.sums[f.Origin()] == nil {
				in.summary(f)
			}
		}
		for _, f := range fns {
			in.analyse(in.sums[f])
		}
		if !in.changed {
			break
		}
	}
}

func runInner(repo string, rows []*row) *innerOut {
	out := &innerOut{Obligations: []innerObligation{}, Violations: []innerObligation{}, Skipped: []string{},
		PkgAllowed: []pkgVarInfo{}, PkgViol: []pkgVarInfo{}, Problems: []string{}}
	l := newLoader(repo)
	in := &inner{l: l, sums: map[*types.Func]*fsum{}, impls: map[string][]*types.Func{}}
	dirOf := map[string]string{}
	var concPkgs []*tpkg
	seenDir := map[string]bool{}
	for _, t := range targets {
		d := filepath.Dir(t.File)
		dirOf[t.Type] = d
		if seenDir[d] {
			continue
		}
		seenDir[d] = true
		p, err := l.load(l.modPath+"/"+filepath.ToSlash(d), filepath.Join(repo, d), true)
		if err != nil {
			out.Problems = append(out.Problems, "inner: "+err.Error())
			continue
		}
		concPkgs = append(concPkgs, p)
	}

	// ---- 1. inner methods called under a read lock are read-only ----
	type obKey struct{ wrapper, field, callee, stmt string }
	seen := map[obKey]bool{}
	var roots []*types.Func
	type pending struct {
		ob      innerObligation
		fns     []*types.Func
		control bool // a declared WRITER: the analysis must see its receiver write (non-vacuity of the obligation)
	}
	var pend []pending
	for _, r := range rows {
		if r.Callee == "" || !strings.HasSuffix(r.Loc, ".*") {
			continue
		}
		excl := false
		for _, m := range r.Locks {
			if m == "E" {
				excl = true
			}
		}
		k := obKey{r.Type + "." + r.Func, r.Loc, r.Callee, r.Stmt}
		if seen[k] {
			continue
		}
		seen[k] = true
		control := r.Kind == "write"
		if r.Kind != "read" && !control {
			continue
		}
		if excl && !control {
			if r.Kind == "read" {
				out.Skipped = append(out.Skipped, fmt.Sprintf("%s.%s: %s.%s (exclusive lock held)", r.Type, r.Func, strings.TrimSuffix(r.Loc, ".*"), r.Callee))
			}
			continue
		}
		// the field: "Struct.field" in the wrapper's package
		fieldPath := strings.TrimSuffix(r.Loc, ".*")
		dot := strings.LastIndex(fieldPath, ".")
		p := l.pkgs[l.modPath+"/"+filepath.ToSlash(dirOf[r.Type])]
		if dot < 0 || p == nil || p.pkg == nil {
			out.Problems = append(out.Problems, "inner: cannot resolve "+r.Loc)
			continue
		}
		sname, fname := fieldPath[:dot], fieldPath[dot+1:]
		tn, _ := p.pkg.Scope().Lookup(sname).(*types.TypeName)
		var ft types.Type
		if tn != nil {
			if st, ok := tn.Type().Underlying().(*types.Struct); ok {
				for i := 0; i < st.NumFields(); i++ {
					if st.Field(i).Name() == fname {
						ft = st.Field(i).Type()
					}
				}
			}
		}
		if ft == nil {
			out.Problems = append(out.Problems, "inner: no field for "+r.Loc)
			continue
		}
		var fns []*types.Func
		if it, ok := ft.Underlying().(*types.Interface); ok {
			fns = in.implementations(it, r.Callee)
		} else {
			o, _, _ := types.LookupFieldOrMethod(ft, true, p.pkg, r.Callee)
			if f, ok := o.(*types.Func); ok {
				fns = []*types.Func{f.Origin()}
			}
		}
		if len(fns) == 0 {
			out.Problems = append(out.Problems, fmt.Sprintf("inner: no implementation of %s.%s found", fieldPath, r.Callee))
			continue
		}
		roots = append(roots, fns...)
		pend = append(pend, pending{innerObligation{Wrapper: r.Type + "." + r.Func, Field: fieldPath, Locks: r.Locks, Stmt: r.Stmt}, fns, control})
	}

	// ---- 2. package-level variables: every function of the concurrent packages + what they reach ----
	for _, p := range concPkgs {
		for _, f := range p.files {
			for _, d := range f.Decls {
				if fd, ok := d.(*ast.FuncDecl); ok && fd.Body != nil {
					if fn, ok := p.info.Defs[fd.Name].(*types.Func); ok {
						roots = append(roots, fn)
					}
				}
			}
		}
	}
	in.fixpoint(roots)
	out.Functions = len(in.sums)

	for _, pe := range pend {
		for _, f := range pe.fns {
			s := in.sums[f.Origin()]
			if pe.control {
				out.Controls++
				if s == nil || len(s.writes[0]) == 0 {
					out.Problems = append(out.Problems, fmt.Sprintf("inner: the analysis sees no receiver write in the declared writer %s (called by %s): it would be blind to writes", funcName(f), pe.ob.Wrapper))
				}
				continue
			}
			ob := pe.ob
			ob.Inner = funcName(f)
			if s != nil {
				ob.Writes = s.writes[0]
				ob.Unknown = s.unknown[0]
			}
			if len(ob.Writes) > 0 || len(ob.Unknown) > 0 {
				out.Violations = append(out.Violations, ob)
			}
			out.Obligations = append(out.Obligations, ob)
		}
	}

	type agg struct {
		v      *types.Var
		reads  []pkgAccess
		writes []pkgAccess
	}
	vars := map[*types.Var]*agg{}
	for _, f := range in.sortedFuncs() {
		s := in.sums[f]
		for _, a := range s.pkgAcc {
			if a.init {
				continue
			}
			g := vars[a.v]
			if g == nil {
				g = &agg{v: a.v}
				vars[a.v] = g
			}
			if a.write {
				g.writes = append(g.writes, a)
			} else {
				g.reads = append(g.reads, a)
			}
		}
	}
	var keys []*types.Var
	for v := range vars {
		keys = append(keys, v)
	}
	sort.Slice(keys, func(i, j int) bool {
		return keys[i].Pkg().Path()+"."+keys[i].Name() < keys[j].Pkg().Path()+"."+keys[j].Name()
	})
	for _, v := range keys {
		g := vars[v]
		rel := strings.TrimPrefix(strings.TrimPrefix(v.Pkg().Path(), l.modPath), "/")
		pi := pkgVarInfo{Var: rel + "." + v.Name(), Type: types.TypeString(v.Type(), func(p *types.Package) string { return p.Name() }), Readers: len(g.reads)}
		ex := map[string]bool{}
		for _, a := range g.reads {
			if len(ex) < 3 && !ex[a.fn] {
				ex[a.fn] = true
				pi.Examples = append(pi.Examples, a.fn)
			}
		}
		sort.Strings(pi.Examples)
		switch {
		case syncTyped(v.Type()):
			pi.Class = "sync/atomic typed (trusted primitive)"
			out.PkgAllowed = append(out.PkgAllowed, pi)
		case len(g.writes) == 0:
			pi.Class = "assigned at package initialisation only, never written afterwards"
			out.PkgAllowed = append(out.PkgAllowed, pi)
		default:
			// a lock common to ALL accessors, exclusive at every write
			common := map[string]int{}
			for _, a := range g.writes {
				for _, h := range a.held {
					if !strings.HasSuffix(h, "(R)") {
						common[h]++
					}
				}
			}
			for _, a := range g.reads {
				for _, h := range a.held {
					common[strings.TrimSuffix(h, "(R)")]++
				}
			}
			guarded := ""
			for h, n := range common {
				if n >= len(g.writes)+len(g.reads) {
					guarded = h
				}
			}
			for _, a := range g.writes {
				pi.Writers = append(pi.Writers, fmt.Sprintf("%s at %s in %s", a.what, a.pos, a.fn))
			}
			sort.Strings(pi.Writers)
			if guarded != "" {
				pi.Class = "every access under the package-level lock " + guarded
				out.PkgAllowed = append(out.PkgAllowed, pi)
			} else {
				pi.Class = "written outside package initialisation, not atomic, no lock common to all accessors"
				out.PkgViol = append(out.PkgViol, pi)
			}
		}
	}
	sort.Strings(out.Skipped)
	seenP := map[string]bool{}
	for _, p := range l.problems {
		if !seenP[p] {
			seenP[p] = true
			out.Problems = append(out.Problems, p)
		}
	}
	return out
}
