// Command footprint RE-DERIVES, from the CURRENT source of the repository, the shared-memory
// footprint of every public method (and every goroutine body) of the types that ekit documents
// as safe for concurrent use (property C15).  Standard library only (go/ast + go/parser, no
// go/types): the analysis is syntactic and an over-approximation by design (DESIGN.md, C15):
//
//   - a selector chain rooted at the receiver (or at a local assigned from one) is the shared
//     location "Type.field" (Type = static type of the base, resolved from the struct
//     declarations of the package); "Type.field[]" are the elements of a slice / map / array
//     field, "Type.field.*" is the state of a foreign container reached through the field;
//   - it is a write if it is an assignment target, ++/--, delete/append/copy target; an atomic
//     access if its address is passed to a sync/atomic function or it is an atomic.* typed field
//     whose method is called; otherwise a plain read;
//   - calls on sync primitives (Lock/Unlock/RLock/RUnlock, semaphore Acquire/Release, channel
//     send/receive/close, sync.Once.Do, sync.Pool, sync.Map, context) are synchronisation
//     operations; sync.Map / sync.Pool / context are delegated to (trusted);
//   - the lock context of a statement: locks acquired earlier on every path through the function
//     body and not yet released (`defer x.Unlock()` holds to the return); methods and functions
//     of the same package are inlined (the helper methods that unlock - cond.broadcast,
//     cond.signalCh - need no table: their effect is derived by inlining; the only table entry
//     is the alias cond.l = <owner>.mutex);
//   - objects created in the call are "fresh" (thread-local) until published;
//   - what the analysis cannot classify is emitted with kind "unclassified" and makes the check
//     fail rather than being ignored.
//
// Two further obligations are computed by inner.go (go/types based) and printed under "inner":
// the foreign-container methods a wrapper calls under a read lock / no lock are read-only on their
// receiver, and the concurrent packages have no unsynchronised package-level state.
//
//	footprint -repo /repo            prints JSON on stdout
package main

import (
	"bytes"
	"encoding/json"
	"flag"
	"fmt"
	"go/ast"
	"go/parser"
	"go/printer"
	"go/token"
	"os"
	"path/filepath"
	"regexp"
	"sort"
	"strings"
)

// ---------------------------------------------------------------------------------------
// configuration: the thread-safe types of the property's anchors

type target struct {
	File     string
	Type     string
	Pre      map[string]map[string]string // method -> lock -> mode held at entry (documented precondition)
	APILocks bool                         // the type's API hands lock ownership to the client
}

var targets = []target{
	{File: "list/copy_on_write_array_list.go", Type: "CopyOnWriteArrayList"},
	{File: "list/concurrent_list.go", Type: "ConcurrentList"},
	{File: "queue/concurrent_linked_queue.go", Type: "ConcurrentLinkedQueue"},
	{File: "queue/concurrent_array_blocking_queue.go", Type: "ConcurrentArrayBlockingQueue"},
	{File: "queue/concurrent_linked_blocking_queue.go", Type: "ConcurrentLinkedBlockingQueue"},
	{File: "queue/delay_queue.go", Type: "DelayQueue"},
	{File: "queue/concurrent_priority_queue.go", Type: "ConcurrentPriorityQueue"},
	{File: "syncx/cond.go", Type: "Cond", Pre: map[string]map[string]string{"Wait": {"Cond.L": "E"}}},
	{File: "syncx/map.go", Type: "Map"},
	{File: "syncx/pool.go", Type: "Pool"},
	{File: "syncx/limit_pool.go", Type: "LimitPool"},
	{File: "syncx/segment_key_lock.go", Type: "SegmentKeysLock", APILocks: true},
	{File: "syncx/atomicx/atomic.go", Type: "Value"},
	{File: "pool/task_pool.go", Type: "OnDemandBlockTaskPool"},
	{File: "retry/exponential.go", Type: "ExponentialBackoffRetryStrategy"},
	{File: "retry/fixed_internal.go", Type: "FixedIntervalRetryStrategy"},
	{File: "bean/copier/reflect_copier.go", Type: "ReflectCopier"},
}

// the queue package's private cond keeps a pointer to its owner's mutex
var lockAlias = map[string]string{"cond.l": "$T.mutex"}

// methods of foreign containers (list.LinkedList, the embedded list.List, internal/queue.PriorityQueue,
// set.MapSet) reached through a field
var containerReaders = map[string]bool{"Get": true, "Len": true, "Cap": true, "Range": true, "AsSlice": true,
	"Peek": true, "Keys": true, "Exist": true, "IsFull": true, "IsEmpty": true, "Values": true}
var containerWriters = map[string]bool{"Append": true, "Add": true, "Set": true, "Delete": true,
	"Enqueue": true, "Dequeue": true, "Put": true, "Push": true, "Pop": true, "Clear": true}

// interfaces whose implementations are supplied by the client (running one is running client code)
var clientIfaces = map[string]bool{"Task": true}

// ---------------------------------------------------------------------------------------
// package information (declarations only; no type checking)

type pkgInfo struct {
	dir     string
	fset    *token.FileSet
	structs map[string]*ast.StructType
	ifaces  map[string]*ast.InterfaceType
	named   map[string]ast.Expr
	methods map[string]map[string]*ast.FuncDecl
	funcs   map[string]*ast.FuncDecl
	imports map[string]bool
}

var pkgCache = map[string]*pkgInfo{}

func loadPkg(repo, dir string) (*pkgInfo, error) {
	if p := pkgCache[dir]; p != nil {
		return p, nil
	}
	p := &pkgInfo{dir: dir, fset: token.NewFileSet(), structs: map[string]*ast.StructType{}, ifaces: map[string]*ast.InterfaceType{},
		named: map[string]ast.Expr{}, methods: map[string]map[string]*ast.FuncDecl{}, funcs: map[string]*ast.FuncDecl{}, imports: map[string]bool{}}
	ents, err := os.ReadDir(filepath.Join(repo, dir))
	if err != nil {
		return nil, err
	}
	for _, e := range ents {
		n := e.Name()
		if e.IsDir() || !strings.HasSuffix(n, ".go") || strings.HasSuffix(n, "_test.go") || n == "x_verif.go" {
			continue
		}
		f, err := parser.ParseFile(p.fset, filepath.Join(repo, dir, n), nil, 0)
		if err != nil {
			return nil, err
		}
		for _, im := range f.Imports {
			path := strings.Trim(im.Path.Value, `"`)
			name := path[strings.LastIndex(path, "/")+1:]
			if im.Name != nil {
				name = im.Name.Name
			}
			p.imports[name] = true
		}
		for _, d := range f.Decls {
			switch x := d.(type) {
			case *ast.GenDecl:
				if x.Tok != token.TYPE {
					continue
				}
				for _, s := range x.Specs {
					ts := s.(*ast.TypeSpec)
					switch t := ts.Type.(type) {
					case *ast.StructType:
						p.structs[ts.Name.Name] = t
					case *ast.InterfaceType:
						p.ifaces[ts.Name.Name] = t
					default:
						p.named[ts.Name.Name] = ts.Type
					}
				}
			case *ast.FuncDecl:
				if x.Recv == nil || len(x.Recv.List) == 0 {
					p.funcs[x.Name.Name] = x
					continue
				}
				r := typeName(x.Recv.List[0].Type)
				if p.methods[r] == nil {
					p.methods[r] = map[string]*ast.FuncDecl{}
				}
				p.methods[r][x.Name.Name] = x
			}
		}
	}
	pkgCache[dir] = p
	return p, nil
}

func stripPtr(t ast.Expr) (ast.Expr, bool) {
	ptr := false
	for {
		switch x := t.(type) {
		case *ast.StarExpr:
			t, ptr = x.X, true
		case *ast.ParenExpr:
			t = x.X
		default:
			return t, ptr
		}
	}
}

// typeName: "Name" or "pkg.Name" of a (pointer to a) named, possibly instantiated type; "" otherwise
func typeName(t ast.Expr) string {
	if t == nil {
		return ""
	}
	t, _ = stripPtr(t)
	switch x := t.(type) {
	case *ast.Ident:
		return x.Name
	case *ast.IndexExpr:
		return typeName(x.X)
	case *ast.IndexListExpr:
		return typeName(x.X)
	case *ast.SelectorExpr:
		if id, ok := x.X.(*ast.Ident); ok {
			return id.Name + "." + x.Sel.Name
		}
	}
	return ""
}

type tclass int

const (
	tUnknown tclass = iota
	tMutex
	tRWMutex
	tLocker
	tOnce
	tSyncMap
	tSyncPool
	tSema
	tAtomic
	tCtx
	tChan
	tFunc
	tSlice
	tMap
	tStruct
	tIface
	tForeign
	tBasic
)

var basicNames = map[string]bool{"int": true, "int8": true, "int16": true, "int32": true, "int64": true, "uint": true, "uint8": true,
	"uint16": true, "uint32": true, "uint64": true, "uintptr": true, "string": true, "bool": true, "float32": true, "float64": true,
	"byte": true, "rune": true, "error": true, "any": true, "complex64": true, "complex128": true}

func (p *pkgInfo) classify(t ast.Expr) (tclass, string) {
	if t == nil {
		return tUnknown, ""
	}
	t, _ = stripPtr(t)
	switch t.(type) {
	case *ast.ChanType:
		return tChan, ""
	case *ast.FuncType:
		return tFunc, ""
	case *ast.ArrayType:
		return tSlice, ""
	case *ast.MapType:
		return tMap, ""
	case *ast.InterfaceType:
		return tBasic, ""
	case *ast.StructType:
		return tBasic, ""
	}
	n := typeName(t)
	switch n {
	case "":
		return tUnknown, ""
	case "sync.Mutex":
		return tMutex, n
	case "sync.RWMutex":
		return tRWMutex, n
	case "sync.Locker":
		return tLocker, n
	case "sync.Once":
		return tOnce, n
	case "sync.Map":
		return tSyncMap, n
	case "sync.Pool":
		return tSyncPool, n
	case "semaphore.Weighted":
		return tSema, n
	case "context.Context":
		return tCtx, n
	case "context.CancelFunc":
		return tFunc, n
	case "unsafe.Pointer", "time.Duration", "reflect.Type", "reflect.Kind", "reflect.Value", "time.Time":
		return tBasic, n
	}
	if strings.HasPrefix(n, "atomic.") {
		return tAtomic, n
	}
	if strings.Contains(n, ".") {
		return tForeign, n
	}
	if basicNames[n] {
		return tBasic, n
	}
	if _, ok := p.structs[n]; ok {
		return tStruct, n
	}
	if _, ok := p.ifaces[n]; ok {
		return tIface, n
	}
	if u, ok := p.named[n]; ok {
		c, _ := p.classify(u)
		return c, n
	}
	return tBasic, n // type parameter (T, K, V, Src, Dst): an opaque element value
}

func (p *pkgInfo) fieldType(t ast.Expr, field string) ast.Expr {
	c, n := p.classify(t)
	if c != tStruct {
		return nil
	}
	for _, f := range p.structs[n].Fields.List {
		if len(f.Names) == 0 { // embedded
			if bn := typeName(f.Type); bn == field || strings.HasSuffix(bn, "."+field) {
				return f.Type
			}
		}
		for _, nm := range f.Names {
			if nm.Name == field {
				return f.Type
			}
		}
	}
	return nil
}

func elemType(t ast.Expr) ast.Expr {
	if t == nil {
		return nil
	}
	t, _ = stripPtr(t)
	switch x := t.(type) {
	case *ast.ArrayType:
		return x.Elt
	case *ast.MapType:
		return x.Value
	case *ast.ChanType:
		return x.Value
	case *ast.Ellipsis:
		return x.Elt
	}
	return nil
}

// ---------------------------------------------------------------------------------------
// analysis state

type val struct {
	typ    ast.Expr
	shared bool   // derived from the receiver
	fresh  bool   // object allocated in this call, not (yet) published
	origin string // the location / synchronisation object this value denotes or aliases
}

type deferItem struct {
	call *ast.CallExpr
	fr   *frame
}

type state struct {
	locks  map[string]string // must-hold: lock -> "E" | "S"
	acq    map[string]bool   // must-have-acquired-before (synchronisation objects)
	defers []deferItem
	dead   bool
}

func newState() *state { return &state{locks: map[string]string{}, acq: map[string]bool{}} }

func (s *state) clone() *state {
	c := &state{locks: map[string]string{}, acq: map[string]bool{}, dead: s.dead}
	for k, v := range s.locks {
		c.locks[k] = v
	}
	for k := range s.acq {
		c.acq[k] = true
	}
	c.defers = append([]deferItem(nil), s.defers...)
	return c
}

func merge(a, b *state) *state {
	if a == nil || a.dead {
		if b == nil {
			return a
		}
		return b
	}
	if b == nil || b.dead {
		return a
	}
	c := newState()
	for k, v := range a.locks {
		if w, ok := b.locks[k]; ok {
			if v == w {
				c.locks[k] = v
			} else {
				c.locks[k] = "S" // held exclusively on one path, shared on the other
			}
		}
	}
	for k := range a.acq {
		if b.acq[k] {
			c.acq[k] = true
		}
	}
	n := len(a.defers)
	if len(b.defers) < n {
		n = len(b.defers)
	}
	c.defers = append([]deferItem(nil), a.defers[:n]...)
	return c
}

type frame struct {
	name    string
	env     map[string]*val
	parent  *frame // lexical parent (function literals)
	exit    *state
	retVals []*val
}

func (f *frame) lookup(n string) *val {
	for fr := f; fr != nil; fr = fr.parent {
		if v, ok := fr.env[n]; ok {
			return v
		}
	}
	return nil
}

type row struct {
	Type      string            `json:"type"`
	Func      string            `json:"func"`
	Stmt      string            `json:"stmt"`
	Loc       string            `json:"loc"`
	Kind      string            `json:"kind"`
	Locks     map[string]string `json:"locks"`
	AcqBefore []string          `json:"acq_before"`
	RelAfter  []string          `json:"rel_after"`
	Fresh     bool              `json:"fresh"`
	Once      string            `json:"once,omitempty"`
	Line      int               `json:"line"`
	Callee    string            `json:"callee,omitempty"` // method of the foreign container a `Field.*` row stands for
	seq       int
	loops     []int
	rel       string
}

type loopCtx struct {
	id        int
	breaks    []*state
	continues []*state
	label     string
}

type entry struct {
	name string
	body *ast.BlockStmt
	decl *ast.FuncDecl
	env  map[string]*val // captured environment (go func literals)
	pre  map[string]string
}

type analyzer struct {
	pkg      *pkgInfo
	tgt      target
	fn       string
	rows     []*row
	seq      int
	cur      *state
	fr       *frame
	stack    []string
	loops    []*loopCtx
	loopSeq  int
	label    string
	line     int
	once     []string
	reached  map[string]bool
	queue    []entry
	queued   map[string]bool
	goCount  int
	goFn     string
	problems []string
	pending  map[string]ast.Expr
}

var ws = regexp.MustCompile(`\s+`)

func (a *analyzer) text(n ast.Node) string {
	var b bytes.Buffer
	_ = printer.Fprint(&b, a.pkg.fset, n)
	return strings.TrimSpace(ws.ReplaceAllString(b.String(), " "))
}

func (a *analyzer) header(s ast.Stmt) string {
	switch x := s.(type) {
	case *ast.IfStmt:
		h := "if "
		if x.Init != nil {
			h += a.text(x.Init) + "; "
		}
		return h + a.text(x.Cond)
	case *ast.ForStmt:
		h := "for"
		if x.Cond != nil {
			h += " " + a.text(x.Cond)
		}
		return h
	case *ast.RangeStmt:
		return "for range " + a.text(x.X)
	case *ast.SelectStmt:
		return "select"
	case *ast.SwitchStmt:
		h := "switch"
		if x.Tag != nil {
			h += " " + a.text(x.Tag)
		}
		return h
	case *ast.TypeSwitchStmt:
		return "switch " + a.text(x.Assign)
	case *ast.BlockStmt:
		return "{"
	case *ast.LabeledStmt:
		return x.Label.Name + ": " + a.header(x.Stmt)
	}
	t := a.text(s)
	if len(t) > 120 {
		t = t[:120]
	}
	return t
}

func (a *analyzer) alias(obj string) string {
	if al, ok := lockAlias[obj]; ok {
		return strings.ReplaceAll(al, "$T", a.tgt.Type)
	}
	return obj
}

func sortedKeys(m map[string]bool) []string {
	out := make([]string, 0, len(m))
	for k := range m {
		out = append(out, k)
	}
	sort.Strings(out)
	return out
}

func (a *analyzer) emit(loc, kind string, fresh bool) *row {
	if a.cur.dead {
		return nil
	}
	r := &row{Type: a.tgt.Type, Func: a.fn, Loc: loc, Kind: kind, Locks: map[string]string{}, Fresh: fresh, Line: a.line}
	path := strings.Join(a.stack, ">")
	if path != "" {
		path += ": "
	}
	r.Stmt = path + a.label
	for k, v := range a.cur.locks {
		r.Locks[k] = v
	}
	r.AcqBefore = sortedKeys(a.cur.acq)
	if len(a.once) > 0 {
		r.Once = a.once[len(a.once)-1]
	}
	a.seq++
	r.seq = a.seq
	for _, l := range a.loops {
		r.loops = append(r.loops, l.id)
	}
	a.rows = append(a.rows, r)
	return r
}

func (a *analyzer) unclassified(n ast.Node, why string) {
	a.emit(a.text(n), "unclassified:"+why, false)
}

var acquireOps = map[string]bool{"lock": true, "rlock": true, "trylock": true, "tryrlock": true, "recv": true, "sem-acquire": true,
	"once": true, "pool-get": true, "map-load": true, "ctx-observe": true}
var releaseOps = map[string]bool{"unlock": true, "runlock": true, "send": true, "close": true, "sem-release": true, "once-done": true,
	"pool-put": true, "map-store": true, "fork": true, "ctx-cancel": true}

// sync records a synchronisation operation on object obj
func (a *analyzer) sync(obj, op string) {
	obj = a.alias(obj)
	r := a.emit(obj, "sync:"+op, false)
	if r == nil {
		return
	}
	if releaseOps[op] {
		r.rel = obj
	}
	switch op {
	case "lock":
		a.cur.locks[obj] = "E"
	case "rlock":
		a.cur.locks[obj] = "S"
	case "unlock", "runlock":
		if _, held := a.cur.locks[obj]; !held && !a.tgt.APILocks {
			a.emit(obj, "unclassified:"+op+" of a lock that is not held on every path", false)
		}
		delete(a.cur.locks, obj)
	}
	if acquireOps[op] {
		a.cur.acq[obj] = true
	}
}

func (a *analyzer) atomic(loc, kind string, fresh bool) {
	r := a.emit(loc, kind, fresh)
	if r == nil {
		return
	}
	if kind == "awrite" || kind == "armw" {
		r.rel = loc
	}
	if kind == "aread" || kind == "armw" {
		a.cur.acq[loc] = true
	}
}

// ---------------------------------------------------------------------------------------
// expressions

type mode int

const (
	mRead mode = iota
	mWrite
	mRW
	mNone
	mALoad
	mAStore
	mARmw
)

func (a *analyzer) access(loc string, m mode, fresh bool, syncValue bool) {
	switch m {
	case mRead:
		if !syncValue {
			a.emit(loc, "read", fresh)
		}
	case mWrite:
		a.emit(loc, "write", fresh)
	case mRW:
		a.emit(loc, "read", fresh)
		a.emit(loc, "write", fresh)
	case mALoad:
		a.atomic(loc, "aread", fresh)
	case mAStore:
		a.atomic(loc, "awrite", fresh)
	case mARmw:
		a.atomic(loc, "armw", fresh)
	}
}

func isSyncClass(c tclass) bool {
	switch c {
	case tMutex, tRWMutex, tOnce, tSyncMap, tSyncPool, tSema, tAtomic:
		return true
	}
	return false
}

func (a *analyzer) isPkgIdent(e ast.Expr) bool {
	id, ok := e.(*ast.Ident)
	return ok && a.fr.lookup(id.Name) == nil && a.pkg.imports[id.Name]
}

func (a *analyzer) eval(e ast.Expr, m mode) *val {
	switch x := e.(type) {
	case nil:
		return &val{}
	case *ast.Ident:
		if v := a.fr.lookup(x.Name); v != nil {
			c := *v
			return &c
		}
		return &val{}
	case *ast.BasicLit:
		return &val{}
	case *ast.ParenExpr:
		return a.eval(x.X, m)
	case *ast.SelectorExpr:
		return a.evalSelector(x, m)
	case *ast.IndexExpr:
		return a.evalIndex(x, m)
	case *ast.SliceExpr:
		v := a.eval(x.X, mRead)
		a.eval(x.Low, mRead)
		a.eval(x.High, mRead)
		a.eval(x.Max, mRead)
		return v
	case *ast.StarExpr:
		return a.eval(x.X, mRead)
	case *ast.UnaryExpr:
		if x.Op == token.AND {
			if cl, ok := x.X.(*ast.CompositeLit); ok {
				return a.evalComposite(cl, true)
			}
			return a.eval(x.X, mNone)
		}
		if x.Op == token.ARROW {
			return a.chanOp(x.X, "recv")
		}
		return a.eval(x.X, mRead)
	case *ast.BinaryExpr:
		l := a.eval(x.X, mRead)
		r := a.eval(x.Y, mRead)
		return &val{shared: l.shared || r.shared}
	case *ast.CallExpr:
		vs := a.evalCall(x)
		if len(vs) > 0 && vs[0] != nil {
			return vs[0]
		}
		return &val{}
	case *ast.CompositeLit:
		return a.evalComposite(x, false)
	case *ast.FuncLit:
		a.inlineFuncLit(x, nil)
		return &val{typ: x.Type}
	case *ast.TypeAssertExpr:
		v := a.eval(x.X, mRead)
		if x.Type == nil {
			return v
		}
		return &val{typ: x.Type, shared: v.shared, fresh: v.fresh, origin: v.origin}
	case *ast.KeyValueExpr:
		return a.eval(x.Value, mRead)
	}
	return &val{}
}

func (a *analyzer) evalSelector(x *ast.SelectorExpr, m mode) *val {
	if a.isPkgIdent(x.X) {
		return &val{}
	}
	bv := a.eval(x.X, mRead)
	ft := a.pkg.fieldType(bv.typ, x.Sel.Name)
	if !bv.shared && !bv.fresh {
		return &val{typ: ft}
	}
	c, sname := a.pkg.classify(bv.typ)
	if c != tStruct || ft == nil {
		if bv.fresh && !bv.shared {
			return &val{fresh: true}
		}
		a.unclassified(x, "selector on a receiver-derived value of unknown type")
		return &val{shared: true}
	}
	loc := sname + "." + x.Sel.Name
	fc, _ := a.pkg.classify(ft)
	_, ptr := stripPtr(ft)
	// a value-typed sync object or foreign container IS its state: using it is not a separate read of the field
	a.access(loc, m, bv.fresh && !bv.shared, (isSyncClass(fc) || fc == tForeign) && !ptr)
	return &val{typ: ft, shared: bv.shared, fresh: bv.fresh, origin: loc}
}

func (a *analyzer) evalIndex(x *ast.IndexExpr, m mode) *val {
	bv := a.eval(x.X, mRead)
	a.eval(x.Index, mRead)
	et := elemType(bv.typ)
	if bv.origin != "" && (bv.shared || bv.fresh) {
		loc := bv.origin + "[]"
		a.access(loc, m, bv.fresh && !bv.shared, false)
		return &val{typ: et, shared: bv.shared, fresh: bv.fresh, origin: loc}
	}
	return &val{typ: et, shared: bv.shared}
}

// evalComposite: &T{f: v} allocates a fresh object and initialises its fields; a value literal T{...} is a local value
func (a *analyzer) evalComposite(x *ast.CompositeLit, addr bool) *val {
	c, sname := a.pkg.classify(x.Type)
	for _, el := range x.Elts {
		if kv, ok := el.(*ast.KeyValueExpr); ok && c == tStruct {
			v := a.eval(kv.Value, mRead)
			_ = v
			if id, ok := kv.Key.(*ast.Ident); ok {
				ft := a.pkg.fieldType(x.Type, id.Name)
				fc, _ := a.pkg.classify(ft)
				_, ptr := stripPtr(ft)
				if addr && !(isSyncClass(fc) && !ptr) {
					a.emit(sname+"."+id.Name, "write", true)
				}
			}
			continue
		}
		a.eval(el, mRead)
	}
	return &val{typ: x.Type, fresh: addr}
}

// chanOp: send / recv / close / len on the channel denoted by e
func (a *analyzer) chanOp(e ast.Expr, op string) *val {
	v := a.eval(e, mRead)
	if (v.shared || v.fresh) && v.origin != "" {
		a.sync(v.origin+"^", op)
		return &val{typ: elemType(v.typ), shared: true}
	}
	if v.shared {
		a.unclassified(e, "channel operation on a receiver-derived channel of unknown origin")
	}
	return &val{typ: elemType(v.typ), shared: v.shared}
}

func (a *analyzer) evalArgs(args []ast.Expr) (vals []*val, shared bool) {
	for _, arg := range args {
		v := a.eval(arg, mRead)
		vals = append(vals, v)
		shared = shared || v.shared
	}
	return
}

func results(fd *ast.FuncDecl, shared bool, rets []*val) []*val {
	var out []*val
	if fd.Type.Results == nil {
		return nil
	}
	i := 0
	for _, f := range fd.Type.Results.List {
		n := len(f.Names)
		if n == 0 {
			n = 1
		}
		for k := 0; k < n; k++ {
			v := &val{typ: f.Type, shared: shared}
			if i < len(rets) && rets[i] != nil {
				v.origin, v.fresh = rets[i].origin, rets[i].fresh
				v.shared = v.shared || rets[i].shared
			}
			out = append(out, v)
			i++
		}
	}
	return out
}

func (a *analyzer) evalCall(call *ast.CallExpr) []*val {
	fun := call.Fun
	for {
		if p, ok := fun.(*ast.ParenExpr); ok {
			fun = p.X
			continue
		}
		break
	}
	// generic instantiation f[T](...)
	if ix, ok := fun.(*ast.IndexExpr); ok {
		if _, isArr := ix.X.(*ast.ArrayType); !isArr {
			if id, ok := ix.X.(*ast.Ident); !ok || a.fr.lookup(id.Name) == nil {
				fun = ix.X
			}
		}
	}
	switch f := fun.(type) {
	case *ast.FuncLit:
		a.evalArgs(call.Args)
		a.inlineFuncLit(f, nil)
		return nil
	case *ast.ArrayType, *ast.MapType, *ast.ChanType, *ast.StarExpr, *ast.InterfaceType, *ast.FuncType:
		// conversion
		if len(call.Args) == 1 {
			v := a.eval(call.Args[0], mRead)
			t := ast.Expr(nil)
			if te, ok := fun.(ast.Expr); ok {
				t = te
			}
			return []*val{{typ: t, shared: v.shared, fresh: v.fresh, origin: v.origin}}
		}
	case *ast.Ident:
		return a.evalIdentCall(f, call)
	case *ast.SelectorExpr:
		return a.evalMethodCall(f, call)
	}
	a.evalArgs(call.Args)
	return nil
}

func (a *analyzer) evalIdentCall(f *ast.Ident, call *ast.CallExpr) []*val {
	name := f.Name
	if lv := a.fr.lookup(name); lv != nil {
		// call of a function value held in a local / parameter (client-supplied callback)
		a.evalArgs(call.Args)
		return []*val{{}, {}}
	}
	switch name {
	case "len", "cap":
		v := a.eval(call.Args[0], mRead)
		if c, _ := a.pkg.classify(v.typ); c == tChan && v.shared && v.origin != "" {
			a.sync(v.origin+"^", "chanlen")
		}
		return []*val{{}}
	case "append":
		dst := a.eval(call.Args[0], mRead)
		if dst.origin != "" && (dst.shared || dst.fresh) {
			a.emit(dst.origin+"[]", "read", dst.fresh && !dst.shared)
		}
		for _, arg := range call.Args[1:] {
			v := a.eval(arg, mRead)
			if call.Ellipsis.IsValid() && v.origin != "" && v.shared {
				a.emit(v.origin+"[]", "read", false)
			}
		}
		return []*val{{typ: dst.typ, shared: dst.shared, fresh: dst.fresh, origin: dst.origin}}
	case "copy":
		dst := a.eval(call.Args[0], mRead)
		src := a.eval(call.Args[1], mRead)
		if src.origin != "" && (src.shared || src.fresh) {
			a.emit(src.origin+"[]", "read", src.fresh && !src.shared)
		}
		if dst.origin != "" && (dst.shared || dst.fresh) {
			a.emit(dst.origin+"[]", "write", dst.fresh && !dst.shared)
		}
		return []*val{{}}
	case "delete":
		mv := a.eval(call.Args[0], mRead)
		a.eval(call.Args[1], mRead)
		if mv.origin != "" && (mv.shared || mv.fresh) {
			a.emit(mv.origin+"[]", "write", mv.fresh && !mv.shared)
		} else if mv.shared {
			a.unclassified(call, "delete on a receiver-derived map of unknown origin")
		}
		return nil
	case "close":
		a.chanOp(call.Args[0], "close")
		return nil
	case "make":
		for _, arg := range call.Args[1:] {
			a.eval(arg, mRead)
		}
		return []*val{{typ: call.Args[0], fresh: true}}
	case "new":
		return []*val{{typ: call.Args[0], fresh: true}}
	case "panic", "recover", "print", "println", "min", "max":
		a.evalArgs(call.Args)
		return []*val{{}}
	}
	if fd, ok := a.pkg.funcs[name]; ok && fd.Body != nil {
		args, sh := a.evalArgs(call.Args)
		return a.inline(fd, nil, args, sh)
	}
	// conversion to a named / basic / type-parameter type, or a function we cannot see
	if len(call.Args) == 1 {
		v := a.eval(call.Args[0], mRead)
		return []*val{{typ: f, shared: v.shared, fresh: v.fresh, origin: v.origin}}
	}
	a.evalArgs(call.Args)
	return []*val{{}, {}}
}

var atomicFn = regexp.MustCompile(`^(Load|Store|Add|Swap|CompareAndSwap|And|Or)`)

func atomicMode(name string) (mode, bool) {
	m := atomicFn.FindString(name)
	switch m {
	case "Load":
		return mALoad, true
	case "Store":
		return mAStore, true
	case "Add", "Swap", "CompareAndSwap", "And", "Or":
		return mARmw, true
	}
	return mNone, false
}

func (a *analyzer) evalMethodCall(f *ast.SelectorExpr, call *ast.CallExpr) []*val {
	m := f.Sel.Name
	if a.isPkgIdent(f.X) {
		pk := f.X.(*ast.Ident).Name
		if pk == "atomic" {
			if am, ok := atomicMode(m); ok && len(call.Args) > 0 {
				if u, ok := call.Args[0].(*ast.UnaryExpr); ok && u.Op == token.AND {
					v := a.eval(u.X, am)
					if !v.shared && !v.fresh {
						// atomic on a local: nothing shared
					} else if v.origin == "" {
						a.unclassified(call, "atomic operation on a receiver-derived address of unknown origin")
					}
					_, sh := a.evalArgs(call.Args[1:])
					return []*val{{shared: v.shared || sh}}
				}
				a.unclassified(call, "sync/atomic call whose first argument is not &location")
			}
		}
		// a function of an imported package: its result does not alias the object's memory
		// (unsafe.Pointer(x) is a conversion and keeps what x denotes)
		args, _ := a.evalArgs(call.Args)
		if pk == "unsafe" && m == "Pointer" && len(args) == 1 {
			return []*val{{shared: args[0].shared, fresh: args[0].fresh, origin: args[0].origin}}
		}
		return []*val{{}, {}}
	}
	bv := a.eval(f.X, mRead)
	c, tn := a.pkg.classify(bv.typ)
	obj := bv.origin
	involved := bv.shared || bv.fresh
	_, ptr := stripPtr(bv.typ)
	if ptr && obj != "" && isSyncClass(c) {
		obj += "^"
	}
	switch c {
	case tMutex, tRWMutex, tLocker:
		op := map[string]string{"Lock": "lock", "Unlock": "unlock", "RLock": "rlock", "RUnlock": "runlock",
			"TryLock": "trylock", "TryRLock": "tryrlock"}[m]
		if op != "" && involved {
			if obj == "" {
				a.unclassified(call, "lock operation on a lock of unknown origin")
			} else {
				a.sync(strings.TrimSuffix(obj, "^"), op)
			}
			return []*val{{}}
		}
	case tOnce:
		if m == "Do" && involved && len(call.Args) == 1 {
			if fl, ok := call.Args[0].(*ast.FuncLit); ok {
				a.once = append(a.once, obj)
				a.inlineFuncLit(fl, nil)
				a.once = a.once[:len(a.once)-1]
				a.sync(obj, "once-done")
				a.sync(obj, "once")
				return nil
			}
		}
	case tSema:
		op := map[string]string{"Acquire": "sem-acquire", "TryAcquire": "sem-acquire", "Release": "sem-release"}[m]
		if op != "" && involved && obj != "" {
			a.evalArgs(call.Args)
			a.sync(obj, op)
			return []*val{{}}
		}
	case tAtomic:
		if am, ok := atomicMode(m); ok && involved && obj != "" {
			a.evalArgs(call.Args)
			switch am {
			case mALoad:
				a.atomic(obj, "aread", false)
			case mAStore:
				a.atomic(obj, "awrite", false)
			default:
				a.atomic(obj, "armw", false)
			}
			return []*val{{shared: true}}
		}
	case tSyncPool:
		if involved && obj != "" {
			a.evalArgs(call.Args)
			a.emit(obj, "delegate:"+m, false)
			if m == "Get" {
				a.sync(obj, "pool-get")
			} else if m == "Put" {
				a.sync(obj, "pool-put")
			}
			return []*val{{shared: true}}
		}
	case tSyncMap:
		if involved && obj != "" {
			a.emit(obj, "delegate:"+m, false)
			switch m {
			case "Load", "Range":
				a.sync(obj, "map-load")
			case "Store", "Delete":
				a.sync(obj, "map-store")
			default: // LoadOrStore, LoadAndDelete, Swap, CompareAndSwap...
				a.sync(obj, "map-store")
				a.sync(obj, "map-load")
			}
			a.evalArgs(call.Args)
			return []*val{{shared: true}, {}}
		}
	case tCtx:
		if involved && obj != "" {
			a.evalArgs(call.Args)
			a.emit(obj, "delegate:"+m, false)
			a.sync(obj, "ctx-observe")
			return []*val{{typ: &ast.ChanType{Dir: ast.RECV, Value: ast.NewIdent("struct{}")}}}
		}
	case tStruct:
		if fd := a.pkg.methods[tn][m]; fd != nil && fd.Body != nil {
			args, _ := a.evalArgs(call.Args)
			return a.inline(fd, bv, args, bv.shared)
		}
		if ft := a.pkg.fieldType(bv.typ, m); ft != nil && involved {
			// a func-typed field called through its owner: b.interruptCtxCancel()
			a.access(tn+"."+m, mRead, false, false)
			a.evalArgs(call.Args)
			if typeName(ft) == "context.CancelFunc" {
				a.emit(tn+"."+m, "delegate:call", false)
				a.sync(tn+"."+m, "ctx-cancel")
			} else {
				a.unclassified(call, "call of a func-typed field")
			}
			return nil
		}
	case tIface:
		if involved && obj != "" && clientIfaces[tn] {
			a.evalArgs(call.Args) // the wrapped client task: not state of the object
			return []*val{{}}
		}
		if involved && obj != "" {
			// an interface-typed field of the receiver: the state behind it is owned by the wrapper
			a.evalArgs(call.Args)
			a.container(obj, m, call)
			return []*val{{shared: true}, {}}
		}
		if bv.shared {
			// an interface value received from the object (a Task from the queue): every implementation in the package
			args, _ := a.evalArgs(call.Args)
			var impls []string
			for r, ms := range a.pkg.methods {
				if _, ok := ms[m]; ok {
					impls = append(impls, r)
				}
			}
			sort.Strings(impls)
			var out []*val
			for _, r := range impls {
				fd := a.pkg.methods[r][m]
				if _, isStruct := a.pkg.structs[r]; !isStruct || fd.Body == nil {
					continue
				}
				saved := a.cur.clone()
				recv := &val{typ: ast.NewIdent(r), shared: true}
				out = a.inline(fd, recv, args, true)
				a.cur = merge(saved, a.cur)
			}
			return out
		}
	case tForeign:
		if involved && obj != "" {
			a.evalArgs(call.Args)
			a.container(obj, m, call)
			return []*val{{shared: true}, {}}
		}
	case tFunc:
		if involved && obj != "" {
			// a func-typed field (context.CancelFunc)
			a.evalArgs(call.Args)
			a.emit(obj, "delegate:call", false)
			a.sync(obj, "ctx-cancel")
			return nil
		}
	}
	// a method of a value the analysis knows nothing about: client-supplied (element, callback, ctx, timer) when
	// the value is not a field; otherwise unclassified
	a.evalArgs(call.Args)
	if involved && obj != "" && c != tBasic && c != tUnknown {
		a.unclassified(call, "method call on a shared field the analysis has no rule for")
	}
	return []*val{{shared: bv.shared}, {shared: bv.shared}}
}

func (a *analyzer) container(obj, m string, call *ast.CallExpr) {
	switch {
	case containerReaders[m]:
		if r := a.emit(obj+".*", "read", false); r != nil {
			r.Callee = m
		}
	case containerWriters[m]:
		if r := a.emit(obj+".*", "write", false); r != nil {
			r.Callee = m
		}
	default:
		a.unclassified(call, "method "+m+" of a foreign container is in neither the reader nor the writer table")
	}
}

// ---------------------------------------------------------------------------------------
// inlining

func (a *analyzer) onStack(name string) bool {
	for _, s := range a.stack {
		if s == name {
			return true
		}
	}
	return false
}

func (a *analyzer) inline(fd *ast.FuncDecl, recv *val, args []*val, shared bool) []*val {
	name := fd.Name.Name
	if fd.Recv != nil && len(fd.Recv.List) > 0 {
		name = typeName(fd.Recv.List[0].Type) + "." + name
	}
	a.reached[name] = true
	if a.onStack(name) || len(a.stack) > 8 || a.cur.dead {
		return results(fd, shared, nil) // recursion: the statements are covered by the outer activation
	}
	fr := &frame{name: name, env: map[string]*val{}}
	if recv != nil && fd.Recv != nil && len(fd.Recv.List[0].Names) > 0 {
		rv := *recv
		rv.typ = fd.Recv.List[0].Type
		fr.env[fd.Recv.List[0].Names[0].Name] = &rv
	}
	i := 0
	for _, p := range fd.Type.Params.List {
		for _, nm := range p.Names {
			v := &val{typ: p.Type}
			if el, ok := p.Type.(*ast.Ellipsis); ok {
				v.typ = &ast.ArrayType{Elt: el.Elt}
			}
			if i < len(args) && args[i] != nil {
				v.shared, v.fresh, v.origin = args[i].shared, args[i].fresh, args[i].origin
			}
			fr.env[nm.Name] = v
			i++
		}
	}
	if fd.Type.Results != nil {
		for _, p := range fd.Type.Results.List {
			for _, nm := range p.Names {
				fr.env[nm.Name] = &val{typ: p.Type}
			}
		}
	}
	savedFr, savedLabel, savedLoops := a.fr, a.label, a.loops
	a.fr, a.loops = fr, nil
	a.stack = append(a.stack, name)
	a.block(fd.Body.List)
	a.doReturn(nil)
	a.stack = a.stack[:len(a.stack)-1]
	a.fr, a.label, a.loops = savedFr, savedLabel, savedLoops
	if fr.exit != nil {
		a.cur = fr.exit
	}
	return results(fd, shared, fr.retVals)
}

func (a *analyzer) inlineFuncLit(fl *ast.FuncLit, capturedBy *frame) {
	fr := &frame{name: "func", env: map[string]*val{}, parent: a.fr}
	for _, p := range fl.Type.Params.List {
		for _, nm := range p.Names {
			fr.env[nm.Name] = &val{typ: p.Type}
		}
	}
	savedFr, savedLabel, savedLoops := a.fr, a.label, a.loops
	a.fr, a.loops = fr, nil
	wasDead := a.cur.dead
	a.block(fl.Body.List)
	a.doReturn(nil)
	a.fr, a.label, a.loops = savedFr, savedLabel, savedLoops
	if fr.exit != nil {
		a.cur = fr.exit
	}
	a.cur.dead = wasDead
}

// doReturn: evaluate the results, run the deferred calls of the current frame, record the exit state
func (a *analyzer) doReturn(res []ast.Expr) {
	if a.cur.dead {
		return
	}
	var rets []*val
	for _, e := range res {
		rets = append(rets, a.eval(e, mRead))
	}
	if len(res) == 1 && len(rets) == 1 {
		if _, isCall := res[0].(*ast.CallExpr); isCall {
			// `return f()` with several results: origins unknown beyond the first
		}
	}
	fr := a.fr
	for len(a.cur.defers) > 0 && a.cur.defers[len(a.cur.defers)-1].fr == fr {
		d := a.cur.defers[len(a.cur.defers)-1]
		a.cur.defers = a.cur.defers[:len(a.cur.defers)-1]
		saved := a.label
		a.label = "defer " + a.text(d.call)
		if len(a.label) > 120 {
			a.label = a.label[:120]
		}
		a.evalCall(d.call)
		a.label = saved
	}
	if fr.retVals == nil {
		fr.retVals = rets
	} else {
		for i := range rets {
			if i < len(fr.retVals) && fr.retVals[i].origin == "" {
				fr.retVals[i] = rets[i]
			}
		}
	}
	fr.exit = merge(fr.exit, a.cur.clone())
	a.cur.dead = true
}

// ---------------------------------------------------------------------------------------
// statements

func (a *analyzer) block(list []ast.Stmt) {
	for _, s := range list {
		a.stmt(s)
	}
}

func (a *analyzer) define(lhs ast.Expr, v *val) {
	id, ok := lhs.(*ast.Ident)
	if !ok {
		a.eval(lhs, mWrite)
		return
	}
	if id.Name == "_" {
		return
	}
	if v == nil {
		v = &val{}
	}
	c := *v
	// an existing variable keeps its declared type when the new value has none
	if old := a.fr.lookup(id.Name); old != nil {
		if c.typ == nil {
			c.typ = old.typ
		}
		*old = c
		return
	}
	a.fr.env[id.Name] = &c
}

// pendingFields: locals that are later assigned to a field of the receiver (`a.vals = newItems`):
// writes into such a local before that assignment are initialising writes of the field's elements
func (a *analyzer) pendingFields(body *ast.BlockStmt) map[string]ast.Expr {
	out := map[string]ast.Expr{}
	ast.Inspect(body, func(n ast.Node) bool {
		as, ok := n.(*ast.AssignStmt)
		if !ok || as.Tok != token.ASSIGN || len(as.Lhs) != len(as.Rhs) {
			return true
		}
		for i, l := range as.Lhs {
			if se, ok := l.(*ast.SelectorExpr); ok {
				if id, ok := as.Rhs[i].(*ast.Ident); ok {
					out[id.Name] = se
				}
			}
		}
		return true
	})
	return out
}

func (a *analyzer) assign(x *ast.AssignStmt) {
	if x.Tok != token.ASSIGN && x.Tok != token.DEFINE {
		// op-assignment
		a.eval(x.Rhs[0], mRead)
		if _, ok := x.Lhs[0].(*ast.Ident); !ok {
			a.eval(x.Lhs[0], mRW)
		}
		return
	}
	var vals []*val
	if len(x.Rhs) == 1 && len(x.Lhs) > 1 {
		switch r := x.Rhs[0].(type) {
		case *ast.CallExpr:
			vals = a.evalCall(r)
		case *ast.UnaryExpr: // v, ok := <-ch
			vals = []*val{a.eval(r, mRead), {}}
		case *ast.TypeAssertExpr:
			vals = []*val{a.eval(r, mRead), {}}
		case *ast.IndexExpr:
			vals = []*val{a.eval(r, mRead), {}}
		default:
			vals = []*val{a.eval(r, mRead)}
		}
	} else {
		for _, r := range x.Rhs {
			vals = append(vals, a.eval(r, mRead))
		}
	}
	for i, l := range x.Lhs {
		var v *val
		if i < len(vals) {
			v = vals[i]
		}
		// x = append(x, ...) on a location also writes the elements
		if i < len(x.Rhs) {
			if ce, ok := x.Rhs[i].(*ast.CallExpr); ok {
				if id, ok := ce.Fun.(*ast.Ident); ok && id.Name == "append" && v != nil && v.origin != "" && (v.shared || v.fresh) {
					a.emit(v.origin+"[]", "write", v.fresh && !v.shared)
				}
			}
		}
		if id, ok := l.(*ast.Ident); ok {
			if pf := a.pending[id.Name]; pf != nil && v != nil && v.fresh && v.origin == "" {
				// fresh backing array that will be published through the field
				if se, ok := pf.(*ast.SelectorExpr); ok {
					if bid, ok := se.X.(*ast.Ident); ok {
						if bv := a.fr.lookup(bid.Name); bv != nil && bv.shared {
							if _, sn := a.pkg.classify(bv.typ); sn != "" {
								v.origin = sn + "." + se.Sel.Name
							}
						}
					}
				}
			}
		}
		a.define(l, v)
	}
}

func (a *analyzer) stmt(s ast.Stmt) {
	if s == nil {
		return
	}
	if _, isBlock := s.(*ast.BlockStmt); !isBlock {
		a.label = a.header(s)
		a.line = a.pkg.fset.Position(s.Pos()).Line
	}
	switch x := s.(type) {
	case *ast.BlockStmt:
		a.block(x.List)
	case *ast.ExprStmt:
		a.eval(x.X, mRead)
	case *ast.AssignStmt:
		a.assign(x)
	case *ast.IncDecStmt:
		if _, ok := x.X.(*ast.Ident); !ok {
			a.eval(x.X, mRW)
		}
	case *ast.DeclStmt:
		if gd, ok := x.Decl.(*ast.GenDecl); ok {
			for _, sp := range gd.Specs {
				if vs, ok := sp.(*ast.ValueSpec); ok {
					for i, nm := range vs.Names {
						v := &val{typ: vs.Type}
						if i < len(vs.Values) {
							v = a.eval(vs.Values[i], mRead)
							if vs.Type != nil {
								v.typ = vs.Type
							}
						}
						if nm.Name != "_" {
							a.fr.env[nm.Name] = v
						}
					}
				}
			}
		}
	case *ast.ReturnStmt:
		a.doReturn(x.Results)
	case *ast.DeferStmt:
		// arguments are evaluated now, the call runs at the return
		if _, isLit := x.Call.Fun.(*ast.FuncLit); !isLit {
			for _, arg := range x.Call.Args {
				if u, ok := arg.(*ast.UnaryExpr); ok && u.Op == token.AND {
					continue // &location passed to a deferred atomic call: accessed when it runs
				}
				a.eval(arg, mRead)
			}
		}
		if !a.cur.dead {
			a.cur.defers = append(a.cur.defers, deferItem{x.Call, a.fr})
		}
	case *ast.GoStmt:
		a.goStmt(x)
	case *ast.SendStmt:
		a.eval(x.Value, mRead)
		a.chanOp(x.Chan, "send")
	case *ast.IfStmt:
		a.stmt(x.Init)
		a.label = a.header(x)
		a.eval(x.Cond, mRead)
		saved := a.cur.clone()
		a.block(x.Body.List)
		thenSt := a.cur
		a.cur = saved
		if x.Else != nil {
			a.stmt(x.Else)
		}
		a.cur = merge(thenSt, a.cur)
		if thenSt.dead && a.cur.dead {
			a.cur.dead = true
		}
	case *ast.ForStmt:
		a.stmt(x.Init)
		a.loop(func() {
			a.label = a.header(x)
			a.eval(x.Cond, mRead)
		}, func() {
			a.block(x.Body.List)
			a.stmt(x.Post)
		}, x.Cond == nil, "")
	case *ast.RangeStmt:
		a.label = a.header(x)
		rv := a.eval(x.X, mRead)
		if c, _ := a.pkg.classify(rv.typ); c == tChan {
			if rv.shared && rv.origin != "" {
				a.sync(rv.origin+"^", "recv")
			}
		} else if rv.origin != "" && (rv.shared || rv.fresh) && x.Value != nil {
			a.emit(rv.origin+"[]", "read", rv.fresh && !rv.shared)
		} else if rv.origin != "" && (rv.shared || rv.fresh) {
			if c, _ := a.pkg.classify(rv.typ); c == tMap {
				a.emit(rv.origin+"[]", "read", false)
			}
		}
		if x.Key != nil {
			a.define(x.Key, &val{})
		}
		if x.Value != nil {
			a.define(x.Value, &val{typ: elemType(rv.typ), shared: rv.shared})
		}
		a.loop(func() {}, func() { a.block(x.Body.List) }, false, "")
	case *ast.SelectStmt:
		a.branches(len(x.Body.List), func(i int) {
			cc := x.Body.List[i].(*ast.CommClause)
			if cc.Comm != nil {
				a.label = "case " + a.text(cc.Comm)
				a.stmtNoLabel(cc.Comm)
			}
			a.block(cc.Body)
		}, true, true)
	case *ast.SwitchStmt:
		a.stmt(x.Init)
		a.label = a.header(x)
		a.eval(x.Tag, mRead)
		hasDefault := false
		for _, c := range x.Body.List {
			if c.(*ast.CaseClause).List == nil {
				hasDefault = true
			}
		}
		a.branches(len(x.Body.List), func(i int) {
			cc := x.Body.List[i].(*ast.CaseClause)
			for _, e := range cc.List {
				a.eval(e, mRead)
			}
			a.block(cc.Body)
		}, hasDefault, true)
	case *ast.TypeSwitchStmt:
		a.stmt(x.Init)
		a.stmtNoLabel(x.Assign)
		a.branches(len(x.Body.List), func(i int) { a.block(x.Body.List[i].(*ast.CaseClause).Body) }, false, true)
	case *ast.LabeledStmt:
		a.stmt(x.Stmt)
	case *ast.BranchStmt:
		if a.cur.dead {
			return
		}
		switch x.Tok {
		case token.BREAK:
			if n := len(a.loops); n > 0 {
				a.loops[n-1].breaks = append(a.loops[n-1].breaks, a.cur.clone())
			}
			a.cur.dead = true
		case token.CONTINUE:
			for n := len(a.loops) - 1; n >= 0; n-- {
				if !strings.HasPrefix(a.loops[n].label, "switch") {
					a.loops[n].continues = append(a.loops[n].continues, a.cur.clone())
					break
				}
			}
			a.cur.dead = true
		default:
			a.unclassified(x, "goto / fallthrough")
		}
	}
}

func (a *analyzer) stmtNoLabel(s ast.Stmt) {
	saved := a.label
	a.stmt(s)
	a.label = saved
}

// branches: n alternative bodies starting from the same state; exhaustive = one of them is always taken.
// `break` inside a select / switch leaves the statement.
func (a *analyzer) branches(n int, body func(i int), exhaustive bool, catchBreak bool) {
	start := a.cur.clone()
	var out *state
	if !exhaustive {
		out = start.clone()
	}
	a.loopSeq++
	lc := &loopCtx{id: -a.loopSeq, label: "switch"}
	if catchBreak {
		a.loops = append(a.loops, lc)
	}
	for i := 0; i < n; i++ {
		a.cur = start.clone()
		body(i)
		out = merge(out, a.cur)
	}
	if catchBreak {
		a.loops = a.loops[:len(a.loops)-1]
		for _, b := range lc.breaks {
			out = merge(out, b)
		}
	}
	if out == nil {
		out = start
		out.dead = true
	}
	a.cur = out
}

// loop: head (condition) and body; the state at the head is the meet of the entry state and the states
// flowing back; two rounds reach the fixed point because the meet only shrinks
func (a *analyzer) loop(head func(), body func(), infinite bool, label string) {
	entry := a.cur.clone()
	a.loopSeq++
	id := a.loopSeq
	var after *state
	headSt := entry
	firstRow := len(a.rows)
	for round := 0; round < 3; round++ {
		if round > 0 {
			a.rows = a.rows[:firstRow] // re-derive with the weaker head state
		}
		lc := &loopCtx{id: id, label: label}
		a.loops = append(a.loops, lc)
		a.cur = headSt.clone()
		head()
		condFalse := a.cur.clone()
		body()
		back := a.cur
		for _, c := range lc.continues {
			back = merge(back, c)
		}
		a.loops = a.loops[:len(a.loops)-1]
		after = nil
		if !infinite {
			after = condFalse
		}
		for _, b := range lc.breaks {
			after = merge(after, b)
		}
		newHead := merge(entry.clone(), back)
		if sameState(newHead, headSt) {
			break
		}
		headSt = newHead
	}
	if after == nil {
		after = entry
		after.dead = true
	}
	a.cur = after
}

func sameState(x, y *state) bool {
	if x.dead != y.dead || len(x.locks) != len(y.locks) || len(x.acq) != len(y.acq) {
		return false
	}
	for k, v := range x.locks {
		if y.locks[k] != v {
			return false
		}
	}
	for k := range x.acq {
		if !y.acq[k] {
			return false
		}
	}
	return true
}

func (a *analyzer) goStmt(x *ast.GoStmt) {
	if a.goFn != a.fn {
		a.goFn, a.goCount = a.fn, 0
	}
	a.goCount++
	if fl, ok := x.Call.Fun.(*ast.FuncLit); ok {
		a.evalArgs(x.Call.Args)
		name := fmt.Sprintf("%s$go%d", a.fn, a.goCount)
		env := map[string]*val{}
		for fr := a.fr; fr != nil; fr = fr.parent {
			for k, v := range fr.env {
				if _, ok := env[k]; !ok {
					c := *v
					env[k] = &c
				}
			}
		}
		if !a.queued[name] {
			a.queued[name] = true
			a.queue = append(a.queue, entry{name: name, body: fl.Body, env: env})
		}
		a.sync("goroutine:"+name, "fork")
		return
	}
	a.evalArgs(x.Call.Args)
	if se, ok := x.Call.Fun.(*ast.SelectorExpr); ok {
		bv := a.eval(se.X, mRead)
		if c, tn := a.pkg.classify(bv.typ); c == tStruct {
			if fd := a.pkg.methods[tn][se.Sel.Name]; fd != nil {
				name := se.Sel.Name
				a.reached[tn+"."+name] = true
				if !a.queued[name] {
					a.queued[name] = true
					a.queue = append(a.queue, entry{name: name, decl: fd})
				}
				a.sync("goroutine:"+name, "fork")
				return
			}
		}
	}
	a.unclassified(x, "go statement whose target the analysis cannot resolve")
}

// ---------------------------------------------------------------------------------------
// driver

func exported(n string) bool { return n != "" && n[0] >= 'A' && n[0] <= 'Z' }

func (a *analyzer) runEntry(e entry) {
	a.fn = e.name
	a.cur = newState()
	for k, v := range e.pre {
		a.cur.locks[k] = v
	}
	a.stack, a.loops, a.once = nil, nil, nil
	fr := &frame{name: e.name, env: map[string]*val{}}
	var body *ast.BlockStmt
	if e.decl != nil {
		fd := e.decl
		body = fd.Body
		if len(fd.Recv.List[0].Names) > 0 {
			fr.env[fd.Recv.List[0].Names[0].Name] = &val{typ: fd.Recv.List[0].Type, shared: true}
		}
		for _, p := range fd.Type.Params.List {
			for _, nm := range p.Names {
				t := p.Type
				if el, ok := t.(*ast.Ellipsis); ok {
					t = &ast.ArrayType{Elt: el.Elt}
				}
				fr.env[nm.Name] = &val{typ: t}
			}
		}
		if fd.Type.Results != nil {
			for _, p := range fd.Type.Results.List {
				for _, nm := range p.Names {
					fr.env[nm.Name] = &val{typ: p.Type}
				}
			}
		}
		a.reached[a.tgt.Type+"."+e.name] = true
	} else {
		body = e.body
		fr.env = e.env
	}
	a.fr = fr
	a.pending = a.pendingFields(body)
	first := len(a.rows)
	a.block(body.List)
	a.doReturn(nil)
	// rel_after: releases that follow the access in the text, or share a loop with it
	rows := a.rows[first:]
	for _, r := range rows {
		set := map[string]bool{}
		for _, o := range rows {
			if o.rel == "" {
				continue
			}
			if o.seq > r.seq || sharesLoop(o.loops, r.loops) {
				set[o.rel] = true
			}
		}
		r.RelAfter = sortedKeys(set)
	}
}

func sharesLoop(x, y []int) bool {
	for _, i := range x {
		if i <= 0 {
			continue
		}
		for _, j := range y {
			if i == j {
				return true
			}
		}
	}
	return false
}

func main() {
	repo := flag.String("repo", "/repo", "repository root")
	flag.Parse()
	type typeOut struct {
		File    string   `json:"file"`
		Entries []string `json:"entries"`
	}
	out := struct {
		Types     map[string]typeOut `json:"types"`
		Rows      []*row             `json:"rows"`
		Unreached []string           `json:"unreached"`
		Problems  []string           `json:"problems"`
		Inner     *innerOut          `json:"inner"`
	}{Types: map[string]typeOut{}}
	reachedAll := map[string]map[string]bool{}
	for _, t := range targets {
		p, err := loadPkg(*repo, filepath.Dir(t.File))
		if err != nil {
			out.Problems = append(out.Problems, fmt.Sprintf("%s: %v", t.File, err))
			continue
		}
		if _, ok := p.structs[t.Type]; !ok {
			out.Problems = append(out.Problems, fmt.Sprintf("%s: type %s not found", t.File, t.Type))
			continue
		}
		a := &analyzer{pkg: p, tgt: t, reached: map[string]bool{}, queued: map[string]bool{}}
		if reachedAll[p.dir] == nil {
			reachedAll[p.dir] = map[string]bool{}
		}
		// which unexported methods of the type are called from somewhere in the package?
		called := map[string]bool{}
		for _, ms := range p.methods {
			for _, fd := range ms {
				if fd.Body == nil {
					continue
				}
				ast.Inspect(fd.Body, func(n ast.Node) bool {
					if ce, ok := n.(*ast.CallExpr); ok {
						if se, ok := ce.Fun.(*ast.SelectorExpr); ok {
							called[se.Sel.Name] = true
						}
					}
					return true
				})
			}
		}
		var names []string
		for n := range p.methods[t.Type] {
			names = append(names, n)
		}
		sort.Strings(names)
		var entries []string
		for _, n := range names {
			fd := p.methods[t.Type][n]
			if fd.Body == nil || !(exported(n) || !called[n]) {
				continue
			}
			a.queued[n] = true
			a.queue = append(a.queue, entry{name: n, decl: fd, pre: t.Pre[n]})
		}
		for len(a.queue) > 0 {
			e := a.queue[0]
			a.queue = a.queue[1:]
			entries = append(entries, e.name)
			a.runEntry(e)
		}
		out.Types[t.Type] = typeOut{File: t.File, Entries: entries}
		out.Rows = append(out.Rows, a.rows...)
		for k := range a.reached {
			reachedAll[p.dir][k] = true
		}
	}
	// methods declared in the analysed FILES that no entry reaches (constructor-only helpers)
	seenFile := map[string]bool{}
	for _, t := range targets {
		p := pkgCache[filepath.Dir(t.File)]
		if p == nil || seenFile[t.File] {
			continue
		}
		seenFile[t.File] = true
		for r, ms := range p.methods {
			for n, fd := range ms {
				if filepath.Base(p.fset.Position(fd.Pos()).Filename) != filepath.Base(t.File) {
					continue
				}
				if !reachedAll[p.dir][r+"."+n] {
					touches := false
					if fd.Body != nil && len(fd.Recv.List[0].Names) > 0 {
						rn := fd.Recv.List[0].Names[0].Name
						ast.Inspect(fd.Body, func(nd ast.Node) bool {
							if se, ok := nd.(*ast.SelectorExpr); ok {
								if id, ok := se.X.(*ast.Ident); ok && id.Name == rn && p.fieldType(fd.Recv.List[0].Type, se.Sel.Name) != nil {
									touches = true
								}
							}
							return true
						})
					}
					if touches {
						out.Unreached = append(out.Unreached, r+"."+n)
					}
				}
			}
		}
	}
	sort.Strings(out.Unreached)
	// de-duplicate identical rows
	seen := map[string]bool{}
	var rows []*row
	for _, r := range out.Rows {
		if r.AcqBefore == nil {
			r.AcqBefore = []string{}
		}
		if r.RelAfter == nil {
			r.RelAfter = []string{}
		}
		k, _ := json.Marshal(r)
		if !seen[string(k)] {
			seen[string(k)] = true
			rows = append(rows, r)
		}
	}
	out.Rows = rows
	out.Inner = runInner(*repo, rows)
	enc := json.NewEncoder(os.Stdout)
	enc.SetIndent("", " ")
	_ = enc.Encode(out)
}
