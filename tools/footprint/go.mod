module veriffootprint

go 1.20
