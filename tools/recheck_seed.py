#!/usr/bin/env python3
"""usage: tools/recheck_seed.py <seed id> <Cnn[,Cmm]> [note] — re-run the named checks against a stored seeded change and update meta.json"""
import json, re, subprocess, sys
sid, props = sys.argv[1], sys.argv[2].split(",")
note = sys.argv[3] if len(sys.argv) > 3 else ""
p = "/verif/seeded/%s/meta.json" % sid
m = json.load(open(p))
for prop in props:
    out = subprocess.run("/verif/tools/tryseed.sh %s /verif/seeded/%s/patch.diff quick" % (prop, sid), shell=True,
                         stdout=subprocess.PIPE, stderr=subprocess.STDOUT, text=True).stdout
    v = [l for l in out.splitlines() if l.startswith("VIOLATION")]
    whats = []
    for l in v:
        mm = re.search(r"replay=(\S+)", l)
        try:
            whats.append(json.load(open(mm.group(1))).get("what", "")[:200] + (" [no-failing-input-found]" if "no-failing-input-found" in l else ""))
        except Exception:
            pass
    m.setdefault("checks_run", {})[prop] = {"violation_lines": len(v), "what": whats[:3]}
    if not v:
        m["checks_run"][prop]["tail"] = out[-300:]
m["detected_by"] = sorted(p_ for p_, r in m["checks_run"].items() if r["violation_lines"] > 0)
if note:
    m["history"] = (m.get("history", "") + " " + note).strip()
json.dump(m, open(p, "w"), indent=1, ensure_ascii=False)
print(sid, "detected_by=%s" % m["detected_by"], [w[:150] for r in m["checks_run"].values() for w in r["what"]][:2])
