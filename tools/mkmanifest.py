#!/usr/bin/env python3
"""Regenerates MANIFEST.json from tools/manifest_src.json (per-property texts).
Properties without an entry are listed under not_applicable as 'not built yet'."""
import json, os
V = os.path.dirname(os.path.dirname(os.path.abspath(__file__)))
src = json.load(open(os.path.join(V, "tools/manifest_src.json")))
for f in sorted(os.listdir(os.path.join(V, "tools/manifest.d"))):
    if f.endswith(".json"):
        src["checks"][f[:-5]] = json.load(open(os.path.join(V, "tools/manifest.d", f)))
ids = [json.loads(l)["id"] for l in open(os.path.join(V, "properties.jsonl"))]
m = {
 "version": 1,
 "setup_cmd": "bin/setup",
 "hooks": {"guard": "verif",
           "enable": "go build -tags verif -overlay <generated json>: add-only accessor files from /verif/hooks (and, for the concurrent properties, instrumented copies generated from /repo's current files) are mapped into /repo's packages at build time; nothing is committed to /repo for instrumentation",
           "baseline_off_cmd": "cd /repo && go test -mod=mod -json -vet=off -count=1 -timeout 25m ./...   # the guard is a build tag + overlay that only /verif's own builds pass, so the plain baseline command (BASELINE.json cmd) runs the code with hooks off; nothing in /repo refers to the tag", "source_commits": [], "add_only": True},
 "engines": [{"name": "coq", "path": "coq", "serves_properties": [i for i in ids if i in src["checks"]],
              "kind_free_text": "Coq 8.16.1 executable models + theorems (coq_makefile full .vo build), extraction to OCaml (ocaml/modelrun), Go differential/lock-step harness (harness/), orchestrated by bin/check (checks/*.py)"}],
 "checks": [], "not_applicable": [],
 "notes": src.get("notes", ""),
}
for i in ids:
    c = src["checks"].get(i)
    if c is None:
        m["not_applicable"].append({"property_id": i, "reason": src.get("pending", {}).get(i, "check not built yet (work in progress; the technique applies, see DESIGN.md section 5)")})
        continue
    m["checks"].append({
        "property_id": i, "quick_cmd": "bin/check %s quick" % i, "thorough_cmd": "bin/check %s thorough" % i,
        "evidence_file": "evidence/%s.json" % i, "replay_cmd_template": "bin/replay {path}", "engine": "coq",
        "level_claimed": {"category": c.get("category", "proof"), "text": c["text"], "design_ref": c.get("ref", "DESIGN.md section 5 " + i)},
        "level_note": c["note"], "technique": c.get("technique", "Rocq/Coq proof over an executable Gallina model + differential correspondence with the Go code")})
json.dump(m, open(os.path.join(V, "MANIFEST.json"), "w"), indent=1)
print("checks:", len(m["checks"]), "not_applicable:", len(m["not_applicable"]))
