#!/usr/bin/env python3
"""prints the markdown table of /verif/seeded/*/meta.json for DESIGN.md"""
import json, glob, os
rows = []
for f in sorted(glob.glob('/verif/seeded/*/meta.json')):
    m = json.load(open(f))
    what = (m.get('what') or m.get('summary_from_notes', '')).replace('|', '/').strip()
    what = what[:170]
    det = ", ".join(m.get('detected_by') or []) or "NOT DETECTED"
    how = ""
    for p, r in (m.get('checks_run') or {}).items():
        if r.get('what'):
            how = r['what'][0].replace('|', '/')[:150]
            break
    hist = m.get('history', '')
    rows.append("| %s | %s | %s | %s%s |" % (m['id'], what, det, how, (" — " + hist[:200]) if hist else ""))
print("| seed | change (as described by its author) | detected by | first report (and history) |")
print("|---|---|---|---|")
print("\n".join(rows))
