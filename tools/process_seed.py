#!/usr/bin/env python3
"""usage: tools/process_seed.py <tag> <Cnn[,Cmm]> [<Cnn[,Cmm]> for change2]
Confirms the two seeded changes under /tmp/seed/<tag>_out (scratch copy of /repo: builds, existing tests pass with the
change, demo fails with / passes without), runs the named checks against each (tools/tryseed.sh), and stores the change
under /verif/seeded/<Cnn>-<k>/ with meta.json."""
import json, os, re, shutil, subprocess, sys
tag = sys.argv[1]
props = [sys.argv[2].split(","), (sys.argv[3] if len(sys.argv) > 3 else sys.argv[2]).split(",")]
env = dict(os.environ, GOFLAGS="-mod=mod", GOPROXY="off", GOSUMDB="off", GOTOOLCHAIN="local")
def sh(cmd, cwd=None, timeout=3000):
    p = subprocess.run(cmd, shell=True, cwd=cwd, env=env, stdout=subprocess.PIPE, stderr=subprocess.STDOUT, text=True, timeout=timeout)
    return p.returncode, p.stdout
for i in (1, 2):
    src = "/tmp/seed/%s_out/change%d" % (tag, i)
    if not os.path.exists(src + "/patch.diff"):
        print(tag, i, "MISSING"); continue
    notes = open(src + "/notes.txt").read()
    m = re.search(r"demo package:\s*(\S+)", notes); pkg = m.group(1) if m else "."
    m = re.search(r"test packages:\s*(.+)", notes); tests = m.group(1).strip() if m else pkg + "/..."
    race = "-race" if re.search(r"demo flags:\s*-race", notes) else ""
    d = "/tmp/confirm_%s_%d" % (tag, i)
    shutil.rmtree(d, ignore_errors=True); shutil.copytree("/repo", d)
    res = {}
    rc, out = sh("git apply %s/patch.diff" % src, cwd=d); res["applies"] = rc == 0
    rc, out = sh("go build ./...", cwd=d); res["builds"] = rc == 0
    rc, out = sh("go test -count=1 %s" % tests, cwd=d); res["existing_tests_pass_with_change"] = rc == 0
    shutil.copy(src + "/demo_test.go", os.path.join(d, pkg, "zz_demo_test.go"))
    rc, out = sh("go test %s -count=1 -run TestDemo %s" % (race, pkg), cwd=d); res["demo_fails_with_change"] = rc != 0
    sh("git checkout -q -- .", cwd=d)
    rc, out = sh("go test %s -count=1 -run TestDemo %s" % (race, pkg), cwd=d); res["demo_passes_without_change"] = rc == 0
    shutil.rmtree(d, ignore_errors=True)
    ok = all(res.values())
    det = {}
    if ok:
        for p in props[i - 1]:
            rc, out = sh("/verif/tools/tryseed.sh %s %s/patch.diff quick" % (p, src))
            v = [l for l in out.splitlines() if l.startswith("VIOLATION")]
            whats = []
            for l in v:
                mm = re.search(r"replay=(\S+)", l)
                try:
                    whats.append(json.load(open(mm.group(1))).get("what", "")[:200] + (" [no-failing-input-found]" if "no-failing-input-found" in l else ""))
                except Exception:
                    pass
            det[p] = {"violation_lines": len(v), "what": whats[:3]}
    sid = "%s-%d" % (props[i - 1][0], i) if tag.lower().replace("c0102", "c01") else ""
    sid = "%s-%s%d" % (props[i - 1][0], "", i)
    dst = "/verif/seeded/" + sid
    k = 0
    while os.path.exists(dst) and json.load(open(dst + "/meta.json")).get("source_tag") != tag:
        k += 1; dst = "/verif/seeded/%s%s" % (sid, "abcdef"[k])
    os.makedirs(dst, exist_ok=True)
    for f in ("patch.diff", "demo_test.go", "notes.txt"):
        shutil.copy(os.path.join(src, f), os.path.join(dst, f))
    first = next((l.strip() for l in notes.splitlines() if l.strip()), "")[:300]
    meta = {"id": os.path.basename(dst), "source_tag": tag, "property": props[i - 1][0], "also_checked": props[i - 1][1:],
            "summary_from_notes": first, "demo_package": pkg, "demo_flags": race,
            "origin": "fresh sub-agent given only the property text and a scratch worktree (nothing from /verif)",
            "confirmed": dict(res, how="tools/process_seed.py (scratch copy of /repo): go build ./...; go test -count=1 %s; demo with and without the patch" % tests),
            "checks_run": det,
            "detected_by": [p for p, r in det.items() if r["violation_lines"] > 0]}
    json.dump(meta, open(dst + "/meta.json", "w"), indent=1, ensure_ascii=False)
    print(os.path.basename(dst), "confirmed" if ok else "NOT-CONFIRMED %s" % res, "detected_by=%s" % meta["detected_by"], [w[:110] for r in det.values() for w in r["what"]][:2])
