#!/bin/bash
# usage: tools/confirm_seed.sh <dir with patch.diff + demo_test.go> <package dir for the demo> "<test pkgs>"
# confirms on a scratch copy: builds, existing tests of <test pkgs> pass with the change, demo fails with / passes without
export GOFLAGS=-mod=mod GOPROXY=off GOSUMDB=off GOTOOLCHAIN=local
src=$1; pkg=$2; tests=$3
d=$(mktemp -d /tmp/confirm.XXXXXX); cp -r /repo $d/repo; cd $d/repo
git apply $src/patch.diff || { echo "APPLY-FAILED"; rm -rf $d; exit 2; }
go build ./... >/dev/null 2>&1 && echo "build: ok" || echo "build: FAILED"
go test -count=1 $tests >/tmp/confirm_tests.log 2>&1 && echo "existing tests with change: pass" || { echo "existing tests with change: FAIL"; tail -5 /tmp/confirm_tests.log; }
cp $src/demo_test.go $pkg/zz_demo_test.go
go test -count=1 -run 'Demo|Seed|Wrap|Break' $pkg >/tmp/confirm_demo1.log 2>&1 && echo "demo with change: PASS (unexpected)" || echo "demo with change: fails (expected)"
rm $pkg/zz_demo_test.go; git checkout -q -- . ; cp $src/demo_test.go $pkg/zz_demo_test.go
go test -count=1 -run 'Demo|Seed|Wrap|Break' $pkg >/tmp/confirm_demo2.log 2>&1 && echo "demo without change: passes (expected)" || { echo "demo without change: FAIL (unexpected)"; tail -5 /tmp/confirm_demo2.log; }
grep -h "^func Test" $src/demo_test.go | head -3
cd /; rm -rf $d
