#!/usr/bin/env python3
"""usage: tools/addnote.py Cnn note|text '<sentence(s) to append>'  — append to tools/manifest.d/Cnn.json (idempotent), then run mkmanifest"""
import json, sys, subprocess
pid, field, add = sys.argv[1], sys.argv[2], sys.argv[3]
p = "/verif/tools/manifest.d/%s.json" % pid
d = json.load(open(p))
if add not in d[field]:
    d[field] = d[field].rstrip() + " " + add
json.dump(d, open(p, "w"), indent=1, ensure_ascii=False)
subprocess.run(["python3", "/verif/tools/mkmanifest.py"])
