module verifinstrument

go 1.20
