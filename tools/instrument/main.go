// Command instrument inserts yield points (verifhook.At) before every statement of every
// function in the given Go files and writes the instrumented copies + an overlay JSON.
//
//	instrument -repo /repo -out <tmpdir> file1.go file2.go ...
//
// Labels are "<Recv>.<Func>|<normalised statement text>|<occurrence>" (no line numbers), so
// unrelated edits do not move them. For compound statements only the header is used
// ("if cond", "for cond", "select", "case <-ch:"). It also rewrites time.NewTimer and
// timer.Reset to the verifhook versions (which are the real ones unless the
// lock-step controller installs fakes). Standard library only. The instrumented code behaves
// like the original: At() returns at once for goroutines the controller does not manage.
package main

import (
	"bytes"
	"encoding/json"
	"flag"
	"fmt"
	"go/ast"
	"go/format"
	"go/parser"
	"go/printer"
	"go/token"
	"os"
	"path/filepath"
	"regexp"
	"strings"
)

var ws = regexp.MustCompile(`\s+`)

type labelInfo struct {
	Label string `json:"label"`
	File  string `json:"file"`
	Func  string `json:"func"`
	Line  int    `json:"line"`
}

type inst struct {
	fset   *token.FileSet
	fn     string
	counts map[string]int
	labels *[]labelInfo
	file   string
}

func (in *inst) text(n ast.Node) string {
	var b bytes.Buffer
	_ = printer.Fprint(&b, in.fset, n)
	return strings.TrimSpace(ws.ReplaceAllString(b.String(), " "))
}

func (in *inst) header(s ast.Stmt) string {
	switch x := s.(type) {
	case *ast.IfStmt:
		h := "if "
		if x.Init != nil {
			h += in.text(x.Init) + "; "
		}
		return h + in.text(x.Cond)
	case *ast.ForStmt:
		h := "for"
		if x.Init != nil || x.Post != nil {
			h += " "
			if x.Init != nil {
				h += in.text(x.Init)
			}
			h += "; "
			if x.Cond != nil {
				h += in.text(x.Cond)
			}
			h += "; "
			if x.Post != nil {
				h += in.text(x.Post)
			}
		} else if x.Cond != nil {
			h += " " + in.text(x.Cond)
		}
		return h
	case *ast.RangeStmt:
		h := "for "
		if x.Key != nil {
			h += in.text(x.Key)
			if x.Value != nil {
				h += ", " + in.text(x.Value)
			}
			h += " " + x.Tok.String() + " "
		}
		return h + "range " + in.text(x.X)
	case *ast.SelectStmt:
		return "select"
	case *ast.SwitchStmt:
		h := "switch"
		if x.Init != nil {
			h += " " + in.text(x.Init) + ";"
		}
		if x.Tag != nil {
			h += " " + in.text(x.Tag)
		}
		return h
	case *ast.TypeSwitchStmt:
		return "switch " + in.text(x.Assign)
	case *ast.BlockStmt:
		return "{"
	case *ast.LabeledStmt:
		return x.Label.Name + ": " + in.header(x.Stmt)
	}
	return in.text(s)
}

func (in *inst) mk(label string, pos token.Pos) ast.Stmt {
	key := in.fn + "|" + label
	n := in.counts[key]
	in.counts[key] = n + 1
	full := fmt.Sprintf("%s|%d", key, n)
	*in.labels = append(*in.labels, labelInfo{Label: full, File: in.file, Func: in.fn, Line: in.fset.Position(pos).Line})
	return &ast.ExprStmt{X: &ast.CallExpr{
		Fun:  &ast.SelectorExpr{X: ast.NewIdent("verifhook"), Sel: ast.NewIdent("At")},
		Args: []ast.Expr{&ast.BasicLit{Kind: token.STRING, Value: fmt.Sprintf("%q", full)}},
	}}
}

func (in *inst) block(list []ast.Stmt) []ast.Stmt {
	var out []ast.Stmt
	for _, s := range list {
		if _, isDecl := s.(*ast.DeclStmt); !isDecl {
			if _, isEmpty := s.(*ast.EmptyStmt); !isEmpty {
				out = append(out, in.mk(in.header(s), s.Pos()))
			}
		}
		in.stmt(s)
		out = append(out, s)
	}
	return out
}

func (in *inst) stmt(s ast.Stmt) {
	switch x := s.(type) {
	case *ast.BlockStmt:
		x.List = in.block(x.List)
	case *ast.IfStmt:
		in.stmt(x.Body)
		if x.Else != nil {
			switch e := x.Else.(type) {
			case *ast.BlockStmt:
				in.stmt(e)
			case *ast.IfStmt:
				// else-if: wrap so that the nested condition gets its own hook
				blk := &ast.BlockStmt{List: []ast.Stmt{e}}
				blk.List = in.block(blk.List)
				x.Else = blk
			}
		}
	case *ast.ForStmt:
		in.stmt(x.Body)
	case *ast.RangeStmt:
		in.stmt(x.Body)
	case *ast.SelectStmt:
		for _, c := range x.Body.List {
			cc := c.(*ast.CommClause)
			lab := "default:"
			if cc.Comm != nil {
				lab = "case " + in.text(cc.Comm) + ":"
			}
			body := in.block(cc.Body)
			cc.Body = append([]ast.Stmt{in.mk(lab, cc.Pos())}, body...)
		}
	case *ast.SwitchStmt:
		for _, c := range x.Body.List {
			cc := c.(*ast.CaseClause)
			cc.Body = in.block(cc.Body)
		}
	case *ast.TypeSwitchStmt:
		for _, c := range x.Body.List {
			cc := c.(*ast.CaseClause)
			cc.Body = in.block(cc.Body)
		}
	case *ast.LabeledStmt:
		in.stmt(x.Stmt)
	case *ast.GoStmt:
		in.funcLits(x.Call)
	case *ast.DeferStmt:
		in.funcLits(x.Call)
	case *ast.ExprStmt:
		in.funcLits(x.X)
	case *ast.AssignStmt:
		for _, r := range x.Rhs {
			in.funcLits(r)
		}
	case *ast.ReturnStmt:
		for _, r := range x.Results {
			in.funcLits(r)
		}
	}
}

// funcLits instruments the bodies of function literals appearing in an expression
func (in *inst) funcLits(e ast.Node) {
	ast.Inspect(e, func(n ast.Node) bool {
		if fl, ok := n.(*ast.FuncLit); ok {
			fl.Body.List = in.block(fl.Body.List)
			return false
		}
		return true
	})
}

func recvName(fd *ast.FuncDecl) string {
	if fd.Recv == nil || len(fd.Recv.List) == 0 {
		return ""
	}
	t := fd.Recv.List[0].Type
	for {
		switch x := t.(type) {
		case *ast.StarExpr:
			t = x.X
		case *ast.IndexExpr:
			t = x.X
		case *ast.IndexListExpr:
			t = x.X
		case *ast.Ident:
			return x.Name
		default:
			return "?"
		}
	}
}

func main() {
	repo := flag.String("repo", "/repo", "repository root")
	out := flag.String("out", "", "output directory (must exist)")
	faketime := flag.Bool("faketime", true, "rewrite time.NewTimer/NewTicker/After to verifhook")
	flag.Parse()
	overlay := map[string]string{}
	var labels []labelInfo
	for _, rel := range flag.Args() {
		src := filepath.Join(*repo, rel)
		fset := token.NewFileSet()
		f, err := parser.ParseFile(fset, src, nil, parser.ParseComments)
		if err != nil {
			fmt.Fprintln(os.Stderr, "parse:", err)
			os.Exit(1)
		}
		usesTime := false
		for _, d := range f.Decls {
			fd, ok := d.(*ast.FuncDecl)
			if !ok || fd.Body == nil {
				continue
			}
			name := fd.Name.Name
			if r := recvName(fd); r != "" {
				name = r + "." + name
			}
			in := &inst{fset: fset, fn: name, counts: map[string]int{}, labels: &labels, file: rel}
			fd.Body.List = in.block(fd.Body.List)
			if *faketime {
				ast.Inspect(fd.Body, func(n ast.Node) bool {
					if se, ok := n.(*ast.SelectorExpr); ok {
						if id, ok := se.X.(*ast.Ident); ok && id.Name == "time" && se.Sel.Name == "NewTimer" {
							id.Name = "verifhook"
							usesTime = true
						}
					}
					// x.Reset(d)  ->  verifhook.ResetTimer(x, d)   (only timers have Reset in these files;
					// anything else fails to compile, which the check reports)
					if ce, ok := n.(*ast.CallExpr); ok && len(ce.Args) == 1 {
						if se, ok := ce.Fun.(*ast.SelectorExpr); ok && se.Sel.Name == "Reset" {
							recv := se.X
							ce.Fun = &ast.SelectorExpr{X: ast.NewIdent("verifhook"), Sel: ast.NewIdent("ResetTimer")}
							ce.Args = []ast.Expr{recv, ce.Args[0]}
						}
					}
					return true
				})
			}
		}
		_ = usesTime
		// add the import
		imp := &ast.ImportSpec{Path: &ast.BasicLit{Kind: token.STRING, Value: `"github.com/ecodeclub/ekit/verifhook"`}}
		added := false
		for _, d := range f.Decls {
			if gd, ok := d.(*ast.GenDecl); ok && gd.Tok == token.IMPORT {
				gd.Specs = append(gd.Specs, imp)
				if !gd.Lparen.IsValid() {
					gd.Lparen = gd.Pos()
					gd.Rparen = gd.End()
				}
				added = true
				break
			}
		}
		if !added {
			gd := &ast.GenDecl{Tok: token.IMPORT, Specs: []ast.Spec{imp}}
			f.Decls = append([]ast.Decl{gd}, f.Decls...)
		}
		var buf bytes.Buffer
		// comments carry positions that no longer match; drop free-floating comments to keep printing sane
		f.Comments = nil
		if err := printer.Fprint(&buf, fset, f); err != nil {
			fmt.Fprintln(os.Stderr, "print:", err)
			os.Exit(1)
		}
		res, err := format.Source(buf.Bytes())
		if err != nil {
			fmt.Fprintln(os.Stderr, "format:", rel, err)
			res = buf.Bytes()
		}
		// an unused "time" import may remain after the rewrite: keep it referenced
		if *faketime && bytes.Contains(res, []byte(`"time"`)) && !regexp.MustCompile(`\btime\.`).Match(res) {
			res = append(res, []byte("\nvar _ = time.Second\n")...)
		}
		dst := filepath.Join(*out, strings.ReplaceAll(rel, "/", "__"))
		if err := os.WriteFile(dst, res, 0o644); err != nil {
			fmt.Fprintln(os.Stderr, err)
			os.Exit(1)
		}
		overlay[src] = dst
	}
	ov, _ := json.MarshalIndent(map[string]any{"Replace": overlay}, "", " ")
	_ = os.WriteFile(filepath.Join(*out, "overlay.json"), ov, 0o644)
	lb, _ := json.MarshalIndent(labels, "", " ")
	_ = os.WriteFile(filepath.Join(*out, "labels.json"), lb, 0o644)
}
