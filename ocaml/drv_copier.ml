(* driver for CopierModel (C20): one case per line (an S-expression) -> one observable line.
     (case (src TY) (dst TY) (opts OPT ...) (calls CALL ...))
   see checks/c20.py for the grammar.  Printing/parsing only; all semantics is the
   extracted new_reflect_copier / run_call. *)
open Zutil
open CopierModel

(* ------------------------------------------------------------ S-expressions *)
type sx = A of string | L of sx list

let parse_sx (s : string) : sx =
  let n = String.length s in
  let pos = ref 0 in
  let rec skip () = if !pos < n && (s.[!pos] = ' ' || s.[!pos] = '\t' || s.[!pos] = '\r') then (incr pos; skip ()) in
  let rec item () =
    skip ();
    if !pos >= n then failwith "eof"
    else if s.[!pos] = '(' then begin
      incr pos;
      let acc = ref [] in
      let rec loop () =
        skip ();
        if !pos >= n then failwith "unclosed"
        else if s.[!pos] = ')' then incr pos
        else (acc := item () :: !acc; loop ()) in
      loop ();
      L (List.rev !acc)
    end else if s.[!pos] = ')' then failwith "unexpected )"
    else begin
      let st = !pos in
      while !pos < n && s.[!pos] <> ' ' && s.[!pos] <> '(' && s.[!pos] <> ')' && s.[!pos] <> '\t' && s.[!pos] <> '\r' do incr pos done;
      A (String.sub s st (!pos - st))
    end in
  let r = item () in
  skip ();
  if !pos <> n then failwith "trailing";
  r

(* ------------------------------------------------------------ conversions *)
let kind_of_string = function
  | "bool" -> KBool | "int" -> KInt | "int8" -> KInt8 | "int16" -> KInt16 | "int32" -> KInt32 | "int64" -> KInt64
  | "uint" -> KUint | "uint8" -> KUint8 | "uint16" -> KUint16 | "uint32" -> KUint32 | "uint64" -> KUint64
  | "uintptr" -> KUintptr | "float32" -> KFloat32 | "float64" -> KFloat64
  | "complex64" -> KComplex64 | "complex128" -> KComplex128 | "string" -> KString
  | s -> failwith ("kind " ^ s)

let okind_of_string = function
  | "chan" -> OChan | "array" -> OArray | "func" -> OFunc | "iface" -> OIface
  | "foreign" -> OUnsafe   (* a type outside the generated universe: only the dynamic type of a converter result *)
  | s -> failwith ("okind " ^ s)

let rec ty_of = function
  | L [A "b"; A k] -> Basic (kind_of_string k)
  | L [A "n"; A id; A k] -> Named (z_of_string id, kind_of_string k)
  | L (A "s" :: A name :: fs) ->
    let nm = if name = "-" then None else Some (z_of_string name) in
    Struct (nm, List.map (function
        | L [A id; A e; t] ->
          let ex = (match e with "1" -> true | "0" -> false | _ -> failwith "exp") in
          ((z_of_string id, ex), ty_of t)
        | _ -> failwith "field") fs)
  | L [A "p"; t] -> Ptr (ty_of t)
  | L [A "sl"; t] -> Slice (ty_of t)
  | L [A "m"; k; v] -> Map (ty_of k, ty_of v)
  | L [A "t"] -> Atomic
  | L [A "o"; A k; A id] -> Other (okind_of_string k, z_of_string id)
  | _ -> failwith "ty"

let rec val_of = function
  | L [A "i"; A z] -> VNum (z_of_string z)
  | L [A "x"] -> VStr []
  | L [A "x"; A h] -> if String.length h mod 2 <> 0 then failwith "hex" else VStr (bytes_of_hex h)
  | L (A "st" :: vs) -> VStruct (List.map val_of vs)
  | L [A "nil"] -> VPtr None
  | L [A "ptr"; v] -> VPtr (Some (val_of v))
  | L [A "sln"] -> VSlice None
  | L (A "sl" :: vs) -> VSlice (Some (List.map val_of vs))
  | L [A "mn"] -> VMap None
  | L (A "mp" :: kvs) -> VMap (Some (List.map (function L [k; v] -> (val_of k, val_of v) | _ -> failwith "mapentry") kvs))
  | L [A "op"; A z] -> VOpaque (z_of_string z)
  | _ -> failwith "val"

let fn_of = function
  | L [A "const"; v] -> FConst (val_of v)
  | L [A "fail"] -> FFail
  | L [A "add"; A z] -> FAdd (z_of_string z)
  | L [A "id"] -> FId
  | L [A "len"] -> FLen
  | L [A "cnil"] -> FNil
  | L [A "dyn"; t; v] -> FDyn (ty_of t, val_of v)
  | L [A "nilif"; z; t; v] -> FNilIf (val_of z, ty_of t, val_of v)
  | _ -> failwith "fn"

let opt_of = function
  | L (A "ig" :: ids) -> OIgnore (List.map (function A z -> z_of_string z | _ -> failwith "ig") ids)
  | L [A "cv"; A id; A "nil"] -> OConvert (z_of_string id, None)
  | L [A "cv"; A id; L [A "conv"; s; d; f]] -> OConvert (z_of_string id, Some (mk_conv (ty_of s) (ty_of d) (fn_of f)))
  | _ -> failwith "opt"

let ptr_of = function
  | A "nil" -> None
  | v -> Some (val_of v)

let call_of = function
  | L (A "copy" :: s :: os) -> CallCopy (ptr_of s, List.map opt_of os)
  | L (A "copyto" :: s :: d :: os) -> CallCopyTo (ptr_of s, ptr_of d, List.map opt_of os)
  | L [A "pure"; a; b] -> CallPure (val_of a, val_of b)
  | _ -> failwith "call"

(* ------------------------------------------------------------ printing *)
let rec show_val b v =
  let add = Buffer.add_string b in
  let seq hd vs =
    add "("; add hd;
    List.iter (fun x -> add " "; show_val b x) vs;
    add ")" in
  match v with
  | VNum z -> add "(i "; add (z_to_string z); add ")"
  | VStr [] -> add "(x)"
  | VStr s -> add "(x "; add (hex_of_bytes s); add ")"
  | VStruct vs -> seq "st" vs
  | VPtr None -> add "(nil)"
  | VPtr (Some x) -> add "(ptr "; show_val b x; add ")"
  | VSlice None -> add "(sln)"
  | VSlice (Some vs) -> seq "sl" vs
  | VMap None -> add "(mn)"
  | VMap (Some kvs) ->
    add "(mp";
    List.iter (fun (k, x) -> add " ("; show_val b k; add " "; show_val b x; add ")") kvs;
    add ")"
  | VOpaque z -> add "(op "; add (z_to_string z); add ")"

let class_of = function
  | CEntry -> "entry" | CKind -> "kind" | CType -> "type" | CMultiPtr -> "multiptr"
  | CConvType -> "convtype" | CUser -> "user"

let dummy_copier = { c_root = Node (BinNums.Z0, Datatypes.O, Datatypes.O, false, []); c_defaults = new_options }

let run ?(nozs=false) pinned =
  iter_lines (fun line ->
    let out =
      try
        match parse_sx line with
        | L [A "case"; L [A "src"; st]; L [A "dst"; dt]; L (A "opts" :: os); L (A "calls" :: cs)] ->
          let st = ty_of st and dt = ty_of dt in
          let os = List.map opt_of os in
          let cs = List.map call_of cs in
          let b = Buffer.create 256 in
          let ctor = (if pinned then new_reflect_copier_pinned else new_reflect_copier) st dt os in
          (match ctor with
           | COk _ -> Buffer.add_string b "ctor=ok"
           | CErr e -> Buffer.add_string b ("ctor=err:" ^ class_of e)
           | CPanic -> Buffer.add_string b "ctor=panic");
          List.iter (fun k ->
            Buffer.add_string b " | ";
            let cop = (match ctor, k with
                | COk c, _ -> Some c
                | _, CallPure _ -> Some dummy_copier
                | _, _ -> None) in
            match cop with
            | None -> Buffer.add_string b "skip -"
            | Some c ->
              let (p, stt) = (if nozs then run_call_nozeroskip else run_call) c st dt k in
              (match stt with
               | SPanic -> Buffer.add_string b "panic -"
               | _ ->
                 Buffer.add_string b (match stt with SOk -> "ok " | SErr e -> "err:" ^ class_of e ^ " " | SPanic -> "");
                 (match p with
                  | None -> Buffer.add_string b "nil"
                  | Some v -> show_val b v))) cs;
          Buffer.contents b
        | _ -> "badcase"
      with _ -> "badcase" in
    print_endline out)

let () =
  Registry.register "copier" (fun _ -> run false);
  Registry.register "copier-pinned" (fun _ -> run true);
  (* the repaired variant without the zero-skip: only used to tolerate a repair of the known finding C20:copy:zero-skip *)
  Registry.register "copier-nozs" (fun _ -> run ~nozs:true false)
