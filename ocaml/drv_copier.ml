(* driver for CopierModel (C20): one case per line (an S-expression) -> one observable line.
     (case (src TY) (dst TY) (opts OPT ...) (calls CALL ...))
   see checks/c20.py for the grammar.  Printing/parsing only; all semantics is the
   extracted new_reflect_copier / run_call. *)
open Zutil
open CopierModel

(* ------------------------------------------------------------ S-expressions *)
type sx = A of string | L of sx list

let parse_sx (s : string) : sx =
  let n = String.length s in
  let pos = ref 0 in
  let rec skip () = if !pos < n && (s.[!pos] = ' ' || s.[!pos] = '\t' || s.[!pos] = '\r') then (incr pos; skip ()) in
  let rec item () =
    skip ();
    if !pos >= n then failwith "eof"
    else if s.[!pos] = '(' then begin
      incr pos;
      let acc = ref [] in
      let rec loop () =
        skip ();
        if !pos >= n then failwith "unclosed"
        else if s.[!pos] = ')' then incr pos
        else (acc := item () :: !acc; loop ()) in
      loop ();
      L (List.rev !acc)
    end else if s.[!pos] = ')' then failwith "unexpected )"
    else begin
      let st = !pos in
      while !pos < n && s.[!pos] <> ' ' && s.[!pos] <> '(' && s.[!pos] <> ')' && s.[!pos] <> '\t' && s.[!pos] <> '\r' do incr pos done;
      A (String.sub s st (!pos - st))
    end in
  let r = item () in
  skip ();
  if !pos <> n then failwith "trailing";
  r

(* ------------------------------------------------------------ conversions *)
let kind_of_string = function
  | "bool" -> KBool | "int" -> KInt | "int8" -> KInt8 | "int16" -> KInt16 | "int32" -> KInt32 | "int64" -> KInt64
  | "uint" -> KUint | "uint8" -> KUint8 | "uint16" -> KUint16 | "uint32" -> KUint32 | "uint64" -> KUint64
  | "uintptr" -> KUintptr | "float32" -> KFloat32 | "float64" -> KFloat64
  | "complex64" -> KComplex64 | "complex128" -> KComplex128 | "string" -> KString
  | s -> failwith ("kind " ^ s)

let okind_of_string = function
  | "chan" -> OChan | "array" -> OArray | "func" -> OFunc | "iface" -> OIface
  | "foreign" -> OUnsafe   (* a type outside the generated universe: only the dynamic type of a converter result *)
  | s -> failwith ("okind " ^ s)

let rec ty_of = function
  | L [A "b"; A k] -> Basic (kind_of_string k)
  | L [A "n"; A id; A k] -> Named (z_of_string id, kind_of_string k)
  | L (A "s" :: A name :: fs) ->
    let nm = if name = "-" then None else Some (z_of_string name) in
    Struct (nm, List.map (function
        | L [A id; A e; t] ->
          let ex = (match e with "1" -> true | "0" -> false | _ -> failwith "exp") in
          ((z_of_string id, ex), ty_of t)
        | _ -> failwith "field") fs)
  | L [A "p"; t] -> Ptr (ty_of t)
  | L [A "sl"; t] -> Slice (ty_of t)
  | L [A "m"; k; v] -> Map (ty_of k, ty_of v)
  | L [A "t"] -> Atomic
  | L [A "o"; A k; A id] -> Other (okind_of_string k, z_of_string id)
  | _ -> failwith "ty"

let rec val_of = function
  | L [A "i"; A z] -> VNum (z_of_string z)
  | L [A "x"] -> VStr []
  | L [A "x"; A h] -> if String.length h mod 2 <> 0 then failwith "hex" else VStr (bytes_of_hex h)
  | L (A "st" :: vs) -> VStruct (List.map val_of vs)
  | L [A "nil"] -> VPtr None
  | L [A "ptr"; v] -> VPtr (Some (val_of v))
  | L [A "sln"] -> VSlice None
  | L (A "sl" :: vs) -> VSlice (Some (List.map val_of vs))
  | L [A "mn"] -> VMap None
  | L (A "mp" :: kvs) -> VMap (Some (List.map (function L [k; v] -> (val_of k, val_of v) | _ -> failwith "mapentry") kvs))
  | L [A "op"; A z] -> VOpaque (z_of_string z)
  | _ -> failwith "val"

let fn_of = function
  | L [A "const"; v] -> FConst (val_of v)
  | L [A "fail"] -> FFail
  | L [A "add"; A z] -> FAdd (z_of_string z)
  | L [A "id"] -> FId
  | L [A "len"] -> FLen
  | L [A "cnil"] -> FNil
  | L [A "dyn"; t; v] -> FDyn (ty_of t, val_of v)
  | L [A "nilif"; z; t; v] -> FNilIf (val_of z, ty_of t, val_of v)
  | _ -> failwith "fn"

let opt_of = function
  | L (A "ig" :: ids) -> OIgnore (List.map (function A z -> z_of_string z | _ -> failwith "ig") ids)
  | L [A "cv"; A id; A "nil"] -> OConvert (z_of_string id, None)
  | L [A "cv"; A id; L [A "conv"; s; d; f]] -> OConvert (z_of_string id, Some (mk_conv (ty_of s) (ty_of d) (fn_of f)))
  | _ -> failwith "opt"

let ptr_of = function
  | A "nil" -> None
  | v -> Some (val_of v)

let call_of = function
  | L (A "copy" :: s :: os) -> CallCopy (ptr_of s, List.map opt_of os)
  | L (A "copyto" :: s :: d :: os) -> CallCopyTo (ptr_of s, ptr_of d, List.map opt_of os)
  | L [A "pure"; a; b] -> CallPure (val_of a, val_of b)
  | _ -> failwith "call"

(* ------------------------------------------------------------ printing *)
let rec show_val b v =
  let add = Buffer.add_string b in
  let seq hd vs =
    add "("; add hd;
    List.iter (fun x -> add " "; show_val b x) vs;
    add ")" in
  match v with
  | VNum z -> add "(i "; add (z_to_string z); add ")"
  | VStr [] -> add "(x)"
  | VStr s -> add "(x "; add (hex_of_bytes s); add ")"
  | VStruct vs -> seq "st" vs
  | VPtr None -> add "(nil)"
  | VPtr (Some x) -> add "(ptr "; show_val b x; add ")"
  | VSlice None -> add "(sln)"
  | VSlice (Some vs) -> seq "sl" vs
  | VMap None -> add "(mn)"
  | VMap (Some kvs) ->
    add "(mp";
    List.iter (fun (k, x) -> add " ("; show_val b k; add " "; show_val b x; add ")") kvs;
    add ")"
  | VOpaque z -> add "(op "; add (z_to_string z); add ")"

let class_of = function
  | CEntry -> "entry" | CKind -> "kind" | CType -> "type" | CMultiPtr -> "multiptr"
  | CConvType -> "convtype" | CUser -> "user"

let dummy_copier = { c_root = Node (BinNums.Z0, Datatypes.O, Datatypes.O, false, []); c_defaults = new_options }

(* an argument of the package-level CopyTo: `nil` = the nil interface, (a TY VAL) = VAL of dynamic type TY *)
let anyarg_of = function
  | A "nil" -> None
  | L [A "a"; t; v] -> Some (ty_of t, val_of v)
  | _ -> failwith "anyarg"

let ncall_of = function
  | L [A "pureg"; a; b] -> CopierNilModel.NPure (anyarg_of a, anyarg_of b)
  | k -> CopierNilModel.NCall (call_of k)

let run ?(nozs=false) pinned =
  iter_lines (fun line ->
    let out =
      try
        match parse_sx line with
        | L [A "case"; L [A "src"; st]; L [A "dst"; dt]; L (A "opts" :: os); L (A "calls" :: cs)] ->
          let st = ty_of st and dt = ty_of dt in
          let os = List.map opt_of os in
          let cs = List.map ncall_of cs in
          let b = Buffer.create 256 in
          let ctor = (if pinned then new_reflect_copier_pinned else new_reflect_copier) st dt os in
          (match ctor with
           | COk _ -> Buffer.add_string b "ctor=ok"
           | CErr e -> Buffer.add_string b ("ctor=err:" ^ class_of e)
           | CPanic -> Buffer.add_string b "ctor=panic");
          List.iter (fun k ->
            Buffer.add_string b " | ";
            let cop = (match ctor, k with
                | COk c, _ -> Some c
                | _, CopierNilModel.NCall (CallPure _) | _, CopierNilModel.NPure _ -> Some dummy_copier
                | _, _ -> None) in
            match cop with
            | None -> Buffer.add_string b "skip -"
            | Some c ->
              (* the code as it is now (after the nil-argument fix); `pinned` = before that fix too *)
              let (p, stt) =
                if pinned then
                  (match k with
                   | CopierNilModel.NCall k' -> let (p, s) = run_call c st dt k' in (p, CopierNilModel.NStat s)
                   | CopierNilModel.NPure (x, y) -> CopierNilModel.pure_copy_to_pinned x y)
                else (if nozs then CopierNilModel.run_call_now_nozeroskip else CopierNilModel.run_call_now) c st dt k in
              let generic = (match k with CopierNilModel.NPure _ -> true | _ -> false) in
              (match stt with
               | CopierNilModel.NStat SPanic -> Buffer.add_string b "panic -"
               | _ ->
                 Buffer.add_string b (match stt with
                   | CopierNilModel.NNil -> "err:nil "
                   | CopierNilModel.NStat SOk -> "ok "
                   | CopierNilModel.NStat (SErr e) -> "err:" ^ class_of e ^ " "
                   | CopierNilModel.NStat SPanic -> "");
                 if generic then Buffer.add_string b "-" else
                 (match p with
                  | None -> Buffer.add_string b "nil"
                  | Some v -> show_val b v))) cs;
          Buffer.contents b
        | _ -> "badcase"
      with _ -> "badcase" in
    print_endline out)

(* ------------------------------------------------------------ memory level (CopierMemModel):
   every call is run on a store built from the case's tree values (inject_at: each pointer, slice,
   map of the literal in its own cell; source and destination separate); the observable is the
   status, which references of the destination afterwards are the SOURCE's (S) / not (F) / nil (N) /
   a slice without cells (E) - same traversal as the harness' aliasWalk -, and the erased destination *)
open CopierMemModel

let status_text = function
  | SOk -> "ok" | SErr e -> "err:" ^ class_of e | SPanic -> "panic"

let rec zero_size (t : ty) = match t with
  | Struct (_, fs) -> List.for_all (fun ((_, _), ft) -> zero_size ft) fs
  | _ -> false

let rec alias_walk b (t : ty) (a : aval) (cells : int list) (arrsrc : int list) (mapsrc : int list) =
  let mark yes = Buffer.add_char b (if yes then 'S' else 'F') in
  match t, a with
  | Struct (_, fs), AStruct xs ->
    let rec go fs xs = match fs, xs with
      | ((_, _), ft) :: fr, x :: xr -> alias_walk b ft x cells arrsrc mapsrc; go fr xr
      | _, _ -> () in
    go fs xs
  | Ptr _, APtr None -> Buffer.add_char b 'N'
  | Ptr e, APtr (Some (ad, x)) ->
    (if zero_size e then Buffer.add_char b 'Z' else mark (List.mem (int_of_nat ad) cells));
    alias_walk b e x cells arrsrc mapsrc
  | Slice _, ALeaf (MSlice None) -> Buffer.add_char b 'N'
  | Slice _, ALeaf (MSlice (Some (((id, _), _), cap))) ->
    if int_of_nat cap = 0 then Buffer.add_char b 'E' else mark (List.mem (int_of_nat id) arrsrc)
  | Map _, ALeaf (MMap None) -> Buffer.add_char b 'N'
  | Map _, ALeaf (MMap (Some id)) -> mark (List.mem (int_of_nat id) mapsrc)
  | _, _ -> ()

let run_mem () =
  iter_lines (fun line ->
    let out =
      try
        match parse_sx line with
        | L [A "case"; L [A "src"; st]; L [A "dst"; dt]; L (A "opts" :: os); L (A "calls" :: cs)] ->
          let st = ty_of st and dt = ty_of dt in
          let os = List.map opt_of os in
          let cs = List.map (function L (A "pureg" :: _) -> CallPure (VNum BinNums.Z0, VNum BinNums.Z0) | k -> call_of k) cs in
          let b = Buffer.create 256 in
          let ctor = new_reflect_copier st dt os in
          (match ctor with
           | COk _ -> Buffer.add_string b "ctor=ok"
           | CErr e -> Buffer.add_string b ("ctor=err:" ^ class_of e)
           | CPanic -> Buffer.add_string b "ctor=panic");
          List.iter (fun k ->
            Buffer.add_string b " | ";
            match ctor, k with
            | _, CallPure _ -> Buffer.add_string b "-"
            | COk c, _ ->
              let inj t v s = match v with
                | None -> (None, s)
                | Some x -> let (a, s') = inject_at t x s in (Some a, s') in
              let (sa, s1, da, s2, stt) = (match k with
                | CallCopy (src, ps) ->
                  let (sa, s1) = inj st src empty_store in
                  let ((s2, da), stt) = mem_copy c st dt s1 sa ps in
                  (sa, s1, Some da, s2, stt)
                | CallCopyTo (src, dst, ps) ->
                  let (sa, s0) = inj st src empty_store in
                  let (da, s1) = inj dt dst s0 in
                  let (s2, stt) = mem_copy_to c st dt s1 sa da ps in
                  (sa, s1, da, s2, stt)
                | CallPure _ -> failwith "pure") in
              (match stt with
               | SPanic -> Buffer.add_string b "panic -"
               | _ ->
                 Buffer.add_string b (status_text stt); Buffer.add_string b " A:";
                 let cells = List.map int_of_nat (cells_of s1 st sa) in
                 let lv = leaves (load_root s1.ptrs st sa) in
                 let arrsrc = List.filter_map (function MSlice (Some (((id, _), _), _)) -> Some (int_of_nat id) | _ -> None) lv in
                 let mapsrc = List.filter_map (function MMap (Some id) -> Some (int_of_nat id) | _ -> None) lv in
                 (match load_root s2.ptrs dt da with
                  | APtr (Some (_, x)) -> alias_walk b dt x cells arrsrc mapsrc
                  | _ -> ());
                 Buffer.add_string b " ";
                 (match erase_at s2 dt da with
                  | None -> Buffer.add_string b "nil"
                  | Some v -> show_val b v))
            | _, _ -> Buffer.add_string b "skip -") cs;
          Buffer.contents b
        | _ -> "badcase"
      with _ -> "badcase" in
    print_endline out)

let () =
  Registry.register "copier-mem" (fun _ -> run_mem ());
  Registry.register "copier" (fun _ -> run false);
  Registry.register "copier-pinned" (fun _ -> run true);
  (* the repaired variant without the zero-skip: only used to tolerate a repair of the known finding C20:copy:zero-skip *)
  Registry.register "copier-nozs" (fun _ -> run ~nozs:true false)
