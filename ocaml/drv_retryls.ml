(* lock-step driver for RetryLSModel (C19, concurrent use of the retry strategies): maps the model's program
   counters to the instrumenter's labels (= normalised source text of the statements of retry/exponential.go and
   retry/fixed_internal.go), generates schedules (2-5 goroutines calling Next on ONE strategy) and tags the
   windows the property names.
   Protocol: NEW retryls <exp|fixed> <initial ns> <max ns> <maxRetries> <goroutines> <mode> <calls>
             (the Go side uses the first four only); CALL <tid> next; STEP <tid>;
             a return is observed as "ret <interval ns> <ok>".
   Two registrations: `retryls-lockstep` (the code as it is now) and `retryls-pinned-lockstep` (the statement
   skeleton and arithmetic before commit 672671a; used by checks/part_retryls.py only when the source has THAT
   skeleton, to replay the witness of ls_interval_wrap_refuted on the real goroutines). *)
open BinNums
open Zutil
open RetryModel
open RetryLSModel

let zs = z_to_string
let zle a b = BinInt.Z.leb a b
let zlt a b = BinInt.Z.ltb a b
let zadd = BinInt.Z.add
let zmul = BinInt.Z.mul
let one = z_of_int 1
let two63 = z_of_string "9223372036854775808"

let exp_fn = "ExponentialBackoffRetryStrategy.Next"
let fix_fn = "FixedIntervalRetryStrategy.Next"
let s_add = "retries := atomic.AddInt32(&s.retries, 1)|0"
let s_budget = "if s.maxRetries <= 0 || retries <= s.maxRetries|0"
let s_retno = "return 0, false|0"

(* pc -> label, for the strategy kind of the current schedule *)
let label_of (pinned : bool) (k : kind) (pc : ls_pc) : string =
  let fn = (match k with KExp _ -> exp_fn | KFixed -> fix_fn) in
  let stmt = (match pc with
    | LAdd -> s_add
    | LBudget _ -> s_budget
    | LLoad _ -> "if reached, ok := s.maxIntervalReached.Load().(bool); ok && reached|0"
    | LRetMax0 _ -> "return s.maxInterval, true|0"
    | LFactor _ -> "factor := time.Duration(math.Pow(2, float64(retries-1)))|0"
    | LInterval _ ->
      if pinned then "interval := s.initialInterval * time.Duration(math.Pow(2, float64(retries-1)))|0"
      else "interval := s.initialInterval * factor|0"
    | LChk _ ->
      if pinned then "if interval <= 0 || interval > s.maxInterval|0"
      else "if factor <= 0 || interval/factor != s.initialInterval || interval <= 0 || interval > s.maxInterval|0"
    | LStore _ -> "s.maxIntervalReached.Store(true)|0"
    | LRetMax1 _ -> "return s.maxInterval, true|1"
    | LRetIv _ -> "return interval, true|0"
    | LRetFixed _ -> "return s.interval, true|0"
    | LRetNo _ -> s_retno) in
  fn ^ "|" ^ stmt

(* the constructors run before the strategy is shared; they are not stepped, but their text is pinned:
   [ls_init] (counter 0, flag never stored) and the validity of the parameters are their model *)
let ctor_labels = [
  "NewExponentialBackoffRetryStrategy|if initialInterval <= 0|0";
  "NewExponentialBackoffRetryStrategy|return nil, errs.NewErrInvalidIntervalValue(initialInterval)|0";
  "NewExponentialBackoffRetryStrategy|if initialInterval > maxInterval|0";
  "NewExponentialBackoffRetryStrategy|return nil, errs.NewErrInvalidMaxIntervalValue(maxInterval, initialInterval)|0";
  "NewExponentialBackoffRetryStrategy|return &ExponentialBackoffRetryStrategy{ initialInterval: initialInterval, maxInterval: maxInterval, maxRetries: maxRetries, }, nil|0";
  "NewFixedIntervalRetryStrategy|if interval <= 0|0";
  "NewFixedIntervalRetryStrategy|return nil, errs.NewErrInvalidIntervalValue(interval)|0";
  "NewFixedIntervalRetryStrategy|return &FixedIntervalRetryStrategy{ maxRetries: maxRetries, interval: interval, }, nil|0" ]

let rank = function
  | LAdd -> 0 | LBudget _ -> 1 | LLoad _ -> 2 | LFactor _ -> 3 | LInterval _ -> 4 | LChk _ -> 5
  | LStore _ -> 6 | LRetMax0 _ | LRetMax1 _ | LRetIv _ | LRetFixed _ | LRetNo _ -> 7
let ticket = function
  | LAdd -> None
  | LBudget r | LLoad r | LRetMax0 r | LFactor r | LInterval r | LChk r | LStore r | LRetMax1 r
  | LRetIv r | LRetFixed r | LRetNo r -> Some r

let shuffle rng l =
  let a = Array.of_list l in
  for i = Array.length a - 1 downto 1 do
    let j = Random.State.int rng (i + 1) in
    let x = a.(i) in a.(i) <- a.(j); a.(j) <- x
  done;
  Array.to_list a

let p2 n = BinInt.Z.pow (z_of_int 2) (z_of_int n)

(* (initial, max, calls needed to reach the overflow) *)
let overflow_triples = [
  (zadd (p2 40) one, p2 62, 27);                           (* the triple of interval_wrap_refuted: wraps at ticket 25 *)
  (zadd (p2 61) one, BinInt.Z.sub (p2 63) one, 6);         (* ticket 3 negative, ticket 4 wraps to 8 ns: only the division test *)
  (zadd (p2 62) one, BinInt.Z.sub (p2 63) one, 5);         (* ticket 2 negative, ticket 3 wraps to 4 ns *)
  (zadd (p2 61) one, p2 62, 6);                            (* ticket 2 above the cap, ticket 4 wraps to 8 ns *)
  (p2 62, p2 62, 5);                                       (* ticket 2 = -2^63, ticket 3 = 0 *)
  (BinInt.Z.sub (p2 63) one, BinInt.Z.sub (p2 63) one, 4); (* initial = max = MaxInt64 *)
  (z_of_int 3, p2 62, 8) ]

module Mk (V : sig val pinned : bool end) = struct
  type cfg = ls_cfg
  type ev = ls_ev
  let name = "retryls"
  let variant = if V.pinned then VPinned else VNow

  let cur_p = ref { p_kind = KFixed; p_init = one; p_max = one; p_maxr = Z0 }
  let cur_threads = ref 3
  let cur_mode = ref 0
  let cur_quota = ref 6

  let gen_params rng =
    let ri n = Random.State.int rng n in
    let nthreads = 2 + ri 4 in
    let mode = ri 4 in
    let small_budget () = (match ri 8 with 0 -> 0 | 1 -> -1 | 2 | 3 -> 1 | 4 | 5 -> 2 | 6 -> 3 | _ -> 4 + ri 4) in
    if ri 3 = 0 then begin
      let iv = (match ri 5 with 0 -> "1" | 1 -> "7" | 2 -> "1000000" | 3 -> "9223372036854775807" | _ -> string_of_int (1 + ri 100000)) in
      let maxr = small_budget () in
      let calls = (if maxr > 0 then maxr + 1 + ri 3 else 3 + ri 5) in
      ["fixed"; iv; iv; string_of_int maxr; string_of_int nthreads; string_of_int mode; string_of_int calls]
    end else if ri 5 < 2 then begin
      (* overflow triples; the budget is unlimited or beyond the overflow so that the doubling gets there *)
      let (i, m, need) = List.nth overflow_triples (ri (List.length overflow_triples)) in
      let maxr = (match ri 4 with 0 -> 0 | 1 -> need - 1 | 2 -> need + 5 | _ -> -3) in
      let nthreads = (if need > 20 then 5 else nthreads) in
      let mode = (if need > 20 && mode = 2 then 1 else mode) in
      ["exp"; zs i; zs m; string_of_int maxr; string_of_int nthreads; string_of_int mode; string_of_int need]
    end else begin
      let i = (match ri 4 with 0 -> 1 | 1 -> 3 | 2 -> 1000 | _ -> 1 + ri 1000000) in
      let m = (match ri 6 with 0 -> i | 1 -> 2 * i | 2 -> 3 * i | 3 -> 5 * i + 1 | 4 -> 8 * i | _ -> i * (1 + ri 64) + ri 3) in
      let maxr = small_budget () in
      let calls = (if maxr > 0 then maxr + 1 + ri 3 else 3 + ri 6) in
      ["exp"; string_of_int i; string_of_int m; string_of_int maxr; string_of_int nthreads; string_of_int mode; string_of_int calls]
    end

  let init params =
    (match params with
     | kind :: i :: m :: r :: rest ->
       let c = (match kind with
           | "exp" -> new_exp variant (z_of_string i) (z_of_string m) (z_of_string r)
           | "fixed" -> new_fixed (z_of_string i) (z_of_string r)
           | _ -> failwith "retryls: kind = exp|fixed") in
       (match c with CtorOk p -> cur_p := p | _ -> failwith "retryls: the constructor rejects these parameters");
       (match rest with
        | [n; mo; q] -> cur_threads := int_of_string n; cur_mode := int_of_string mo; cur_quota := int_of_string q
        | _ -> cur_threads := 3; cur_mode := 0; cur_quota := 6)
     | _ -> failwith "retryls: params = kind initial max maxRetries [goroutines mode calls]");
    ls_init

  let exec1 c e = ls_exec1 !cur_p c e
  let pc_of (c : cfg) t = List.assoc_opt (nat_of_int t) c.ls_thr
  let started (c : cfg) = List.length c.ls_hist + List.length c.ls_thr
  let over r = snd (compute variant !cur_p r)

  (* mode 0: uniform.  mode 1: everybody advances together - the least advanced call is stepped first and new
     calls are started first, so that all callers pass the atomic add / the flag load before anyone goes on
     (the interleaving of interval_wrap_refuted).  mode 2: mostly sequential - the most advanced call finishes
     first.  mode 3: park - callers that have executed their atomic add but not yet the budget test / the flag
     load, and callers about to store the flag, are stepped LAST. *)
  let candidates rng (c : cfg) =
    let tids = List.init !cur_threads (fun i -> i + 1) in
    let idle = List.filter (fun t -> pc_of c t = None) tids in
    let flying = List.filter (fun t -> pc_of c t <> None) tids in
    let calls = if started c < !cur_quota then List.map (fun t -> LSCall (nat_of_int t)) idle else [] in
    let steps l = List.map (fun t -> LSStep (nat_of_int t)) l in
    let rk t = match pc_of c t with Some pc -> rank pc | None -> -1 in
    let uniform () = shuffle rng (steps flying @ steps flying @ calls) in
    match !cur_mode with
    | 1 ->
      if Random.State.int rng 8 = 0 then uniform ()
      else shuffle rng calls @ steps (List.stable_sort (fun a b -> compare (rk a) (rk b)) (shuffle rng flying))
    | 2 ->
      if Random.State.int rng 5 = 0 then uniform ()
      else steps (List.stable_sort (fun a b -> compare (rk b) (rk a)) (shuffle rng flying)) @ shuffle rng calls
    | 3 ->
      let parked t = (match pc_of c t with Some (LBudget _) | Some (LLoad _) | Some (LStore _) -> true | _ -> false) in
      if Random.State.int rng 6 = 0 then uniform ()
      else shuffle rng (calls @ steps (List.filter (fun t -> not (parked t)) flying))
           @ shuffle rng (steps (List.filter parked flying))
    | _ -> uniform ()

  let obs_str t = function
    | LSAt pc -> (t, "at " ^ label_of V.pinned !cur_p.p_kind pc)
    | LSRet (iv, ok) -> (t, Printf.sprintf "ret %s %b" (zs iv) ok)
  let tid_of = function LSCall t | LSStep t -> int_of_nat t
  let apply c e =
    match exec1 c e with
    | Some (c', o) -> Some (c', [obs_str (tid_of e) o])
    | None -> None
  let line = function
    | LSCall t -> Printf.sprintf "CALL %d next" (int_of_nat t)
    | LSStep t -> Printf.sprintf "STEP %d" (int_of_nat t)
  let parse s =
    match words s with
    | ["CALL"; t; "next"] -> LSCall (nat_of_int (int_of_string t))
    | ["STEP"; t] -> LSStep (nat_of_int (int_of_string t))
    | _ -> failwith ("parse: " ^ s)

  (* the mathematical product initial * 2^(r-1) does not fit an int64 (or the float conversion failed) *)
  let overflows r =
    let f = pow2_i64 (i32 (BinInt.Z.sub r one)) in
    zle f Z0 || zle two63 (zmul !cur_p.p_init f)

  let tags (c : cfg) e (c' : cfg) =
    let p = !cur_p in
    match e with
    | LSCall _ -> if List.length c.ls_thr >= 1 then ["call-while-others-in-flight"] else []
    | LSStep n ->
      let others = List.filter (fun (n2, _) -> n2 <> n) c.ls_thr in
      (match List.assoc_opt n c.ls_thr with
       | None -> []
       | Some LAdd ->
         let r = c'.ls_st.retries in
         let at_budget x = List.exists (fun (_, pc) -> pc = LBudget x) others in
         let holds_le = List.exists (fun (_, pc) -> match ticket pc with Some x -> zle x p.p_maxr | None -> false) others in
         let positive = zlt Z0 p.p_maxr in
         (if positive && ((r = zadd p.p_maxr one && at_budget p.p_maxr) || (r = p.p_maxr && at_budget (zadd p.p_maxr one)))
          then ["two-callers-race-for-last-retry"] else [])
         @ (if positive && zlt p.p_maxr r && holds_le then ["ticket-beyond-budget-drawn-while-grants-in-flight"] else [])
         @ (if List.exists (fun (_, pc) -> match pc with LBudget _ -> true | _ -> false) others
            then ["add-while-another-caller-is-between-add-and-test"] else [])
       | Some (LBudget r) -> if budget_ok p r then ["budget-test-passes"] else ["budget-test-refuses"]
       | Some (LLoad r) ->
         if c.ls_st.reached then ["flag-seen-set"]
         else
           let will_store = List.exists (fun (_, pc) ->
               match pc with
               | LFactor x | LInterval x | LChk x | LStore x -> zlt x r && over x
               | _ -> false) others in
           (if will_store then ["late-caller-computes-before-flag-store"] else ["flag-seen-unset"])
       | Some (LChk r) ->
         if over r then
           (if overflows r then ["overflow-path"] else ["cap-path"])
           @ (if not (snd (compute VPinned p r)) then ["wrap-caught-only-by-division-test"] else [])
         else (if overflows r then ["wrapped-interval-accepted"] else ["interval-below-cap"])
       | Some (LStore _) -> if c.ls_st.reached then ["flag-stored-again"] else ["flag-stored-first"]
       | Some (LRetNo _) -> ["returned-refusal"]
       | Some (LRetMax0 _) | Some (LRetMax1 _) -> ["returned-cap"]
       | Some (LRetIv _) | Some (LRetFixed _) -> ["returned-interval"]
       | _ -> [])

  let all_pcs = [LAdd; LBudget Z0; LLoad Z0; LRetMax0 Z0; LFactor Z0; LInterval Z0; LChk Z0; LStore Z0; LRetMax1 Z0;
                 LRetIv Z0; LRetNo Z0]
  let labels =
    List.map (label_of V.pinned (KExp variant)) (List.filter (fun pc -> not (V.pinned && pc = LFactor Z0)) all_pcs)
    @ List.map (label_of V.pinned KFixed) [LAdd; LBudget Z0; LRetFixed Z0; LRetNo Z0]
    @ ctor_labels
  let funcs = [exp_fn; fix_fn; "NewExponentialBackoffRetryStrategy"; "NewFixedIntervalRetryStrategy"]
  let nontrivial = ["two-callers-race-for-last-retry"; "late-caller-computes-before-flag-store"; "overflow-path"]

  (* the PROPERTY evaluated on the final configuration of the model (a test, not the proof; on the current
     variant the theorems say it cannot fail; on the pinned variant it reports the wrapped interval that the
     real goroutines have just returned in lock-step) *)
  let final_check (c : cfg) =
    let p = !cur_p in
    let calls = int_of_nat c.ls_calls in
    let granted = int_of_nat (count_ok c.ls_hist)
                  + List.length (List.filter (fun (_, pc) -> ls_will_grant p pc) c.ls_thr) in
    let want = (if zle p.p_maxr Z0 then calls else min calls (int_of_z p.p_maxr)) in
    if granted <> want then
      Some (Printf.sprintf "budget: %d tickets drawn, maxRetries=%s, %d grants (completed + in flight), expected %d"
              calls (zs p.p_maxr) granted want)
    else
      match List.find_opt (fun e ->
          if e.ev_ok then not (zle p.p_init e.ev_iv && zle e.ev_iv p.p_max) else e.ev_iv <> Z0) c.ls_hist with
      | Some e ->
        Some (Printf.sprintf "bounds: goroutine %d (ticket %s) was answered (%s, %b); initial=%s max=%s"
                (int_of_nat e.ev_tid) (zs e.ev_ticket) (zs e.ev_iv) e.ev_ok (zs p.p_init) (zs p.p_max))
      | None -> None
end

module MNow = Mk (struct let pinned = false end)
module LNow = Lockstep.Make (MNow)
module MPinned = Mk (struct let pinned = true end)
module LPinned = Lockstep.Make (MPinned)
let () =
  Registry.register "retryls-lockstep" LNow.main;
  Registry.register "retryls-pinned-lockstep" LPinned.main
