(* driver for ListModel (C04): one history per line -> one line of observables.
   input : <impl> <cap0> <op>@<cap>;<op>@<cap>;...      (cap = Cap() of the implementation
           after the call: the capacity oracle; `-` when unknown -> 0)
           (b:.. and n:.. are Appends for the model: the harness only passes its argument differently)
           op = g:<i> | a:<x>,<y>,.. | i:<idx>:<x> | s:<idx>:<x> | d:<idx> | l | c | r:<stop> | v
           an op prefixed with `~` is NOT followed by the observers Len / AsSlice / Cap
   output: <res>|<len>|<contents>|<model's cap, diagnostic only>;...   stops after the first panic
           (unobserved op: <res>|~|~|~)
   `modelrun list`      runs the model of the four implementations
   `modelrun list-spec` runs the abstract sequence on the same history *)
open Zutil
open ListModel

let rec impl_of_string s =
  match s with
  | "array" -> IArr | "linked" -> ILinked | "cow" -> ICow
  | _ when String.length s > 5 && String.sub s 0 5 = "conc-" ->
    IConc (impl_of_string (String.sub s 5 (String.length s - 5)))
  | _ -> failwith ("impl " ^ s)

let zs_of_string s =
  if s = "" then [] else List.map z_of_string (split_on ',' s)

let op_of_string s =
  match split_on ':' s with
  | ["g"; i] -> OpGet (z_of_string i)
  | ["a"] | ["b"] | ["n"] | ["N"] -> OpAppend []
  | ["a"; xs] | ["b"; xs] | ["n"; xs] | ["N"; xs] -> OpAppend (zs_of_string xs)
  | ["i"; i; x] -> OpAdd (z_of_string i, z_of_string x)
  | ["s"; i; x] -> OpSet (z_of_string i, z_of_string x)
  | ["d"; i] -> OpDelete (z_of_string i)
  | ["l"] -> OpLen
  | ["c"] -> OpCap
  | ["r"; i] -> OpRange (z_of_string i)
  | ["v"] -> OpAsSlice
  | _ -> failwith ("op " ^ s)

let step_of_string s =
  let observed = not (String.length s > 0 && s.[0] = '~') in
  let s = if observed then s else String.sub s 1 (String.length s - 1) in
  match split_on '@' s with
  | [o] -> ((op_of_string o, z_of_int 0), observed)
  | [o; "-"] -> ((op_of_string o, z_of_int 0), observed)
  | [o; c] -> ((op_of_string o, z_of_string c), observed)
  | _ -> failwith ("step " ^ s)

(* long lists are printed as two polynomial hashes; the Go harness prints the same text *)
let p1 = 2147483647 and p2 = 2147483629
let show_ints (l : int list) : string =
  let n = List.length l in
  if n <= 32 then String.concat "," (List.map string_of_int l)
  else begin
    let h1 = ref 7 and h2 = ref 11 in
    List.iter (fun v ->
      let m1 = ((v mod p1) + p1) mod p1 and m2 = ((v mod p2) + p2) mod p2 in
      h1 := (!h1 * 1000003 + m1) mod p1;
      h2 := (!h2 * 999983 + m2) mod p2) l;
    Printf.sprintf "#%d:%d:%d" n !h1 !h2
  end

let show_zs l = show_ints (List.map int_of_z l)
let b01 b = if b then "1" else "0"

let show_res = function
  | Common.Panic -> "panic"
  | Common.Err Common.EIndex -> "e:index"
  | Common.Err _ -> "e:other"
  | Common.Ok OUnit -> "ok"
  | Common.Ok (OVal v) -> "v:" ^ z_to_string v
  | Common.Ok (OLen n) -> "len:" ^ z_to_string n
  | Common.Ok (OCap _) -> "cap"
  | Common.Ok (OSlice (isnil, l)) -> "s:" ^ b01 isnil ^ ":" ^ show_zs l
  | Common.Ok (ORange (tr, stopped)) ->
    "r:" ^ b01 stopped ^ ":" ^
    show_ints (List.concat (List.map (fun (i, v) -> [int_of_z i; int_of_z v]) tr))

let show_len = function
  | Common.Ok (OLen n) -> z_to_string n
  | Common.Panic -> "panic"
  | _ -> "?"
let show_contents = function
  | Common.Ok (OSlice (isnil, l)) -> b01 isnil ^ ":" ^ show_zs l
  | Common.Panic -> "panic"
  | _ -> "?"

let show_cap = function
  | Common.Ok (OCap c) -> z_to_string c
  | _ -> "?"

let show_entry (r, obs) =
  if r = Common.Panic then "panic"
  else match obs with
    | Some ((rl, rs), rc) -> show_res r ^ "|" ^ show_len rl ^ "|" ^ show_contents rs ^ "|" ^ show_cap rc
    | None -> show_res r ^ "|~|~|~"

let run spec =
  iter_lines (fun line ->
    match words line with
    | im :: c0 :: rest ->
      let h = match rest with
        | [] -> []
        | [ops] -> List.map step_of_string (List.filter (fun s -> s <> "") (split_on ';' ops))
        | _ -> failwith "history" in
      let obs =
        if spec then spec_obs_run [] h
        else obs_run (linit (impl_of_string im) (z_of_string c0)) h in
      print_endline (String.concat ";" (List.map show_entry obs))
    | _ -> print_endline "badcase")

(* `modelrun list-realloc`: lines "<len> <cap> <op>" -> 1 / 0 = ListMemModel.reallocates: does this
   ArrayList call move vals to a new backing array (proved exact in props/C04_mem.v) *)
let run_realloc () =
  iter_lines (fun line ->
    match words line with
    | [l; c; o] ->
      let h = { SliceMemModel.h_arr = nat_of_int 0; h_off = nat_of_int 0;
                h_len = nat_of_int (int_of_string l); h_cap = nat_of_int (int_of_string c) } in
      print_endline (if ListMemModel.reallocates h (fst (fst (step_of_string o))) then "1" else "0")
    | _ -> print_endline "badcase")

let () =
  Registry.register "list-realloc" (fun _ -> run_realloc ());
  Registry.register "list" (fun _ -> run false);
  Registry.register "list-spec" (fun _ -> run true)
