(* model drivers register themselves here; main dispatches on argv.(1) *)
let table : (string, string list -> unit) Hashtbl.t = Hashtbl.create 16
let register (name : string) (f : string list -> unit) = Hashtbl.replace table name f
let dispatch () =
  match Array.to_list Sys.argv with
  | _ :: name :: args when Hashtbl.mem table name -> (Hashtbl.find table name) args
  | _ ->
    prerr_endline "usage: modelrun <model> [args]; models:";
    Hashtbl.iter (fun k _ -> prerr_endline ("  " ^ k)) table;
    exit 2
