(* Generic model side of the lock-step correspondence (see harness/lockstep/lockstep.go for the
   protocol).  The model is the master: it picks events it enables, sends them, and compares
   what the real goroutines report (arrival at a yield point / return value) with what the
   extracted Coq transition function predicts. *)

type expect = int * string   (* tid, "at <label>" | "ret <value>" | "panic ..." *)

module type MODEL = sig
  type cfg
  type ev
  val name : string
  val gen_params : Random.State.t -> string list         (* NEW parameters of one schedule *)
  val init : string list -> cfg                           (* initial configuration for those parameters *)
  val candidates : Random.State.t -> cfg -> ev list      (* events to try, in preference order *)
  val apply : cfg -> ev -> (cfg * expect list) option    (* None = not enabled in the model *)
  val line : ev -> string                                (* protocol line without the "#n" *)
  val parse : string -> ev                               (* inverse of line (replay) *)
  val tags : cfg -> ev -> cfg -> string list             (* coverage tags hit by this step *)
  val final_check : cfg -> string option                 (* model-side check at the end of a schedule *)
  val labels : string list                               (* every yield-point label the model has a program counter for *)
  val funcs : string list                                (* "<Recv>.<Func>" whose statements are ALL modelled *)
  val nontrivial : string list                           (* a schedule hitting one of these tags counts as non-trivial *)
end

let send s = print_string s; print_char '\n'; flush stdout

let read_reply () : (int * string) list * string list =
  let obs = ref [] and errs = ref [] in
  let fin = ref false in
  while not !fin do
    let l = try input_line stdin with End_of_file -> "DONE" in
    if l = "DONE" then fin := true
    else if String.length l >= 4 && String.sub l 0 4 = "OBS " then begin
      let rest = String.sub l 4 (String.length l - 4) in
      match String.index_opt rest ' ' with
      | Some i ->
        let tid = (try int_of_string (String.sub rest 0 i) with _ -> -1) in
        obs := (tid, String.sub rest (i + 1) (String.length rest - i - 1)) :: !obs
      | None -> errs := l :: !errs
    end else errs := l :: !errs
  done;
  (List.rev !obs, List.rev !errs)

let norm (l : (int * string) list) = List.sort compare (List.map (fun (t, s) -> (t, String.trim s)) l)

module Make (M : MODEL) = struct
  let tagtbl : (string, int) Hashtbl.t = Hashtbl.create 64
  let bump t = Hashtbl.replace tagtbl t (1 + (try Hashtbl.find tagtbl t with Not_found -> 0))

  (* runs one schedule; [next] yields the next event given the configuration, or None to stop *)
  let hit_nontrivial = ref false
  let run_schedule buf params cfg0 (next : M.cfg -> int -> M.ev option) : bool * int * string list =
    hit_nontrivial := false;
    send ("NEW " ^ M.name ^ " " ^ String.concat " " params);
    ignore (read_reply ());
    let cfg = ref cfg0 and k = ref 0 and ok = ref true and lines = ref [] in
    let continue = ref true in
    while !continue do
      match next !cfg !k with
      | None -> continue := false
      | Some ev ->
        (match M.apply !cfg ev with
         | None ->
           Buffer.add_string buf (Printf.sprintf "MODEL-DISABLED event=%d line=%s\n" !k (M.line ev));
           ok := false; continue := false
         | Some (cfg', exp) ->
           let l = M.line ev in
           lines := l :: !lines;
           send (Printf.sprintf "%s #%d" l (List.length exp));
           let (obs, errs) = read_reply () in
           let e = norm exp and o = norm obs in
           if e <> o || errs <> [] then begin
             Buffer.add_string buf
               (Printf.sprintf "MISMATCH object=%s event=%d\n  params: %s\n  events:\n%s\n  expected: %s\n  observed: %s %s\n"
                  M.name !k (String.concat " " params)
                  (String.concat "\n" (List.map (fun s -> "    " ^ s) (List.rev !lines)))
                  (String.concat " ; " (List.map (fun (t, s) -> Printf.sprintf "%d %s" t s) e))
                  (String.concat " ; " (List.map (fun (t, s) -> Printf.sprintf "%d %s" t s) o))
                  (String.concat " | " errs));
             ok := false; continue := false
           end else begin
             let tg = M.tags !cfg ev cfg' in
             List.iter bump tg;
             if List.exists (fun t -> List.mem t M.nontrivial) tg then hit_nontrivial := true;
             cfg := cfg'; incr k
           end)
    done;
    if !ok then (match M.final_check !cfg with
        | Some msg ->
          Buffer.add_string buf (Printf.sprintf "MODEL-CHECK-FAILED %s\n  params: %s\n  events:\n%s\n" msg
                                   (String.concat " " params)
                                   (String.concat "\n" (List.map (fun s -> "    " ^ s) (List.rev !lines))));
          ok := false
        | None -> ());
    (!ok, !k, List.rev !lines)

  let main (args : string list) =
    let buf = Buffer.create 4096 in
    let report, finish =
      match List.rev args with
      | r :: _ -> r, (fun () -> let oc = open_out r in Buffer.output_buffer oc buf; close_out oc)
      | [] -> "", (fun () -> prerr_string (Buffer.contents buf)) in
    ignore report;
    (match args with
     | "run" :: seed :: nsched :: maxev :: _ ->
       let seed = int_of_string seed and nsched = int_of_string nsched and maxev = int_of_string maxev in
       let total = ref 0 and bad = ref 0 and distinct = Hashtbl.create 1024 and nontriv = Hashtbl.create 1024 in
       for i = 0 to nsched - 1 do
         let rng = Random.State.make [| seed; i; 7919 |] in
         let params = M.gen_params rng in
         let cfg0 = M.init params in
         let next cfg k =
           if k >= maxev then None
           else
             let rec first = function
               | [] -> None
               | ev :: r -> (match M.apply cfg ev with Some _ -> Some ev | None -> first r) in
             first (M.candidates rng cfg) in
         let (ok, n, lines) = run_schedule buf params cfg0 next in
         total := !total + n;
         if not ok then incr bad;
         Hashtbl.replace distinct (Hashtbl.hash (params, lines)) ();
         if !hit_nontrivial && ok then Hashtbl.replace nontriv (Hashtbl.hash (params, lines)) ();
         if i < 3 then
           Buffer.add_string buf (Printf.sprintf "SAMPLE params=[%s] %s\n" (String.concat " " params) (String.concat " / " lines))
       done;
       Buffer.add_string buf (Printf.sprintf "STATS schedules=%d events=%d mismatches=%d distinct=%d nontrivial=%d\n" nsched !total !bad (Hashtbl.length distinct) (Hashtbl.length nontriv));
       Hashtbl.iter (fun t n -> Buffer.add_string buf (Printf.sprintf "TAG %s %d\n" t n)) tagtbl
     | "replay" :: file :: _ ->
       (* file: first line "PARAMS p1 p2 ...", then one event line per line *)
       let ic = open_in file in
       let rec rd acc = match input_line ic with l -> rd (l :: acc) | exception End_of_file -> List.rev acc in
       let ls = List.filter (fun l -> String.trim l <> "") (rd []) in
       close_in ic;
       (match ls with
        | p :: evs ->
          let params = List.tl (Zutil.words p) in
          let cfg0 = M.init params in
          let arr = Array.of_list (List.map M.parse evs) in
          let next _ k = if k < Array.length arr then Some arr.(k) else None in
          let (ok, n, _) = run_schedule buf params cfg0 next in
          Buffer.add_string buf (Printf.sprintf "STATS schedules=1 events=%d mismatches=%d distinct=1 nontrivial=%d\n" n (if ok then 0 else 1) (if !hit_nontrivial then 1 else 0))
        | [] -> Buffer.add_string buf "REPLAY empty\n")
     | "labels" :: _ ->
       List.iter (fun l -> Buffer.add_string buf ("LABEL " ^ l ^ "\n")) M.labels;
       List.iter (fun l -> Buffer.add_string buf ("FUNC " ^ l ^ "\n")) M.funcs
     | _ -> prerr_endline "usage: <model>-lockstep run <seed> <nschedules> <maxevents> <report> | replay <file> <report>");
    send "QUIT";
    finish ()
end
