(* lock-step driver for LimitPoolModel (C14): maps the model's program counters to the
   instrumenter's labels (= normalised source text of the statements of limit_pool.go) *)
open Zutil
open LimitPoolModel

let label_of_pc = function
  | GetDec -> "LimitPool.Get|if l.tokens.Add(-1) < 0|0"
  | GetComp -> "LimitPool.Get|l.tokens.Add(1)|0"
  | GetRetF -> "LimitPool.Get|return zero, false|0"
  | GetRetT -> "LimitPool.Get|return l.pool.Get(), true|0"
  | PutPool -> "LimitPool.Put|l.pool.Put(t)|0"
  | PutAdd -> "LimitPool.Put|l.tokens.Add(1)|0"

module M = struct
  type cfg = lp_cfg
  type ev = lp_ev
  let name = "limitpool"
  let gen_params rng =
    let m = (match Random.State.int rng 14 with 0 -> 0 | 1 -> 1 | 2 -> 2 | 3 -> 3 | 10 -> 2147483653 | 11 -> 2147483647
                                               | 12 -> 4294967297 | 13 -> 1025 | n -> 1 + n mod 4) in
    [string_of_int m]
  let init params = lp_init (z_of_string (List.hd params))
  let nthreads = 5
  let candidates rng (c : cfg) =
    let tids = List.init nthreads (fun i -> i + 1) in
    let all = List.concat_map (fun t ->
        let n = nat_of_int t in [LStep n; LStep n; LCallGet n; LCallPut n]) tids in
    (* random order; steps are listed twice so that calls in flight tend to progress *)
    let a = Array.of_list all in
    for i = Array.length a - 1 downto 1 do
      let j = Random.State.int rng (i + 1) in
      let x = a.(i) in a.(i) <- a.(j); a.(j) <- x
    done;
    Array.to_list a
  let obs_str t = function
    | LAt p -> (t, "at " ^ label_of_pc p)
    | LRetGet b -> (t, "ret " ^ string_of_bool b)
    | LRetPut -> (t, "ret unit")
  let tid_of = function LCallGet t | LCallPut t | LStep t -> int_of_nat t
  let apply c e =
    match lp_exec1 c e with
    | Some (c', o) -> Some (c', [obs_str (tid_of e) o])
    | None -> None
  let line = function
    | LCallGet t -> Printf.sprintf "CALL %d get" (int_of_nat t)
    | LCallPut t -> Printf.sprintf "CALL %d put" (int_of_nat t)
    | LStep t -> Printf.sprintf "STEP %d" (int_of_nat t)
  let parse s =
    match words s with
    | ["CALL"; t; "get"] -> LCallGet (nat_of_int (int_of_string t))
    | ["CALL"; t; "put"] -> LCallPut (nat_of_int (int_of_string t))
    | ["STEP"; t] -> LStep (nat_of_int (int_of_string t))
    | _ -> failwith ("parse: " ^ s)
  let tags c e c' =
    let inflight = List.length c.lp_thr in
    (match e, lp_exec1 c e with
     | LStep _, Some (_, LAt GetComp) -> ["get-fails-decrement"]
     | LStep _, Some (_, LAt GetRetT) -> ["get-succeeds"]
     | LStep _, Some (_, LRetPut) -> ["put-done"]
     | _ -> [])
    @ (if inflight >= 2 then ["two-or-more-calls-in-flight"] else [])
    @ (if List.exists (fun (_, p) -> p = GetComp) c.lp_thr && (match e with LStep _ -> true | _ -> false)
       then ["step-while-a-compensation-is-pending"] else [])
  (* the constructor is pinned by its text: lp_init is `tokens.Add(int64(maxTokens))` on a zero counter, nothing else *)
  let ctor_labels = ["NewLimitPool|tokens.Add(int64(maxTokens))|0";
                     "NewLimitPool|return &LimitPool[T]{ pool: NewPool[T](factory), tokens: &tokens, }|0"]
  let labels = List.map label_of_pc [GetDec; GetComp; GetRetF; GetRetT; PutPool; PutAdd] @ ctor_labels
  let funcs = ["LimitPool.Get"; "LimitPool.Put"; "NewLimitPool"]
  let nontrivial = ["step-while-a-compensation-is-pending"]
  let final_check c =
    (* the model's own invariant, evaluated on the final configuration (a test, not the proof) *)
    let out = lp_outstanding c in
    if BinInt.Z.leb out c.lp_max then None else Some "outstanding > maxTokens in the model"
end

module L = Lockstep.Make (M)
let () = Registry.register "limitpool-lockstep" L.main

(* ---- sequential differential `limitpool-seq` (NewLimitPool / Get / Put run alone, statement by statement through
   the same extracted lp_init / lp_exec1):  "<maxTokens> tok ..." with g<n> = n Gets -> g<successes>,
   p<k> = Put back min(k, held) -> p<put>, t -> t<token counter>.  Mirrors harness/c14/lpseq.go. ---- *)
let seq_step c e =
  match lp_exec1 c e with Some r -> r | None -> failwith "limitpool-seq: event not enabled"
let seq_get c =
  let t = nat_of_int 1 in
  let (c, _) = seq_step c (LCallGet t) in
  let rec go c = match seq_step c (LStep t) with (c', LRetGet b) -> (c', b) | (c', _) -> go c' in
  go c
let seq_put c =
  let t = nat_of_int 1 in
  let (c, _) = seq_step c (LCallPut t) in
  let rec go c = match seq_step c (LStep t) with (c', LRetPut) -> c' | (c', _) -> go c' in
  go c
let run_seq _ =
  iter_lines (fun line ->
    match words line with
    | [] -> print_endline ""
    | m :: toks ->
      let c = ref (lp_init (z_of_string m)) in
      let outs = List.map (fun tok ->
          let arg () = int_of_string (String.sub tok 1 (String.length tok - 1)) in
          match tok.[0] with
          | 't' -> "t" ^ z_to_string !c.lp_tokens
          | 'g' ->
            let succ = ref 0 in
            for _ = 1 to arg () do
              let (c', b) = seq_get !c in c := c'; if b then incr succ
            done;
            "g" ^ string_of_int !succ
          | 'p' ->
            let k = arg () and d = ref 0 in
            while !d < k && BinInt.Z.ltb (z_of_string "0") !c.lp_held do c := seq_put !c; incr d done;
            "p" ^ string_of_int !d
          | _ -> "badop") toks in
      print_endline (String.concat " " outs))
let () = Registry.register "limitpool-seq" run_seq
