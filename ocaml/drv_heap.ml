(* driver for HeapModel (C05, priority queue).
   heap       : one history per line  "<variant> <cmp> <capacity> <op>..."  (variant is ignored by the
                model: the public wrapper only delegates), ops  e<int> | d | p | l, a trailing '~' =
                not observed after this op (entry "<answer>|-|-")
                -> one line: per op "<answer>|<len>|<a1,a2,..>" joined by ';' (array = data[1:])
   heap-inv   : "<cmp> <a1,a2,..>"  -> "true"/"false": heap_invb on the dumped array
   heap-spec  : "<cmp> <capacity> <op>=<answer>..." -> "accept" | "reject <k>"  (abstract multiset) *)
open BinNums
open Zutil
open HeapModel

let cmp_of_string = function
  | "asc" -> hcmp_asc | "desc" -> hcmp_desc | "mod3" -> hcmp_mod3
  | s -> failwith ("cmp " ^ s)

let silent s = String.length s > 0 && s.[String.length s - 1] = '~'
let strip s = if silent s then String.sub s 0 (String.length s - 1) else s

let op_of_string s =
  let s = strip s in
  match s.[0] with
  | 'e' -> Enqueue (z_of_string (String.sub s 1 (String.length s - 1)))
  | 'd' -> Dequeue
  | 'p' -> Peek
  | 'l' -> Len
  | _ -> failwith ("op " ^ s)

let show_ans = function
  | HOk RUnit -> "ok"
  | HOk (RVal v) -> "ok:" ^ z_to_string v
  | HOk (RLen n) -> "len:" ^ z_to_string n
  | HErr Common.EFull -> "err:full"
  | HErr Common.EEmpty -> "err:empty"
  | HErr _ -> "err:other"
  | HPanic -> "panic"
  | HOutOfFuel -> "fuel"

let ans_of_string s =
  match split_on ':' s with
  | ["ok"] -> HOk RUnit
  | ["ok"; v] -> HOk (RVal (z_of_string v))
  | ["len"; n] -> HOk (RLen (z_of_string n))
  | ["err"; "full"] -> HErr Common.EFull
  | ["err"; "empty"] -> HErr Common.EEmpty
  | ["err"; _] -> HErr Common.EOther
  | ["panic"] -> HPanic
  | _ -> failwith ("answer " ^ s)

(* printing dominates the replay of long histories: memoise the decimal text of the elements *)
let ztab : (coq_Z, string) Hashtbl.t = Hashtbl.create 4096
let zs z =
  match Hashtbl.find_opt ztab z with
  | Some s -> s
  | None ->
    let s = z_to_string z in
    if Hashtbl.length ztab < 200000 then Hashtbl.add ztab z s;
    s

let show_arr d =
  match d with
  | [] -> "noslot0"
  | _ :: t -> String.concat "," (List.map zs t)

let arr_of_string s =
  if s = "" || s = "-" then [] else List.map z_of_string (split_on ',' s)

let replay () =
  iter_lines (fun line ->
    match words line with
    | _variant :: c :: cap :: ops ->
      let cmp = cmp_of_string c in
      let p = ref (new_pq (z_of_string cap)) in
      let buf = Buffer.create 256 in
      let stop = ref false in
      List.iteri (fun i o ->
        if not !stop then begin
          let (p1, r) = step cmp !p (op_of_string o) in
          p := p1;
          if i > 0 then Buffer.add_char buf ';';
          Buffer.add_string buf (show_ans r);
          Buffer.add_char buf '|';
          if silent o && r <> HPanic then Buffer.add_string buf "-|-"   (* not observed after this op *)
          else begin
            Buffer.add_string buf (z_to_string (pq_len p1));
            Buffer.add_char buf '|';
            Buffer.add_string buf (show_arr p1.data)
          end;
          (match r with HPanic | HOutOfFuel -> stop := true | _ -> ())
        end) ops;
      print_endline (Buffer.contents buf)
    | _ -> print_endline "badcase")

let inv () =
  iter_lines (fun line ->
    match words line with
    | [c; a] -> print_endline (if heap_invb (cmp_of_string c) (Z0 :: arr_of_string a) then "true" else "false")
    | [c] -> print_endline (if heap_invb (cmp_of_string c) [Z0] then "true" else "false")
    | _ -> print_endline "badcase")

let spec () =
  iter_lines (fun line ->
    match words line with
    | c :: cap :: items ->
      let pairs = List.map (fun it ->
        match split_on '=' it with
        | [o; a] -> (op_of_string o, ans_of_string a)
        | _ -> failwith ("item " ^ it)) items in
      (match abs_first_reject (cmp_of_string c) (z_of_string cap) [] (List.map fst pairs) (List.map snd pairs) (nat_of_int 0) with
       | None -> print_endline "accept"
       | Some k -> print_endline ("reject " ^ string_of_int (int_of_nat k)))
    | _ -> print_endline "badcase")

let () =
  Registry.register "heap" (fun _ -> replay ());
  Registry.register "heap-inv" (fun _ -> inv ());
  Registry.register "heap-spec" (fun _ -> spec ())
