(* lock-step driver for ABQModel (ConcurrentArrayBlockingQueue; C07, C09): maps the model's
   program counters to the instrumenter's labels (= normalised source text of the statements of
   queue/concurrent_array_blocking_queue.go) and generates schedules biased towards the windows
   the two properties name: a CANCEL before the Acquire, while parked inside it, between the
   permit and the lock, after the lock; a Release while one or several waiters are parked.

   A schedule has three phases, all chosen by the model: random events (budget), wind-down
   (no new calls; every call in flight is stepped to its return, parked ones are cancelled) and,
   for some schedules, a sequential drain by goroutine 1 (AsSlice, Dequeue everything, then
   Enqueue exactly cap elements, which must all return without parking).

   SYNC pseudo-event (driver level, no model state change): "CALL 0 sync ..." asks the Go side to
   wait until the REAL semaphores have exactly the model's cur / number of waiters and the ring
   cursors the model's values.  It follows every step that parks a goroutine inside Acquire (so
   that the goroutine really is in the waiter list before the next event; FIFO order of waiters)
   and is inserted at random elsewhere as an extra white-box observation. *)
open Zutil
open ABQModel

let label_of_pc = function
  | EAcq -> Some "ConcurrentArrayBlockingQueue.Enqueue|err := c.enqueueCap.Acquire(ctx, 1)|0"
  | EPark -> None
  | EIfErr -> Some "ConcurrentArrayBlockingQueue.Enqueue|if err != nil|0"
  | ERetErr -> Some "ConcurrentArrayBlockingQueue.Enqueue|return err|0"
  | ELock -> Some "ConcurrentArrayBlockingQueue.Enqueue|c.mutex.Lock()|0"
  | EDefer -> Some "ConcurrentArrayBlockingQueue.Enqueue|defer c.mutex.Unlock()|0"
  | EIfCtx -> Some "ConcurrentArrayBlockingQueue.Enqueue|if ctx.Err() != nil|0"
  | ERelE -> Some "ConcurrentArrayBlockingQueue.Enqueue|c.enqueueCap.Release(1)|0"
  | ERetCtx -> Some "ConcurrentArrayBlockingQueue.Enqueue|return ctx.Err()|0"
  | EWrite -> Some "ConcurrentArrayBlockingQueue.Enqueue|c.data[c.tail] = t|0"
  | ETailInc -> Some "ConcurrentArrayBlockingQueue.Enqueue|c.tail++|0"
  | ECountInc -> Some "ConcurrentArrayBlockingQueue.Enqueue|c.count++|0"
  | EIfTail -> Some "ConcurrentArrayBlockingQueue.Enqueue|if c.tail == cap(c.data)|0"
  | ETailZero -> Some "ConcurrentArrayBlockingQueue.Enqueue|c.tail = 0|0"
  | ERelD -> Some "ConcurrentArrayBlockingQueue.Enqueue|c.dequeueCap.Release(1)|0"
  | ERetNil -> Some "ConcurrentArrayBlockingQueue.Enqueue|return nil|0"
  | DAcq -> Some "ConcurrentArrayBlockingQueue.Dequeue|err := c.dequeueCap.Acquire(ctx, 1)|0"
  | DPark -> None
  | DIfErr -> Some "ConcurrentArrayBlockingQueue.Dequeue|if err != nil|0"
  | DRetErr -> Some "ConcurrentArrayBlockingQueue.Dequeue|return res, err|0"
  | DLock -> Some "ConcurrentArrayBlockingQueue.Dequeue|c.mutex.Lock()|0"
  | DDefer -> Some "ConcurrentArrayBlockingQueue.Dequeue|defer c.mutex.Unlock()|0"
  | DIfCtx -> Some "ConcurrentArrayBlockingQueue.Dequeue|if ctx.Err() != nil|0"
  | DRelD -> Some "ConcurrentArrayBlockingQueue.Dequeue|c.dequeueCap.Release(1)|0"
  | DRetCtx -> Some "ConcurrentArrayBlockingQueue.Dequeue|return res, ctx.Err()|0"
  | DRead -> Some "ConcurrentArrayBlockingQueue.Dequeue|res = c.data[c.head]|0"
  | DZero -> Some "ConcurrentArrayBlockingQueue.Dequeue|c.data[c.head] = c.zero|0"
  | DHeadInc -> Some "ConcurrentArrayBlockingQueue.Dequeue|c.head++|0"
  | DCountDec -> Some "ConcurrentArrayBlockingQueue.Dequeue|c.count--|0"
  | DIfHead -> Some "ConcurrentArrayBlockingQueue.Dequeue|if c.head == cap(c.data)|0"
  | DHeadZero -> Some "ConcurrentArrayBlockingQueue.Dequeue|c.head = 0|0"
  | DRelE -> Some "ConcurrentArrayBlockingQueue.Dequeue|c.enqueueCap.Release(1)|0"
  | DRetOk -> Some "ConcurrentArrayBlockingQueue.Dequeue|return res, nil|0"
  | LRLock -> Some "ConcurrentArrayBlockingQueue.Len|c.mutex.RLock()|0"
  | LDefer -> Some "ConcurrentArrayBlockingQueue.Len|defer c.mutex.RUnlock()|0"
  | LRet -> Some "ConcurrentArrayBlockingQueue.Len|return c.count|0"
  | SRLock -> Some "ConcurrentArrayBlockingQueue.AsSlice|c.mutex.RLock()|0"
  | SDefer -> Some "ConcurrentArrayBlockingQueue.AsSlice|defer c.mutex.RUnlock()|0"
  | SMake -> Some "ConcurrentArrayBlockingQueue.AsSlice|res := make([]T, 0, c.count)|0"
  | SCnt -> Some "ConcurrentArrayBlockingQueue.AsSlice|cnt := 0|0"
  | SCap -> Some "ConcurrentArrayBlockingQueue.AsSlice|capacity := cap(c.data)|0"
  | SFor -> Some "ConcurrentArrayBlockingQueue.AsSlice|for cnt < c.count|0"
  | SIndex -> Some "ConcurrentArrayBlockingQueue.AsSlice|index := (c.head + cnt) % capacity|0"
  | SAppend -> Some "ConcurrentArrayBlockingQueue.AsSlice|res = append(res, c.data[index])|0"
  | SCntInc -> Some "ConcurrentArrayBlockingQueue.AsSlice|cnt++|0"
  | SRet -> Some "ConcurrentArrayBlockingQueue.AsSlice|return res|0"

let all_pcs = [EAcq; EPark; EIfErr; ERetErr; ELock; EDefer; EIfCtx; ERelE; ERetCtx; EWrite; ETailInc; ECountInc;
               EIfTail; ETailZero; ERelD; ERetNil; DAcq; DPark; DIfErr; DRetErr; DLock; DDefer; DIfCtx; DRelD;
               DRetCtx; DRead; DZero; DHeadInc; DCountDec; DIfHead; DHeadZero; DRelE; DRetOk; LRLock; LDefer; LRet;
               SRLock; SDefer; SMake; SCnt; SCap; SFor; SIndex; SAppend; SCntInc; SRet]

let lbl p = match label_of_pc p with Some l -> l | None -> "<parked inside Acquire: not a yield point>"

let zs = z_to_string
let ret_str = function
  | RNil -> "nil"
  | RCtx -> "ctx"
  | RVal v -> "val " ^ zs v
  | RLen n -> "len " ^ zs n
  | RSlice l -> "slice [" ^ String.concat "," (List.map zs l) ^ "]"

let obs_str (t, o) =
  (int_of_nat t,
   match o with
   | OAt p -> "at " ^ lbl p
   | ORet r -> "ret " ^ ret_str r
   | OPanic -> "panic -")

module Make_M (F : sig val name : string val focus : string end) = struct
  type phase = Random_phase | Wind_down | Drain of int | Stop
  (* the model configuration + the schedule generator's own bookkeeping (not part of the model) *)
  type cfg = {
    m : abq_cfg;
    cap : int;
    nthr : int;
    style : int;           (* 0 balanced, 1 producers ahead (full queue), 2 consumers ahead (empty queue), 3 cancel-heavy *)
    budget : int;          (* events of the random phase *)
    drain : bool;
    k : int;               (* events applied so far *)
    need_sync : bool;
    nextv : int;           (* next value to enqueue: distinct per call *)
    granted : int list;    (* waiters granted by a Release that have not yet left "if err != nil" *)
    phase : phase;
    dstep : int;           (* progress of the drain script *)
  }
  type ev = Ev of abq_ev | Sync
  let name = F.name

  let gen_params rng =
    let cap = 1 + Random.State.int rng 3 in
    let nthr = 2 + Random.State.int rng 4 in
    let style = Random.State.int rng 4 in
    let budget = 25 + Random.State.int rng 70 in
    let drain = if Random.State.int rng 4 = 0 then 1 else 0 in
    List.map string_of_int [cap; nthr; style; budget; drain]

  let init params =
    match List.map int_of_string params with
    | cap :: nthr :: style :: budget :: drain :: _ ->
      { m = abq_init (z_of_int cap); cap; nthr; style; budget; drain = drain = 1; k = 0; need_sync = false;
        nextv = 1; granted = []; phase = Random_phase; dstep = 0 }
    | _ -> failwith "abq: params = cap nthr style budget drain"

  let thr_list (c : cfg) = List.map (fun (t, th) -> (int_of_nat t, th)) c.m.q_thr
  let thr_of (c : cfg) t = try Some (List.assoc t (thr_list c)) with Not_found -> None
  let zi = int_of_z

  (* weighted random order without replacement (exponential keys) *)
  let worder rng (l : (float * 'a) list) : 'a list =
    let keyed = List.filter_map (fun (w, x) ->
        if w <= 0.0 then None
        else Some (-. (log (1e-12 +. Random.State.float rng 1.0)) /. w, x)) l in
    List.map snd (List.sort (fun (a, _) (b, _) -> compare a b) keyed)

  let c09 = F.focus = "c09"

  let cancel_weight (c : cfg) (th : abq_thr) =
    if th.t_can then 0.0
    else
      let base = (if c.style = 3 then 1.0 else 0.3) *. (if c09 then 1.5 else 1.0) in
      base *. (match th.t_pc with
          | EPark | DPark -> 1.2
          | EAcq | DAcq -> 0.8
          | EIfErr | DIfErr -> if th.t_err then 0.1 else 1.6
          | ELock | DLock -> 1.6
          | EDefer | DDefer | EIfCtx | DIfCtx -> 1.2
          | LRLock | LDefer | LRet -> 0.1
          | SRLock | SDefer | SMake | SCnt | SCap | SFor | SIndex | SAppend | SCntInc | SRet -> 0.05
          | _ -> 0.25)

  let random_candidates rng (c : cfg) =
    let count = zi c.m.q_count in
    let l = ref [] in
    for t = 1 to c.nthr do
      let n = nat_of_int t in
      match thr_of c t with
      | Some th ->
        (match th.t_pc with
         | EPark | DPark -> ()
         | _ -> l := (6.0, Ev (AStep n)) :: !l);
        l := (cancel_weight c th, Ev (ACancel n)) :: !l
      | None ->
        let we, wd =
          match c.style with
          | 1 -> 4.0, 1.5
          | 2 -> 1.5, 4.0
          | _ -> 3.0, 3.0 in
        (* towards parking: Enqueue on a full queue / Dequeue on an empty one *)
        let we = if c09 && count >= c.cap then we *. 1.8 else we in
        let wd = if c09 && count = 0 then wd *. 1.8 else wd in
        l := (we, Ev (ACall (n, OpEnq (z_of_int c.nextv)))) :: (wd, Ev (ACall (n, OpDeq)))
             :: (0.5, Ev (ACall (n, OpLen))) :: (0.4, Ev (ACall (n, OpSlice))) :: !l
    done;
    l := (0.6, Sync) :: !l;
    worder rng !l

  let wind_candidates rng (c : cfg) =
    let l = ref [] in
    List.iter (fun (t, th) ->
        let n = nat_of_int t in
        match th.t_pc with
        | EPark | DPark -> l := (1.0, Ev (ACancel n)) :: !l
        | _ -> l := (1.0, Ev (AStep n)) :: !l) (thr_list c);
    worder rng !l

  (* the drain script of goroutine 1: AsSlice, count x Dequeue, cap x Enqueue, Len *)
  let drain_script (c : cfg) (abs_len0 : int) =
    [OpSlice] @ List.init abs_len0 (fun _ -> OpDeq)
    @ List.init c.cap (fun i -> OpEnq (z_of_int (9000 + i))) @ [OpLen; OpSlice]

  let candidates rng (c : cfg) =
    if c.need_sync then [Sync]
    else match c.phase with
      | Random_phase -> random_candidates rng c
      | Wind_down -> wind_candidates rng c
      | Drain n0 ->
        (match thr_of c 1 with
         | Some _ -> [Ev (AStep (nat_of_int 1))]
         | None ->
           (match List.nth_opt (drain_script c n0) c.dstep with
            | Some op -> [Ev (ACall (nat_of_int 1, op))]
            | None -> []))
      | Stop -> []

  let sem_str (s : sem) = Printf.sprintf "%d %d" (zi s.s_cur) (List.length s.s_wait)

  let advance_phase (c : cfg) : cfg =
    match c.phase with
    | Random_phase when c.k >= c.budget -> { c with phase = Wind_down }
    | Wind_down when c.m.q_thr = [] && not c.need_sync ->
      if c.drain then { c with phase = Drain (zi c.m.q_count); dstep = 0; need_sync = true }
      else { c with phase = Stop; need_sync = true }
    | Drain n0 when c.m.q_thr = [] && c.dstep >= List.length (drain_script c n0) && not c.need_sync ->
      { c with phase = Stop; need_sync = true }
    | _ -> c

  let is_parked_pc = function EPark | DPark -> true | _ -> false

  let apply (c : cfg) (e : ev) : (cfg * Lockstep.expect list) option =
    match e with
    | Sync ->
      let c' = { c with need_sync = false; k = c.k + 1 } in
      Some ((match c'.phase with Stop -> c' | _ -> advance_phase c'), [(0, "ret ok")])
    | Ev me ->
      (match abq_exec1 c.m me with
       | None -> None
       | Some (m', obs) ->
         let parked_now =
           match me with
           | AStep t -> (match Conc.lookup t m'.q_thr with Some th -> is_parked_pc th.t_pc | None -> false)
           | _ -> false in
         let nextv = (match me with ACall (_, OpEnq _) -> c.nextv + 1 | _ -> c.nextv) in
         let dstep = (match c.phase, me with Drain _, ACall _ -> c.dstep + 1 | _ -> c.dstep) in
         (* bookkeeping for the "granted-then-cancelled" tag *)
         let self = (match me with AStep t | ACancel t | ACall (t, _) -> int_of_nat t) in
         let woken_by_release =
           (match me with
            | AStep _ -> List.filter_map (fun (t, o) ->
                let t = int_of_nat t in
                match o with OAt (EIfErr | DIfErr) when t <> self -> Some t | _ -> None) obs
            | _ -> []) in
         let granted =
           woken_by_release @
           List.filter (fun t ->
               match me with
               | AStep t' when int_of_nat t' = t -> false
               | _ -> true) c.granted in
         let c' = { c with m = m'; need_sync = parked_now; nextv; granted; k = c.k + 1; dstep } in
         Some (advance_phase c', List.map obs_str obs))

  let line = function
    | Sync -> "SYNC"   (* replaced in [line_cfg]; kept for parse symmetry *)
    | Ev (ACall (t, OpEnq v)) -> Printf.sprintf "CALL %d enqueue %s" (int_of_nat t) (zs v)
    | Ev (ACall (t, OpDeq)) -> Printf.sprintf "CALL %d dequeue" (int_of_nat t)
    | Ev (ACall (t, OpLen)) -> Printf.sprintf "CALL %d len" (int_of_nat t)
    | Ev (ACall (t, OpSlice)) -> Printf.sprintf "CALL %d asslice" (int_of_nat t)
    | Ev (AStep t) -> Printf.sprintf "STEP %d" (int_of_nat t)
    | Ev (ACancel t) -> Printf.sprintf "CANCEL %d" (int_of_nat t)

  let parse s =
    match words s with
    | "CALL" :: "0" :: "sync" :: _ -> Sync
    | ["SYNC"] -> Sync
    | ["CALL"; t; "enqueue"; v] -> Ev (ACall (nat_of_int (int_of_string t), OpEnq (z_of_string v)))
    | ["CALL"; t; "dequeue"] -> Ev (ACall (nat_of_int (int_of_string t), OpDeq))
    | ["CALL"; t; "len"] -> Ev (ACall (nat_of_int (int_of_string t), OpLen))
    | ["CALL"; t; "asslice"] -> Ev (ACall (nat_of_int (int_of_string t), OpSlice))
    | ["STEP"; t] -> Ev (AStep (nat_of_int (int_of_string t)))
    | ["CANCEL"; t] -> Ev (ACancel (nat_of_int (int_of_string t)))
    | _ -> failwith ("parse: " ^ s)

  let tags (c : cfg) (e : ev) (c' : cfg) : string list =
    match e with
    | Sync -> ["sync"]
    | Ev me ->
      let inflight = List.length c.m.q_thr in
      let nparked = List.length (List.filter (fun (_, th) -> is_parked_pc th.t_pc) c.m.q_thr) in
      let obs = (match abq_exec1 c.m me with Some (_, o) -> o | None -> []) in
      let wakes = List.length obs >= 2 in
      (match me with
       | ACancel t ->
         (match Conc.lookup t c.m.q_thr with
          | Some th ->
            (match th.t_pc with
             | EAcq | DAcq -> ["cancel-before-acquire"]
             | EPark | DPark -> ["cancel-while-parked"] @ (if nparked >= 2 then ["cancel-one-of-several-waiters"] else [])
             | EIfErr | DIfErr | ELock | DLock ->
               if th.t_err then ["cancel-after-error"]
               else ["cancel-between-permit-and-lock"]
                    @ (if List.mem (int_of_nat t) c.granted then ["granted-then-cancelled"] else [])
             | EDefer | DDefer | EIfCtx | DIfCtx -> ["cancel-after-lock"]
             | LRLock | LDefer | LRet | SRLock | SDefer | SMake | SCnt | SCap | SFor | SIndex | SAppend | SCntInc | SRet ->
               ["cancel-of-a-reader"]
             | _ -> ["cancel-after-the-ctx-check"])
          | None -> [])
       | AStep t ->
         (match Conc.lookup t c.m.q_thr with
          | Some th ->
            (match th.t_pc with
             | EAcq | DAcq ->
               (match Conc.lookup t c'.m.q_thr with
                | Some th' when is_parked_pc th'.t_pc -> ["park"] @ (if nparked >= 1 then ["second-waiter-parks"] else [])
                | Some th' when th'.t_err -> ["acquire-with-cancelled-ctx-fails"]
                | Some _ when th.t_can -> ["acquire-fast-path-with-cancelled-ctx"]
                | _ -> ["acquire-fast-path"])
             | ERelE | DRelD -> ["ctx-exit-gives-permit-back"] @ (if wakes then ["ctx-exit-wakes-waiter"] else [])
             | ERelD | DRelE ->
               (if wakes then ["waiter-woken-by-release"] else [])
               @ (if wakes && nparked >= 2 then ["two-waiters-fifo"] else [])
             | ETailZero -> ["tail-wraps"]
             | DHeadZero -> ["head-wraps"]
             | ERetCtx | DRetCtx | ERetErr | DRetErr -> ["returns-ctx-error"]
             | LRet -> ["len-sample"]
             | SRet -> ["asslice-sample"] @ (if zi c.m.q_head + zi c.m.q_count > c.cap then ["asslice-wrapped"] else [])
             | _ -> [])
          | None -> [])
       | ACall _ -> [])
      @ (if inflight >= 2 then ["two-or-more-calls-in-flight"] else [])
      @ (match c.phase, c'.phase with
          | Wind_down, (Drain _ | Stop) -> ["quiescent"]
          | Drain _, Stop -> ["drained-and-refilled"]
          | _ -> [])

  let labels = List.filter_map label_of_pc all_pcs
  let funcs = ["ConcurrentArrayBlockingQueue.Enqueue"; "ConcurrentArrayBlockingQueue.Dequeue";
               "ConcurrentArrayBlockingQueue.Len"; "ConcurrentArrayBlockingQueue.AsSlice"]
  let nontrivial = ["cancel-while-parked"; "cancel-between-permit-and-lock"; "cancel-after-lock";
                    "waiter-woken-by-release"; "two-waiters-fifo"; "granted-then-cancelled";
                    "ctx-exit-wakes-waiter"; "cancel-one-of-several-waiters"]

  (* the model's own invariants evaluated on the final configuration (a test, not the proof) *)
  let final_check (c : cfg) =
    let m = c.m in
    let cnt f = zi (Conc.count f m.q_thr) in
    let free_e = zi (s_free m.q_enq) and free_d = zi (s_free m.q_deq) in
    let n = zi (abs_len m) in
    if free_e + cnt held_e + n + cnt owes_e <> c.cap then Some "enqueue-side permit ledger broken in the model"
    else if free_d + cnt held_d + cnt owes_d <> n then Some "dequeue-side permit ledger broken in the model"
    else if n < 0 || n > c.cap then Some "abstract length outside 0..cap in the model"
    else if (match c.phase with Drain _ -> true | _ -> false) && c.k < 5000
    then Some "the sequential drain/refill after quiescence did not run to completion in the model"
    else None
end

(* the SYNC line carries the model's semaphore and cursor values; [line] has no access to the
   configuration, so the wrapper below renders it when the event is applied *)
module Wrap (F : sig val name : string val focus : string end) : Lockstep.MODEL = struct
  module B = Make_M (F)
  type cfg = B.cfg
  type ev = Plain of B.ev | SyncLine of string
  let name = B.name
  let gen_params = B.gen_params
  let init = B.init
  let sync_line (c : B.cfg) =
    Printf.sprintf "CALL 0 sync %s %s %d %d %d" (B.sem_str c.B.m.q_enq) (B.sem_str c.B.m.q_deq)
      (int_of_z c.B.m.q_head) (int_of_z c.B.m.q_tail) (int_of_z c.B.m.q_count)
  let candidates rng c =
    List.map (function B.Sync -> SyncLine (sync_line c) | e -> Plain e) (B.candidates rng c)
  let base = function Plain e -> e | SyncLine _ -> B.Sync
  let apply c e =
    match e with
    | SyncLine l when words l <> words (sync_line c) -> None     (* replayed SYNC that does not fit the model state *)
    | _ -> B.apply c (base e)
  let line = function Plain e -> B.line e | SyncLine l -> l
  let parse s =
    match B.parse s with
    | B.Sync -> SyncLine s
    | e -> Plain e
  let tags c e c' = B.tags c (base e) c'
  let final_check = B.final_check
  let labels = B.labels
  let funcs = B.funcs
  let nontrivial = B.nontrivial
end

module W07 = Wrap (struct let name = "abq" let focus = "c07" end)
module W09 = Wrap (struct let name = "abq" let focus = "c09" end)
module L07 = Lockstep.Make (W07)
module L09 = Lockstep.Make (W09)
let () = Registry.register "abq-lockstep" L07.main
let () = Registry.register "abq-c09-lockstep" L09.main
