(* driver for RetryModel (C19): one case per line -> one observable per line
     seq exp <init> <max> <maxr> <n> | seq fixed <interval> <maxr> <n>
     probe exp <init> <max> <maxr> <r0> <flag> | probe fixed <interval> <maxr> <r0> <flag>
     conc exp <init> <max> <maxr> <G> <perG> <seed> | conc fixed <interval> <maxr> <G> <perG> <seed>
     retry <exp:init:max:maxr|fixed:interval:maxr> <none|after:k|deadline:ns> <f<ns>,o<ns>,...>
   argument "pinned": the exponential strategy before 672671a;
   "ticker1" / "ticker0": Retry before b47c510 under asynctimerchan=1 / =0 *)
open Zutil
open RetryModel

let zs = z_to_string
let b01 b = if b then "1" else "0"

let ctor variant = function
  | "exp" :: i :: m :: r :: rest -> (new_exp variant (z_of_string i) (z_of_string m) (z_of_string r), rest)
  | "fixed" :: i :: r :: rest -> (new_fixed (z_of_string i) (z_of_string r), rest)
  | _ -> failwith "strategy"

let show_ctor_err = function
  | CtorErrInterval -> "err interval"
  | CtorErrMaxInterval -> "err maxinterval"
  | CtorOk _ -> "ok"

let answer (iv, ok) = zs iv ^ ":" ^ b01 ok

let zle a b = BinInt.Z.leb a b

let case variant ticker line =
  match words line with
  | "seq" :: rest ->
    (match ctor variant rest with
     | (CtorOk p, [n]) ->
       let (_, l) = run p s0 (nat_of_int (int_of_string n)) in
       String.concat " " ("ok" :: List.map answer l)
     | (e, _) -> show_ctor_err e)
  | "probe" :: rest ->
    (match ctor variant rest with
     | (CtorOk p, [r0; fl]) ->
       let (s, a) = probe p (z_of_string r0) (fl = "1") in
       Printf.sprintf "ok %s retries=%s flag=%s" (answer a) (zs s.retries) (b01 s.reached)
     | (e, _) -> show_ctor_err e)
  | "conc" :: rest ->
    (match ctor variant rest with
     | (CtorOk p, [g; per; seed]) ->
       let g = int_of_string g and per = int_of_string per in
       let rng = Random.State.make [| int_of_string seed |] in
       let left = Array.make g per in            (* calls not yet started *)
       let c = ref init_config in
       let inflight t = lookup (nat_of_int t) !c.c_fl <> None in
       let live () = List.filter (fun t -> left.(t) > 0 || inflight t) (List.init g (fun t -> t)) in
       let rec loop () =
         match live () with
         | [] -> ()
         | ts ->
           let t = List.nth ts (Random.State.int rng (List.length ts)) in
           if not (inflight t) then left.(t) <- left.(t) - 1;
           c := step p !c (nat_of_int t);
           loop () in
       loop ();
       let bad = List.filter (fun e ->
           if e.ev_ok then not (zle p.p_init e.ev_iv && zle e.ev_iv p.p_max)
           else e.ev_iv <> BinNums.Z0) !c.c_hist in
       Printf.sprintf "okcount=%d bad=%d" (int_of_nat (count_ok !c.c_hist)) (List.length bad)
     | (e, _) -> show_ctor_err e)
  | ["retry"; strat; cancel; script] ->
    (match ctor variant (split_on ':' strat) with
     | (CtorOk p, []) ->
       let att i s =
         let d = z_of_string (String.sub s 1 (String.length s - 1)) in
         { a_res = (if s.[0] = 'o' then AOk else AFail (nat_of_int (i + 1))); a_dur = d; a_tie = false } in
       let script = List.mapi att (split_on ',' script) in
       let go c = match ticker with
         | None -> retry_now p c script
         | Some drain -> retry_pinned drain p c script in
       let cancel_at =
         match split_on ':' cancel with
         | ["none"] -> None
         | ["deadline"; ns] -> Some (z_of_string ns)
         | ["after"; k] ->
           let (tr, _) = go None in
           (match List.nth_opt tr (int_of_string k - 1) with Some v -> Some v.i_end | None -> None)
         | _ -> failwith "cancel" in
       let (tr, r) = go cancel_at in
       let res = match r with
         | RNil -> "nil" | RExhausted _ -> "exhausted" | RCtx -> "ctx"
         | ROutOfScript -> "outofscript" | RPanic -> "panic" in
       let last = match r with RExhausted e -> string_of_int (int_of_nat e) | _ -> "-" in
       Printf.sprintf "n=%d res=%s | lasterr=%s trace=%s" (List.length tr) res last
         (String.concat "," (List.map (fun v -> zs v.i_start ^ "-" ^ zs v.i_end ^
            (match v.i_wait with Some w -> "+" ^ zs w | None -> "")) tr))
     | (e, _) -> show_ctor_err e)
  | ["vretry"; strat; cancel; tie; script] ->
    (* virtual-clock run: strat may be "script:iv:ok;iv:ok;..." (a Strategy answering from a list, then (0,false));
       cancel = none | at:<ns>[:kind]; tie = c | t (who wins when ctx and timer are ready at the same instant) *)
    let att i s =
      let d = z_of_string (String.sub s 1 (String.length s - 1)) in
      { a_res = (if s.[0] = 'o' then AOk else AFail (nat_of_int (i + 1))); a_dur = d; a_tie = (tie = "c") } in
    let script = List.mapi att (split_on ',' script) in
    let cancel_at = match split_on ':' cancel with
      | "at" :: ns :: _ -> Some (z_of_string ns)
      | _ -> None in
    let show (tr, r) =
      let res = match r with
        | RNil -> "nil" | RExhausted _ -> "exhausted" | RCtx -> "ctx"
        | ROutOfScript -> "outofscript" | RPanic -> "panic" in
      let last = match r with RExhausted e -> string_of_int (int_of_nat e) | _ -> "-" in
      Printf.sprintf "n=%d res=%s | lasterr=%s trace=%s" (List.length tr) res last
        (String.concat "," (List.map (fun v -> zs v.i_start ^ "-" ^ zs v.i_end ^
           (match v.i_wait with Some w -> "+" ^ zs w | None -> "")) tr)) in
    (match split_on ':' strat with
     | ["script"; l] ->
       let ans = List.filter (fun x -> x <> "") (split_on ';' l) in
       let ans = List.map (fun a -> match split_on '/' a with
           | [iv; ok] -> (z_of_string iv, ok = "1") | _ -> failwith "answer") ans in
       let nxt = function a :: t -> (t, a) | [] -> ([], (BinNums.Z0, false)) in
       show (retry nxt cancel_at BinNums.Z0 ans script)
     | ws ->
       (match ctor variant ws with
        | (CtorOk p, []) -> show (retry (next p) cancel_at BinNums.Z0 s0 script)
        | (e, _) -> show_ctor_err e))
  | _ -> "badcase"

let run variant ticker = iter_lines (fun line -> print_endline (case variant ticker line))

let () =
  Registry.register "retry" (fun args ->
    match args with
    | ["pinned"] -> run VPinned None
    | ["ticker1"] -> run VNow (Some false)
    | ["ticker0"] -> run VNow (Some true)
    | _ -> run VNow None)
