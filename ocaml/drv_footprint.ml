(* driver for FootprintModel (C15): prints the DECLARED footprint tables, one line per
   (type, function, statement label, location, access kind, guard), tab separated:
     ROW <type> <func> <stmt> <loc> <kind> <guard>      rows of all_tables
     PINNED <table> <type> <func> <stmt> <loc> <kind> <guard>   rows of the pinned (refuted) tables
     DISC <type> <loc> <discipline>                     what `classify` computes per location
     DISCIPLINED <type> true|false                      `disciplined` per table (extracted checker)
     CTOR <Type.method>                                 constructor-only helper methods
   Part of the trusted driver (printing only). *)
let str (s : String0.string) : string =
  let b = Buffer.create 64 in
  let rec go (s : String0.string) =
    match s with
    | String0.EmptyString -> ()
    | String0.String (Ascii.Ascii (b0, b1, b2, b3, b4, b5, b6, b7), r) ->
      let bit x k = if x then 1 lsl k else 0 in
      Buffer.add_char b (Char.chr (bit b0 0 + bit b1 1 + bit b2 2 + bit b3 3 + bit b4 4 + bit b5 5 + bit b6 6 + bit b7 7));
      go r
  in
  go s; Buffer.contents b

let clean s = String.map (fun c -> if c = '\t' || c = '\n' then ' ' else c) s

let kind (k : FootprintModel.akind) = match k with
  | FootprintModel.KRead -> "read" | FootprintModel.KWrite -> "write" | FootprintModel.KARead -> "aread"
  | FootprintModel.KAWrite -> "awrite" | FootprintModel.KARmw -> "armw"
  | FootprintModel.KSync o -> "sync:" ^ str o | FootprintModel.KDelegate o -> "delegate:" ^ str o

let mode (m : HB.mode) = match m with HB.Excl -> "E" | HB.Shared -> "S"

let guard (g : FootprintModel.guard) = match g with
  | FootprintModel.GNone -> "none" | FootprintModel.GConst -> "const"
  | FootprintModel.GLock (l, m) -> "lock:" ^ str l ^ ":" ^ mode m
  | FootprintModel.GPubBefore o -> "pub-before:" ^ str o
  | FootprintModel.GPubAfter o -> "pub-after:" ^ str o

let disc (d : FootprintModel.discipline option) = match d with
  | None -> "NONE"
  | Some FootprintModel.DAtomic -> "atomic" | Some FootprintModel.DConst -> "const"
  | Some (FootprintModel.DLocked l) -> "locked:" ^ str l | Some FootprintModel.DPublished -> "published"
  | Some (FootprintModel.DInitLocked l) -> "init-locked:" ^ str l

let row prefix (r : FootprintModel.row) =
  print_endline (String.concat "\t" (prefix @ [str r.FootprintModel.r_type; str r.FootprintModel.r_func;
    clean (str r.FootprintModel.r_stmt); str r.FootprintModel.r_loc; kind r.FootprintModel.r_kind; guard r.FootprintModel.r_guard]))

let run _ =
  List.iter (fun (name, t) ->
      List.iter (row ["ROW"]) t;
      let locs = List.sort_uniq compare (List.map str (FootprintModel.mem_locs t)) in
      List.iter (fun (r : FootprintModel.row) -> ignore r) t;
      List.iter (fun x ->
          (* find the Coq string of this location again: classify takes the Coq string *)
          let cx = List.find (fun c -> str c = x) (FootprintModel.mem_locs t) in
          print_endline (String.concat "\t" ["DISC"; str name; x; disc (FootprintModel.classify t cx)])) locs;
      print_endline (String.concat "\t" ["DISCIPLINED"; str name; string_of_bool (FootprintModel.disciplined t)]))
    FootprintModel.all_tables;
  List.iter (row ["PINNED"; "cow_pinned_table"]) FootprintModel.cow_pinned_table;
  List.iter (row ["PINNED"; "cond_pinned_table"]) FootprintModel.cond_pinned_table;
  print_endline (String.concat "\t" ["DISCIPLINED"; "cow_pinned_table"; string_of_bool (FootprintModel.disciplined FootprintModel.cow_pinned_table)]);
  print_endline (String.concat "\t" ["DISCIPLINED"; "cond_pinned_table"; string_of_bool (FootprintModel.disciplined FootprintModel.cond_pinned_table)]);
  List.iter (fun c -> print_endline ("CTOR\t" ^ str c)) FootprintModel.ctor_only

let () = Registry.register "footprint" run
