(* placeholder *)
let () = Registry.register "footprint" (fun _ -> ())
