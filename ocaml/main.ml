let () =
  match Array.to_list Sys.argv with
  | [_; "value"] -> Drv_value.run false
  | [_; "value-pinned"] -> Drv_value.run true
  | _ -> prerr_endline "usage: modelrun <model>"; exit 2
