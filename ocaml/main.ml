let () = Registry.dispatch ()
