#!/bin/bash
# Extract the Coq models and build the model runner.
#   bash build.sh                       all models -> ocaml/modelrun
#   ONLY="list value" OUT=/tmp/x/modelrun bash build.sh   only those extract.d/<n>.txt + drv_<n>*.ml (private build)
# ocaml/extract.d/<name>.txt: lines "Require <Module>" and qualified names to extract.
# Extraction uses ExtrOcamlBasic only; nat/positive/N/Z stay Coq datatypes; no Extract Constant.
set -e
cd "$(dirname "$0")"
HERE=$(pwd)
OUT=${OUT:-$HERE/modelrun}
B=$(mktemp -d /tmp/modelrun_build.XXXXXX)
trap 'rm -rf "$B"' EXIT
if [ -n "$ONLY" ]; then
  LISTS=""; DRVS=""
  for n in $ONLY; do LISTS="$LISTS extract.d/$n.txt"; DRVS="$DRVS $(ls drv_$n*.ml)"; done
else
  LISTS=$(ls extract.d/*.txt); DRVS=$(ls drv_*.ml)
fi
{
  echo "From Coq Require Extraction."
  echo "From Coq Require Import ExtrOcamlBasic ZArith NArith List."
  echo "From Ekit Require Import Common."
  cat $LISTS | grep '^Require ' | sort -u | sed 's/^Require \(.*\)$/From Ekit Require \1./'
  echo "Extraction Language OCaml."
  echo "Extraction Blacklist List String Buffer Char Printf Hashtbl Array Sys Stdlib Random Bytes."
  echo "Separate Extraction"
  echo "  Z.add Z.mul Z.sub Z.opp Z.div_eucl Z.div Z.modulo Z.of_nat Z.to_nat Z.of_N Z.to_N"
  echo "  Z.eqb Z.ltb Z.leb Z.compare Nat.add N.add N.of_nat N.to_nat Pos.succ"
  cat $LISTS | grep -v '^Require ' | grep -v '^\s*$' | grep -v '^#' | sed 's/^/  /'
  echo "."
} > $B/Extract.v
(cd $B && coqc -Q $HERE/../coq/theories Ekit Extract.v >/dev/null)
cp zutil.ml registry.ml lockstep.ml $DRVS main.ml $B/
cd $B
rm -f Extract.v Extract.vo Extract.glob
ORDER=$(ocamlfind ocamldep -sort $(ls *.mli *.ml | grep -v '^main.ml$'))
ocamlfind ocamlopt -O3 -w -a -o modelrun.new $ORDER main.ml 2>/dev/null || ocamlfind ocamlopt -w -a -o modelrun.new $ORDER main.ml
mv modelrun.new "$OUT"
if [ -z "$ONLY" ]; then rm -rf $HERE/gen; mkdir -p $HERE/gen; cp *.ml *.mli $HERE/gen/ 2>/dev/null || true; fi
