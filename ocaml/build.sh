#!/bin/bash
# Extract the Coq models into ocaml/gen and build ocaml/modelrun.
set -e
cd "$(dirname "$0")"
rm -rf gen _build && mkdir -p gen _build
(cd gen && coqc -Q ../../coq/theories Ekit ../../coq/theories/extract/Extract.v >/dev/null)
cp gen/*.ml gen/*.mli _build/
cp zutil.ml drv_*.ml main.ml _build/
cd _build
GEN=$(cd ../gen && ls *.ml)
ORDER=$(ocamlfind ocamldep -sort *.mli *.ml)
ocamlfind ocamlopt -O2 -w -a -o ../modelrun $ORDER 2>/dev/null || ocamlfind ocamlopt -w -a -o ../modelrun $ORDER
