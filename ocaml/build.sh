#!/bin/bash
# Extract the Coq models into ocaml/gen and build ocaml/modelrun.
# ocaml/extract.d/<name>.txt: lines "Require <Module>" and qualified names to extract.
# Extraction uses ExtrOcamlBasic only; nat/positive/N/Z stay Coq datatypes; no Extract Constant.
set -e
cd "$(dirname "$0")"
rm -rf gen _build && mkdir -p gen _build
{
  echo "From Coq Require Extraction."
  echo "From Coq Require Import ExtrOcamlBasic ZArith NArith List."
  echo "From Ekit Require Import Common."
  cat extract.d/*.txt | grep '^Require ' | sort -u | sed 's/^Require \(.*\)$/From Ekit Require \1./'
  echo "Extraction Language OCaml."
  echo "Separate Extraction"
  echo "  Z.add Z.mul Z.sub Z.opp Z.div_eucl Z.div Z.modulo Z.of_nat Z.to_nat Z.of_N Z.to_N"
  echo "  Z.eqb Z.ltb Z.leb Z.compare Nat.add N.add N.of_nat N.to_nat Pos.succ"
  cat extract.d/*.txt | grep -v '^Require ' | grep -v '^\s*$' | grep -v '^#' | sed 's/^/  /'
  echo "."
} > gen/Extract.v
(cd gen && coqc -Q ../../coq/theories Ekit Extract.v >/dev/null)
cp gen/*.ml gen/*.mli _build/
cp zutil.ml registry.ml drv_*.ml main.ml _build/
cd _build
ORDER=$(ocamlfind ocamldep -sort $(ls *.mli *.ml | grep -v '^main.ml$'))
ocamlfind ocamlopt -O3 -w -a -o ../modelrun $ORDER main.ml 2>/dev/null || ocamlfind ocamlopt -w -a -o ../modelrun $ORDER main.ml
