(* lock-step driver for CLQModel (C06, C15): maps the model's program counters to the
   instrumenter's labels (= normalised source text of the statements of
   queue/concurrent_linked_queue.go) and generates schedules biased towards the windows
   property C06 names: an Enqueue parked between its link CAS and its tail CAS while the
   other goroutines run, Dequeues racing for the same head, Enqueues racing for the same
   tail.next. *)
open Zutil
open CLQModel

let label_of_pc = function
  | EnqNewNode -> "ConcurrentLinkedQueue.Enqueue|newNode := &node[T]{val: t}|0"
  | EnqNewPtr -> "ConcurrentLinkedQueue.Enqueue|newPtr := unsafe.Pointer(newNode)|0"
  | EnqFor -> "ConcurrentLinkedQueue.Enqueue|for|0"
  | EnqLoadTail -> "ConcurrentLinkedQueue.Enqueue|tailPtr := atomic.LoadPointer(&c.tail)|0"
  | EnqTail -> "ConcurrentLinkedQueue.Enqueue|tail := (*node[T])(tailPtr)|0"
  | EnqLoadNext -> "ConcurrentLinkedQueue.Enqueue|tailNext := atomic.LoadPointer(&tail.next)|0"
  | EnqIfNext -> "ConcurrentLinkedQueue.Enqueue|if tailNext != nil|0"
  | EnqContinue -> "ConcurrentLinkedQueue.Enqueue|continue|0"
  | EnqLinkCAS -> "ConcurrentLinkedQueue.Enqueue|if atomic.CompareAndSwapPointer(&tail.next, tailNext, newPtr)|0"
  | EnqTailCAS -> "ConcurrentLinkedQueue.Enqueue|atomic.CompareAndSwapPointer(&c.tail, tailPtr, newPtr)|0"
  | EnqRet -> "ConcurrentLinkedQueue.Enqueue|return nil|0"
  | DeqFor -> "ConcurrentLinkedQueue.Dequeue|for|0"
  | DeqLoadHead -> "ConcurrentLinkedQueue.Dequeue|headPtr := atomic.LoadPointer(&c.head)|0"
  | DeqHead -> "ConcurrentLinkedQueue.Dequeue|head := (*node[T])(headPtr)|0"
  | DeqLoadTail -> "ConcurrentLinkedQueue.Dequeue|tailPtr := atomic.LoadPointer(&c.tail)|0"
  | DeqTail -> "ConcurrentLinkedQueue.Dequeue|tail := (*node[T])(tailPtr)|0"
  | DeqIfEq -> "ConcurrentLinkedQueue.Dequeue|if head == tail|0"
  | DeqRetEmpty -> "ConcurrentLinkedQueue.Dequeue|return t, queue.ErrEmptyQueue|0"
  | DeqLoadNext -> "ConcurrentLinkedQueue.Dequeue|headNextPtr := atomic.LoadPointer(&head.next)|0"
  | DeqCASHead -> "ConcurrentLinkedQueue.Dequeue|if atomic.CompareAndSwapPointer(&c.head, headPtr, headNextPtr)|0"
  | DeqHeadNext -> "ConcurrentLinkedQueue.Dequeue|headNext := (*node[T])(headNextPtr)|0"
  | DeqRetVal -> "ConcurrentLinkedQueue.Dequeue|return headNext.val, nil|0"

let all_pcs = [EnqNewNode; EnqNewPtr; EnqFor; EnqLoadTail; EnqTail; EnqLoadNext; EnqIfNext; EnqContinue;
               EnqLinkCAS; EnqTailCAS; EnqRet; DeqFor; DeqLoadHead; DeqHead; DeqLoadTail; DeqTail; DeqIfEq;
               DeqRetEmpty; DeqLoadNext; DeqCASHead; DeqHeadNext; DeqRetVal]

let nil_panic = "panic runtime error: invalid memory address or nil pointer dereference"

module M = struct
  (* the model configuration + the schedule generator's own bookkeeping (not part of the model) *)
  type cfg = {
    m : clq_cfg;
    nthr : int;              (* goroutines 1..nthr *)
    maxcalls : int;          (* calls per goroutine *)
    pdeq : int;              (* percentage of Dequeue among new calls *)
    park : int;              (* events granted to OTHER goroutines while an Enqueue sits between its two CASes; 0 = no bias *)
    calls : (int * int) list;   (* tid -> calls issued *)
    nextv : int;             (* next value to enqueue: distinct per call *)
    park_left : int;
  }
  type ev = clq_ev
  let name = "clq"

  let gen_params rng =
    let nthr = 2 + Random.State.int rng 3 in
    let maxcalls = 1 + Random.State.int rng 6 in
    let pdeq = [| 50; 50; 30; 70; 50; 40 |].(Random.State.int rng 6) in
    let park = [| 0; 0; 6; 15; 30; 60 |].(Random.State.int rng 6) in
    List.map string_of_int [nthr; maxcalls; pdeq; park]

  let init params =
    match List.map int_of_string params with
    | nthr :: maxcalls :: pdeq :: park :: _ ->
      { m = clq_init; nthr; maxcalls; pdeq; park; calls = []; nextv = 1; park_left = 0 }
    | _ -> failwith "clq: params = nthr maxcalls pdeq park"

  let ncalls c t = try List.assoc t c.calls with Not_found -> 0
  let thr_list (c : cfg) = List.map (fun (t, l) -> (int_of_nat t, l)) c.m.q_thr
  let pc_of (c : cfg) t = try Some (List.assoc t (thr_list c)).q_pc with Not_found -> None
  let parked_thread (c : cfg) =
    List.fold_left (fun acc (t, l) -> if l.q_pc = EnqTailCAS then Some t else acc) None (thr_list c)

  let shuffle rng l =
    let a = Array.of_list l in
    for i = Array.length a - 1 downto 1 do
      let j = Random.State.int rng (i + 1) in
      let x = a.(i) in a.(i) <- a.(j); a.(j) <- x
    done;
    Array.to_list a

  let candidates rng (c : cfg) =
    let tids = List.init c.nthr (fun i -> i + 1) in
    let per t =
      match pc_of c t with
      | Some _ -> [QStep (nat_of_int t); QStep (nat_of_int t); QStep (nat_of_int t)]
      | None ->
        if ncalls c t >= c.maxcalls then []
        else if Random.State.int rng 100 < c.pdeq then [QCallDeq (nat_of_int t)]
        else [QCallEnq (nat_of_int t, z_of_int c.nextv)] in
    let all = shuffle rng (List.concat_map per tids) in
    (* the bias: while an Enqueue sits between its link CAS and its tail CAS, let the others run *)
    match parked_thread c with
    | Some p when c.park_left > 0 ->
      let mine, others = List.partition (function QStep t -> int_of_nat t = p | _ -> false) all in
      others @ mine
    | _ -> all

  let obs_str t = function
    | QAt p -> (t, "at " ^ label_of_pc p)
    | QRet REnq -> (t, "ret nil")
    | QRet (RDeq (Some v)) -> (t, "ret v:" ^ z_to_string v)
    | QRet (RDeq None) -> (t, "ret empty")
    | QPanic -> (t, nil_panic)
  let tid_of = function QCallEnq (t, _) | QCallDeq t | QStep t -> int_of_nat t

  let apply (c : cfg) e =
    match clq_exec1 c.m e with
    | None -> None
    | Some (m', o) ->
      let t = tid_of e in
      let was_parked = parked_thread c in
      let c' = { c with m = m' } in
      let c' = (match e with
          | QCallEnq _ -> { c' with calls = (t, ncalls c t + 1) :: List.remove_assoc t c.calls; nextv = c.nextv + 1 }
          | QCallDeq _ -> { c' with calls = (t, ncalls c t + 1) :: List.remove_assoc t c.calls }
          | QStep _ -> c') in
      let c' = (match was_parked, parked_thread c' with
          | None, Some _ -> { c' with park_left = c.park }
          | Some p, Some _ when p <> t -> { c' with park_left = max 0 (c.park_left - 1) }
          | _, None -> { c' with park_left = 0 }
          | _ -> c') in
      Some (c', [obs_str t o])

  let line = function
    | QCallEnq (t, v) -> Printf.sprintf "CALL %d enq %s" (int_of_nat t) (z_to_string v)
    | QCallDeq t -> Printf.sprintf "CALL %d deq" (int_of_nat t)
    | QStep t -> Printf.sprintf "STEP %d" (int_of_nat t)
  let parse s =
    match words s with
    | ["CALL"; t; "enq"; v] -> QCallEnq (nat_of_int (int_of_string t), z_of_string v)
    | ["CALL"; t; "deq"] -> QCallDeq (nat_of_int (int_of_string t))
    | ["STEP"; t] -> QStep (nat_of_int (int_of_string t))
    | _ -> failwith ("parse: " ^ s)

  let tags (c : cfg) e (c' : cfg) =
    match e with
    | QStep tn ->
      let t = int_of_nat tn in
      let linked_not_swung = (parked_thread c <> None) in
      let before = pc_of c t and after = pc_of c' t in
      (match before, after with
       | Some EnqIfNext, Some EnqContinue -> ["enqueue-spins-on-tailNext"]
       | Some EnqLinkCAS, Some EnqTailCAS -> ["link-cas-succeeds"]
       | Some EnqLinkCAS, Some EnqLoadTail -> ["link-cas-fails"]
       | Some EnqTailCAS, _ -> ["tail-swing"]
       | Some DeqLoadTail, _ ->
         (match (List.assoc t (thr_list c)).q_headL, c.m.q_tail with
          | Some a, Some b when a = b ->
            if linked_not_swung then ["dequeue-empty-while-node-linked"] else ["dequeue-empty"]
          | _ -> [])
       | Some DeqCASHead, Some DeqHeadNext -> ["cas-head-succeeds"]
       | Some DeqCASHead, Some DeqLoadHead -> ["cas-head-fails"]
       | Some DeqRetVal, _ -> ["dequeue-returns-value"]
       | _ -> [])
      @ (match parked_thread c with
          | Some p when p <> t -> ["step-while-an-enqueue-is-between-its-two-cas"]
          | _ -> [])
    | _ -> if List.length c.m.q_thr >= 2 then ["call-while-two-or-more-in-flight"] else []

  let labels = List.map label_of_pc all_pcs
  let funcs = ["ConcurrentLinkedQueue.Enqueue"; "ConcurrentLinkedQueue.Dequeue"]
  let nontrivial = ["dequeue-empty-while-node-linked"; "enqueue-spins-on-tailNext"; "cas-head-fails"; "link-cas-fails"]

  let final_check (c : cfg) =
    (* the model's own linearisation bookkeeping evaluated on the final configuration (a test of the
       driver/extraction, not the proof): the marked steps replay through the FIFO specification to the
       abstract queue, and every goroutine's history is (Call Lin Ret)* *)
    if clq_hist_ok c.m then None else Some "clq_hist_ok false in the model"
end

module L = Lockstep.Make (M)
let () = Registry.register "clq-lockstep" L.main
