(* driver for LinkedPtrModel, the pointer-level transcription of list/linked_list.go (C04).
   modelrun llptr     replay: one history per line on stdin, the case format of `modelrun list` / harness c04
                      (`~` prefixes and `@cap` suffixes ignored; impl linked | conc-linked, others print "skip");
                      per op:  <res>|<length field>|<fwd>|<bwd>|<fvals>|<bvals>   (the text of harness llptr)
                      fwd   = the model's fwd_ring (ids met following next from head, length+3 nodes), every id
                              named by the position of its first occurrence in that walk
                      bwd   = the model's bwd_ring with the same names (-1 = not met by the forward walk)
                      fvals / bvals = the model's fwd_vals / bwd_vals
                      a call ending in RPanic prints "panic" and ends the history
                      a final "#llptr ..." line has the totals *)
open Zutil
open ListModel
open LinkedPtrModel

let show_ints (l : int list) : string =
  if l = [] then "-" else String.concat "," (List.map string_of_int l)
let show_zs l = show_ints (List.map int_of_z l)
let b01 b = if b then "1" else "0"

let zs_of_string s = if s = "" then [] else List.map z_of_string (split_on ',' s)

let op_of_string s =
  match split_on ':' s with
  | ["g"; i] -> OpGet (z_of_string i)
  | ["a"] | ["b"] | ["n"] -> OpAppend []
  | ["a"; xs] | ["b"; xs] | ["n"; xs] -> OpAppend (zs_of_string xs)
  | ["i"; i; x] -> OpAdd (z_of_string i, z_of_string x)
  | ["s"; i; x] -> OpSet (z_of_string i, z_of_string x)
  | ["d"; i] -> OpDelete (z_of_string i)
  | ["l"] -> OpLen
  | ["c"] -> OpCap
  | ["r"; i] -> OpRange (z_of_string i)
  | ["v"] -> OpAsSlice
  | _ -> failwith ("op " ^ s)

let bare s =
  let s = if String.length s > 0 && s.[0] = '~' then String.sub s 1 (String.length s - 1) else s in
  match split_on '@' s with o :: _ -> o | [] -> s

let show_res = function
  | Common.Panic -> "panic"
  | Common.Err Common.EIndex -> "e:index"
  | Common.Err _ -> "e:other"
  | Common.Ok OUnit -> "ok"
  | Common.Ok (OVal v) -> "v:" ^ z_to_string v
  | Common.Ok (OLen n) -> "len:" ^ z_to_string n
  | Common.Ok (OCap _) -> "cap"
  | Common.Ok (OSlice (isnil, l)) -> "s:" ^ b01 isnil ^ ":" ^ show_zs l
  | Common.Ok (ORange (tr, stopped)) ->
    "r:" ^ b01 stopped ^ ":" ^
    show_ints (List.concat (List.map (fun (i, v) -> [int_of_z i; int_of_z v]) tr))

let dump (s : lpstate) : string =
  let names = Hashtbl.create 64 in
  let fwd = List.map (fun p ->
      let i = int_of_pos p in
      match Hashtbl.find_opt names i with
      | Some k -> k
      | None -> let k = Hashtbl.length names in Hashtbl.add names i k; k) (fwd_ring s) in
  let bwd = List.map (fun p ->
      match Hashtbl.find_opt names (int_of_pos p) with Some k -> k | None -> -1) (bwd_ring s) in
  z_to_string (lp_len s) ^ "|" ^ show_ints fwd ^ "|" ^ show_ints bwd ^ "|" ^
  show_zs (fwd_vals s) ^ "|" ^ show_zs (bwd_vals s)

let n_hist = ref 0 and n_ops = ref 0 and n_panic = ref 0

let replay_line (line : string) =
  match words line with
  | im :: _ :: rest when im = "linked" || im = "conc-linked" ->
    incr n_hist;
    let ops = match rest with
      | [] -> []
      | [ops] -> List.map bare (List.filter (fun s -> s <> "") (split_on ';' ops))
      | _ -> failwith "history" in
    let s = ref (match pNew lp_empty with ROk (_, s) -> s | RPanic -> failwith "pNew panics") in
    let b = Buffer.create 1024 in
    (try
       List.iteri (fun k o ->
           incr n_ops;
           if k > 0 then Buffer.add_char b ';';
           let r =
             if k = 0 && String.length o >= 2 && String.sub o 0 2 = "n:" then
               (match op_of_string o with
                | OpAppend xs -> (match pNewOf xs lp_empty with
                    | ROk (_, s') -> s := s'; Some (Common.Ok OUnit)
                    | RPanic -> None)
                | _ -> None)
             else
               (match pstep (op_of_string o) !s with
                | ROk (r, s') -> s := s'; Some r
                | RPanic -> None) in
           match r with
           | None | Some Common.Panic -> incr n_panic; Buffer.add_string b "panic"; raise Exit
           | Some r -> Buffer.add_string b (show_res r ^ "|" ^ dump !s)) ops
     with Exit -> ());
    print_endline (Buffer.contents b)
  | _ :: _ :: _ -> print_endline "skip"
  | _ -> print_endline "badcase"

let () =
  Registry.register "llptr" (fun _ ->
      iter_lines replay_line;
      Printf.printf "#llptr histories=%d ops=%d panic=%d\n" !n_hist !n_ops !n_panic)
