(* driver for SegKeyModel (C14): "<size> op:hexkey op:hexkey ..." -> outcomes *)
open Zutil
open SegKeyModel

let op_of_string s =
  match split_on ':' s with
  | [o; h] ->
    let k = bytes_of_hex h in
    (match o with
     | "trylock" -> STryLock k | "tryrlock" -> STryRLock k | "lock" -> SLock k | "rlock" -> SRLock k
     | "unlock" -> SUnlock k | "runlock" -> SRUnlock k | _ -> failwith ("op " ^ o))
  | _ -> failwith ("op " ^ s)

let show = function
  | SBool true -> "t" | SBool false -> "f" | SUnit -> "u" | SWouldBlock -> "wb" | SMisuse -> "mis"

let run _ =
  iter_lines (fun line ->
    match words line with
    | size :: ops ->
      let outs = seg_run (seg_init (z_of_string size)) (List.map op_of_string ops) in
      print_endline (String.concat " " (List.map show outs))
    | [] -> print_endline "")

let run_index _ =
  iter_lines (fun line ->
    match words line with
    | [size; h] -> print_endline (z_to_string (seg_index (z_of_string size) (bytes_of_hex h)))
    | [size] -> print_endline (z_to_string (seg_index (z_of_string size) []))      (* the empty key *)
    | _ -> print_endline "bad")

let () = Registry.register "segkey" run; Registry.register "segkey-index" run_index
