(* driver for SkipModel (skip-list half of C05).
   stdin: one history per line  "<cmp> <op>;<op>;..."  with
     F k:t@h,k:t@h,...   NewSkipListFromSlice (h = tower height the implementation drew)
     I k:t@h             Insert, tower height h
     D k:t | S k:t | G i | P | L | A
   stdout: "H <n>" and then one line per op
     <ret>|<slice>|<level>|<size>|<id:height,...>|<level0 ids>/<level1 ids>/...
   (the same text the Go harness prints for the real list).
   An op prefixed with '~' is UNOBSERVED ("sparse observation" histories): only its return value
   is printed, as "<ret>|~|<h>" (h = the tower height of an Insert, else empty); the state is not
   rendered.
   `modelrun skip spec`: the abstract specification (sorted list as multiset) instead of the
   model; heights are ignored; lines are "<ret>|<slice>". *)
open Zutil
open SkipModel

let cmp_of = function
  | "asc" -> cmp_asc | "desc" -> cmp_desc | "mod3" -> cmp_mod3 | "half" -> cmp_half
  | s -> failwith ("cmp " ^ s)

(* "k:t" or "k:t@h" -> ((k,t), h) *)
let parse_kvh s =
  let kv, h = match split_on '@' s with
    | [a; b] -> a, int_of_string b
    | [a] -> a, 1
    | _ -> failwith ("value " ^ s) in
  match split_on ':' kv with
  | [k; t] -> ((z_of_string k, z_of_string t), h)
  | [k] -> ((z_of_string k, z_of_string "0"), h)
  | _ -> failwith ("value " ^ s)

let show_kv (k, t) = z_to_string k ^ ":" ^ z_to_string t
let show_slice l = String.concat "," (List.map show_kv l)
let show_val = function
  | Common.Ok v -> "ok " ^ show_kv v
  | Common.Err _ -> "err"
  | Common.Panic -> "panic"
let show_out = function
  | RUnit -> "ok"
  | RBool b -> if b then "true" else "false"
  | RVal o -> show_val o
  | RLen z -> z_to_string z
  | RSlice _ -> "-"

let rec drop_trailing_empty = function
  | [] -> []
  | x :: t -> (match drop_trailing_empty t with [] when x = [] -> [] | t' -> x :: t')

let show_state s =
  let ids l = String.concat "," (List.map (fun n -> string_of_int (int_of_nat n)) l) in
  let tw = drop_trailing_empty (towers s) in
  (if s.rep then "" else "UNREPRESENTABLE ") ^
  show_slice (as_slice s) ^ "|" ^ string_of_int (int_of_nat s.level) ^ "|" ^ z_to_string s.size ^ "|" ^
  String.concat "," (List.map (fun (i, h) -> string_of_int (int_of_nat i) ^ ":" ^ string_of_int (int_of_nat h)) (heights s)) ^
  "|" ^ String.concat "/" (List.map ids tw)

let strip s = String.trim s

(* returns Left batch | Right op *)
let parse_op (o : string) =
  let o = strip o in
  let arg = if String.length o > 1 then strip (String.sub o 1 (String.length o - 1)) else "" in
  match o.[0] with
  | 'F' ->
    let items = if arg = "" then [] else split_on ',' arg in
    `Batch (List.map (fun it -> let (v, h) = parse_kvh it in (v, nat_of_int (h - 1))) items)
  | 'I' -> let (v, h) = parse_kvh arg in `Op (OInsert (v, nat_of_int (h - 1)))
  | 'D' -> `Op (ODelete (fst (parse_kvh arg)))
  | 'S' -> `Op (OSearch (fst (parse_kvh arg)))
  | 'G' -> `Op (OGet (z_of_string arg))
  | 'P' -> `Op OPeek
  | 'L' -> `Op OLen
  | 'A' -> `Op OAsSlice
  | _ -> failwith ("op " ^ o)

(* '~' prefix: unobserved op.  Returns (unobserved?, op text without the prefix) *)
let unobs (o : string) : bool * string =
  let o = strip o in
  if String.length o > 0 && o.[0] = '~' then (true, strip (String.sub o 1 (String.length o - 1))) else (false, o)

(* "<ret>|~|<h>" : h is the tower height an Insert was given *)
let unobs_line (ret : string) (o : string) : string =
  let h = if String.length o > 0 && o.[0] = 'I' then
      (match split_on '@' o with [_; b] -> strip b | _ -> "1") else "" in
  ret ^ "|~|" ^ h ^ "\n"

let split_history line =
  match words line with
  | [] -> failwith "empty history"
  | c :: _ ->
    let rest = String.sub line (String.length c) (String.length line - String.length c) in
    let rest = strip rest in
    let ops = if rest = "" then [] else List.filter (fun x -> strip x <> "") (split_on ';' rest) in
    (c, ops)

let run_model () =
  iter_lines (fun line ->
    if strip line <> "" then begin
      let (c, ops) = split_history line in
      let cmp = cmp_of c in
      Printf.printf "H %d\n" (List.length ops);
      let s = ref empty in
      List.iter (fun o ->
        let (u, o) = unobs o in
        match parse_op o with
        | `Batch l ->
          s := from_slice cmp l;
          print_string ("ok|" ^ show_state !s ^ "\n")
        | `Op op ->
          let (s', r) = step cmp !s op in
          s := s';
          if u then print_string (unobs_line (show_out r) o)
          else print_string (show_out r ^ "|" ^ show_state s' ^ "\n")) ops
    end)

let run_spec () =
  iter_lines (fun line ->
    if strip line <> "" then begin
      let (c, ops) = split_history line in
      let cmp = cmp_of c in
      Printf.printf "H %d\n" (List.length ops);
      let l = ref [] in
      List.iter (fun o ->
        let (u, o) = unobs o in
        match parse_op o with
        | `Batch b ->
          l := List.fold_left (fun acc (v, r) -> fst (ms_step cmp acc (OInsert (v, r)))) [] b;
          print_string ("ok|" ^ show_slice !l ^ "\n")
        | `Op op ->
          let (l', r) = ms_step cmp !l op in
          l := l';
          if u then print_string (show_out r ^ "|~\n")
          else print_string (show_out r ^ "|" ^ show_slice l' ^ "\n")) ops
    end)

(* `modelrun skip ptr`: the pointer model (layer B), same output format as the model *)
let show_pstate s =
  match p_as_slice s, p_heights s, p_towers s with
  | POk sl, POk hs, POk tw ->
    let ids l = String.concat "," (List.map (fun n -> string_of_int (int_of_nat n)) l) in
    show_slice sl ^ "|" ^ string_of_int (int_of_nat s.plevel) ^ "|" ^ z_to_string s.psize ^ "|" ^
    String.concat "," (List.map (fun (i, h) -> string_of_int (int_of_nat i) ^ ":" ^ string_of_int (int_of_nat h)) hs) ^
    "|" ^ String.concat "/" (List.map ids (drop_trailing_empty tw))
  | _ -> "ptr-model-stuck"

let run_ptr () =
  iter_lines (fun line ->
    if strip line <> "" then begin
      let (c, ops) = split_history line in
      let cmp = cmp_of c in
      Printf.printf "H %d\n" (List.length ops);
      let s = ref p_empty in
      List.iter (fun o ->
        let (u, o) = unobs o in
        match parse_op o with
        | `Batch l ->
          let r = List.fold_left (fun acc (v, r) ->
            match acc with
            | Some st -> (match p_insert cmp v (random_level r) st with POk st' -> Some st' | _ -> None)
            | None -> None) (Some p_empty) l in
          (match r with
           | Some st -> s := st; print_string ("ok|" ^ show_pstate st ^ "\n")
           | None -> print_string "ptr-model-stuck\n")
        | `Op op ->
          (match p_step cmp !s op with
           | POk (s', r) -> s := s';
             if u then print_string (unobs_line (show_out r) o)
             else print_string (show_out r ^ "|" ^ show_pstate s' ^ "\n")
           | PPanic -> if u then print_string (unobs_line "panic" o) else print_string ("panic|" ^ show_pstate !s ^ "\n")
           | PFuel -> print_string "ptr-model-out-of-fuel\n")) ops
    end)

let () = Registry.register "skip" (fun args ->
  match args with
  | "spec" :: _ -> run_spec ()
  | "ptr" :: _ -> run_ptr ()
  | _ -> run_model ())
