(* lock-step drivers for the lock-based containers of C06 (models LockedModel.v, CowModel.v,
   SyncMapModel.v): cpq-lockstep, clist-lockstep, cow-lockstep, syncmap-lockstep.
   The tables below map the models' program counters to the instrumenter's labels (= normalised
   source text of the statements of the four Go files); everything else is generic. *)
open Zutil
open BinNums
open Datatypes
open Common
open LockedModel
open CowModel
open SyncMapModel

let zs = z_to_string
let zi = z_of_int
let zlist l = "[" ^ String.concat "," (List.map zs l) ^ "]"
let tid_of_ev = function ECall (t, _) -> int_of_nat t | EStep t -> int_of_nat t
let pick rng l = List.nth l (Random.State.int rng (List.length l))
let shuffle rng l =
  let a = Array.of_list l in
  for i = Array.length a - 1 downto 1 do
    let j = Random.State.int rng (i + 1) in
    let x = a.(i) in a.(i) <- a.(j); a.(j) <- x
  done;
  Array.to_list a
let parse_zlist s = if s = "-" then [] else List.map z_of_string (String.split_on_char ',' s)
let zlist_words l = if l = [] then "-" else String.concat "," (List.map zs l)

module type OBJ = sig
  type op
  type ret
  type sh
  type pc
  type st
  val name : string
  val exec1 : (op, ret, sh, pc) sys_cfg -> op sys_ev -> ((op, ret, sh, pc) sys_cfg * (op, ret, pc) sys_obs) option
  val gen_params : Random.State.t -> string list       (* WITHOUT the leading goroutine count *)
  val init : string list -> (op, ret, sh, pc) sys_cfg
  val gen_op : Random.State.t -> (op, ret, sh, pc) sys_cfg -> op
  val op_words : op -> string list
  val parse_op : string list -> op
  val label : op -> pc -> string
  val micro : pc -> bool                               (* intra-statement pc: the same grant continues *)
  val ret_str : ret -> string
  (* events to try first (the windows the property names); idle = goroutines that may start a call *)
  val bias : Random.State.t -> (op, ret, sh, pc) sys_cfg -> int list -> op sys_ev list
  val tags : (op, ret, sh, pc) sys_cfg -> op sys_ev -> (op, ret, sh, pc) sys_cfg -> string list
  val all_labels : string list
  val funcs : string list
  val nontrivial : string list
  val abs : sh -> st
  val seq_step : st -> op -> st * ret
end

let max_calls = 6

module Mk (O : OBJ) = struct
  type cfg = (O.op, O.ret, O.sh, O.pc) sys_cfg
  type ev = O.op sys_ev
  let name = O.name
  let nthreads = ref 3
  let init0 : cfg option ref = ref None
  let gen_params rng = string_of_int (2 + Random.State.int rng 3) :: O.gen_params rng
  let init params =
    nthreads := int_of_string (List.hd params);
    let c = O.init (List.tl params) in
    init0 := Some c; c
  let calls_of (c : cfg) t =
    List.length (List.filter (function HCall (t', _) -> int_of_nat t' = t | _ -> false) c.s_hist)
  let in_flight (c : cfg) t = List.exists (fun (t', _) -> int_of_nat t' = t) c.s_thr
  let candidates rng (c : cfg) =
    let tids = List.init !nthreads (fun i -> i + 1) in
    let idle = List.filter (fun t -> not (in_flight c t) && calls_of c t < max_calls) tids in
    let steps = List.concat_map (fun t ->
        if in_flight c t then [EStep (nat_of_int t); EStep (nat_of_int t)] else []) tids in
    let calls = List.map (fun t -> ECall (nat_of_int t, O.gen_op rng c)) idle in
    let pre = List.filter (function
        | ECall (t, _) -> List.mem (int_of_nat t) idle
        | EStep _ -> true) (O.bias rng c idle) in
    pre @ shuffle rng (steps @ calls)
  let rec apply (c : cfg) (e : ev) =
    match O.exec1 c e with
    | None -> None
    | Some (c', ob) ->
      let t = tid_of_ev e in
      (match ob with
       | OAt (o, p) ->
         if O.micro p then apply c' (EStep (nat_of_int t))
         else Some (c', [(t, "at " ^ O.label o p)])
       | ORet r -> Some (c', [(t, "ret " ^ O.ret_str r)])
       | OPanic -> Some (c', [(t, "panic")]))
  let line = function
    | ECall (t, o) -> Printf.sprintf "CALL %d %s" (int_of_nat t) (String.concat " " (O.op_words o))
    | EStep t -> Printf.sprintf "STEP %d" (int_of_nat t)
  let parse s =
    match words s with
    | "CALL" :: t :: rest -> ECall (nat_of_int (int_of_string t), O.parse_op rest)
    | ["STEP"; t] -> EStep (nat_of_int (int_of_string t))
    | _ -> failwith ("parse: " ^ s)
  let tags (c : cfg) e (c' : cfg) =
    (if List.length c.s_thr >= 2 then ["two-or-more-calls-in-flight"] else []) @ O.tags c e c'
  let labels = O.all_labels
  let funcs = O.funcs
  let nontrivial = O.nontrivial
  (* model-side test of the proved invariant on the final configuration: the linearisation events
     replayed through the sequential specification give the recorded results and the final state *)
  let final_check (c : cfg) =
    match !init0 with
    | None -> None
    | Some c0 ->
      let st = ref (O.abs c0.s_sh) and bad = ref None in
      List.iter (fun (o, r) ->
          let (s', r') = O.seq_step !st o in
          if r' <> r && !bad = None then bad := Some ("linearisation result differs from the specification at " ^ String.concat " " (O.op_words o));
          st := s') (lin_ops c.s_hist);
      if !bad <> None then !bad
      else if !st <> O.abs c.s_sh then Some "final state is not the specification's state after the linearisation events"
      else None
end

(* ------------------------------------------------------------------ lock-bracketed objects *)
let lk_label recv lockfield (excl : bool) (meth : string) (body : string) (p : 'a lk_pc) =
  let f s = recv ^ "." ^ meth ^ "|" ^ s ^ "|0" in
  match p with
  | PLock -> f (lockfield ^ (if excl then ".Lock()" else ".RLock()"))
  | PDefer -> f ("defer " ^ lockfield ^ (if excl then ".Unlock()" else ".RUnlock()"))
  | PBody | PMid _ -> f body

let lk_tags excl (c : ('o, 'r, 's lk_shared, 's lk_pc) sys_cfg) e (c' : ('o, 'r, 's lk_shared, 's lk_pc) sys_cfg) =
  let waiting = List.exists (fun (_, (_, p)) -> p = PLock) c'.s_thr in
  (if int_of_nat c'.s_sh.lk_r >= 2 then ["two-readers-inside"] else [])
  @ (if c'.s_sh.lk_w && waiting then ["writer-inside-others-at-their-lock"] else [])
  @ (if int_of_nat c'.s_sh.lk_r >= 1 && List.exists (fun (_, (o, p)) -> p = PLock && excl o) c'.s_thr
     then ["reader-inside-writer-at-its-lock"] else [])
  @ (match e with
      | EStep t ->
        (match List.assoc_opt t c.s_thr with
         | Some (o, PBody) when excl o && List.length c.s_thr >= 2 -> ["mutation-with-calls-in-flight"]
         | _ -> [])
      | _ -> [])

let lk_bias rng idle gen =
  (* create contention: now and then start calls on every idle goroutine first *)
  if Random.State.int rng 100 < 30 then List.map (fun t -> ECall (nat_of_int t, gen ())) (shuffle rng idle) else []

module Cpq = struct
  type op = pq_op
  type ret = pq_ret
  type sh = pq_state lk_shared
  type pc = pq_state lk_pc
  type st = pq_state
  let name = "cpq"
  let exec1 = cpq_exec1
  let gen_params rng =
    let cap = pick rng [0; 0; 1; 2; 3; 5] in
    let n = Random.State.int rng (if cap = 0 then 4 else cap + 1) in
    string_of_int cap :: List.init n (fun _ -> string_of_int (Random.State.int rng 10))
  let init = function
    | cap :: items -> cpq_init (z_of_string cap) (List.map z_of_string items)
    | [] -> cpq_init (zi 0) []
  let gen_op rng _ =
    match Random.State.int rng 100 with
    | n when n < 35 -> PQEnqueue (zi (Random.State.int rng 10))
    | n when n < 65 -> PQDequeue
    | n when n < 80 -> PQPeek
    | n when n < 95 -> PQLen
    | _ -> PQCap
  let op_words = function
    | PQLen -> ["len"] | PQCap -> ["cap"] | PQPeek -> ["peek"]
    | PQEnqueue v -> ["enq"; zs v] | PQDequeue -> ["deq"]
  let parse_op = function
    | ["len"] -> PQLen | ["cap"] -> PQCap | ["peek"] -> PQPeek
    | ["enq"; v] -> PQEnqueue (z_of_string v) | ["deq"] -> PQDequeue
    | l -> failwith ("cpq op: " ^ String.concat " " l)
  let meth = function
    | PQLen -> ("Len", "return c.pq.Len()") | PQCap -> ("Cap", "return c.pq.Cap()")
    | PQPeek -> ("Peek", "return c.pq.Peek()") | PQEnqueue _ -> ("Enqueue", "return c.pq.Enqueue(t)")
    | PQDequeue -> ("Dequeue", "return c.pq.Dequeue()")
  let label o p = let (m, b) = meth o in lk_label "ConcurrentPriorityQueue" "c.m" (cpq_excl o) m b p
  let micro = function PMid _ -> true | _ -> false
  let ret_str = function
    | PRInt n -> "int:" ^ zs n
    | PRVal (Ok v) -> "ok:" ^ zs v
    | PRVal (Err EEmpty) -> "err:empty"
    | PRErr (Ok _) -> "ok"
    | PRErr (Err EFull) -> "err:full"
    | _ -> "err:other"
  let bias rng _ idle = lk_bias rng idle (fun () -> gen_op rng ())
  let tags c e c' =
    lk_tags cpq_excl c e c'
    @ (match e, cpq_exec1 c e with
        | EStep _, Some (_, ORet (PRVal (Err EEmpty))) -> ["empty-answer"]
        | EStep _, Some (_, ORet (PRErr (Err EFull))) -> ["full-answer"]
        | _ -> [])
  let ops = [PQLen; PQCap; PQPeek; PQEnqueue (zi 0); PQDequeue]
  let all_labels = List.concat_map (fun o -> List.map (label o) [PLock; PDefer; PBody]) ops
  let funcs = List.map (fun o -> "ConcurrentPriorityQueue." ^ fst (meth o)) ops
  let nontrivial = ["two-readers-inside"; "writer-inside-others-at-their-lock"; "reader-inside-writer-at-its-lock"]
  let abs (s : sh) = s.lk_st
  let seq_step = pq_seq_step
end

(* operations of the two lists *)
let ls_gen_op rng (len : int) =
  let idx () = zi (Random.State.int rng (len + 3) - 1) in      (* -1 .. len+1 *)
  let v () = zi (Random.State.int rng 90 + 10) in
  match Random.State.int rng 100 with
  | n when n < 22 -> LGet (idx ())
  | n when n < 34 -> LAppend (List.init (Random.State.int rng 3) (fun _ -> v ()))
  | n when n < 46 -> LAdd (idx (), v ())
  | n when n < 58 -> LSet (idx (), v ())
  | n when n < 74 -> LDelete (idx ())
  | n when n < 82 -> LLen
  | n when n < 85 -> LCap
  | n when n < 93 -> LRange (idx ())
  | _ -> LAsSlice
let ls_op_words = function
  | LGet i -> ["get"; zs i] | LAppend vs -> ["append"; zlist_words vs] | LAdd (i, v) -> ["add"; zs i; zs v]
  | LSet (i, v) -> ["set"; zs i; zs v] | LDelete i -> ["del"; zs i] | LLen -> ["len"] | LCap -> ["cap"]
  | LRange s -> ["range"; zs s] | LAsSlice -> ["asslice"]
let ls_parse_op = function
  | ["get"; i] -> LGet (z_of_string i) | ["append"; vs] -> LAppend (parse_zlist vs)
  | ["add"; i; v] -> LAdd (z_of_string i, z_of_string v) | ["set"; i; v] -> LSet (z_of_string i, z_of_string v)
  | ["del"; i] -> LDelete (z_of_string i) | ["len"] -> LLen | ["cap"] -> LCap
  | ["range"; s] -> LRange (z_of_string s) | ["asslice"] -> LAsSlice
  | l -> failwith ("list op: " ^ String.concat " " l)
let ls_ret_str = function
  | LRVal (Ok v) -> "ok:" ^ zs v
  | LRVal (Err EIndex) -> "err:index"
  | LRErr (Ok _) -> "ok"
  | LRErr (Err EIndex) -> "err:index"
  | LRInt n -> "int:" ^ zs n
  | LRCap -> "cap"
  | LRSeq l -> "seq:" ^ zlist l
  | LRRange (l, b) -> "range:" ^ zlist l ^ ":" ^ string_of_bool b
  | _ -> "err:other"
let ls_all_ops = [LGet (zi 0); LAppend []; LAdd (zi 0, zi 0); LSet (zi 0, zi 0); LDelete (zi 0); LLen; LCap; LRange (zi 0); LAsSlice]
let ls_is_writer = function LAppend _ | LAdd _ | LSet _ | LDelete _ -> true | _ -> false
let ls_gen_items rng = List.init (Random.State.int rng 5) (fun i -> string_of_int (i + 1))

module Clist = struct
  type op = ls_op
  type ret = ls_ret
  type sh = coq_Z list lk_shared
  type pc = coq_Z list lk_pc
  type st = coq_Z list
  let name = "clist"
  let exec1 = clist_exec1
  let gen_params rng = pick rng ["array"; "linked"] :: ls_gen_items rng
  let init = function
    | _ :: items -> clist_init (List.map z_of_string items)
    | [] -> clist_init []
  let gen_op rng (c : (op, ret, sh, pc) sys_cfg) = ls_gen_op rng (List.length c.s_sh.lk_st)
  let op_words = ls_op_words
  let parse_op = ls_parse_op
  let meth = function
    | LGet _ -> ("Get", "return c.List.Get(index)") | LAppend _ -> ("Append", "return c.List.Append(ts...)")
    | LAdd _ -> ("Add", "return c.List.Add(index, t)") | LSet _ -> ("Set", "return c.List.Set(index, t)")
    | LDelete _ -> ("Delete", "return c.List.Delete(index)") | LLen -> ("Len", "return c.List.Len()")
    | LCap -> ("Cap", "return c.List.Cap()") | LRange _ -> ("Range", "return c.List.Range(fn)")
    | LAsSlice -> ("AsSlice", "return c.List.AsSlice()")
  let label o p = let (m, b) = meth o in lk_label "ConcurrentList" "c.lock" (clist_excl o) m b p
  let micro = function PMid _ -> true | _ -> false
  let ret_str = ls_ret_str
  let bias rng c idle = lk_bias rng idle (fun () -> gen_op rng c)
  let tags c e c' = lk_tags clist_excl c e c'
  let all_labels = List.concat_map (fun o -> List.map (label o) [PLock; PDefer; PBody]) ls_all_ops
  let funcs = List.map (fun o -> "ConcurrentList." ^ fst (meth o)) ls_all_ops
  let nontrivial = ["two-readers-inside"; "writer-inside-others-at-their-lock"; "reader-inside-writer-at-its-lock"]
  let abs (s : sh) = s.lk_st
  let seq_step = ls_seq_step
end

(* ------------------------------------------------------------------ CopyOnWriteArrayList *)
let cow_label (_ : ls_op) (p : cow_pc) : string =
  let f m s = "CopyOnWriteArrayList." ^ m ^ "|" ^ s ^ "|0" in
  match p with
  | SnLock -> f "snapshot" "a.mutex.Lock()"
  | SnDefer -> f "snapshot" "defer a.mutex.Unlock()"
  | SnRet -> f "snapshot" "return a.vals"
  | GSnap -> f "Get" "vals := a.snapshot()"
  | GLen _ -> f "Get" "l := len(vals)"
  | GIf _ -> f "Get" "if index < 0 || index >= l"
  | GRetErr _ -> f "Get" "return t, errs.NewErrIndexOutOfRange(l, index)"
  | GRetVal _ -> f "Get" "return vals[index], e"
  | ALock -> f "Append" "a.mutex.Lock()"
  | ADefer -> f "Append" "defer a.mutex.Unlock()"
  | AN -> f "Append" "n := len(a.vals)"
  | AMake _ -> f "Append" "newItems := make([]T, n, n+len(ts))"
  | ACopy _ -> f "Append" "copy(newItems, a.vals)"
  | AApp _ -> f "Append" "newItems = append(newItems, ts...)"
  | APub _ -> f "Append" "a.vals = newItems"
  | ARet -> f "Append" "return nil"
  | BLock -> f "Add" "a.mutex.Lock()"
  | BDefer -> f "Add" "defer a.mutex.Unlock()"
  | BN -> f "Add" "n := len(a.vals)"
  | BMake _ -> f "Add" "newItems := make([]T, n, n+1)"
  | BCopy _ -> f "Add" "copy(newItems, a.vals)"
  | BAdd _ -> f "Add" "newItems, err = slice.Add(newItems, t, index)"
  | BIf _ -> f "Add" "if err != nil"
  | BRetErr -> f "Add" "return err"
  | BPub _ -> f "Add" "a.vals = newItems"
  | BRet -> f "Add" "return nil"
  | CLock -> f "Set" "a.mutex.Lock()"
  | CDefer -> f "Set" "defer a.mutex.Unlock()"
  | CN -> f "Set" "n := len(a.vals)"
  | CIf _ -> f "Set" "if index >= n || index < 0"
  | CRetErr _ -> f "Set" "return errs.NewErrIndexOutOfRange(n, index)"
  | CMake _ -> f "Set" "newItems := make([]T, n)"
  | CCopy _ -> f "Set" "copy(newItems, a.vals)"
  | CSet _ -> f "Set" "newItems[index] = t"
  | CPub _ -> f "Set" "a.vals = newItems"
  | CRet -> f "Set" "return nil"
  | DLock -> f "Delete" "a.mutex.Lock()"
  | DDefer -> f "Delete" "defer a.mutex.Unlock()"
  | DN -> f "Delete" "n := len(a.vals)"
  | DIf _ -> f "Delete" "if index >= n || index < 0"
  | DRetErr _ -> f "Delete" "return ret, errs.NewErrIndexOutOfRange(n, index)"
  | DMake -> f "Delete" "newItems := make([]T, len(a.vals)-1)"
  | DItem _ -> f "Delete" "item := 0"
  | DFor _ -> f "Delete" "for i, v := range a.vals"
  | DIfI _ -> f "Delete" "if i == index"
  | DRetV _ -> f "Delete" "ret = v"
  | DCont _ -> f "Delete" "continue"
  | DPut _ -> f "Delete" "newItems[item] = v"
  | DInc _ -> f "Delete" "item++"
  | DPub _ -> f "Delete" "a.vals = newItems"
  | DRet _ -> f "Delete" "return ret, nil"
  | LnRet -> f "Len" "return len(a.snapshot())"
  | CpRet -> f "Cap" "return cap(a.snapshot())"
  | RFor -> f "Range" "for key, value := range a.snapshot()"
  | RFn _ -> f "Range" "e := fn(key, value)"
  | RIf _ -> f "Range" "if e != nil"
  | RRetE _ -> f "Range" "return e"
  | RRetNil _ -> f "Range" "return nil"
  | ELock -> f "AsSlice" "a.mutex.Lock()"
  | EDefer -> f "AsSlice" "defer a.mutex.Unlock()"
  | EMake -> f "AsSlice" "res := make([]T, len(a.vals))"
  | ECopy _ -> f "AsSlice" "copy(res, a.vals)"
  | ERet _ -> f "AsSlice" "return res"
  (* the pinned reader has no statement in the current source *)
  | PGLenCall -> "pinned|l := a.Len()|0"
  | PGLenRet -> "pinned|return len(a.vals)|0"
  | PGIf _ -> "pinned|if index < 0 || index >= l|0"
  | PGRetErr _ -> "pinned|return t, errs.NewErrIndexOutOfRange(l, index)|0"
  | PGRetVal -> "pinned|return a.vals[index], e|0"

let cow_sample_pcs : cow_pc list =
  let z = zi 0 and n = O in
  [SnLock; SnDefer; SnRet; GSnap; GLen []; GIf ([], n); GRetErr ([], n); GRetVal [];
   ALock; ADefer; AN; AMake n; ACopy []; AApp []; APub []; ARet;
   BLock; BDefer; BN; BMake n; BCopy []; BAdd []; BIf ([], false); BRetErr; BPub []; BRet;
   CLock; CDefer; CN; CIf n; CRetErr n; CMake n; CCopy []; CSet []; CPub []; CRet;
   DLock; DDefer; DN; DIf n; DRetErr n; DMake; DItem []; DFor ([], n); DIfI ([], n, z, [], n);
   DRetV ([], n, z, [], n); DCont ([], n, z, [], n); DPut ([], n, z, [], n); DInc ([], n, z, [], n);
   DPub ([], z); DRet z; LnRet; CpRet; RFor; RFn ([], n, []); RIf ([], n, [], false); RRetE []; RRetNil [];
   ELock; EDefer; EMake; ECopy []; ERet []]

(* a reader that holds a snapshot it has not finished using *)
let cow_snapshot_of = function
  | GLen s | GRetVal s -> Some s
  | GIf (s, _) | GRetErr (s, _) -> Some s
  | RFn (s, _, _) -> Some s
  | RIf (s, _, _, _) -> Some s
  | _ -> None

module Cow = struct
  type op = ls_op
  type ret = ls_ret
  type sh = cow_shared
  type pc = cow_pc
  type st = coq_Z list
  let name = "cow"
  let exec1 = cow_exec1
  let gen_params rng = ls_gen_items rng
  let init items = cow_init (List.map z_of_string items)
  let gen_op rng (c : (op, ret, sh, pc) sys_cfg) = ls_gen_op rng (List.length c.s_sh.cw_vals)
  let op_words = ls_op_words
  let parse_op = ls_parse_op
  let label = cow_label
  let micro _ = false
  let ret_str = ls_ret_str
  let bias rng (c : (op, ret, sh, pc) sys_cfg) idle =
    let holders = List.filter (fun (_, (_, p)) -> cow_snapshot_of p <> None) c.s_thr in
    if holders <> [] && Random.State.int rng 100 < 65 then begin
      (* a reader sits between its snapshot and its use: run writers, to completion, first *)
      let wsteps = List.filter_map (fun (t, (o, _)) -> if ls_is_writer o then Some (EStep t) else None) c.s_thr in
      if wsteps <> [] then wsteps
      else
        let len = List.length c.s_sh.cw_vals in
        let wop () = match Random.State.int rng 6 with
          | 0 | 1 | 2 -> LDelete (zi (Random.State.int rng (len + 1)))
          | 1 -> LSet (zi (Random.State.int rng (len + 1)), zi (Random.State.int rng 90 + 10))
          | 2 -> LAdd (zi (Random.State.int rng (len + 1)), zi (Random.State.int rng 90 + 10))
          | _ -> LAppend [zi (Random.State.int rng 90 + 10)] in
        List.map (fun t -> ECall (nat_of_int t, wop ())) (shuffle rng idle)
    end else if Random.State.int rng 100 < 20 then
      (* start a reader next to whatever is running *)
      let len = List.length c.s_sh.cw_vals in
      let rop () = match Random.State.int rng 4 with
        | 0 -> LGet (zi (Random.State.int rng (len + 1)))
        | 3 -> LGet (zi (len - 1))
        | 1 -> LRange (zi (Random.State.int rng (len + 2) - 1))
        | _ -> LLen in
      List.map (fun t -> ECall (nat_of_int t, rop ())) (shuffle rng idle)
    else []
  let tags (c : (op, ret, sh, pc) sys_cfg) e (c' : (op, ret, sh, pc) sys_cfg) =
    match e with
    | ECall _ -> []
    | EStep t ->
      (match List.assoc_opt t c.s_thr with
       | None -> []
       | Some (o, p) ->
         let others_hold = List.exists (fun (t', (_, p')) -> t' <> t && cow_snapshot_of p' <> None) c.s_thr in
         (match p with
          | APub _ | BPub _ | CPub _ | DPub _ when others_hold -> ["writer-publishes-while-a-reader-holds-a-snapshot"]
          | _ -> [])
         @ (match cow_snapshot_of p, cow_exec1 c e with
             | Some s, Some (_, ORet r) when s <> c.s_sh.cw_vals ->
               ["reader-returns-from-a-replaced-snapshot"]
               @ (match o, r with
                   | LGet i, LRVal (Ok _) when int_of_z i >= List.length c.s_sh.cw_vals ->
                     ["get-index-beyond-the-current-length"]
                   | _ -> [])
             | _ -> [])
         @ (match p with
             | BRetErr | CRetErr _ | DRetErr _ -> ["writer-fails-its-index-check"]
             | SnLock | ALock | BLock | CLock | DLock | ELock when List.exists (fun (t', x) -> t' <> t && cow_in_mutex x) c'.s_thr -> ["impossible-two-in-mutex"]
             | _ -> []))
  let all_labels = List.map (cow_label LLen) cow_sample_pcs
  let funcs = List.map (fun m -> "CopyOnWriteArrayList." ^ m)
      ["snapshot"; "Get"; "Append"; "Add"; "Set"; "Delete"; "Len"; "Cap"; "Range"; "AsSlice"]
  let nontrivial = ["writer-publishes-while-a-reader-holds-a-snapshot"; "reader-returns-from-a-replaced-snapshot"]
  let abs (s : sh) = s.cw_vals
  let seq_step = ls_seq_step
end

(* ------------------------------------------------------------------ syncx.Map *)
let sm_label (o : sm_op) (p : sm_pc) : string =
  let f m s k = "Map." ^ m ^ "|" ^ s ^ "|" ^ string_of_int k in
  match p with
  | LdAtomic -> f "Load" "anyVal, ok = m.m.Load(key)" 0
  | LdIf _ -> f "Load" "if anyVal != nil" 0
  | LdAssert _ -> f "Load" "value = anyVal.(V)" 0
  | LdRet _ -> f "Load" "return" 0
  | StAtomic -> f "Store" "m.m.Store(key, value)" 0
  | LsAtomic _ -> f "LoadOrStore" "anyVal, loaded = m.m.LoadOrStore(key, value)" 0
  | LsIf _ -> f "LoadOrStore" "if anyVal != nil" 0
  | LsAssert _ -> f "LoadOrStore" "actual = anyVal.(V)" 0
  | LsRet _ -> f "LoadOrStore" "return" 0
  | FLoad -> f "LoadOrStoreFunc" "val, ok := m.Load(key)" 0
  | FIfOk _ -> f "LoadOrStoreFunc" "if ok" 0
  | FRetLoaded _ -> f "LoadOrStoreFunc" "return val, true, nil" 0
  | FFn -> f "LoadOrStoreFunc" "val, err = fn()" 0
  | FIfErr _ -> f "LoadOrStoreFunc" "if err != nil" 0
  | FRetErr -> f "LoadOrStoreFunc" "return" 0
  | FLs _ -> f "LoadOrStoreFunc" "actual, loaded = m.LoadOrStore(key, val)" 0
  | FRet _ -> f "LoadOrStoreFunc" "return" 1
  | LdlAtomic -> f "LoadAndDelete" "anyVal, loaded = m.m.LoadAndDelete(key)" 0
  | LdlIf _ -> f "LoadAndDelete" "if anyVal != nil" 0
  | LdlAssert _ -> f "LoadAndDelete" "value = anyVal.(V)" 0
  | LdlRet _ -> f "LoadAndDelete" "return" 0
  | DlAtomic -> f "Delete" "m.m.Delete(key)" 0

let sm_sample_pcs : sm_pc list =
  let z = zi 0 in
  [LdAtomic; LdIf None; LdAssert None; LdRet (z, false); StAtomic; LsAtomic z; LsIf (z, false); LsAssert (z, false);
   LsRet (z, false); FLoad; FIfOk (z, false); FRetLoaded z; FFn; FIfErr (z, false); FRetErr; FLs z; FRet (z, false);
   LdlAtomic; LdlIf None; LdlAssert None; LdlRet (z, false); DlAtomic]

(* a LoadOrStoreFunc call whose Load missed and that has not yet reached its LoadOrStore *)
let sm_between_halves (o : sm_op) (p : sm_pc) =
  match o, p with
  | MLoadOrStoreFunc (_, _, false), (LdIf None | LdRet (_, false) | FIfOk (_, false) | FFn | FIfErr _ | FLs _ | LsAtomic _) -> true
  | _ -> false

module Smap = struct
  type op = sm_op
  type ret = sm_ret
  type sh = smap
  type pc = sm_pc
  type st = smap
  let name = "syncmap"
  let exec1 = sm_exec1
  let gen_params rng =
    List.init (Random.State.int rng 3) (fun i -> Printf.sprintf "%d:%d" i (100 + Random.State.int rng 50))
  let init pairs =
    (* the harness stores the pairs in order: same order of m_put here *)
    List.fold_left (fun m p ->
        match String.split_on_char ':' p with
        | [k; v] -> fst (sm_seq_step m (MStore (z_of_string k, z_of_string v)))
        | _ -> m) (sm_init []).s_sh pairs |> sm_init
  let key rng = zi (Random.State.int rng 3)
  let value rng = zi (10 + Random.State.int rng 90)
  let gen_op rng _ =
    match Random.State.int rng 100 with
    | n when n < 15 -> MLoad (key rng)
    | n when n < 30 -> MStore (key rng, value rng)
    | n when n < 42 -> MLoadOrStore (key rng, value rng)
    | n when n < 72 -> MLoadOrStoreFunc (key rng, value rng, Random.State.int rng 5 = 0)
    | n when n < 86 -> MLoadAndDelete (key rng)
    | _ -> MDelete (key rng)
  let op_words = function
    | MLoad k -> ["load"; zs k] | MStore (k, v) -> ["store"; zs k; zs v] | MLoadOrStore (k, v) -> ["los"; zs k; zs v]
    | MLoadOrStoreFunc (k, v, b) -> ["losf"; zs k; zs v; if b then "1" else "0"]
    | MLoadAndDelete k -> ["lad"; zs k] | MDelete k -> ["del"; zs k]
  let parse_op = function
    | ["load"; k] -> MLoad (z_of_string k) | ["store"; k; v] -> MStore (z_of_string k, z_of_string v)
    | ["los"; k; v] -> MLoadOrStore (z_of_string k, z_of_string v)
    | ["losf"; k; v; b] -> MLoadOrStoreFunc (z_of_string k, z_of_string v, b = "1")
    | ["lad"; k] -> MLoadAndDelete (z_of_string k) | ["del"; k] -> MDelete (z_of_string k)
    | l -> failwith ("map op: " ^ String.concat " " l)
  let label = sm_label
  let micro _ = false
  let ret_str = function
    | MRUnit -> "unit"
    | MRVal (v, ok, err) -> Printf.sprintf "val:%s:%b:%b" (zs v) ok err
  let bias rng (c : (op, ret, sh, pc) sys_cfg) idle =
    let mid = List.filter (fun (_, (o, p)) -> sm_between_halves o p) c.s_thr in
    if mid <> [] && Random.State.int rng 100 < 65 then begin
      (* between the Load and the LoadOrStore of a LoadOrStoreFunc: let the others act on that key *)
      let (tm, (om, _)) = pick rng mid in
      let k = sm_key om in
      let osteps = List.filter_map (fun (t, (o, _)) -> if t <> tm && sm_key o = k then Some (EStep t) else None) c.s_thr in
      let ocalls = List.map (fun t ->
          ECall (nat_of_int t, (match Random.State.int rng 4 with
              | 0 -> MStore (k, value rng) | 1 -> MLoadOrStore (k, value rng)
              | 2 -> MLoadOrStoreFunc (k, value rng, false) | _ -> MLoadAndDelete k))) (shuffle rng idle) in
      shuffle rng osteps @ ocalls
    end else []
  let mutates_now (c : (op, ret, sh, pc) sys_cfg) t =
    match List.assoc_opt t c.s_thr with
    | Some (o, (StAtomic | LsAtomic _ | LdlAtomic | DlAtomic)) -> Some (sm_key o)
    | _ -> None
  let tags (c : (op, ret, sh, pc) sys_cfg) e (c' : (op, ret, sh, pc) sys_cfg) =
    match e with
    | ECall _ -> []
    | EStep t ->
      (match mutates_now c t with
       | Some k when c'.s_sh <> c.s_sh
                  && List.exists (fun (t', (o, p)) -> t' <> t && sm_key o = k && sm_between_halves o p) c.s_thr ->
         ["map-changes-between-the-halves-of-a-loadorstorefunc"]
       | _ -> [])
      @ (match List.assoc_opt t c.s_thr with
          | Some (MLoadOrStoreFunc (k, _, _), LsAtomic _) when m_get k c.s_sh <> None -> ["losf-fn-value-discarded"]
          | Some (MLoadOrStoreFunc (k, _, _), LsAtomic _) -> ["losf-stores-fn-value"]
          | Some (MLoadOrStoreFunc (k, _, true), LdAtomic) when m_get k c.s_sh = None -> ["losf-fn-fails"]
          | Some (MLoadOrStoreFunc (k, _, _), LdAtomic) when m_get k c.s_sh <> None -> ["losf-found-by-load"]
          | _ -> [])
  let all_labels = List.map (sm_label (MLoad (zi 0))) sm_sample_pcs
  let funcs = ["Map.Load"; "Map.Store"; "Map.LoadOrStore"; "Map.LoadOrStoreFunc"; "Map.LoadAndDelete"; "Map.Delete"]
  let nontrivial = ["map-changes-between-the-halves-of-a-loadorstorefunc"; "losf-fn-value-discarded"]
  let abs (s : sh) = s
  let seq_step = sm_seq_step
end

module MCpq = Mk (Cpq)
module MClist = Mk (Clist)
module MCow = Mk (Cow)
module MSmap = Mk (Smap)
module LCpq = Lockstep.Make (MCpq)
module LClist = Lockstep.Make (MClist)
module LCow = Lockstep.Make (MCow)
module LSmap = Lockstep.Make (MSmap)

(* `modelrun cow-pinned`: replays the witness of cow_get_panics_refuted on the extracted pinned
   model and prints the observation of the last step (documentation; no Go counterpart) *)
let pinned_main (_ : string list) =
  let n = nat_of_int in
  let evs = [ECall (n 1, LGet (zi 2)); EStep (n 1); EStep (n 1); EStep (n 1); ECall (n 2, LDelete (zi 0))]
            @ List.init 18 (fun _ -> EStep (n 2)) @ [EStep (n 1)] in
  let c = ref (cow_init [zi 10; zi 20; zi 30]) and last = ref "none" in
  List.iter (fun e ->
      match cowp_exec1 !c e with
      | Some (c', ob) ->
        c := c';
        last := (match ob with OAt (o, p) -> "at " ^ cow_label o p | ORet r -> "ret " ^ ls_ret_str r | OPanic -> "panic")
      | None -> last := "disabled") evs;
  print_endline !last

let () =
  Registry.register "cpq-lockstep" LCpq.main;
  Registry.register "clist-lockstep" LClist.main;
  Registry.register "cow-lockstep" LCow.main;
  Registry.register "syncmap-lockstep" LSmap.main;
  Registry.register "cow-pinned" pinned_main
