(* driver for HeapCapModel (C05, capacity rule of the priority queue's backing slice).
   heapcap : one history per line "<variant> <cmp> <capacity> <op>..."; ops as for `heap`, an Enqueue
             carries the capacity oracle for a growing append: e<int>^<cap>  (cap(p.data) read from the
             implementation after that call; without ^ the oracle is 0, i.e. append grows by one slot)
             -> one line: per op "<answer>|<len>|<cap(p.data)>" joined by ';' *)
open BinNums
open Zutil
open HeapModel
open HeapCapModel

let cmp_of_string = function
  | "asc" -> hcmp_asc | "desc" -> hcmp_desc | "mod3" -> hcmp_mod3
  | s -> failwith ("cmp " ^ s)

let cop_of_string s =
  let s = if String.length s > 0 && s.[String.length s - 1] = '~' then String.sub s 0 (String.length s - 1) else s in
  match s.[0] with
  | 'e' ->
    (match split_on '^' (String.sub s 1 (String.length s - 1)) with
     | [v; o] -> CEnqueue (z_of_string v, nat_of_int (int_of_string o))
     | [v] -> CEnqueue (z_of_string v, nat_of_int 0)
     | _ -> failwith ("op " ^ s))
  | 'd' -> CDequeue
  | 'p' -> CPeek
  | 'l' -> CLen
  | _ -> failwith ("op " ^ s)

let show_ans = function
  | HOk RUnit -> "ok"
  | HOk (RVal v) -> "ok:" ^ z_to_string v
  | HOk (RLen n) -> "len:" ^ z_to_string n
  | HErr Common.EFull -> "err:full"
  | HErr Common.EEmpty -> "err:empty"
  | HErr _ -> "err:other"
  | HPanic -> "panic"
  | HOutOfFuel -> "fuel"

let replay () =
  iter_lines (fun line ->
    match words line with
    | _variant :: c :: cap :: ops ->
      let cmp = cmp_of_string c in
      let p = ref (cnew (z_of_string cap)) in
      let buf = Buffer.create 256 in
      let stop = ref false in
      List.iteri (fun i o ->
        if not !stop then begin
          let (p1, r) = cstep cmp !p (cop_of_string o) in
          p := p1;
          if i > 0 then Buffer.add_char buf ';';
          Buffer.add_string buf (show_ans r);
          Buffer.add_char buf '|';
          Buffer.add_string buf (z_to_string (clen p1));
          Buffer.add_char buf '|';
          Buffer.add_string buf (string_of_int (int_of_nat p1.c_hdr.h_cap));
          (match r with HPanic | HOutOfFuel -> stop := true | _ -> ())
        end) ops;
      print_endline (Buffer.contents buf)
    | _ -> print_endline "badcase")

let () = Registry.register "heapcap" (fun _ -> replay ())
