(* lock-step driver for CondModel (C13): maps the model's program counters to the instrumenter's
   labels (= normalised source text of the statements of syncx/cond.go), generates schedules biased
   towards the windows property C13 names, and tags them.
   Run-time choices: (1) `l.pool.Get()` — the Go side runs the lock-step session with GOMAXPROCS(1)
   (harness/cond), where sync.Pool returns a pooled node iff one was Put and not taken since; the driver
   feeds the model's oracle accordingly (which node comes back is never compared); (2) a select with both
   cases ready is never scheduled (the step is withheld). *)
open Zutil
open CondModel

let label_of_pc = function
  | W_CheckCopy -> "Cond.Wait|c.checkCopy()|0"
  | W_FirstUse -> "Cond.Wait|c.checkFirstUse()|0"
  | W_Add -> "Cond.Wait|t := c.notifyList.add()|0"
  | W_LUnlock _ -> "Cond.Wait|c.L.Unlock()|0"
  | W_DeferLock _ -> "Cond.Wait|defer c.L.Lock()|0"
  | W_RetWait _ -> "Cond.Wait|return c.notifyList.wait(ctx, t)|0"
  | S_CheckCopy -> "Cond.Signal|c.checkCopy()|0"
  | S_FirstUse -> "Cond.Signal|c.checkFirstUse()|0"
  | S_NotifyOne -> "Cond.Signal|c.notifyList.notifyOne()|0"
  | B_CheckCopy -> "Cond.Broadcast|c.checkCopy()|0"
  | B_FirstUse -> "Cond.Broadcast|c.checkFirstUse()|0"
  | B_NotifyAll -> "Cond.Broadcast|c.notifyList.notifyAll()|0"
  | CC_If _ -> "Cond.checkCopy|if atomic.LoadPointer(&c.checker) != unsafe.Pointer(c) && !atomic.CompareAndSwapPointer(&c.checker, nil, unsafe.Pointer(c)) && atomic.LoadPointer(&c.checker) != unsafe.Pointer(c)|0"
  | CC_Panic _ -> "Cond.checkCopy|panic(\"syncx.Cond is copied\")|0"
  | FU_Once _ -> "Cond.checkFirstUse|c.once.Do(func() { if c.notifyList == nil { c.notifyList = newNotifyList() } })|0"
  | FU_IfNil _ -> "Cond.checkFirstUse|if c.notifyList == nil|0"
  | FU_Assign _ -> "Cond.checkFirstUse|c.notifyList = newNotifyList()|0"
  | NL_Ret _ -> "newNotifyList|return &notifyList{ mu: sync.Mutex{}, list: newChanList(), }|0"
  | NC_1 _ -> "newChanList|sentinel := &node{}|0"
  | NC_2 _ -> "newChanList|sentinel.prev = sentinel|0"
  | NC_3 _ -> "newChanList|sentinel.next = sentinel|0"
  | NC_Ret _ -> "newChanList|return &chanList{ sentinel: sentinel, size: 0, pool: &sync.Pool{ New: func() any { return &node{ Value: make(chan struct{}, 1), } }, }, }|0"
  | AD_Lock -> "notifyList.add|l.mu.Lock()|0"
  | AD_Defer -> "notifyList.add|defer l.mu.Unlock()|0"
  | AD_Alloc -> "notifyList.add|el := l.list.alloc()|0"
  | AL_Get -> "chanList.alloc|elem := l.pool.Get().(*node)|0"
  | AL_New -> "newChanList|return &node{ Value: make(chan struct{}, 1), }|0"
  | AL_Ret _ -> "chanList.alloc|return elem|0"
  | AD_Push _ -> "notifyList.add|l.list.pushBack(el)|0"
  | PB_1 _ -> "chanList.pushBack|elem.next = l.sentinel|0"
  | PB_2 _ -> "chanList.pushBack|elem.prev = l.sentinel.prev|0"
  | PB_3 _ -> "chanList.pushBack|l.sentinel.prev.next = elem|0"
  | PB_4 _ -> "chanList.pushBack|l.sentinel.prev = elem|0"
  | PB_5 _ -> "chanList.pushBack|l.size++|0"
  | AD_Ret _ -> "notifyList.add|return el|0"
  | WT_Ch _ -> "notifyList.wait|ch := elem.Value|0"
  | WT_DeferFree _ -> "notifyList.wait|defer l.list.free(elem)|0"
  | WT_Select _ -> "notifyList.wait|select|0"
  | WT_Parked _ -> "notifyList.wait|select|0"      (* not a yield point of its own: blocked inside that select *)
  | WT_CaseCtx _ -> "notifyList.wait|case <-ctx.Done():|0"
  | WT_Lock _ -> "notifyList.wait|l.mu.Lock()|0"
  | WT_DeferUnlock _ -> "notifyList.wait|defer l.mu.Unlock()|0"
  | WT_Select1 _ -> "notifyList.wait|select|1"
  | WT_CaseTok _ -> "notifyList.wait|case <-ch:|0"
  | WT_IfLen _ -> "notifyList.wait|if l.list.len() != 0|0"
  | WT_Forward _ -> "notifyList.wait|l.notifyNext()|0"
  | WT_Default _ -> "notifyList.wait|default:|0"
  | WT_Remove _ -> "notifyList.wait|l.list.remove(elem)|0"
  | WT_RetErr _ -> "notifyList.wait|return ctx.Err()|0"
  | WT_CaseCh _ -> "notifyList.wait|case <-ch:|1"
  | WT_RetNil _ -> "notifyList.wait|return nil|0"
  | FR_Put (_, _) -> "chanList.free|l.pool.Put(elem)|0"
  | LEN _ -> "chanList.len|return l.size|0"
  | FT_Ret _ -> "chanList.front|return l.sentinel.next|0"
  | NO_Lock -> "notifyList.notifyOne|l.mu.Lock()|0"
  | NO_Defer -> "notifyList.notifyOne|defer l.mu.Unlock()|0"
  | NO_IfLen -> "notifyList.notifyOne|if l.list.len() == 0|0"
  | NO_Ret -> "notifyList.notifyOne|return|0"
  | NO_Next -> "notifyList.notifyOne|l.notifyNext()|0"
  | NA_Lock -> "notifyList.notifyAll|l.mu.Lock()|0"
  | NA_Defer -> "notifyList.notifyAll|defer l.mu.Unlock()|0"
  | NA_For -> "notifyList.notifyAll|for l.list.len() != 0|0"
  | NA_Next -> "notifyList.notifyAll|l.notifyNext()|0"
  | NN_Front _ -> "notifyList.notifyNext|front := l.list.front()|0"
  | NN_Ch (_, _) -> "notifyList.notifyNext|ch := front.Value|0"
  | NN_Remove (_, _) -> "notifyList.notifyNext|l.list.remove(front)|0"
  | NN_Send (_, _) -> "notifyList.notifyNext|ch <- struct{}{}|0"
  | RM_1 (_, _) -> "chanList.remove|elem.prev.next = elem.next|0"
  | RM_2 (_, _) -> "chanList.remove|elem.next.prev = elem.prev|0"
  | RM_3 (_, _) -> "chanList.remove|elem.prev = nil|0"
  | RM_4 (_, _) -> "chanList.remove|elem.next = nil|0"
  | RM_5 (_, _) -> "chanList.remove|l.size--|0"

let n0 = nat_of_int 0
let all_pcs =
  let ks = [InWait] and n = n0 in
  [W_CheckCopy; W_FirstUse; W_Add; W_LUnlock n; W_DeferLock n; W_RetWait n; S_CheckCopy; S_FirstUse; S_NotifyOne;
   B_CheckCopy; B_FirstUse; B_NotifyAll]
  @ List.concat_map (fun k -> [CC_If k; CC_Panic k; FU_Once k; FU_IfNil k; FU_Assign k; NL_Ret k; NC_1 k; NC_2 k; NC_3 k; NC_Ret k]) ks
  @ [AD_Lock; AD_Defer; AD_Alloc; AL_Get; AL_New; AL_Ret n; AD_Push n; PB_1 n; PB_2 n; PB_3 n; PB_4 n; PB_5 n; AD_Ret n;
     WT_Ch n; WT_DeferFree n; WT_Select n; WT_CaseCtx n; WT_Lock n; WT_DeferUnlock n; WT_Select1 n; WT_CaseTok n;
     WT_IfLen n; WT_Forward n; WT_Default n; WT_Remove n; WT_RetErr n; WT_CaseCh n; WT_RetNil n; FR_Put (n, true);
     LEN LenOne; FT_Ret NNOne; NO_Lock; NO_Defer; NO_IfLen; NO_Ret; NO_Next; NA_Lock; NA_Defer; NA_For; NA_Next;
     NN_Front NNOne; NN_Ch (NNOne, n); NN_Remove (NNOne, n); NN_Send (NNOne, n);
     RM_1 (RMWait, n); RM_2 (RMWait, n); RM_3 (RMWait, n); RM_4 (RMWait, n); RM_5 (RMWait, n)]

let mode = ref "rnd"

module M = struct
  type cfg = ccfg
  type ev = cev
  let name = "cond"
  let gen_params rng =
    let copied = if Random.State.int rng 40 = 0 then "1" else "0" in
    let m = (match Random.State.int rng 10 with
        | 0 | 1 | 2 -> "race" | 3 | 4 -> "reuse" | 5 | 6 -> "bcast" | _ -> "rnd") in
    [copied; m]
  let init params =
    (match params with _ :: m :: _ -> mode := m | _ -> mode := "rnd");
    cond_init (List.hd params = "1")

  let ntids = 6
  let pc_of c t = Conc.lookup (nat_of_int t) c.c_thr
  let has_tok c n = mem_nat n c.c_tok
  let cancelled c t = mem_nat (nat_of_int t) c.c_canc
  (* the waiter's own node, once allocated *)
  let wnode = function
    | AL_Ret n | AD_Push n | PB_1 n | PB_2 n | PB_3 n | PB_4 n | PB_5 n | AD_Ret n | W_LUnlock n | W_DeferLock n
    | W_RetWait n | WT_Ch n | WT_DeferFree n | WT_Select n | WT_Parked n | WT_CaseCtx n | WT_Lock n
    | WT_DeferUnlock n | WT_Select1 n | WT_CaseTok n | WT_IfLen n | WT_Forward n | WT_Default n | WT_Remove n
    | WT_RetErr n | WT_CaseCh n | WT_RetNil n | FR_Put (n, _) | LEN (LenWait n) | FT_Ret (NNWait n)
    | NN_Front (NNWait n) | NN_Ch (NNWait n, _) | NN_Remove (NNWait n, _) | NN_Send (NNWait n, _)
    | RM_1 (RMNext (NNWait n), _) | RM_2 (RMNext (NNWait n), _) | RM_3 (RMNext (NNWait n), _)
    | RM_4 (RMNext (NNWait n), _) | RM_5 (RMNext (NNWait n), _)
    | RM_1 (RMWait, n) | RM_2 (RMWait, n) | RM_3 (RMWait, n) | RM_4 (RMWait, n) | RM_5 (RMWait, n) -> Some n
    | _ -> None
  let before_mu_in_ctx_branch = function WT_CaseCtx _ | WT_Lock _ -> true | _ -> false
  let is_notifier_pc p = not (in_wait p)
  let oracle c p = match p with AL_Get -> if c.c_pool = [] then 0 else 1 | _ -> 0

  let candidates rng (c : cfg) =
    let w = ref [] in
    let add wt e = if wt > 0.0 then w := (wt, e) :: !w in
    let tids = List.init ntids (fun i -> i + 1) in
    let active = List.filter (fun t -> pc_of c t <> None) tids in
    let waiters = List.filter (fun t -> match pc_of c t with Some p -> in_wait p | None -> false) active in
    let notifiers = List.filter (fun t -> match pc_of c t with Some p -> not (in_wait p) | None -> false) active in
    let racing = List.exists (fun t -> match pc_of c t with Some p -> before_mu_in_ctx_branch p | None -> false) waiters in
    let parked = List.filter (fun t -> match pc_of c t with Some (WT_Parked _) -> true | _ -> false) waiters in
    let m = !mode in
    List.iter (fun t ->
        let n = nat_of_int t in
        match pc_of c t with
        | Some p ->
          (* a select with both cases ready is a run-time choice: withheld *)
          let both = (match p with WT_Select nd -> has_tok c nd && cancelled c t | _ -> false) in
          if not both then begin
            let holds_mu = (c.c_mu = Some n) in
            let holds_l = (c.c_L = Some n) in
            let wt =
              if before_mu_in_ctx_branch p && m = "race" then (if notifiers <> [] then 0.3 else 1.0)
              else if is_notifier_pc p && racing && m = "race" then 14.0
              else if holds_mu then (if Random.State.int rng 8 = 0 then 1.0 else 16.0)   (* mostly finish critical sections, sometimes stall inside *)
              else if holds_l then 10.0
              else if is_notifier_pc p then 5.0
              else 6.0 in
            add wt (EStep (n, nat_of_int (oracle c p)))
          end;
          if in_wait p && not (cancelled c t) then begin
            let tok = (match wnode p with Some nd -> has_tok c nd | None -> false) in
            let front = (match wnode p, c.c_lst with Some nd, f :: _ -> nd = f | _ -> false) in
            let wt = (match p with
                | WT_Parked _ -> if m = "race" then (if front then 4.0 else 1.5) else 1.2
                | WT_Select _ | WT_DeferFree _ | WT_Ch _ -> 0.5
                | _ -> 0.15) in
            (* do not cancel a waiter whose channel already holds a token and that has not passed the outer select *)
            let pre_select = (match p with WT_CaseCh _ | WT_RetNil _ | FR_Put _ -> false | _ -> true) in
            let wt = if m = "bcast" then wt *. 0.08 else wt in
            if not (tok && pre_select) then add wt (ECancel n)
          end
        | None ->
          let holdsL = (c.c_L = Some n) in
          if holdsL then add 8.0 (ECall (n, OpUnlock));
          let damp = 1.0 /. (1.0 +. float_of_int (List.length active)) in
          if c.c_L = None && List.length waiters < 4 then
            add (if m = "bcast" then 3.0 else damp *. (if m = "reuse" then 6.0 else if List.length waiters < 2 then 5.0 else 2.5)) (ECall (n, OpWait));
          if List.length notifiers < 2 then begin
            let has_w = waiters <> [] in
            add (if racing && m = "race" then 10.0
                 else if m = "bcast" then 0.05
                 else damp *. (if has_w then (if parked <> [] then 3.0 else 1.0) else 0.15)) (ECall (n, OpSignal));
            add (if m = "bcast" then (if List.length parked >= 3 then 6.0 else if List.length parked >= 2 then 0.6 else 0.02)
                 else damp *. (if List.length parked >= 2 then 2.5 else if has_w then 0.3 else 0.05)) (ECall (n, OpBroadcast))
          end)
      tids;
    ignore active;
    let keyed = List.map (fun (wt, e) ->
        let u = Random.State.float rng 1.0 +. 1e-12 in
        (-. (log u) /. wt, e)) !w in
    List.map snd (List.sort compare keyed)

  let obs_str = function
    | OAt p -> "at " ^ label_of_pc p
    | ORet RNil -> "ret nil"
    | ORet RErr -> "ret err:canceled"
    | ORet RUnit -> "ret unit"
    | OPanicCopied -> "panic syncx.Cond is copied"
    | OPanicNilList -> "panic runtime error: invalid memory address or nil pointer dereference"
  let apply c e =
    match cond_exec1 c e with
    | Some (c', obs) -> Some (c', List.map (fun (t, o) -> (int_of_nat t, obs_str o)) obs)
    | None -> None
  let opname = function OpWait -> "wait" | OpSignal -> "signal" | OpBroadcast -> "broadcast" | OpUnlock -> "unlock"
  let line = function
    | ECall (t, op) -> Printf.sprintf "CALL %d %s" (int_of_nat t) (opname op)
    | EStep (t, o) -> Printf.sprintf "STEP %d %d" (int_of_nat t) (int_of_nat o)
    | ECancel t -> Printf.sprintf "CANCEL %d" (int_of_nat t)
  let parse s =
    let nat s = nat_of_int (int_of_string s) in
    match words s with
    | ["CALL"; t; "wait"] -> ECall (nat t, OpWait)
    | ["CALL"; t; "signal"] -> ECall (nat t, OpSignal)
    | ["CALL"; t; "broadcast"] -> ECall (nat t, OpBroadcast)
    | ["CALL"; t; "unlock"] -> ECall (nat t, OpUnlock)
    | ["STEP"; t; o] -> EStep (nat t, nat o)
    | ["STEP"; t] -> EStep (nat t, n0)
    | ["CANCEL"; t] -> ECancel (nat t)
    | _ -> failwith ("parse: " ^ s)

  let owner_pc c nd =
    List.fold_left (fun acc (_, p) -> match acc with Some _ -> acc | None -> if wnode p = Some nd then Some p else None) None c.c_thr
  let tags c e c' =
    let thr = c.c_thr in
    let exists_pc f = List.exists (fun (_, p) -> f p) thr in
    let step_tags =
      match e with
      | EStep (t, o) ->
        (match Conc.lookup t thr with
         | None -> []
         | Some p ->
           (match p with
            | NN_Send (k, f) | RM_1 (RMNext k, f) ->
              let own = owner_pc c f in
              let what = (match p with NN_Send _ -> "send" | _ -> "unlink") in
              (match own with
               | Some q when before_mu_in_ctx_branch q -> ["expiry-races-" ^ what ^ ":owner-in-ctx-branch-before-l.mu"]
               | Some (WT_Parked _) -> if what = "send" then ["send-hands-token-to-parked-waiter"] else []
               | Some (WT_Select _) | Some (WT_Ch _) | Some (WT_DeferFree _) | Some (W_LUnlock _) | Some (W_DeferLock _) | Some (W_RetWait _) ->
                 if what = "send" then ["send-buffers-token:owner-not-yet-in-select"] else []
               | _ -> [])
              @ (match k, p with NNWait _, NN_Send _ -> ["forwarded-token-sent"] | _ -> [])
            | WT_Select1 nd -> if has_tok c nd then ["timeout-path-takes-token"] else ["timeout-path-finds-channel-empty"]
            | LEN (LenWait _) -> if BinInt.Z.eqb c.c_size BinNums.Z0 then ["token-dropped:list-empty-at-forwarding"] else ["token-forwarded-to-next-waiter"]
            | LEN LenOne -> if BinInt.Z.eqb c.c_size BinNums.Z0 then ["signal-finds-list-empty"] else ["signal-finds-waiter"]
            | LEN LenAll -> if BinInt.Z.eqb c.c_size BinNums.Z0 then ["broadcast-loop-exits"] else []
            | NA_Lock -> let k = List.length c.c_lst in
              if c.c_mu <> None then [] else [Printf.sprintf "broadcast-with-%s-waiters-in-list" (if k >= 3 then "3+" else string_of_int k)]
            | AL_Get -> if int_of_nat o > 0 then ["pool-reuse-by-later-waiter"] else ["pool-miss-new-node"]
            | RM_1 (RMWait, _) -> ["timed-out-waiter-unlinks-itself"]
            | WT_Select nd ->
              if has_tok c nd then ["select-finds-token-buffered"]
              else if mem_nat t c.c_canc then ["select-finds-ctx-done"] else ["waiter-parks"]
            | FR_Put (_, ok) -> if ok then ["wait-returns-nil"] else ["wait-returns-ctx-error"]
            | CC_Panic _ -> ["copied-cond-panics"]
            | _ -> []))
      | ECancel t ->
        (match Conc.lookup t thr with
         | Some (WT_Parked _) -> ["cancel-wakes-parked-waiter"]
         | Some _ -> ["cancel-before-select"]
         | None -> [])
      | ECall (_, OpWait) -> if c.c_pool <> [] then ["wait-called-with-nodes-in-pool"] else []
      | _ -> [] in
    let ctx_tags =
      (if c.c_L <> None && exists_pc (function FR_Put _ -> true | _ -> false) then ["return-of-Wait-blocked-on-L"] else [])
      @ (if c.c_mu <> None && exists_pc (function AD_Lock | NO_Lock | NA_Lock | WT_Lock _ -> true | _ -> false) then ["l.mu-contended"] else [])
      @ (if (match c.c_once with ORunning _ -> true | _ -> false) && exists_pc (function FU_Once _ -> true | _ -> false) then ["once-contended"] else [])
      @ (if List.length c.c_lst >= 3 then ["3+-waiters-in-list"] else []) in
    ignore c';
    step_tags @ ctx_tags

  let labels = List.sort_uniq compare (List.map label_of_pc all_pcs)
  let funcs = ["Cond.Wait"; "Cond.Signal"; "Cond.Broadcast"; "Cond.checkCopy"; "Cond.checkFirstUse"; "newNotifyList";
               "newChanList"; "notifyList.add"; "notifyList.wait"; "notifyList.notifyOne"; "notifyList.notifyNext";
               "notifyList.notifyAll"; "chanList.len"; "chanList.front"; "chanList.alloc"; "chanList.pushBack";
               "chanList.remove"; "chanList.free"]
  let nontrivial = ["expiry-races-send:owner-in-ctx-branch-before-l.mu"; "expiry-races-unlink:owner-in-ctx-branch-before-l.mu";
                    "timeout-path-takes-token"; "token-forwarded-to-next-waiter"; "token-dropped:list-empty-at-forwarding";
                    "pool-reuse-by-later-waiter"; "broadcast-with-3+-waiters-in-list"; "broadcast-with-2-waiters-in-list";
                    "send-buffers-token:owner-not-yet-in-select"; "return-of-Wait-blocked-on-L"]
  let final_check c =
    (* the model's own ledger evaluated on the final configuration (a test of the driver, not the proof) *)
    if BinInt.Z.eqb (ledger_lhs c) (ledger_rhs c) then None
    else Some (Printf.sprintf "token ledger broken in the model: %s <> %s" (z_to_string (ledger_lhs c)) (z_to_string (ledger_rhs c)))
end

module L = Lockstep.Make (M)
let () = Registry.register "cond-lockstep" L.main
