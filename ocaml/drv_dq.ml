(* lock-step driver for DQModel (C08, C09): maps the model's program counters to the
   instrumenter's labels (= normalised source text of the statements of queue/delay_queue.go)
   and generates schedules biased towards the windows C08/C09 name: a Dequeue parked on a far
   element while a sooner one is enqueued, the timer tick delivered while the owner is / is not
   inside its select (stale tick consumed after Reset), Enqueues waiting for space, CANCEL at
   every yield point, TICK events interleaved.

   The comparator closure of NewDelayQueue is instrumented as well (its statements are yield
   points INSIDE the statement `d.q.Enqueue(t)` / `d.q.Dequeue()` of the goroutine that holds
   the mutex).  The Coq model treats the inner heap abstractly (one statement = one step); this
   driver keeps a concrete mirror of the array heap of internal/queue/priority_queue.go only to
   predict how many comparator yield points the real goroutine passes (and with which outcome)
   before it arrives at the next statement; the model step is applied when the last of them has
   been granted.  The virtual clock is not advanced while a goroutine is between those points
   ("the clock does not advance inside one heap operation"). *)
open Zutil
open DQModel

let label_of_pc = function
  | EFor -> "DelayQueue.Enqueue|for|0"
  | ESel0 -> "DelayQueue.Enqueue|select|0"
  | ECaseCtx0 -> "DelayQueue.Enqueue|case <-ctx.Done():|0"
  | ERetCtx0 -> "DelayQueue.Enqueue|return ctx.Err()|0"
  | EDefault0 -> "DelayQueue.Enqueue|default:|0"
  | ELock -> "DelayQueue.Enqueue|d.mutex.Lock()|0"
  | EDo -> "DelayQueue.Enqueue|err := d.q.Enqueue(t)|0"
  | ESwitch -> "DelayQueue.Enqueue|switch err|0"
  | EBcast -> "DelayQueue.Enqueue|d.enqueueSignal.broadcast()|0"
  | ERetNil -> "DelayQueue.Enqueue|return nil|0"
  | ESigCh -> "DelayQueue.Enqueue|signal := d.dequeueSignal.signalCh()|0"
  | ESel1 | EPark1 -> "DelayQueue.Enqueue|select|1"
  | ECaseCtx1 -> "DelayQueue.Enqueue|case <-ctx.Done():|1"
  | ERetCtx1 -> "DelayQueue.Enqueue|return ctx.Err()|1"
  | ECaseSig -> "DelayQueue.Enqueue|case <-signal:|0"
  | EDefUnlock -> "DelayQueue.Enqueue|d.mutex.Unlock()|0"
  | EDefRet -> "DelayQueue.Enqueue|return fmt.Errorf(\"ekit: 延时队列入队的时候遇到未知错误 %w，请上报\", err)|0"
  | DDefer -> "DelayQueue.Dequeue|defer func() { if timer != nil { timer.Stop() } }()|0"
  | DFor -> "DelayQueue.Dequeue|for|0"
  | DSel0 -> "DelayQueue.Dequeue|select|0"
  | DCaseCtx0 -> "DelayQueue.Dequeue|case <-ctx.Done():|0"
  | DRetCtx0 -> "DelayQueue.Dequeue|return t, ctx.Err()|0"
  | DDefault0 -> "DelayQueue.Dequeue|default:|0"
  | DLock0 -> "DelayQueue.Dequeue|d.mutex.Lock()|0"
  | DPeek0 -> "DelayQueue.Dequeue|val, err := d.q.Peek()|0"
  | DSwitch -> "DelayQueue.Dequeue|switch err|0"
  | DDelay -> "DelayQueue.Dequeue|delay := val.Delay()|0"
  | DIfDelay -> "DelayQueue.Dequeue|if delay <= 0|0"
  | DDeq0 -> "DelayQueue.Dequeue|val, err = d.q.Dequeue()|0"
  | DBcast0 -> "DelayQueue.Dequeue|d.dequeueSignal.broadcast()|0"
  | DRet0 -> "DelayQueue.Dequeue|return val, err|0"
  | DSigCh0 -> "DelayQueue.Dequeue|signal := d.enqueueSignal.signalCh()|0"
  | DIfTimer -> "DelayQueue.Dequeue|if timer == nil|0"
  | DNewTimer -> "DelayQueue.Dequeue|timer = time.NewTimer(delay)|0"
  | DReset -> "DelayQueue.Dequeue|timer.Reset(delay)|0"
  | DSel1 | DPark1 -> "DelayQueue.Dequeue|select|1"
  | DCaseCtx1 -> "DelayQueue.Dequeue|case <-ctx.Done():|1"
  | DRetCtx1 -> "DelayQueue.Dequeue|return t, ctx.Err()|1"
  | DCaseTimer -> "DelayQueue.Dequeue|case <-timer.C:|0"
  | DLock1 -> "DelayQueue.Dequeue|d.mutex.Lock()|1"
  | DPeek1 -> "DelayQueue.Dequeue|val, err := d.q.Peek()|1"
  | DIf2 -> "DelayQueue.Dequeue|if err != nil || val.Delay() > 0|0"
  | DUnlock2 -> "DelayQueue.Dequeue|d.mutex.Unlock()|0"
  | DContinue -> "DelayQueue.Dequeue|continue|0"
  | DDeq1 -> "DelayQueue.Dequeue|val, err = d.q.Dequeue()|1"
  | DBcast1 -> "DelayQueue.Dequeue|d.dequeueSignal.broadcast()|1"
  | DRet1 -> "DelayQueue.Dequeue|return val, err|1"
  | DCaseSig0 -> "DelayQueue.Dequeue|case <-signal:|0"
  | DSigCh1 -> "DelayQueue.Dequeue|signal := d.enqueueSignal.signalCh()|1"
  | DSel2 | DPark2 -> "DelayQueue.Dequeue|select|2"
  | DCaseCtx2 -> "DelayQueue.Dequeue|case <-ctx.Done():|2"
  | DRetCtx2 -> "DelayQueue.Dequeue|return t, ctx.Err()|2"
  | DCaseSig1 -> "DelayQueue.Dequeue|case <-signal:|1"
  | DDefUnlock -> "DelayQueue.Dequeue|d.mutex.Unlock()|1"
  | DDefRet -> "DelayQueue.Dequeue|return t, fmt.Errorf(\"ekit: 延时队列出队的时候遇到未知错误 %w，请上报\", err)|0"
  | DDeferIf -> "DelayQueue.Dequeue|if timer != nil|0"
  | DDeferStop -> "DelayQueue.Dequeue|timer.Stop()|0"
  | Bc1 -> "cond.broadcast|signal := make(chan struct{})|0"
  | Bc2 -> "cond.broadcast|old := c.signal|0"
  | Bc3 -> "cond.broadcast|c.signal = signal|0"
  | Bc4 -> "cond.broadcast|c.l.Unlock()|0"
  | Bc5 -> "cond.broadcast|close(old)|0"
  | Sc1 -> "cond.signalCh|res := c.signal|0"
  | Sc2 -> "cond.signalCh|c.l.Unlock()|0"
  | Sc3 -> "cond.signalCh|return res|0"

let all_pcs = [EFor; ESel0; ECaseCtx0; ERetCtx0; EDefault0; ELock; EDo; ESwitch; EBcast; ERetNil; ESigCh; ESel1;
               ECaseCtx1; ERetCtx1; ECaseSig; EDefUnlock; EDefRet; DDefer; DFor; DSel0; DCaseCtx0; DRetCtx0;
               DDefault0; DLock0; DPeek0; DSwitch; DDelay; DIfDelay; DDeq0; DBcast0; DRet0; DSigCh0; DIfTimer;
               DNewTimer; DReset; DSel1; DCaseCtx1; DRetCtx1; DCaseTimer; DLock1; DPeek1; DIf2; DUnlock2;
               DContinue; DDeq1; DBcast1; DRet1; DCaseSig0; DSigCh1; DSel2; DCaseCtx2; DRetCtx2; DCaseSig1;
               DDefUnlock; DDefRet; DDeferIf; DDeferStop; Bc1; Bc2; Bc3; Bc4; Bc5; Sc1; Sc2; Sc3]

(* the comparator closure of NewDelayQueue: yield points passed inside one heap operation *)
let cmp_head = ["NewDelayQueue|srcDelay := src.Delay()|0"; "NewDelayQueue|dstDelay := dst.Delay()|0";
                "NewDelayQueue|if srcDelay > dstDelay|0"]
let cmp_gt = cmp_head @ ["NewDelayQueue|return 1|0"]
let cmp_eq = cmp_head @ ["NewDelayQueue|if srcDelay == dstDelay|0"; "NewDelayQueue|return 0|0"]
let cmp_lt = cmp_head @ ["NewDelayQueue|if srcDelay == dstDelay|0"; "NewDelayQueue|return -1|0"]
let cmp_labels = cmp_head @ ["NewDelayQueue|return 1|0"; "NewDelayQueue|if srcDelay == dstDelay|0";
                             "NewDelayQueue|return 0|0"; "NewDelayQueue|return -1|0"]

(* concrete mirror of internal/queue/priority_queue.go (1-based array; element = (id, deadline)) *)
let mirror_cmp trace (a : int * int) (b : int * int) : int =
  if snd a > snd b then (trace := !trace @ cmp_gt; 1)
  else if snd a = snd b then (trace := !trace @ cmp_eq; 0)
  else (trace := !trace @ cmp_lt; -1)

let mirror_enqueue (h : (int * int) list) (x : int * int) : (int * int) list * string list =
  let trace = ref [] in
  let data = Array.of_list (((0, 0) :: h) @ [x]) in
  let node = ref (Array.length data - 1) in
  let parent = ref (!node / 2) in
  while !parent > 0 && mirror_cmp trace data.(!node) data.(!parent) < 0 do
    let tmp = data.(!parent) in data.(!parent) <- data.(!node); data.(!node) <- tmp;
    node := !parent; parent := !parent / 2
  done;
  (List.tl (Array.to_list data), !trace)

let mirror_dequeue (h : (int * int) list) : (int * int) option * (int * int) list * string list =
  match h with
  | [] -> (None, [], [])
  | _ ->
    let trace = ref [] in
    let data0 = Array.of_list ((0, 0) :: h) in
    let last = Array.length data0 - 1 in
    let pop = data0.(1) in
    data0.(1) <- data0.(last);
    let data = Array.sub data0 0 last in
    let n = Array.length data - 1 in
    let i = ref 1 and minpos = ref 1 and fin = ref false in
    while not !fin do
      let left = !i * 2 in
      if left <= n && mirror_cmp trace data.(left) data.(!minpos) < 0 then minpos := left;
      let right = !i * 2 + 1 in
      if right <= n && mirror_cmp trace data.(right) data.(!minpos) < 0 then minpos := right;
      if !minpos = !i then fin := true
      else begin
        let tmp = data.(!i) in data.(!i) <- data.(!minpos); data.(!minpos) <- tmp;
        i := !minpos
      end
    done;
    (Some pop, List.tl (Array.to_list data), !trace)

let zi = z_of_int
let iz = int_of_z
let elem_of (id, dl) = (zi id, zi dl)
let of_elem (id, dl) = (iz id, iz dl)

let ret_str = function
  | RNil -> "ret ok"
  | RCtx -> "ret err:ctx"
  | RVal v -> let (id, dl) = of_elem v in Printf.sprintf "ret val:%d:%d" id dl
  | ROther -> "ret err:other"
  | RPanic -> "panic -"

let obs_str (t, o) = match o with
  | OAt p -> (int_of_nat t, "at " ^ label_of_pc p)
  | ORet r -> (int_of_nat t, ret_str r)

let thread (m : dq_cfg) (t : int) : dthr option = Conc.lookup (nat_of_int t) m.q_thr
let threads (m : dq_cfg) : (int * dthr) list = List.map (fun (t, th) -> (int_of_nat t, th)) m.q_thr

module Make (F : sig val focus : string end) = struct
  type cfg = {
    m : dq_cfg;
    mirror : (int * int) list;                        (* the array heap, data[1..] *)
    pend : (int * string list * (int * int) list) option;   (* goroutine inside a heap operation: comparator yield points left, mirror afterwards *)
    nthr : int;
    budget : int;          (* events after which the schedule only drains *)
    nev : int;
    calls : int;           (* calls issued *)
    maxcalls : int;
    pdeq : int;            (* percentage of Dequeue among new calls *)
    pcancel : int;         (* weight of CANCEL *)
    used : int list;       (* deadlines used so far (kept distinct) *)
    nextid : int;
    script : item list;    (* scripted prefix of the schedule (abandoned as soon as an event deviates) *)
  }
  and item =
    | E of dq_ev                 (* exactly this event *)
    | Run of int                 (* STEP t until goroutine t has returned or is parked in a select *)
  type ev = dq_ev
  let name = "dq"

  let gen_params rng =
    let cap = [| 0; 1; 2; 1; 2; 0 |].(Random.State.int rng 6) in
    let nthr = 2 + Random.State.int rng 3 in
    let budget = 60 + Random.State.int rng 240 in
    let maxcalls = 3 + Random.State.int rng 10 in
    let pdeq = [| 50; 50; 35; 65; 50; 45 |].(Random.State.int rng 6) in
    let pcancel = (if F.focus = "c09" then [| 2; 4; 8; 12 |] else [| 0; 1; 2; 6 |]).(Random.State.int rng 4) in
    let scen = Random.State.int rng 8 in
    let cap = if scen = 0 && cap = 1 then 2 else cap in
    List.map string_of_int [cap; nthr; budget; maxcalls; pdeq; pcancel; scen]

  let init params =
    match List.map int_of_string params with
    | [cap; nthr; budget; maxcalls; pdeq; pcancel; scen] ->
      let n = nat_of_int in
      let script = match scen with
        | 0 ->
          (* the stale tick: 1 sleeps on A's timer, is woken by a later element C, the tick of A's timer is delivered
             while 1 is outside its select, 2 takes A, 1 re-arms with Reset (tick still buffered) and consumes it *)
          [E (DCallEnq (n 1, elem_of (901, 100))); Run 1; E (DCallDeq (n 1)); Run 1;
           E (DCallEnq (n 2, elem_of (902, 5000))); Run 2; E (DTick (zi 100)); E (DFire (n 1));
           E (DCallDeq (n 2)); Run 2; Run 1]
        | 1 ->
          (* 1 sleeps on A's timer; B with an earlier deadline arrives; 1 re-peeks, re-arms for B and is woken by B's tick *)
          [E (DCallEnq (n 1, elem_of (901, 1000))); Run 1; E (DCallDeq (n 1)); Run 1;
           E (DCallEnq (n 2, elem_of (902, 7))); Run 2; Run 1; E (DTick (zi 7)); E (DFire (n 1)); Run 1]
        | _ -> [] in
      { m = dq_init (zi cap) true; mirror = []; pend = None; nthr; budget; nev = 0; calls = 0; maxcalls; pdeq; pcancel;
        used = (if script = [] then [] else [100; 5000; 1000; 7]); nextid = 1; script }
    | _ -> failwith "dq: bad params"

  let now c = iz c.m.q_now

  let shuffle rng l =
    let a = Array.of_list l in
    for i = Array.length a - 1 downto 1 do
      let j = Random.State.int rng (i + 1) in
      let x = a.(i) in a.(i) <- a.(j); a.(j) <- x
    done;
    Array.to_list a

  let armed th = match th.t_tm with Some { tm_armed = Some f; _ } -> Some (iz f) | _ -> None

  let fresh_deadline rng c =
    let base = now c + [| -20; -3; 0; 3; 6; 12; 25; 60; 200; 1000; 5000; 60; 200; -4000000000000000000; 4000000000000000000 |].(Random.State.int rng 15) in
    let rec free d = if List.mem d c.used then free (d + 1) else d in
    free base

  let rec norm_script (m : dq_cfg) = function
    | Run t :: r when (match thread m t with None -> true | Some th -> is_park th.t_pc) -> norm_script m r
    | l -> l

  let rec candidates rng (c : cfg) =
    match norm_script c.m c.script with
    | E e :: _ -> e :: candidates rng { c with script = [] }
    | Run t :: _ -> DStep (nat_of_int t, O) :: candidates rng { c with script = [] }
    | [] ->
    let thr = threads c.m in
    let draining = c.nev >= c.budget in
    let steps = List.concat_map (fun (t, th) ->
        if is_park th.t_pc then [] else [DStep (nat_of_int t, O); DStep (nat_of_int t, O); DStep (nat_of_int t, O)]) thr in
    let fires = List.concat_map (fun (t, th) ->
        match armed th with Some f when f <= now c -> [DFire (nat_of_int t); DFire (nat_of_int t)] | _ -> []) thr in
    if draining then begin
      (* let everything in flight finish: run the runnable, fire what may fire, cancel what is parked *)
      let cancels = List.concat_map (fun (t, th) -> if is_park th.t_pc && not th.t_canc then [DCancel (nat_of_int t)] else []) thr in
      shuffle rng (steps @ fires) @ cancels
    end else begin
      let idle = List.filter (fun t -> thread c.m t = None) (List.init c.nthr (fun i -> i + 1)) in
      let calls = if c.calls >= c.maxcalls then [] else
          List.concat_map (fun t ->
              if Random.State.int rng 100 < c.pdeq then [DCallDeq (nat_of_int t)]
              else [DCallEnq (nat_of_int t, elem_of (c.nextid, fresh_deadline rng c))]) idle in
      let cancels = List.concat_map (fun (t, th) ->
          if th.t_canc then []
          else if is_park th.t_pc then (if Random.State.int rng 24 < c.pcancel then [DCancel (nat_of_int t); DCancel (nat_of_int t)] else [])
          else (if Random.State.int rng 100 < c.pcancel then [DCancel (nat_of_int t)] else [])) thr in
      (* clock: small steps, or exactly up to the next interesting instant (a timer / a deadline) *)
      (* (the clock is never moved to the extreme deadlines +-4e18: the real virtual clock is an int64) *)
      let instants = List.filter (fun d -> d > now c && d - now c < 1000000000000000)
          (List.concat_map (fun (_, th) -> match armed th with Some f -> [f] | None -> []) thr @ List.map snd c.mirror) in
      let ticks = (if Random.State.int rng 5 = 0 then [DTick (zi (1 + Random.State.int rng 3))] else []) @
                  (match instants with [] -> [] | l when Random.State.int rng 6 = 0 ->
                      let d = List.nth l (Random.State.int rng (List.length l)) in
                      [DTick (zi (d - now c))] | _ -> []) @
                  (if Random.State.int rng 40 = 0 then [DTick (zi (10 + Random.State.int rng 300))] else []) in
      (* directed preferences (each taken with probability 1/2): the windows C08/C09 name *)
      let prefer =
        if Random.State.bool rng then [] else
        List.concat_map (fun (t, th) ->
            match th.t_pc, armed th with
            | DPark1, _ when idle <> [] && c.calls < c.maxcalls && Random.State.int rng 2 = 0 ->
              (* a Dequeue sleeps on the head's timer: enqueue an element that expires earlier *)
              let d = snd (of_elem th.t_el) in
              let rec free x = if List.mem x c.used then free (x - 1) else x in
              let dl = free (min (d - 1) (now c + [| -3; 0; 2; 4 |].(Random.State.int rng 4))) in
              [DCallEnq (nat_of_int (List.hd idle), elem_of (c.nextid, dl))]
            | (DCaseSig0 | DSel0 | DDefault0 | DLock0 | DPeek0 | DSwitch | DDelay | DIfDelay | DSigCh0 | Sc1 | Sc2 | Sc3 | DIfTimer | DReset), Some f
              when Random.State.int rng 2 = 0 ->
              (* the owner of an armed timer is outside its select: deliver the tick now (stale tick) *)
              if f <= now c then [DFire (nat_of_int t)] else if f - now c < 1000000000000000 then [DTick (zi (f - now c))] else []
            | (DCaseTimer | DLock1), _ when Random.State.int rng 2 = 0 ->
              (* woken by its timer, not yet re-locked: let the others change the head first *)
              List.concat_map (fun (t2, th2) -> if t2 <> t && not (is_park th2.t_pc) then [DStep (nat_of_int t2, O)] else []) thr
            | _ -> []) thr in
      let all = shuffle rng prefer @ shuffle rng (steps @ fires @ calls @ calls @ cancels @ ticks) in
      (* when nothing else is possible the clock must move (to the next timer / deadline) *)
      if calls = [] && thr = [] then [] else
      all @ (match List.sort compare instants with d :: _ -> [DTick (zi (d - now c))] | [] -> [DTick (zi 50)])
    end

  (* several cases of a blocking select ready: the run-time chooses; such steps are not scheduled *)
  let multi_ready (m : dq_cfg) t =
    match thread m t with
    | Some th -> (match th.t_pc with
        | ESel1 | DSel1 | DSel2 ->
          (match dq_exec1 m (DStep (nat_of_int t, S O)) with Some (_, _ :: _) -> true | _ -> false)
        | _ -> false)
    | None -> false

  let model_apply c e =
    match dq_exec1 c.m e with
    | Some (m', obs) -> Some ({ c with m = m'; nev = c.nev + 1 }, List.map obs_str obs)
    | None -> None

  let rec apply (c : cfg) (e : ev) =
    match norm_script c.m c.script with
    | [] -> apply0 { c with script = [] } e
    | E e0 :: rest -> (match apply0 c e with
        | Some (c', obs) -> Some ({ c' with script = (if e = e0 then rest else []) }, obs)
        | None -> None)
    | (Run t :: _) as l -> (match apply0 c e with
        | Some (c', obs) -> Some ({ c' with script = (if e = DStep (nat_of_int t, O) then l else []) }, obs)
        | None -> None)
  and apply0 (c : cfg) (e : ev) =
    match e with
    | DTick _ when c.pend <> None -> None
    | DStep (tn, _) ->
      let t = int_of_nat tn in
      (match c.pend with
       | Some (t', l :: rest, mir) when t' = t ->
         Some ({ c with pend = Some (t, rest, mir); nev = c.nev + 1 }, [(t, "at " ^ l)])
       | Some (t', [], mir) when t' = t ->
         (match model_apply c e with
          | Some (c', obs) -> Some ({ c' with pend = None; mirror = mir }, obs)
          | None -> None)
       | _ ->
         if multi_ready c.m t then None else
         match thread c.m t with
         | None -> None
         | Some th ->
           let heapop =
             (match th.t_pc with
              | EDo when not (heap_full c.m.q_cap c.m.q_heap) ->
                let (mir, tr) = mirror_enqueue c.mirror (of_elem th.t_el) in Some (mir, tr)
              | DDeq0 | DDeq1 ->
                let (_, mir, tr) = mirror_dequeue c.mirror in Some (mir, tr)
              | _ -> None) in
           (match heapop with
            | Some (mir, l :: rest) -> Some ({ c with pend = Some (t, rest, mir); nev = c.nev + 1 }, [(t, "at " ^ l)])
            | Some (mir, []) ->
              (match model_apply c e with
               | Some (c', obs) -> Some ({ c' with mirror = mir }, obs)
               | None -> None)
            | None -> model_apply c e))
    | DCallEnq (_, x) ->
      (match model_apply c e with
       | Some (c', obs) -> Some ({ c' with calls = c.calls + 1; nextid = c.nextid + 1; used = snd (of_elem x) :: c.used }, obs)
       | None -> None)
    | DCallDeq _ ->
      (match model_apply c e with
       | Some (c', obs) -> Some ({ c' with calls = c.calls + 1 }, obs)
       | None -> None)
    | _ -> model_apply c e

  (* FIRE: the controller waits for the tick to sit in the channel buffer when nobody is expected to wake up (#0) *)
  let line = function
    | DCallEnq (t, x) -> let (id, dl) = of_elem x in Printf.sprintf "CALL %d enq %d %d" (int_of_nat t) id dl
    | DCallDeq t -> Printf.sprintf "CALL %d deq" (int_of_nat t)
    | DStep (t, k) -> if k = O then Printf.sprintf "STEP %d" (int_of_nat t) else Printf.sprintf "STEP %d %d" (int_of_nat t) (int_of_nat k)
    | DCancel t -> Printf.sprintf "CANCEL %d" (int_of_nat t)
    | DFire t -> Printf.sprintf "FIRE %d" (int_of_nat t)
    | DTick d -> Printf.sprintf "TICK %d" (iz d)

  let parse s =
    let n x = nat_of_int (int_of_string x) in
    match words s with
    | ["CALL"; t; "enq"; id; dl] -> DCallEnq (n t, (z_of_string id, z_of_string dl))
    | ["CALL"; t; "deq"] -> DCallDeq (n t)
    | ["STEP"; t] -> DStep (n t, O)
    | ["STEP"; t; k] -> DStep (n t, n k)
    | ["CANCEL"; t] -> DCancel (n t)
    | ["FIRE"; t] -> DFire (n t)
    | ["TICK"; d] -> DTick (z_of_string d)
    | _ -> failwith ("parse: " ^ s)

  let pc_of m t = match thread m t with Some th -> Some th.t_pc | None -> None

  let tags (c : cfg) (e : ev) (c' : cfg) =
    let m = c.m and m' = c'.m in
    let thr = threads m in
    let parked = List.filter (fun (_, th) -> is_park th.t_pc) thr in
    let lockwait = List.filter (fun (_, th) -> match th.t_pc with ELock | DLock0 | DLock1 -> true | _ -> false) thr in
    (if List.length parked >= 2 then ["two-or-more-parked"] else [])
    @ (if lockwait <> [] && m.q_mutex <> None then ["goroutine-waits-for-the-mutex"] else [])
    @ (if c.pend <> None && (match e with DStep (t, _) -> (match c.pend with Some (t', _, _) -> t' <> int_of_nat t | None -> false) | _ -> true)
       then ["event-while-another-goroutine-is-inside-a-heap-operation"] else [])
    @ (match e with
        | DTick _ -> (if m.q_mutex <> None then ["tick-inside-critical-section"] else ["tick"])
        | DFire tn ->
          (match pc_of m (int_of_nat tn) with
           | Some DPark1 -> ["fire-wakes-parked-owner"]
           | Some _ -> ["fire-while-owner-not-in-select"]
           | None -> [])
        | DCancel tn ->
          (match pc_of m (int_of_nat tn) with
           | Some EPark1 -> ["cancel-parked-enqueue"]
           | Some DPark1 -> ["cancel-parked-dequeue-timer"]
           | Some DPark2 -> ["cancel-parked-dequeue-empty"]
           | Some p when holds_lock p -> ["cancel-inside-critical-section"]
           | Some (ESel1 | DSel1 | DSel2 | Sc3 | DIfTimer | DNewTimer | DReset) -> ["cancel-between-signal-fetch-and-select"]
           | Some _ -> ["cancel-at-other-yield-point"]
           | None -> [])
        | DStep (tn, _) when c.pend = None || c'.pend = None ->
          let t = int_of_nat tn in
          (match thread m t, thread m' t with
           | Some th, Some th' ->
             (match th.t_pc, th'.t_pc with
              | DSel1, DCaseTimer -> ["stale-tick-consumed"]
              | DSel1, DPark1 -> ["dequeue-parks-on-timer"]
              | DSel2, DPark2 -> ["dequeue-parks-on-empty"]
              | ESel1, EPark1 -> ["enqueue-waits-for-space"]
              | (ESel1 | DSel1 | DSel2), (ECaseSig | DCaseSig0 | DCaseSig1) -> ["signal-already-closed-at-select"]
              | (ESel0 | DSel0 | ESel1 | DSel1 | DSel2), (ECaseCtx0 | DCaseCtx0 | ECaseCtx1 | DCaseCtx1 | DCaseCtx2) -> ["select-sees-cancelled-ctx"]
              | DPeek1, DIf2 -> (if th'.t_herr = HEmpty then ["timer-fired-queue-empty"]
                                 else if th'.t_el <> th.t_el then ["timer-fired-head-changed"] else ["timer-fired-same-head"])
              | DIf2, DUnlock2 -> ["timer-fired-recheck-fails"]
              | DIf2, DDeq1 -> ["timer-fired-dequeue"]
              | DIfDelay, DDeq0 -> ["dequeue-expired-head-directly"]
              | DReset, DSel1 -> (if tm_buffered th' then ["reset-with-tick-still-buffered"] else ["timer-reset"])
              | Bc5, _ ->
                let woken = List.filter (fun (t2, th2) -> is_park th2.t_pc && (match pc_of m' t2 with Some p -> not (is_park p) | None -> false)) thr in
                (if List.length woken >= 2 then ["broadcast-wakes-several"] else [])
                @ List.concat_map (fun (_, th2) ->
                    match th2.t_pc, th.t_site with
                    | DPark1, SEnq -> (if snd (of_elem th.t_el) < snd (of_elem th2.t_el) then ["woken-by-earlier-element"] else ["woken-by-later-element"])
                    | DPark2, SEnq -> ["woken-by-first-element"]
                    | EPark1, _ -> ["enqueue-woken-by-dequeue"]
                    | _ -> []) woken
              | _ -> [])
           | _ -> [])
        | _ -> [])

  let labels = List.sort_uniq compare (List.map label_of_pc all_pcs) @ cmp_labels
  let funcs = ["DelayQueue.Enqueue"; "DelayQueue.Dequeue"; "cond.broadcast"; "cond.signalCh"]
  let nontrivial = ["stale-tick-consumed"; "woken-by-earlier-element"; "timer-fired-head-changed"; "enqueue-waits-for-space";
                    "cancel-parked-enqueue"; "cancel-parked-dequeue-timer"; "cancel-parked-dequeue-empty";
                    "timer-fired-recheck-fails"; "broadcast-wakes-several"; "reset-with-tick-still-buffered";
                    "cancel-between-signal-fetch-and-select"; "fire-while-owner-not-in-select"]

  (* model-side checks on the final configuration (tests of the invariants, not the proof) *)
  let final_check (c : cfg) =
    let m = c.m in
    let sorted l = List.sort compare (List.map of_elem l) in
    let inflight = List.concat_map (fun (_, th) -> match th.t_eff with Removed v -> [v] | _ -> []) m.q_thr in
    if m.q_bad then Some "fatal run-time error in the model"
    else if sorted m.q_ins <> sorted (m.q_heap @ inflight @ m.q_out) then Some "inserted <> heap + in flight + returned (model)"
    else if sorted m.q_heap <> List.sort compare c.mirror then Some "abstract heap <> mirror of the array heap (driver)"
    else if iz m.q_cap > 0 && List.length m.q_heap > iz m.q_cap then Some "len > capacity (model)"
    else None
end

module M8 = Make (struct let focus = "c08" end)
module M9 = Make (struct let focus = "c09" end)
module L8 = Lockstep.Make (M8)
module L9 = Lockstep.Make (M9)
let () = Registry.register "dq-lockstep" L8.main
let () = Registry.register "dq-c09-lockstep" L9.main
