(* lock-step driver for PoolModel (pool.OnDemandBlockTaskPool; C10, C11, C12): maps the model's program
   counters to the instrumenter's labels (= normalised source text of the statements of
   pool/task_pool.go), generates schedules biased towards the windows the properties name (submitters
   racing for the `locked` state word, idle timers firing while their owners are held back before the
   select, Shutdown / ShutdownNow against running and queued tasks, above-core exits), and runs its own
   lock-step loop (run-time choices are resolved from the observations).  Also registers the sequential
   constructor model `pool-ctor`. *)
open Zutil
open PoolModel
open PoolCtorNow

let label_of_pc (p : ppc) (k : int) : string = match p with
  | SbNil -> "OnDemandBlockTaskPool.Submit|if task == nil|0"
  | SbRetInvalid -> "OnDemandBlockTaskPool.Submit|return fmt.Errorf(\"%w\", errTaskIsInvalid)|0"
  | SbFor -> "OnDemandBlockTaskPool.Submit|for|0"
  | SbChkClosing -> "OnDemandBlockTaskPool.Submit|if atomic.LoadInt32(&b.state) == stateClosing|0"
  | SbRetClosing -> "OnDemandBlockTaskPool.Submit|return fmt.Errorf(\"%w\", errTaskPoolIsClosing)|0"
  | SbChkStopped -> "OnDemandBlockTaskPool.Submit|if atomic.LoadInt32(&b.state) == stateStopped|0"
  | SbRetStopped -> "OnDemandBlockTaskPool.Submit|return fmt.Errorf(\"%w\", errTaskPoolIsStopped)|0"
  | SbWrap -> "OnDemandBlockTaskPool.Submit|task = &taskWrapper{t: task}|0"
  | SbTry1 -> "OnDemandBlockTaskPool.Submit|ok, err := b.trySubmit(ctx, task, stateCreated)|0"
  | SbIf1 -> "OnDemandBlockTaskPool.Submit|if ok || err != nil|0"
  | SbRet1 -> "OnDemandBlockTaskPool.Submit|return err|0"
  | SbTry2 -> "OnDemandBlockTaskPool.Submit|ok, err = b.trySubmit(ctx, task, stateRunning)|0"
  | SbIf2 -> "OnDemandBlockTaskPool.Submit|if ok || err != nil|1"
  | SbRet2 -> "OnDemandBlockTaskPool.Submit|return err|1"
  | TsCas -> "OnDemandBlockTaskPool.trySubmit|if atomic.CompareAndSwapInt32(&b.state, state, stateLocked)|0"
  | TsDefer -> "OnDemandBlockTaskPool.trySubmit|defer atomic.CompareAndSwapInt32(&b.state, stateLocked, state)|0"
  | TsSelect -> "OnDemandBlockTaskPool.trySubmit|select|0"
  | TsCaseCtx -> "OnDemandBlockTaskPool.trySubmit|case <-ctx.Done():|0"
  | TsRetCtx -> "OnDemandBlockTaskPool.trySubmit|return false, fmt.Errorf(\"%w\", ctx.Err())|0"
  | TsCaseSend -> "OnDemandBlockTaskPool.trySubmit|case b.queue <- task:|0"
  | TsIfCreate -> "OnDemandBlockTaskPool.trySubmit|if state == stateRunning && b.allowToCreateGoroutine()|0"
  | TsInc -> "OnDemandBlockTaskPool.trySubmit|b.increaseTotalGo(1)|0"
  | TsId -> "OnDemandBlockTaskPool.trySubmit|id := int(atomic.AddInt32(&b.id, 1))|0"
  | TsGo -> "OnDemandBlockTaskPool.trySubmit|go b.goroutine(id)|0"
  | TsRetT -> "OnDemandBlockTaskPool.trySubmit|return true, nil|0"
  | TsCaseDefault -> "OnDemandBlockTaskPool.trySubmit|default:|0"
  | TsRetF0 -> "OnDemandBlockTaskPool.trySubmit|return false, nil|0"
  | TsRetF1 -> "OnDemandBlockTaskPool.trySubmit|return false, nil|1"
  | AlRLock -> "OnDemandBlockTaskPool.allowToCreateGoroutine|b.mutex.RLock()|0"
  | AlDefer -> "OnDemandBlockTaskPool.allowToCreateGoroutine|defer b.mutex.RUnlock()|0"
  | AlRate -> "OnDemandBlockTaskPool.allowToCreateGoroutine|rate := float64(len(b.queue)) / float64(cap(b.queue))|0"
  | AlRet -> "OnDemandBlockTaskPool.allowToCreateGoroutine|return (b.totalGo < b.maxGo) && (rate != 0 && rate >= b.queueBacklogRate)|0"
  | SiLock -> "OnDemandBlockTaskPool.increaseTotalGo|b.mutex.Lock()|0"
  | SiAdd -> "OnDemandBlockTaskPool.increaseTotalGo|b.totalGo += n|0"
  | SiUnlock -> "OnDemandBlockTaskPool.increaseTotalGo|b.mutex.Unlock()|0"
  | StFor -> "OnDemandBlockTaskPool.Start|for|0"
  | StChkClosing -> "OnDemandBlockTaskPool.Start|if atomic.LoadInt32(&b.state) == stateClosing|0"
  | StRetClosing -> "OnDemandBlockTaskPool.Start|return fmt.Errorf(\"%w\", errTaskPoolIsClosing)|0"
  | StChkStopped -> "OnDemandBlockTaskPool.Start|if atomic.LoadInt32(&b.state) == stateStopped|0"
  | StRetStopped -> "OnDemandBlockTaskPool.Start|return fmt.Errorf(\"%w\", errTaskPoolIsStopped)|0"
  | StChkRunning -> "OnDemandBlockTaskPool.Start|if atomic.LoadInt32(&b.state) == stateRunning|0"
  | StRetStarted -> "OnDemandBlockTaskPool.Start|return fmt.Errorf(\"%w\", errTaskPoolIsStarted)|0"
  | StCas -> "OnDemandBlockTaskPool.Start|if atomic.CompareAndSwapInt32(&b.state, stateCreated, stateLocked)|0"
  | StN -> "OnDemandBlockTaskPool.Start|n := b.numOfGoThatCanBeCreate()|0"
  | StInc -> "OnDemandBlockTaskPool.Start|b.increaseTotalGo(n)|0"
  | StLoop -> "OnDemandBlockTaskPool.Start|for i := int32(0); i < n; i++|0"
  | StGo -> "OnDemandBlockTaskPool.Start|go b.goroutine(int(atomic.AddInt32(&b.id, 1)))|0"
  | StCasRun -> "OnDemandBlockTaskPool.Start|atomic.CompareAndSwapInt32(&b.state, stateLocked, stateRunning)|0"
  | StRetNil -> "OnDemandBlockTaskPool.Start|return nil|0"
  | NcN -> "OnDemandBlockTaskPool.numOfGoThatCanBeCreate|n := b.initGo|0"
  | NcAllow -> "OnDemandBlockTaskPool.numOfGoThatCanBeCreate|allowGo := b.maxGo - b.initGo|0"
  | NcNeed -> "OnDemandBlockTaskPool.numOfGoThatCanBeCreate|needGo := int32(len(b.queue)) - b.initGo|0"
  | NcIf1 -> "OnDemandBlockTaskPool.numOfGoThatCanBeCreate|if needGo > 0|0"
  | NcIf2 -> "OnDemandBlockTaskPool.numOfGoThatCanBeCreate|if needGo <= allowGo|0"
  | NcAddNeed -> "OnDemandBlockTaskPool.numOfGoThatCanBeCreate|n += needGo|0"
  | NcAddAllow -> "OnDemandBlockTaskPool.numOfGoThatCanBeCreate|n += allowGo|0"
  | NcRet -> "OnDemandBlockTaskPool.numOfGoThatCanBeCreate|return n|0"
  | TiLock -> "OnDemandBlockTaskPool.increaseTotalGo|b.mutex.Lock()|0"
  | TiAdd -> "OnDemandBlockTaskPool.increaseTotalGo|b.totalGo += n|0"
  | TiUnlock -> "OnDemandBlockTaskPool.increaseTotalGo|b.mutex.Unlock()|0"
  | ShFor -> "OnDemandBlockTaskPool.Shutdown|for|0"
  | ShChkCreated -> "OnDemandBlockTaskPool.Shutdown|if atomic.LoadInt32(&b.state) == stateCreated|0"
  | ShRetNotRunning -> "OnDemandBlockTaskPool.Shutdown|return nil, fmt.Errorf(\"%w\", errTaskPoolIsNotRunning)|0"
  | ShChkStopped -> "OnDemandBlockTaskPool.Shutdown|if atomic.LoadInt32(&b.state) == stateStopped|0"
  | ShRetStopped -> "OnDemandBlockTaskPool.Shutdown|return nil, fmt.Errorf(\"%w\", errTaskPoolIsStopped)|0"
  | ShChkClosing -> "OnDemandBlockTaskPool.Shutdown|if atomic.LoadInt32(&b.state) == stateClosing|0"
  | ShRetClosing -> "OnDemandBlockTaskPool.Shutdown|return nil, fmt.Errorf(\"%w\", errTaskPoolIsClosing)|0"
  | ShCas -> "OnDemandBlockTaskPool.Shutdown|if atomic.CompareAndSwapInt32(&b.state, stateRunning, stateClosing)|0"
  | ShClose -> "OnDemandBlockTaskPool.Shutdown|close(b.queue)|0"
  | ShRet -> "OnDemandBlockTaskPool.Shutdown|return b.interruptCtx.Done(), nil|0"
  | SnFor -> "OnDemandBlockTaskPool.ShutdownNow|for|0"
  | SnChkCreated -> "OnDemandBlockTaskPool.ShutdownNow|if atomic.LoadInt32(&b.state) == stateCreated|0"
  | SnRetNotRunning -> "OnDemandBlockTaskPool.ShutdownNow|return nil, fmt.Errorf(\"%w\", errTaskPoolIsNotRunning)|0"
  | SnChkClosing -> "OnDemandBlockTaskPool.ShutdownNow|if atomic.LoadInt32(&b.state) == stateClosing|0"
  | SnRetClosing -> "OnDemandBlockTaskPool.ShutdownNow|return nil, fmt.Errorf(\"%w\", errTaskPoolIsClosing)|0"
  | SnChkStopped -> "OnDemandBlockTaskPool.ShutdownNow|if atomic.LoadInt32(&b.state) == stateStopped|0"
  | SnRetStopped -> "OnDemandBlockTaskPool.ShutdownNow|return nil, fmt.Errorf(\"%w\", errTaskPoolIsStopped)|0"
  | SnCas -> "OnDemandBlockTaskPool.ShutdownNow|if atomic.CompareAndSwapInt32(&b.state, stateRunning, stateStopped)|0"
  | SnClose -> "OnDemandBlockTaskPool.ShutdownNow|close(b.queue)|0"
  | SnCancel -> "OnDemandBlockTaskPool.ShutdownNow|b.interruptCtxCancel()|0"
  | SnMake -> "OnDemandBlockTaskPool.ShutdownNow|tasks := make([]Task, 0, len(b.queue))|0"
  | SnRange -> "OnDemandBlockTaskPool.ShutdownNow|for task := range b.queue|0"
  | SnAppend -> "OnDemandBlockTaskPool.ShutdownNow|tasks = append(tasks, task)|0"
  | SnRet -> "OnDemandBlockTaskPool.ShutdownNow|return tasks, nil|0"
  | WNewTimer -> "OnDemandBlockTaskPool.goroutine|idleTimer := time.NewTimer(0)|0"
  | WStop0 -> "OnDemandBlockTaskPool.goroutine|if !idleTimer.Stop()|0"
  | WDrain0 -> "OnDemandBlockTaskPool.goroutine|<-idleTimer.C|0"
  | WFor -> "OnDemandBlockTaskPool.goroutine|for|0"
  | WSelect -> "OnDemandBlockTaskPool.goroutine|select|0"
  | WParked -> "OnDemandBlockTaskPool.goroutine|select|0"
  | WCaseInt -> "OnDemandBlockTaskPool.goroutine|case <-b.interruptCtx.Done():|0"
  | WIntDec -> "OnDemandBlockTaskPool.goroutine|b.decreaseTotalGo(1)|0"
  | WIdLock -> "OnDemandBlockTaskPool.decreaseTotalGo|b.mutex.Lock()|0"
  | WIdSub -> "OnDemandBlockTaskPool.decreaseTotalGo|b.totalGo -= n|0"
  | WIdUnlock -> "OnDemandBlockTaskPool.decreaseTotalGo|b.mutex.Unlock()|0"
  | WIntRet -> "OnDemandBlockTaskPool.goroutine|return|0"
  | WCaseTimer -> "OnDemandBlockTaskPool.goroutine|case <-idleTimer.C:|0"
  | WTmLock -> "OnDemandBlockTaskPool.goroutine|b.mutex.Lock()|0"
  | WTmDecr -> "OnDemandBlockTaskPool.goroutine|b.totalGo--|0"
  | WTmLeft -> "OnDemandBlockTaskPool.goroutine|left := b.totalGo|0"
  | WTmDel -> "OnDemandBlockTaskPool.goroutine|b.timeoutGroup.delete(id)|0"
  | TdLock -> "group.delete|g.mu.Lock()|0"
  | TdDefer -> "group.delete|defer g.mu.Unlock()|0"
  | TdIf -> "group.delete|if _, ok := g.mp[id]; ok|0"
  | TdDec -> "group.delete|g.n--|0"
  | TdDelete -> "group.delete|delete(g.mp, id)|0"
  | WTmUnlock -> "OnDemandBlockTaskPool.goroutine|b.mutex.Unlock()|0"
  | WTmIfLeft -> "OnDemandBlockTaskPool.goroutine|if left == 0|0"
  | WTmCas -> "OnDemandBlockTaskPool.goroutine|if atomic.CompareAndSwapInt32(&b.state, stateClosing, stateStopped)|0"
  | WTmCancel -> "OnDemandBlockTaskPool.goroutine|b.interruptCtxCancel()|0"
  | WTmRet -> "OnDemandBlockTaskPool.goroutine|return|1"
  | WCaseQueue -> "OnDemandBlockTaskPool.goroutine|case task, ok := <-b.queue:|0"
  | WIfIsIn -> "OnDemandBlockTaskPool.goroutine|if b.timeoutGroup.isIn(id)|0"
  | IiRLock -> "group.isIn|g.mu.RLock()|0"
  | IiDefer -> "group.isIn|defer g.mu.RUnlock()|0"
  | IiLookup -> "group.isIn|_, ok := g.mp[id]|0"
  | IiRet -> "group.isIn|return ok|0"
  | WRcDel -> "OnDemandBlockTaskPool.goroutine|b.timeoutGroup.delete(id)|1"
  | RdLock -> "group.delete|g.mu.Lock()|0"
  | RdDefer -> "group.delete|defer g.mu.Unlock()|0"
  | RdIf -> "group.delete|if _, ok := g.mp[id]; ok|0"
  | RdDec -> "group.delete|g.n--|0"
  | RdDelete -> "group.delete|delete(g.mp, id)|0"
  | WStop1 -> "OnDemandBlockTaskPool.goroutine|if !idleTimer.Stop()|1"
  | WDrain1 -> "OnDemandBlockTaskPool.goroutine|<-idleTimer.C|1"
  | WIfNotOk -> "OnDemandBlockTaskPool.goroutine|if !ok|0"
  | WClDec -> "OnDemandBlockTaskPool.goroutine|b.decreaseTotalGo(1)|1"
  | CdLock -> "OnDemandBlockTaskPool.decreaseTotalGo|b.mutex.Lock()|0"
  | CdSub -> "OnDemandBlockTaskPool.decreaseTotalGo|b.totalGo -= n|0"
  | CdUnlock -> "OnDemandBlockTaskPool.decreaseTotalGo|b.mutex.Unlock()|0"
  | WClIfNum -> "OnDemandBlockTaskPool.goroutine|if b.numOfGo() == 0|0"
  | NgRLock -> "OnDemandBlockTaskPool.numOfGo|b.mutex.RLock()|0"
  | NgRead -> "OnDemandBlockTaskPool.numOfGo|n = b.totalGo|0"
  | NgRUnlock -> "OnDemandBlockTaskPool.numOfGo|b.mutex.RUnlock()|0"
  | NgRet -> "OnDemandBlockTaskPool.numOfGo|return n|0"
  | WClCas -> "OnDemandBlockTaskPool.goroutine|if atomic.CompareAndSwapInt32(&b.state, stateClosing, stateStopped)|1"
  | WClCancel -> "OnDemandBlockTaskPool.goroutine|b.interruptCtxCancel()|1"
  | WClRet -> "OnDemandBlockTaskPool.goroutine|return|2"
  | WRunInc -> "OnDemandBlockTaskPool.goroutine|atomic.AddInt32(&b.numGoRunningTasks, 1)|0"
  | WRun -> "OnDemandBlockTaskPool.goroutine|_ = task.Run(b.interruptCtx)|0"
  | RwDefer -> "taskWrapper.Run|defer func() { if r := recover(); r != nil { buf := make([]byte, panicBuffLen) buf = buf[:runtime.Stack(buf, false)] err = fmt.Errorf(\"%w：%s\", errTaskRunningPanic, fmt.Sprintf(\"[PANIC]:\\t%+v\\n%s\\n\", r, buf)) } }()|0"
  | RwRet -> "taskWrapper.Run|return tw.t.Run(ctx)|0"
  | TfRet -> "TaskFunc.Run|return t(ctx)|0"
  | RwRecIf -> "taskWrapper.Run|if r := recover(); r != nil|0"
  | RwBuf -> "taskWrapper.Run|buf := make([]byte, panicBuffLen)|0"
  | RwStack -> "taskWrapper.Run|buf = buf[:runtime.Stack(buf, false)]|0"
  | RwErr -> "taskWrapper.Run|err = fmt.Errorf(\"%w：%s\", errTaskRunningPanic, fmt.Sprintf(\"[PANIC]:\\t%+v\\n%s\\n\", r, buf))|0"
  | WRunDec -> "OnDemandBlockTaskPool.goroutine|atomic.AddInt32(&b.numGoRunningTasks, -1)|0"
  | WBkLock -> "OnDemandBlockTaskPool.goroutine|b.mutex.Lock()|1"
  | WBkNoTasks -> "OnDemandBlockTaskPool.goroutine|noTasksToExecute := len(b.queue) == 0 || int32(len(b.queue)) < b.totalGo|0"
  | WBkIf1 -> "OnDemandBlockTaskPool.goroutine|if b.coreGo < b.totalGo && b.totalGo <= b.maxGo && noTasksToExecute && b.initGo < b.totalGo-b.timeoutGroup.size()|0"
  | Z1RLock -> "group.size|g.mu.RLock()|0"
  | Z1Defer -> "group.size|defer g.mu.RUnlock()|0"
  | Z1Ret -> "group.size|return g.n|0"
  | WBkDecr -> "OnDemandBlockTaskPool.goroutine|b.totalGo--|1"
  | WBkUnlock1 -> "OnDemandBlockTaskPool.goroutine|b.mutex.Unlock()|1"
  | WBkRet -> "OnDemandBlockTaskPool.goroutine|return|3"
  | WBkIf2 -> "OnDemandBlockTaskPool.goroutine|if b.initGo < b.totalGo-b.timeoutGroup.size()|0"
  | Z2RLock -> "group.size|g.mu.RLock()|0"
  | Z2Defer -> "group.size|defer g.mu.RUnlock()|0"
  | Z2Ret -> "group.size|return g.n|0"
  | WBkNewTimer -> "OnDemandBlockTaskPool.goroutine|idleTimer = time.NewTimer(b.maxIdleTime)|0"
  | WBkAdd -> "OnDemandBlockTaskPool.goroutine|b.timeoutGroup.add(id)|0"
  | GaLock -> "group.add|g.mu.Lock()|0"
  | GaDefer -> "group.add|defer g.mu.Unlock()|0"
  | GaIf -> "group.add|if _, ok := g.mp[id]; !ok|0"
  | GaSet -> "group.add|g.mp[id] = 1|0"
  | GaInc -> "group.add|g.n++|0"
  | WBkUnlock2 -> "OnDemandBlockTaskPool.goroutine|b.mutex.Unlock()|2"
  | WUser -> "task|run|" ^ string_of_int k

(* ------------------------------------------------------------------ conversions *)
let z = z_of_int
let zi = int_of_z
let ni = int_of_nat
let nn = nat_of_int

let all_pcs : ppc list = [
  SbNil; SbRetInvalid; SbFor; SbChkClosing; SbRetClosing; SbChkStopped; SbRetStopped; SbWrap; SbTry1; SbIf1;
  SbRet1; SbTry2; SbIf2; SbRet2; TsCas; TsDefer; TsSelect; TsCaseCtx; TsRetCtx; TsCaseSend; TsIfCreate; TsInc;
  TsId; TsGo; TsRetT; TsCaseDefault; TsRetF0; TsRetF1; AlRLock; AlDefer; AlRate; AlRet; SiLock; SiAdd; SiUnlock;
  StFor; StChkClosing; StRetClosing; StChkStopped; StRetStopped; StChkRunning; StRetStarted; StCas; StN; StInc;
  StLoop; StGo; StCasRun; StRetNil; NcN; NcAllow; NcNeed; NcIf1; NcIf2; NcAddNeed; NcAddAllow; NcRet; TiLock;
  TiAdd; TiUnlock; ShFor; ShChkCreated; ShRetNotRunning; ShChkStopped; ShRetStopped; ShChkClosing; ShRetClosing;
  ShCas; ShClose; ShRet; SnFor; SnChkCreated; SnRetNotRunning; SnChkClosing; SnRetClosing; SnChkStopped;
  SnRetStopped; SnCas; SnClose; SnCancel; SnMake; SnRange; SnAppend; SnRet; WNewTimer; WStop0; WDrain0; WFor;
  WSelect; WParked; WCaseInt; WIntDec; WIdLock; WIdSub; WIdUnlock; WIntRet; WCaseTimer; WTmLock; WTmDecr;
  WTmLeft; WTmDel; TdLock; TdDefer; TdIf; TdDec; TdDelete; WTmUnlock; WTmIfLeft; WTmCas; WTmCancel; WTmRet;
  WCaseQueue; WIfIsIn; IiRLock; IiDefer; IiLookup; IiRet; WRcDel; RdLock; RdDefer; RdIf; RdDec; RdDelete;
  WStop1; WDrain1; WIfNotOk; WClDec; CdLock; CdSub; CdUnlock; WClIfNum; NgRLock; NgRead; NgRUnlock; NgRet;
  WClCas; WClCancel; WClRet; WRunInc; WRun; RwDefer; RwRet; TfRet; RwRecIf; RwBuf; RwStack; RwErr; WRunDec;
  WBkLock; WBkNoTasks; WBkIf1; Z1RLock; Z1Defer; Z1Ret; WBkDecr; WBkUnlock1; WBkRet; WBkIf2; Z2RLock; Z2Defer;
  Z2Ret; WBkNewTimer; WBkAdd; GaLock; GaDefer; GaIf; GaSet; GaInc; WBkUnlock2 ]

(* statements that are TEXT-PINNED only (no program counter in the interleaving model): States / sendState /
   getState / internalState (exercised dynamically by the States consumer of c10-pool-stress), the With* options and the
   constructor (both exercised by the sequential constructor differential and the timer-duration observation);
   an edit of any of them is reported as a skeleton change *)
let pinned_labels = [
  "NewOnDemandBlockTaskPool|if initGo < 1 || initGo > math.MaxInt32|0";
  "NewOnDemandBlockTaskPool|return nil, fmt.Errorf(\"%w：initGo应该大于0且不超过math.MaxInt32\", errInvalidArgument)|0";
  "NewOnDemandBlockTaskPool|if queueSize < 0|0";
  "NewOnDemandBlockTaskPool|return nil, fmt.Errorf(\"%w：queueSize应该大于等于0\", errInvalidArgument)|0";
  "NewOnDemandBlockTaskPool|b := &OnDemandBlockTaskPool{ queue: make(chan Task, queueSize), initGo: int32(initGo), coreGo: int32(initGo), maxGo: int32(initGo), maxIdleTime: defaultMaxIdleTime, }|0";
  "NewOnDemandBlockTaskPool|ctx := context.Background()|0";
  "NewOnDemandBlockTaskPool|b.interruptCtx, b.interruptCtxCancel = context.WithCancel(ctx)|0";
  "NewOnDemandBlockTaskPool|atomic.StoreInt32(&b.state, stateCreated)|0";
  "NewOnDemandBlockTaskPool|option.Apply(b, opts...)|0";
  "NewOnDemandBlockTaskPool|if b.coreGo != b.initGo && b.maxGo == b.initGo|0";
  "NewOnDemandBlockTaskPool|b.maxGo = b.coreGo|0";
  "NewOnDemandBlockTaskPool|if b.coreGo == b.initGo && b.maxGo != b.initGo|0";
  "NewOnDemandBlockTaskPool|b.coreGo = b.maxGo|0";
  "NewOnDemandBlockTaskPool|if !(b.initGo <= b.coreGo && b.coreGo <= b.maxGo)|0";
  "NewOnDemandBlockTaskPool|return nil, fmt.Errorf(\"%w : 需要满足initGo <= coreGo <= maxGo条件\", errInvalidArgument)|0";
  "NewOnDemandBlockTaskPool|b.timeoutGroup = &group{mp: make(map[int]int)}|0";
  "NewOnDemandBlockTaskPool|if b.queueBacklogRate < float64(0) || float64(1) < b.queueBacklogRate|0";
  "NewOnDemandBlockTaskPool|return nil, fmt.Errorf(\"%w ：queueBacklogRate合法范围为[0,1.0]\", errInvalidArgument)|0";
  "NewOnDemandBlockTaskPool|return b, nil|0";
  "WithQueueBacklogRate|return func(pool *OnDemandBlockTaskPool) { pool.queueBacklogRate = rate }|0";
  "WithQueueBacklogRate|pool.queueBacklogRate = rate|0";
  "WithCoreGo|return func(pool *OnDemandBlockTaskPool) { pool.coreGo = n }|0";
  "WithCoreGo|pool.coreGo = n|0";
  "WithMaxGo|return func(pool *OnDemandBlockTaskPool) { pool.maxGo = n }|0";
  "WithMaxGo|pool.maxGo = n|0";
  "WithMaxIdleTime|return func(pool *OnDemandBlockTaskPool) { pool.maxIdleTime = d }|0";
  "WithMaxIdleTime|pool.maxIdleTime = d|0";
  "OnDemandBlockTaskPool.internalState|for|0";
  "OnDemandBlockTaskPool.internalState|state := atomic.LoadInt32(&b.state)|0";
  "OnDemandBlockTaskPool.internalState|if state != stateLocked|0";
  "OnDemandBlockTaskPool.internalState|return state|0";
  "OnDemandBlockTaskPool.States|if ctx.Err() != nil|0";
  "OnDemandBlockTaskPool.States|return nil, ctx.Err()|0";
  "OnDemandBlockTaskPool.States|if b.interruptCtx.Err() != nil|0";
  "OnDemandBlockTaskPool.States|return nil, b.interruptCtx.Err()|0";
  "OnDemandBlockTaskPool.States|statsChan := make(chan State)|0";
  "OnDemandBlockTaskPool.States|go func() { ticker := time.NewTicker(interval) defer ticker.Stop() for { select { case timeStamp := <-ticker.C: b.sendState(statsChan, timeStamp.UnixNano()) case <-ctx.Done(): b.sendState(statsChan, time.Now().UnixNano()) close(statsChan) return case <-b.interruptCtx.Done(): b.sendState(statsChan, time.Now().UnixNano()) close(statsChan) return } } }()|0";
  "OnDemandBlockTaskPool.States|ticker := time.NewTicker(interval)|0";
  "OnDemandBlockTaskPool.States|defer ticker.Stop()|0";
  "OnDemandBlockTaskPool.States|for|0";
  "OnDemandBlockTaskPool.States|select|0";
  "OnDemandBlockTaskPool.States|b.sendState(statsChan, timeStamp.UnixNano())|0";
  "OnDemandBlockTaskPool.States|case timeStamp := <-ticker.C:|0";
  "OnDemandBlockTaskPool.States|b.sendState(statsChan, time.Now().UnixNano())|0";
  "OnDemandBlockTaskPool.States|close(statsChan)|0";
  "OnDemandBlockTaskPool.States|return|0";
  "OnDemandBlockTaskPool.States|case <-ctx.Done():|0";
  "OnDemandBlockTaskPool.States|b.sendState(statsChan, time.Now().UnixNano())|1";
  "OnDemandBlockTaskPool.States|close(statsChan)|1";
  "OnDemandBlockTaskPool.States|return|1";
  "OnDemandBlockTaskPool.States|case <-b.interruptCtx.Done():|0";
  "OnDemandBlockTaskPool.States|return statsChan, nil|0";
  "OnDemandBlockTaskPool.sendState|select|0";
  "OnDemandBlockTaskPool.sendState|case ch <- b.getState(timeStamp):|0";
  "OnDemandBlockTaskPool.sendState|default:|0";
  "OnDemandBlockTaskPool.getState|s := State{ PoolState: atomic.LoadInt32(&b.state), GoCnt: b.numOfGo(), QueueSize: cap(b.queue), WaitingTasksCnt: len(b.queue), RunningTasksCnt: atomic.LoadInt32(&b.numGoRunningTasks), Timestamp: timeStamp, }|0";
  "OnDemandBlockTaskPool.getState|return s|0";
]

let labels = List.sort_uniq compare (List.map (fun p -> label_of_pc p 0) all_pcs @ pinned_labels)
let funcs = [ "taskWrapper.Run"; "TaskFunc.Run"; "group.isIn"; "group.add"; "group.delete"; "group.size";
              "OnDemandBlockTaskPool.Submit"; "OnDemandBlockTaskPool.trySubmit";
              "OnDemandBlockTaskPool.allowToCreateGoroutine"; "OnDemandBlockTaskPool.Start";
              "OnDemandBlockTaskPool.numOfGoThatCanBeCreate"; "OnDemandBlockTaskPool.goroutine";
              "OnDemandBlockTaskPool.increaseTotalGo"; "OnDemandBlockTaskPool.decreaseTotalGo";
              "OnDemandBlockTaskPool.Shutdown"; "OnDemandBlockTaskPool.ShutdownNow"; "OnDemandBlockTaskPool.numOfGo";
              (* text-pinned *)
              "OnDemandBlockTaskPool.States"; "OnDemandBlockTaskPool.sendState"; "OnDemandBlockTaskPool.getState";
              "OnDemandBlockTaskPool.internalState"; "WithQueueBacklogRate"; "WithCoreGo"; "WithMaxGo"; "WithMaxIdleTime";
              "NewOnDemandBlockTaskPool" ]

let err_str = function
  | PENone -> "nil" | PEInvalid -> "invalid" | PEClosing -> "closing" | PEStopped -> "stopped"
  | PEStarted -> "started" | PENotRunning -> "notrunning" | PECtx -> "ctx"

let ret_str = function
  | RSubmit e | RStart e -> "ret " ^ err_str e
  | RShutdown PENone -> "ret ok"
  | RShutdown e -> "ret " ^ err_str e
  | RShutdownNow (PENone, ids) -> "ret ok [" ^ String.concat "," (List.map (fun i -> string_of_int (ni i)) ids) ^ "]"
  | RShutdownNow (e, _) -> "ret " ^ err_str e
  | RPanicSend -> "panic send on closed channel"
  | RPanicClose -> "panic close of closed channel"

(* the pinned (pre-fix) source text of the above-core condition, used only when the model runs with i_fixa = false
   against a scratch copy of the repository with that fix reverted *)
let fixa_flag = ref true
let label_of (p : ppc) (k : int) : string =
  match p with
  | WBkIf1 when not !fixa_flag -> "OnDemandBlockTaskPool.goroutine|if b.coreGo < b.totalGo && b.totalGo <= b.maxGo && noTasksToExecute|0"
  | _ -> label_of_pc p k

let obs_str ((t, o) : Conc.tid * pobs) : int * string =
  match o with
  | OAt (p, k) -> (ni t, "at " ^ label_of p (ni k))
  | ORet r -> (ni t, ret_str r)

let state_int = function SCreated -> 1 | SRunning -> 2 | SClosing -> 3 | SStopped -> 4 | SLocked -> 5

(* ------------------------------------------------------------------ driver events *)
type dev =
  | Mod of pev
  | Peek                      (* harness observation: shared fields of the real pool vs the model's *)
  | Settle of int             (* wait until n workers are physically parked in their select *)
  | TimerDur of int           (* harness observation: the duration worker tid's latest time.NewTimer was given *)

let peek_tid = 90 and settle_tid = 91 and timerdur_tid = 92

(* WithMaxIdleTime: params[12] in ns; "0" = option not given (defaultMaxIdleTime = 10 s); absent = one hour *)
let idle_ns = ref "3600000000000"
let lastdur : (int, string) Hashtbl.t = Hashtbl.create 8

let choice_str = function
  | C0 -> "" | CCtx -> " ctx" | CSend None -> " send" | CSend (Some r) -> " send " ^ string_of_int (ni r)
  | CDefault -> " default" | CInt -> " int" | CTimer -> " timer" | CQueue -> " queue"

let line = function
  | Mod (PCall (t, OpSubmit (id, p))) -> Printf.sprintf "CALL %d submit %d %s" (ni t) (ni id) (if p then "panic" else "ok")
  | Mod (PCall (t, OpSubmitNil)) -> Printf.sprintf "CALL %d submitnil" (ni t)
  | Mod (PCall (t, OpStart)) -> Printf.sprintf "CALL %d start" (ni t)
  | Mod (PCall (t, OpShutdown)) -> Printf.sprintf "CALL %d shutdown" (ni t)
  | Mod (PCall (t, OpShutdownNow)) -> Printf.sprintf "CALL %d shutdownnow" (ni t)
  | Mod (PStep (t, ch)) -> Printf.sprintf "STEP %d%s" (ni t) (choice_str ch)
  | Mod (PCancel t) -> Printf.sprintf "CANCEL %d" (ni t)
  | Mod (PFire t) -> Printf.sprintf "FIRE %d" (ni t)
  | Mod (PFinish t) -> Printf.sprintf "STEP %d finish" (ni t)
  | Peek -> Printf.sprintf "CALL %d peek" peek_tid
  | Settle n -> Printf.sprintf "CALL %d settle %d" settle_tid n
  | TimerDur t -> Printf.sprintf "CALL %d timerdur %d" timerdur_tid t

let parse (s : string) : dev =
  let t x = nn (int_of_string x) in
  match words s with
  | ["CALL"; a; "submit"; id; k] -> Mod (PCall (t a, OpSubmit (t id, k = "panic")))
  | ["CALL"; a; "submitnil"] -> Mod (PCall (t a, OpSubmitNil))
  | ["CALL"; a; "start"] -> Mod (PCall (t a, OpStart))
  | ["CALL"; a; "shutdown"] -> Mod (PCall (t a, OpShutdown))
  | ["CALL"; a; "shutdownnow"] -> Mod (PCall (t a, OpShutdownNow))
  | ["CALL"; _; "peek"] -> Peek
  | ["CALL"; _; "settle"; n] -> Settle (int_of_string n)
  | ["CALL"; _; "timerdur"; n] -> TimerDur (int_of_string n)
  | ["STEP"; a] -> Mod (PStep (t a, C0))
  | ["STEP"; a; "ctx"] -> Mod (PStep (t a, CCtx))
  | ["STEP"; a; "send"] -> Mod (PStep (t a, CSend None))
  | ["STEP"; a; "send"; r] -> Mod (PStep (t a, CSend (Some (t r))))
  | ["STEP"; a; "default"] -> Mod (PStep (t a, CDefault))
  | ["STEP"; a; "int"] -> Mod (PStep (t a, CInt))
  | ["STEP"; a; "timer"] -> Mod (PStep (t a, CTimer))
  | ["STEP"; a; "queue"] -> Mod (PStep (t a, CQueue))
  | ["STEP"; a; "finish"] -> Mod (PFinish (t a))
  | ["CANCEL"; a] -> Mod (PCancel (t a))
  | ["FIRE"; a] -> Mod (PFire (t a))
  | _ -> failwith ("parse: " ^ s)

let zlist l = String.concat "," (List.map string_of_int (List.sort compare (List.map zi l)))

(* Shutdown's channel: "-" before Shutdown returned, then closed iff the context is cancelled *)
let shutdown_returned = ref false

let snapshot (c : pcfg) : string =
  let s = c.c_sh in
  Printf.sprintf "st=%d total=%d run=%d qlen=%d gn=%d mp=[%s] idc=%d ictx=%d done=%s"
    (state_int s.s_state) (zi s.s_total) (zi s.s_running) (List.length s.s_q) (zi s.s_gn)
    (zlist s.s_mp) (zi s.s_idc) (if s.s_ictx then 1 else 0)
    (if not !shutdown_returned then "-" else if s.s_ictx then "1" else "0")

let nparked (c : pcfg) = List.length (parked_of c.c_thr)

let apply (c : pcfg) (e : dev) : (pcfg * (int * string) list) option =
  match e with
  | Mod ev ->
    (match pexec1 c ev with
     | Some (c', obs) -> Some (c', List.map obs_str obs)
     | None -> None)
  | Peek -> Some (c, [(peek_tid, "ret " ^ snapshot c)])
  | Settle n -> if n = nparked c then Some (c, [(settle_tid, "ret ok")]) else None
  | TimerDur t -> Some (c, [(timerdur_tid, "ret " ^ (try Hashtbl.find lastdur t with Not_found -> "none"))])

let threads (c : pcfg) = List.map (fun (t, th) -> (ni t, th)) c.c_thr
let thread (c : pcfg) (t : int) = List.assoc_opt t (threads c)

(* every event with the same protocol line as e that the model enables (the run-time's choice) *)
let alternatives (c : pcfg) (e : dev) : dev list =
  match e with
  | Mod (PStep (t, _)) ->
    (match thread c (ni t) with
     | Some th when th.pc = TsSelect || th.pc = WSelect ->
       let chs = [C0; CCtx; CSend None; CDefault; CInt; CTimer; CQueue]
                 @ List.map (fun r -> CSend (Some r)) (parked_of c.c_thr) in
       List.filter (fun e' -> apply c e' <> None) (List.map (fun ch -> Mod (PStep (t, ch))) chs)
     | _ -> [e])
  | _ -> [e]

(* ------------------------------------------------------------------ parameters *)
(* params on the NEW line: init core max cap rn rd (AFTER the constructor's defaulting rule),
   then driver-only: nclients style ntasks *)
let style = ref 0
let nclients = ref 3
let ntasks = ref 6
let focus = ref ""

let effective init core mx cap rn rd =
  match pool_new (z init) (z cap) [OCore (z core); OMax (z mx); ORate (z rn, z rd)] with
  | CtOk (i, c, m, q, a, b) -> Some (zi i, zi c, zi m, zi q, zi a, zi b)
  | CtErr -> None

let gen_params rng =
  let pick l = List.nth l (Random.State.int rng (List.length l)) in
  let mx = pick [1; 2; 2; 3; 3; 3] in
  let core = 1 + Random.State.int rng mx in
  let init = 1 + Random.State.int rng core in
  let cap = pick [0; 1; 2; 2; 3; 3] in
  let (rn, rd) = pick [(0, 1); (1, 2); (1, 2); (1, 1)] in
  let (init, core, mx, cap, rn, rd) =
    match effective init core mx cap rn rd with Some x -> x | None -> (1, 1, 1, cap, 0, 1) in
  let st = Random.State.int rng 6 in
  let ncl = 2 + Random.State.int rng 3 in
  let nt = 3 + Random.State.int rng 6 in
  let idle = pick ["3600000000000"; "1500000000"; "250000"; "7"; "0"] in
  List.map string_of_int [init; core; mx; cap; rn; rd; ncl; st; nt] @ ["1"; "1"; "1"; idle]

let program : pop list ref = ref []      (* client operations still to be issued, in order *)
let next_task = ref 0
let cur = ref (-1)                       (* thread the burst styles keep stepping *)
let delayed : (int, unit) Hashtbl.t = Hashtbl.create 8   (* workers held back before their select *)
let peeked_at_end = ref false
let loops : (int, int) Hashtbl.t = Hashtbl.create 8    (* rounds of Submit's spin loop per client tid *)

let init_with (fixa : bool) (fixb : bool) (fixc : bool) (params : string list) : pcfg =
  let iv = Array.of_list (List.map int_of_string params) in
  let g k d = if k < Array.length iv then iv.(k) else d in
  nclients := g 6 3; style := g 7 0; ntasks := g 8 6;
  idle_ns := (match List.nth_opt params 12 with Some "0" -> "10000000000" | Some d -> d | None -> "3600000000000");
  Hashtbl.reset lastdur;
  shutdown_returned := false; next_task := 0; cur := -1; Hashtbl.reset delayed; Hashtbl.reset loops; peeked_at_end := false;
  pinit { i_init = z (g 0 1); i_core = z (g 1 1); i_max = z (g 2 1); i_cap = z (g 3 0); i_rn = z (g 4 0);
          i_rd = z (g 5 1); i_fixa = fixa; i_fixb = fixb; i_base = nn 100; i_fixc = fixc }

(* optional params 10, 11 and 12 (0/1): the three fix flags - 1 1 1 (default) = the code as it is now *)
let init params =
  let get k = (match List.nth_opt params k with Some "0" -> false | _ -> true) in
  fixa_flag := get 9;
  init_with (get 9) (get 10) (get 11) params

(* the client program of one schedule: submits around a Start, then a shutdown of either kind,
   then calls that must fail; occasionally out-of-order lifecycle calls *)
let gen_program rng =
  let n = !ntasks in
  let before = Random.State.int rng (n + 1) in
  let sub () = let p = Random.State.int rng 6 = 0 in OpSubmit (nn 0, p) in   (* the id is filled in when issued *)
  let pre = List.init before (fun _ -> sub ()) in
  let post = List.init (n - before) (fun _ -> sub ()) in
  let early = (match Random.State.int rng 8 with 0 -> [OpShutdown] | 1 -> [OpShutdownNow] | 2 -> [OpSubmitNil] | _ -> []) in
  let shut = (match Random.State.int rng 5 with 0 | 1 -> [OpShutdown] | 2 -> [OpShutdownNow]
                                                | 3 -> [OpShutdown; OpShutdownNow] | _ -> [OpShutdownNow; OpShutdown]) in
  let extra_start = if Random.State.int rng 3 = 0 then [OpStart] else [] in
  let tail = [sub (); OpStart] in
  (* interleave `post` with an optional second Start, keep order otherwise *)
  let mid = post @ extra_start in
  let arr = Array.of_list mid in
  for i = Array.length arr - 1 downto 1 do
    let j = Random.State.int rng (i + 1) in let x = arr.(i) in arr.(i) <- arr.(j); arr.(j) <- x
  done;
  (* sometimes shut down in the middle of the post-start submits *)
  let mid = Array.to_list arr in
  let k = if mid = [] then 0 else Random.State.int rng (List.length mid + 1) in
  let rec split i l = if i = 0 then ([], l) else match l with [] -> ([], []) | x :: r -> let (a, b) = split (i - 1) r in (x :: a, b) in
  let (m1, m2) = if Random.State.int rng 3 = 0 then split k mid else (mid, []) in
  early @ pre @ [OpStart] @ m1 @ shut @ m2 @ tail

(* ------------------------------------------------------------------ schedule generation *)
let is_worker t = t >= 100
let is_client t = t < peek_tid

let enabled_steps (c : pcfg) : dev list =
  List.concat_map (fun (t, (th : thr)) ->
      let tn = nn t in
      (match th.pc with
       | WParked -> []
       | WUser -> [Mod (PFinish tn)]
       | TsSelect | WSelect -> (match alternatives c (Mod (PStep (tn, C0))) with [] -> [] | a :: _ -> [a])
       | _ -> if apply c (Mod (PStep (tn, C0))) <> None then [Mod (PStep (tn, C0))] else []))
    (threads c)

let armed (c : pcfg) = List.filter_map (fun (t, (th : thr)) -> if th.l_tm = TmArmed then Some t else None) (threads c)

let free_client_tid (c : pcfg) =
  let used = List.map fst (threads c) in
  let rec f t = if t > 20 then None else if List.mem t used then f (t + 1) else Some t in
  f 1

let nclient_threads (c : pcfg) = List.length (List.filter (fun (t, _) -> is_client t) (threads c))

let dev_tid = function
  | Mod (PCall (t, _)) | Mod (PStep (t, _)) | Mod (PCancel t) | Mod (PFire t) | Mod (PFinish t) -> ni t
  | Peek -> peek_tid | Settle _ -> settle_tid | TimerDur _ -> timerdur_tid

let shuffle rng (l : 'a list) : 'a list =
  let a = Array.of_list l in
  for i = Array.length a - 1 downto 1 do
    let j = Random.State.int rng (i + 1) in let x = a.(i) in a.(i) <- a.(j); a.(j) <- x
  done;
  Array.to_list a

(* styles: 0 uniform; 1 bursts (keep stepping one goroutine); 2 bursts + timers fire eagerly while their
   owners are held back before the select; 3 bursts + tasks finish late (blocked tasks, queue backlog);
   4 uniform with eager timers; 5 bursts, submitters race (several clients in flight, frequent switches
   inside trySubmit) *)
let candidates rng (c : pcfg) : dev list =
  let st = !style in
  let steps = enabled_steps c in
  let calls =
    match !program, free_client_tid c with
    | op :: _, Some t when nclient_threads c < !nclients ->
      let op = (match op with OpSubmit (_, p) -> OpSubmit (c.c_ntask, p) | o -> o) in
      [Mod (PCall (nn t, op))]
    | _ -> [] in
  let fires = List.map (fun t -> Mod (PFire (nn t))) (armed c) in
  let cancels =
    List.filter_map (fun (t, (th : thr)) ->
        if is_client t && not th.l_cancel && (match th.pc with
            | SbNil | SbFor | SbChkClosing | SbChkStopped | SbWrap | SbTry1 | SbTry2 | SbIf1 | SbIf2 | TsCas | TsDefer | TsSelect
            | TsRetF0 | TsRetF1 | TsCaseDefault -> true | _ -> false)
        then Some (Mod (PCancel (nn t))) else None) (threads c) in
  let finishes, others = List.partition (function Mod (PFinish _) -> true | _ -> false) steps in
  let r n = Random.State.int rng n in
  (* a submitter that has gone round its loop many times (queue full / state word taken) only spins: step it rarely *)
  let spinning e = (match e with
      | Mod (PStep (t, _)) -> (match thread c (ni t) with Some _ -> is_client (ni t) && (try Hashtbl.find loops (ni t) with Not_found -> 0) > 5 | None -> false)
      | _ -> false) in
  let others_all = others in
  let others = (match List.filter (fun e -> not (spinning e)) others with [] -> others | l -> if r 12 = 0 then others else l) in
  let nothing_left = (steps = [] && calls = [] && fires = []) in
  (* workers held back before their select (style 2): chosen when they reach WSelect with a live timer *)
  if st = 2 then
    List.iter (fun (t, (th : thr)) ->
        if th.pc = WSelect && th.l_tm <> TmDead && not (Hashtbl.mem delayed t) && r 2 = 0 then Hashtbl.replace delayed t ()) (threads c);
  let held e = st = 2 && Hashtbl.mem delayed (dev_tid e) && (match e with Mod (PStep _) -> true | _ -> false)
               && (match thread c (dev_tid e) with Some th -> th.pc = WSelect && th.l_tm = TmArmed | None -> false) in
  let others = List.filter (fun e -> not (held e)) others in
  let burst = (st = 1 || st = 2 || st = 3 || st = 5) in
  let keep_p = if st = 5 then 60 else 88 in
  let cont =
    if burst && !cur >= 0 && r 100 < keep_p then List.filter (fun e -> dev_tid e = !cur) (others @ (if st = 3 then [] else finishes)) else [] in
  let w_call = if calls = [] then 0 else (if nclient_threads c = 0 then 30 else 12) in
  let w_fire = if fires = [] then 0 else (match st with 2 | 4 -> 25 | _ -> 6) in
  let w_fin = if finishes = [] then 0 else (match st with 3 -> 2 | _ -> 10) in
  let w_cancel = if cancels = [] then 0 else 1 in
  let w_peek = 1 in
  let w_step = if others = [] then 0 else 60 in
  let total = w_call + w_fire + w_fin + w_cancel + w_peek + w_step in
  let pickl l = List.nth l (r (List.length l)) in
  let primary =
    if cont <> [] then [pickl cont]
    else if total = 0 then []
    else begin
      let x = r total in
      if x < w_call then calls
      else if x < w_call + w_fire then [pickl fires]
      else if x < w_call + w_fire + w_fin then [pickl finishes]
      else if x < w_call + w_fire + w_fin + w_cancel then [pickl cancels]
      else if x < w_call + w_fire + w_fin + w_cancel + w_peek then [Peek]
      else [pickl others]
    end in
  if nothing_left then (if !peeked_at_end then [] else (peeked_at_end := true; [Peek]))
  else primary @ shuffle rng (others_all @ finishes @ fires @ calls)

let note_chosen (e : dev) =
  (match e with
   | Mod (PCall (_, _)) -> (match !program with _ :: r -> program := r | [] -> ())
   | _ -> ());
  (match e with
   | Mod (PStep (t, _)) | Mod (PCall (t, _)) | Mod (PFinish t) -> cur := ni t
   | _ -> ())

(* ------------------------------------------------------------------ coverage tags *)
let tags (c : pcfg) (e : dev) (c' : pcfg) : string list =
  let th_of t = thread c (ni t) in
  let pcs c = List.map (fun (_, (th : thr)) -> th.pc) (threads c) in
  let holders c = List.filter (fun p -> match p with
      | TsDefer | TsSelect | TsCaseCtx | TsRetCtx | TsCaseSend | TsIfCreate | TsInc | TsId | TsGo | TsRetT | TsCaseDefault
      | TsRetF0 | AlRLock | AlDefer | AlRate | AlRet | SiLock | SiAdd | SiUnlock -> true | _ -> false) (pcs c) in
  let base =
    match e with
    | Mod (PStep (t, ch)) ->
      (match th_of t with
       | None -> []
       | Some th ->
         (match th.pc, ch with
          | WTmRet, _ -> ["worker-exits-by-idle-timer"]
          | WBkRet, _ -> ["above-core-exit"]
          | WClRet, _ -> ["worker-exits-by-closed-queue"]
          | WIntRet, _ -> ["worker-exits-by-interrupt"]
          | WTmCancel, _ -> ["last-worker-transition-via-timer"]
          | WClCancel, _ -> ["last-worker-transition-via-closed-queue"]
          | WTmCas, _ -> (match c.c_sh.s_state with SClosing -> [] | SStopped -> ["timer-exit-last-worker-after-shutdownnow"]
                                                   | _ -> ["timer-exit-empties-a-running-pool"])
          | TsGo, _ -> ["submit-creates-worker"]
          | StGo, _ -> ["start-spawns-worker"]
          | TsCas, _ ->
            if c.c_sh.s_state = SLocked then ["two-submitters-race-for-locked"]
            else if c'.c_sh.s_state = SLocked then ["submit-takes-lock"] else ["submit-cas-fails"]
          | StCas, _ -> if c.c_sh.s_state = SLocked then ["start-races-for-locked"] else []
          | ShCas, _ -> if c.c_sh.s_state = SLocked then ["shutdown-races-for-locked"] else if c.c_sh.s_state = SRunning then ["shutdown-succeeds"] else []
          | SnCas, _ -> if c.c_sh.s_state = SLocked then ["shutdownnow-races-for-locked"] else if c.c_sh.s_state = SRunning then ["shutdownnow-succeeds"] else []
          | SnAppend, _ -> ["shutdownnow-drains"]
          | SnRet, _ -> if th.l_acc <> [] then ["shutdownnow-returns-tasks"] else ["shutdownnow-returns-nothing"]
          | RwBuf, _ -> ["task-panics"]
          | RwRecIf, _ -> if ni th.l_lvl >= 2 then ["nested-wrapper-unwinds"] else []
          | TsSelect, CCtx -> ["submit-select-ctx"] @ (if send_ready c.c_par (parked_of c.c_thr) c.c_sh then ["submit-select-ctx-and-send-ready"] else [])
          | TsSelect, CSend (Some _) -> ["submit-handoff-to-parked-worker"] @ (if th.l_cancel then ["submit-select-ctx-and-send-ready"] else [])
          | TsSelect, CSend None -> ["submit-buffers"] @ (if th.l_cancel then ["submit-select-ctx-and-send-ready"] else [])
          | TsSelect, CDefault -> ["submit-queue-full-default"]
          | WSelect, C0 -> ["worker-parks"]
          | WSelect, ch ->
            let nready = List.length (alternatives c e) in
            (match ch with CInt -> ["worker-select-interrupt"] | CTimer -> ["worker-select-timer"]
                         | _ -> if c.c_sh.s_q = [] then ["worker-select-closed-queue"] else ["worker-select-task"])
            @ (if nready >= 2 then ["worker-select-several-ready"] else [])
          | WStop0, _ -> if th.l_tm = TmFired then ["initial-timer-already-fired"] else []
          | WStop1, _ -> if th.l_tm = TmFired then ["timer-fired-but-task-taken"] else ["timer-stopped-task-taken"]
          | WBkNewTimer, _ -> ["idle-timer-assigned"]
          | Z1Ret, _ -> if (thread c' (ni t) |> function Some th' -> th'.pc = WBkIf2 | None -> false) then ["above-core-exit-refused-by-initgo-guard"] else []
          | ShClose, _ | SnClose, _ -> if nparked c > 0 then ["close-wakes-parked-workers"] else []
          | AlRet, _ -> if (thread c' (ni t) |> function Some th' -> th'.pc = TsInc | None -> false) then [] else
              if zi c.c_sh.s_total >= zi c.c_par.i_max then ["creation-refused-at-maxgo"] else ["creation-refused-by-rate"]
          | SbIf2, _ -> if not th.l_ok && th.l_err = PENone then begin
              Hashtbl.replace loops (ni t) (1 + (try Hashtbl.find loops (ni t) with Not_found -> 0));
              ["submit-loops-again"] end else []
          | _ -> []))
    | Mod (PFire t) ->
      (match th_of t with
       | Some th when th.pc = WParked -> ["timer-fires-on-parked-worker"]
       | Some th when th.pc = WSelect -> ["timer-fires-before-select"]
       | _ -> ["timer-fires-elsewhere"])
    | Mod (PCancel _) -> ["submit-cancelled"]
    | Mod (PFinish _) -> ["task-finishes"]
    | Peek -> ["peek"]
    | Settle _ -> ["settle"]
    | TimerDur _ -> ["timer-duration-observed"]
    | Mod (PCall (t, _)) -> Hashtbl.remove loops (ni t); [] in
  base
  @ (if List.length (holders c) >= 1 && (match e with Mod (PStep (t, _)) -> (match th_of t with Some th -> (match th.pc with TsCas | StCas | ShCas | SnCas | SbChkClosing | SbChkStopped -> true | _ -> false) | None -> false) | _ -> false)
     then ["step-of-another-caller-while-state-is-locked"] else [])
  @ (if c.c_sh.s_state = SClosing && zi c'.c_sh.s_total = 0 && zi c.c_sh.s_total = 1 then ["last-worker-leaves-closing-pool"] else [])
  @ (if zi c'.c_sh.s_total = zi c'.c_par.i_max && zi c.c_sh.s_total < zi c.c_par.i_max && zi c.c_par.i_max > zi c.c_par.i_init then ["totalgo-reaches-maxgo"] else [])

let nontrivial = [ "worker-exits-by-idle-timer"; "above-core-exit"; "last-worker-transition-via-timer";
                   "submit-creates-worker"; "two-submitters-race-for-locked"; "shutdownnow-drains"; "task-panics";
                   "worker-select-several-ready"; "submit-handoff-to-parked-worker"; "timer-fired-but-task-taken";
                   "above-core-exit-refused-by-initgo-guard"; "last-worker-transition-via-closed-queue";
                   "step-of-another-caller-while-state-is-locked"; "idle-timer-assigned" ]

(* model-side sanity at the end of a schedule (tests of the invariants the proofs establish; not the proof) *)
let final_check (c : pcfg) : string option =
  let s = c.c_sh and g = c.c_gh in
  let rec dup = function [] -> false | x :: r -> List.mem x r || dup r in
  if zi s.s_total > zi c.c_par.i_max then Some "model: totalGo > maxGo"
  else if zi s.s_running > zi s.s_total then Some "model: numGoRunningTasks > totalGo"
  else if dup (List.map ni g.g_started) then Some "model: a task started twice"
  else if List.exists (fun i -> List.mem i g.g_returned) g.g_started then Some "model: a task both ran and was returned"
  else None

(* ------------------------------------------------------------------ the lock-step loop *)
(* Same protocol and report format as Lockstep.Make; the differences: (1) where the run-time chooses
   (a `select` with several ready cases, which parked worker a hand-off wakes) every enabled
   alternative is acceptable and the one the real goroutines took is adopted (resolved from the
   arrival labels); (2) before a submitter executes its select while the model has parked workers,
   the controller waits until exactly that many workers of the real pool are blocked in their
   select (hand-off on an unbuffered channel needs the receiver to be physically parked - and the
   count is itself an observation that is compared). *)
let tagtbl : (string, int) Hashtbl.t = Hashtbl.create 64
let bump t = Hashtbl.replace tagtbl t (1 + (try Hashtbl.find tagtbl t with Not_found -> 0))
let hit_nontrivial = ref false

let pending_dur : int option ref = ref None
let norm = Lockstep.norm
let show l = String.concat " ; " (List.map (fun (t, s) -> Printf.sprintf "%d %s" t s) l)

let run_schedule buf name params (cfg0 : pcfg) ~(strict : bool) (next : pcfg -> int -> dev list) : bool * int * string list =
  hit_nontrivial := false;
  Lockstep.send ("NEW " ^ name ^ " " ^ String.concat " " params);
  ignore (Lockstep.read_reply ());
  let cfg = ref cfg0 and k = ref 0 and ok = ref true and lines = ref [] in
  let mismatch l exp obs errs =
    Buffer.add_string buf
      (Printf.sprintf "MISMATCH object=%s event=%d\n  params: %s\n  events:\n%s\n  expected: %s\n  observed: %s %s\n"
         name !k (String.concat " " params)
         (String.concat "\n" (List.map (fun s -> "    " ^ s) (List.rev (l :: !lines))))
         exp (show obs) (String.concat " | " errs));
    ok := false in
  (* sends one event, resolves the run-time's choice, updates cfg; false = stop *)
  let exec_one (e : dev) : bool =
    let alts = if strict then [e] else (match alternatives !cfg e with [] -> [e] | l -> if List.mem e l then e :: List.filter (fun x -> x <> e) l else l) in
    match apply !cfg e with
    | None ->
      Buffer.add_string buf (Printf.sprintf "MODEL-DISABLED event=%d line=%s\n  params: %s\n  events:\n%s\n" !k (line e)
                               (String.concat " " params) (String.concat "\n" (List.map (fun s -> "    " ^ s) (List.rev !lines))));
      ok := false; false
    | Some (_, exp0) ->
      Lockstep.send (Printf.sprintf "%s #%d" (line e) (List.length exp0));
      let (obs, errs) = Lockstep.read_reply () in
      let o = norm obs in
      let rec find = function
        | [] -> None
        | a :: r ->
          (match apply !cfg a with
           | Some (c', exp) when norm exp = o -> Some (a, c')
           | _ -> find r) in
      (match (if errs <> [] then None else find alts) with
       | None ->
         mismatch (line e)
           (String.concat "  |OR|  " (List.map (fun a -> match apply !cfg a with Some (_, x) -> show (norm x) | None -> "-") alts))
           o errs;
         false
       | Some (a, c') ->
         lines := line a :: !lines;
         let tg = tags !cfg a c' in
         List.iter bump tg;
         if a <> e then bump "choice-resolved-from-observation";
         if List.exists (fun t -> List.mem t nontrivial) tg then hit_nontrivial := true;
         (match a with
          | Mod (PStep (t, _)) ->
            (match thread !cfg (ni t) with
             | Some th when th.pc = ShRet -> shutdown_returned := true
             | Some th when th.pc = WNewTimer -> Hashtbl.replace lastdur (ni t) "0"; pending_dur := Some (ni t)
             | Some th when th.pc = WBkNewTimer -> Hashtbl.replace lastdur (ni t) !idle_ns; pending_dur := Some (ni t)
             | _ -> ())
          | _ -> ());
         cfg := c'; incr k; true)
  in
  let continue = ref true in
  while !continue do
    (* the first candidate that is enabled and whose alternatives all expect the same number of observations *)
    let skipped = ref false in
    let rec first = function
      | [] -> None
      | e :: r ->
        (match apply !cfg e with
         | None -> first r
         | Some (_, exp) ->
           if strict then Some e
           else
             let n = List.length exp in
             if List.for_all (fun a -> match apply !cfg a with Some (_, x) -> List.length x = n | None -> true) (alternatives !cfg e)
             then Some e else (if not !skipped then (skipped := true; bump "skipped-coin-with-different-wake-counts"); first r)) in
    match (if strict then (match next !cfg !k with [] -> None | e :: _ -> Some e) else first (next !cfg !k)) with
    | None -> continue := false
    | Some e ->
      (* physical parking before a submitter's select *)
      let need_settle =
        (match e with
         | Mod (PStep (t, _)) ->
           (match thread !cfg (ni t) with Some th -> th.pc = TsSelect && nparked !cfg > 0 | None -> false)
         | _ -> false) in
      if need_settle && not strict then begin
        if not (exec_one (Settle (nparked !cfg))) then continue := false
      end;
      if !continue then begin
        note_chosen e;
        pending_dur := None;
        if not (exec_one e) then continue := false
        else if not strict then
          (match !pending_dur with
           | Some t -> pending_dur := None; if not (exec_one (TimerDur t)) then continue := false
           | None -> ())
      end
  done;
  if !ok then (match final_check !cfg with
      | Some msg ->
        Buffer.add_string buf (Printf.sprintf "MODEL-CHECK-FAILED %s\n  params: %s\n  events:\n%s\n" msg
                                 (String.concat " " params)
                                 (String.concat "\n" (List.map (fun s -> "    " ^ s) (List.rev !lines))));
        ok := false
      | None -> ());
  (!ok, !k, List.rev !lines)

let main (args : string list) =
  let buf = Buffer.create 4096 in
  let finish =
    match List.rev args with
    | r :: _ -> (fun () -> let oc = open_out r in Buffer.output_buffer oc buf; close_out oc)
    | [] -> (fun () -> prerr_string (Buffer.contents buf)) in
  (match args with
   | "run" :: seed :: nsched :: maxev :: rest ->
     (* optional focus (c10 | c11 | c12) before the report path *)
     (match rest with f :: _ :: _ -> focus := f | _ -> ());
     let seed = int_of_string seed and nsched = int_of_string nsched and maxev = int_of_string maxev in
     let total = ref 0 and bad = ref 0 and distinct = Hashtbl.create 1024 and nontriv = Hashtbl.create 1024 in
     for i = 0 to nsched - 1 do
       let rng = Random.State.make [| seed; i; 104729 |] in
       let params = gen_params rng in
       let params =
         (* focus: c11 -> racing submitters / lifecycle; c12 -> eager timers around Shutdown; c10 -> everything *)
         (match !focus, params with
          | "c11", (a :: b :: c :: d :: e :: f :: g :: _ :: rest) when i mod 2 = 0 ->
            a :: b :: c :: d :: e :: f :: string_of_int (max 3 (int_of_string g)) :: "5" :: rest
          | "c12", (a :: b :: c :: d :: e :: f :: g :: _ :: rest) when i mod 2 = 0 ->
            a :: b :: c :: d :: e :: f :: g :: (if i mod 4 = 0 then "2" else "4") :: rest
          | _ -> params) in
       let cfg0 = init params in
       program := gen_program rng;
       let next cfg k = if k >= maxev then [] else candidates rng cfg in
       let (ok, n, lines) = run_schedule buf "pool" params cfg0 ~strict:false next in
       total := !total + n;
       if not ok then incr bad;
       let hsh = Digest.string (String.concat "\n" (params @ lines)) in
       Hashtbl.replace distinct hsh ();
       if !hit_nontrivial && ok then Hashtbl.replace nontriv hsh ();
       if i < 2 then
         Buffer.add_string buf (Printf.sprintf "SAMPLE params=[%s] %s\n" (String.concat " " params) (String.concat " / " lines))
     done;
     Buffer.add_string buf (Printf.sprintf "STATS schedules=%d events=%d mismatches=%d distinct=%d nontrivial=%d\n" nsched !total !bad (Hashtbl.length distinct) (Hashtbl.length nontriv));
     Hashtbl.iter (fun t n -> Buffer.add_string buf (Printf.sprintf "TAG %s %d\n" t n)) tagtbl
   | "replay" :: file :: _ ->
     (* file: first line "PARAMS p1 p2 ...", then one event line per line ('#' comments allowed) *)
     let ic = open_in file in
     let rec rd acc = match input_line ic with l -> rd (l :: acc) | exception End_of_file -> List.rev acc in
     let ls = List.filter (fun l -> let l = String.trim l in l <> "" && l.[0] <> '#') (rd []) in
     close_in ic;
     (match ls with
      | p :: evs ->
        let params = List.tl (words p) in
        let cfg0 = init params in
        let arr = Array.of_list (List.map parse evs) in
        let next _ k = if k < Array.length arr then [arr.(k)] else [] in
        let (ok, n, _) = run_schedule buf "pool" params cfg0 ~strict:true next in
        Buffer.add_string buf (Printf.sprintf "STATS schedules=1 events=%d mismatches=%d distinct=1 nontrivial=%d\n" n (if ok then 0 else 1) (if !hit_nontrivial then 1 else 0));
        if n < Array.length arr && ok then Buffer.add_string buf "REPLAY-INCOMPLETE\n";
        Hashtbl.iter (fun t n -> Buffer.add_string buf (Printf.sprintf "TAG %s %d\n" t n)) tagtbl
      | [] -> Buffer.add_string buf "REPLAY empty\n")
   | "labels" :: _ ->
     List.iter (fun l -> Buffer.add_string buf ("LABEL " ^ l ^ "\n")) labels;
     List.iter (fun l -> Buffer.add_string buf ("FUNC " ^ l ^ "\n")) funcs
   | _ -> prerr_endline "usage: pool-lockstep run <seed> <nschedules> <maxevents> [focus] <report> | replay <file> <report> | labels <report>");
  Lockstep.send "QUIT";
  finish ()

let () = Registry.register "pool-lockstep" main

(* sequential constructor differential (C11 constructor_rejects): one case per stdin line
   "<initGo> <queueSize> [core:n] [max:n] [rate:a/b] ..." -> "err" | "ok init=.. core=.. max=.. cap=.. rate=a/b" *)
(* `pool-ctor` = the constructor as it is now (initGo > math.MaxInt32 rejected: PoolCtorNow.pool_new_now);
   `pool-ctor trunc` = the pinned constructor that truncated initGo to int32 (pool_new_trunc) *)
let ctor_main (args : string list) =
  let ctor = (match args with "trunc" :: _ -> pool_new_trunc | _ -> pool_new_now) in
  iter_lines (fun l ->
      match words l with
      | ig :: qs :: opts ->
        let os = List.filter_map (fun o ->
            match String.split_on_char ':' o with
            | ["core"; n] -> Some (OCore (z_of_string n))
            | ["max"; n] -> Some (OMax (z_of_string n))
            | ["rate"; r] -> (match String.split_on_char '/' r with [a; b] -> Some (ORate (z_of_string a, z_of_string b)) | _ -> None)
            | _ -> None) opts in
        (match ctor (z_of_string ig) (z_of_string qs) os with
         | CtErr -> print_endline "err"
         | CtOk (i, c, m, q, a, b) ->
           Printf.printf "ok init=%s core=%s max=%s cap=%s rate=%s/%s\n" (z_to_string i) (z_to_string c) (z_to_string m)
             (z_to_string q) (z_to_string a) (z_to_string b))
      | _ -> print_endline "bad")

let () = Registry.register "pool-ctor" ctor_main
